(* C03, upper layers: parameter registry text, input text, key text, and the hash chain over the DAG. *)
From Coq Require Import String Ascii List Bool Arith ZArith Lia.
From TC Require Import PyStr Value Repr Param Key StrProofs SortProofs ReprProofs KeyProofs ReadProofs.
Import ListNotations.

(* ---------- generic: a run of characters of one class ends where the class ends ---------- *)
Section ClassPrefix.
  Variable cls : ascii -> bool.
  Definition stops (r : str) : Prop := match r with [] => True | c :: _ => cls c = false end.
  Lemma cls_prefix_eq (a b r1 r2 : str) :
    Forall (fun c => cls c = true) a -> Forall (fun c => cls c = true) b ->
    stops r1 -> stops r2 -> a ++ r1 = b ++ r2 -> a = b /\ r1 = r2.
  Proof.
    revert b. induction a as [|x a IH]; intros b Ha Hb F1 F2 E.
    - destruct b as [|y b]; [auto|]. simpl in E. subst r1. inversion Hb; subst. simpl in F1. congruence.
    - destruct b as [|y b].
      + simpl in E. subst r2. inversion Ha; subst. simpl in F2. congruence.
      + simpl in E. injection E as -> E. inversion Ha; inversion Hb; subst.
        destruct (IH b) as [-> ->]; auto.
  Qed.
End ClassPrefix.

(* parameter names are Python identifiers; input names add ':' ; keys are hex digits *)
Definition identc (c : ascii) : bool :=
  let n := nat_of_ascii c in
  ((48 <=? n) && (n <=? 57)) || ((65 <=? n) && (n <=? 90)) || ((97 <=? n) && (n <=? 122)) || (n =? 95).
Definition inamec (c : ascii) : bool := identc c || (nat_of_ascii c =? 58).
Definition ident (s : str) : Prop := Forall (fun c => identc c = true) s.
Definition iname (s : str) : Prop := Forall (fun c => inamec c = true) s.

(* ---------- "###"-separated sequences of name=value items ---------- *)
(* Term: what may follow the whole sequence - the end of the text or the "$$$" separator *)
Definition Term (r : str) : Prop := r = [] \/ exists t, r = "$"%char :: t.
Definition SepOrTerm (r : str) : Prop := Term r \/ exists t, r = lit "###" ++ t.

Section Items.
  Context {A : Type} (p : A -> str).
  Variable Good : A -> Prop.
  Hypothesis item_unique : forall x y s1 s2, Good x -> Good y -> SepOrTerm s1 -> SepOrTerm s2 ->
                                             p x ++ s1 = p y ++ s2 -> x = y /\ s1 = s2.

  Lemma hash_not_term t : ~ Term (lit "###" ++ t).
  Proof. intros [E|[u E]]; discriminate E. Qed.

  Lemma items_unique l1 : forall l2 r1 r2, l1 <> [] -> l2 <> [] -> Forall Good l1 -> Forall Good l2 ->
    Term r1 -> Term r2 ->
    join (lit "###") (map p l1) ++ r1 = join (lit "###") (map p l2) ++ r2 -> l1 = l2 /\ r1 = r2.
  Proof.
    induction l1 as [|x l1 IH]; intros l2 r1 r2 N1 N2 G1 G2 T1 T2 E; [congruence|].
    destruct l2 as [|y l2]; [congruence|].
    inversion G1 as [|? ? Gx G1']; inversion G2 as [|? ? Gy G2']; subst.
    destruct l1 as [|x' l1]; destruct l2 as [|y' l2]; cbn [map join] in E.
    - destruct (item_unique x y r1 r2) as [-> ->]; auto; now left.
    - rewrite <- !app_assoc in E.
      match type of E with _ ++ ?s1 = _ ++ ?s2 => destruct (item_unique x y s1 s2 Gx Gy) as [_ E'] end;
        [now left|right; eexists; reflexivity|exact E|].
      subst r1. exfalso. eapply hash_not_term; exact T1.
    - rewrite <- !app_assoc in E.
      match type of E with _ ++ ?s1 = _ ++ ?s2 => destruct (item_unique x y s1 s2 Gx Gy) as [_ E'] end;
        [right; eexists; reflexivity|now left|exact E|].
      subst r2. exfalso. eapply hash_not_term; exact T2.
    - rewrite <- !app_assoc in E.
      match type of E with _ ++ ?s1 = _ ++ ?s2 => destruct (item_unique x y s1 s2 Gx Gy) as [-> E'] end;
        [right; eexists; reflexivity|right; eexists; reflexivity|exact E|].
      apply app_inv_head in E'.
      destruct (IH (y' :: l2) r1 r2) as [-> ->]; auto; discriminate.
  Qed.
End Items.

Lemma follow_SepOrTerm s : SepOrTerm s -> follow_ok s.
Proof. intros [[->|[t ->]]|[t ->]]; simpl; auto. Qed.

(* ---------- the parameter registry ---------- *)
Definition pitem (nw : str * value) : str := fst nw ++ lit "=" ++ pr (snd nw).
Definition pgood (nw : str * value) : Prop := ident (fst nw) /\ jsonlike (snd nw) = true.

Lemma pitem_unique x y s1 s2 : pgood x -> pgood y -> SepOrTerm s1 -> SepOrTerm s2 ->
  pitem x ++ s1 = pitem y ++ s2 -> x = y /\ s1 = s2.
Proof.
  destruct x as [n1 w1], y as [n2 w2]. unfold pitem, pgood. simpl. intros [I1 J1] [I2 J2] S1 S2 E.
  rewrite <- !app_assoc in E. cbn [app lit list_ascii_of_string] in E.
  match type of E with _ ++ ?a = _ ++ ?b =>
    destruct (cls_prefix_eq identc n1 n2 a b I1 I2) as [-> E']; [reflexivity|reflexivity|exact E|] end.
  injection E' as E'.
  destruct (pr_unique_readable w1 w2 s1 s2) as [-> ->]; auto using follow_SepOrTerm.
Qed.

(* what of a parameter enters the key: its name and its value, when it is persisted *)
Definition persisted (ps : list (pdecl * (value * bool))) : list (str * value) :=
  flat_map (fun pv => match param_repr (fst pv) (snd pv) with
                      | Some _ => [(pd_name (fst pv), norm (fst (snd pv)))]
                      | None => [] end) (isort pv_leb ps).

(* the fragment the theorem speaks about: identifiers as names, JSON-like values, no Path parameters *)
Definition pok (pv : pdecl * (value * bool)) : Prop :=
  ident (pd_name (fst pv)) /\ jsonlike (fst (snd pv)) = true /\ pd_dtype (fst pv) <> DPath.

Lemma value_repr_json p v : jsonlike v = true -> pd_dtype p <> DPath -> value_repr p v = repr_inst v.
Proof.
  intros J D. destruct v; try discriminate J; try reflexivity.
  simpl. destruct (pd_dtype p); try reflexivity. congruence.
Qed.

Lemma somes_items l : Forall pok l ->
  somes (map (fun pv => param_repr (fst pv) (snd pv)) l) =
  map pitem (flat_map (fun pv => match param_repr (fst pv) (snd pv) with
                                 | Some _ => [(pd_name (fst pv), norm (fst (snd pv)))]
                                 | None => [] end) l).
Proof.
  induction 1 as [|[p [v fd]] l [I [J D]] _ IH]; [reflexivity|]. cbn [fst snd] in I, J, D.
  cbn [flat_map map fst snd].
  destruct (param_repr p (v, fd)) as [t|] eqn:Ep; cbn [somes app map]; [|exact IH].
  rewrite IH. f_equal. unfold param_repr in Ep.
  destruct (pd_ignore p); [discriminate|].
  match type of Ep with (if ?c then _ else _) = _ => destruct c end; [discriminate|].
  injection Ep as <-. unfold pitem. simpl. now rewrite value_repr_json, repr_inst_pr.
Qed.

Lemma persisted_good ps : Forall pok ps -> Forall pgood (persisted ps).
Proof.
  intros Hok. unfold persisted.
  assert (Hs : Forall pok (isort pv_leb ps)).
  { rewrite Forall_forall in *. intros x Hx. apply Hok.
    eapply Permutation.Permutation_in; [apply (isort_perm pv_leb)|exact Hx]. }
  induction Hs as [|[p [v fd]] l [I [J D]] _ IH]; [constructor|]. cbn [fst snd] in I, J, D.
  cbn [flat_map fst snd].
  destruct (param_repr p (v, fd)); cbn [app]; [|exact IH].
  constructor; [|exact IH]. split; [exact I|]. simpl. now apply jsonlike_norm.
Qed.

Lemma registry_text_items ps : Forall pok ps ->
  registry_text ps = match persisted ps with [] => lit "None" | l => join (lit "###") (map pitem l) end.
Proof.
  intros Hok. unfold registry_text, registry_repr, persisted.
  rewrite somes_items.
  - destruct (flat_map _ _); reflexivity.
  - rewrite Forall_forall in *. intros x Hx. apply Hok.
    eapply Permutation.Permutation_in; [apply (isort_perm pv_leb)|exact Hx].
Qed.

Theorem registry_text_injective ps1 ps2 r1 r2 :
  Forall pok ps1 -> Forall pok ps2 -> Term r1 -> Term r2 ->
  registry_text ps1 ++ r1 = registry_text ps2 ++ r2 -> persisted ps1 = persisted ps2 /\ r1 = r2.
Proof.
  intros O1 O2 T1 T2 E. rewrite !registry_text_items in E by assumption.
  pose proof (persisted_good _ O1) as G1. pose proof (persisted_good _ O2) as G2.
  assert (NoneClash : forall x l r r', pgood x -> Term r ->
            lit "None" ++ r <> join (lit "###") (map pitem (x :: l)) ++ r').
  { intros [n w] l r r' [I _] T C. simpl in I.
    assert (C' : exists rest, lit "None" ++ r = n ++ "="%char :: rest).
    { destruct l; cbn [map join] in C; unfold pitem in C; simpl fst in C; simpl snd in C;
        rewrite <- ?app_assoc in C; eexists; exact C. }
    destruct C' as [rest C'].
    destruct (cls_prefix_eq identc (lit "None") n r ("="%char :: rest)) as [_ Er]; auto.
    - unfold lit; simpl. repeat constructor.
    - destruct T as [->|[t ->]]; reflexivity.
    - reflexivity.
    - subst r. destruct T as [T|[t T]]; discriminate T. }
  destruct (persisted ps1) as [|x l1] eqn:E1; destruct (persisted ps2) as [|y l2] eqn:E2.
  - apply app_inv_head in E. auto.
  - exfalso. inversion G2 as [|? ? Gy _]; subst. exact (NoneClash y l2 r1 r2 Gy T1 E).
  - exfalso. inversion G1 as [|? ? Gx _]; subst. symmetry in E. exact (NoneClash x l1 r2 r1 Gx T2 E).
  - destruct (items_unique pitem pgood pitem_unique (x :: l1) (y :: l2) r1 r2) as [E' ->]; auto; discriminate.
Qed.

(* ---------- the input part ---------- *)
Definition iitem (nk : str * str) : str := fst nk ++ lit "=" ++ snd nk.
Definition igood (nk : str * str) : Prop := iname (fst nk) /\ ident (snd nk).

Lemma iitem_unique x y s1 s2 : igood x -> igood y -> SepOrTerm s1 -> SepOrTerm s2 ->
  iitem x ++ s1 = iitem y ++ s2 -> x = y /\ s1 = s2.
Proof.
  destruct x as [n1 k1], y as [n2 k2]. unfold iitem, igood. simpl. intros [I1 J1] [I2 J2] S1 S2 E.
  rewrite <- !app_assoc in E. cbn [app lit list_ascii_of_string] in E.
  match type of E with _ ++ ?a = _ ++ ?b =>
    destruct (cls_prefix_eq inamec n1 n2 a b I1 I2) as [-> E']; [reflexivity|reflexivity|exact E|] end.
  injection E' as E'.
  assert (St : forall s, SepOrTerm s -> stops identc s).
  { intros s [[->|[t ->]]|[t ->]]; reflexivity. }
  destruct (cls_prefix_eq identc k1 k2 s1 s2) as [-> ->]; auto.
Qed.

Definition fst_leb {A} (a b : str * A) : bool := str_leb (fst a) (fst b).
Definition strip1 {A} (ns : option str) (nk : str * A) : res (str * A) :=
  match strip_namespace ns (fst nk) with inl n => inl (n, snd nk) | inr e => inr e end.
(* the (stripped name, payload) pairs in the order in which they are written; the payload is the key in
   the text itself *)
Definition stripped {A} (ns : option str) (inputs : list (str * A)) : res (list (str * A)) :=
  sequence (map (strip1 ns) (isort fst_leb inputs)).

Lemma sequence_map_bind {A B C} (g : A -> res B) (h : B -> C) l :
  sequence (map (fun x => match g x with inl y => inl (h y) | inr e => inr e end) l) =
  match sequence (map g l) with inl ys => inl (map h ys) | inr e => inr e end.
Proof.
  induction l as [|x l IH]; [reflexivity|]. cbn [map sequence].
  destruct (g x) as [y|e]; [|reflexivity]. rewrite IH. destruct (sequence (map g l)); reflexivity.
Qed.

Lemma inputs_text_stripped ns ins :
  inputs_text ns ins = match stripped ns ins with
                       | inl l => inl (join (lit "###") (map iitem l))
                       | inr e => inr e end.
Proof.
  unfold inputs_text, stripped. change (@fst_leb str) with in_leb.
  match goal with |- context [map ?f (isort in_leb ins)] =>
    assert (E : map f (isort in_leb ins) =
                map (fun x => match strip1 ns x with inl y => inl (iitem y) | inr e => inr e end) (isort in_leb ins)) end.
  { apply map_ext. intros [n k]. unfold strip1, iitem. simpl. destruct (strip_namespace ns n); reflexivity. }
  rewrite E, sequence_map_bind. destruct (sequence (map (strip1 ns) (isort in_leb ins))); reflexivity.
Qed.

Lemma iitem_nonempty x l : join (lit "###") (map iitem (x :: l)) <> [].
Proof.
  destruct x as [n k]. destruct l; cbn [map join]; unfold iitem; simpl fst; simpl snd;
    destruct n; simpl; discriminate.
Qed.

Theorem inputs_text_injective l1 l2 :
  Forall igood l1 -> Forall igood l2 ->
  join (lit "###") (map iitem l1) = join (lit "###") (map iitem l2) -> l1 = l2.
Proof.
  intros G1 G2 E. destruct l1 as [|x l1], l2 as [|y l2]; [reflexivity| | |].
  - exfalso. symmetry in E. eapply iitem_nonempty; exact E.
  - exfalso. eapply iitem_nonempty; exact E.
  - destruct (items_unique iitem igood iitem_unique (x :: l1) (y :: l2) [] []) as [E' _]; auto;
      try discriminate; try (now left). now rewrite !app_nil_r.
Qed.

(* ---------- the key text ---------- *)
Theorem key_text_injective ns1 ps1 in1 ns2 ps2 in2 t l1 l2 :
  Forall pok ps1 -> Forall pok ps2 ->
  stripped ns1 in1 = inl l1 -> stripped ns2 in2 = inl l2 -> Forall igood l1 -> Forall igood l2 ->
  key_text ns1 ps1 in1 = inl t -> key_text ns2 ps2 in2 = inl t ->
  persisted ps1 = persisted ps2 /\ l1 = l2.
Proof.
  intros O1 O2 S1 S2 G1 G2 K1 K2. unfold key_text in K1, K2.
  rewrite inputs_text_stripped, S1 in K1. rewrite inputs_text_stripped, S2 in K2.
  injection K1 as K1. injection K2 as K2. rewrite <- K2 in K1.
  match type of K1 with _ ++ ?a = _ ++ ?b =>
    destruct (registry_text_injective ps1 ps2 a b O1 O2) as [Ep Er] end.
  - right. eexists. reflexivity.
  - right. eexists. reflexivity.
  - exact K1.
  - split; [exact Ep|]. injection Er as Er. now apply inputs_text_injective.
Qed.

(* the payload does not influence stripping and ordering *)
Definition on_snd {A B} (f : A -> B) (x : str * A) : str * B := (fst x, f (snd x)).

Lemma stripped_map {A B} (f : A -> B) ns (l : list (str * A)) :
  stripped ns (map (on_snd f) l) =
  match stripped ns l with inl r => inl (map (on_snd f) r) | inr e => inr e end.
Proof.
  unfold stripped.
  rewrite (isort_map (@fst_leb A) (@fst_leb B) (on_snd f) (fun _ _ => eq_refl)).
  rewrite map_map.
  rewrite <- (sequence_map_bind (strip1 ns) (on_snd f)).
  f_equal. apply map_ext. intros [n a]. unfold strip1, on_snd. simpl.
  destruct (strip_namespace ns n); reflexivity.
Qed.

Lemma sequence_In {A} (l : list (res A)) r x : sequence l = inl r -> In x r -> In (inl x) l.
Proof.
  revert r. induction l as [|[y|e] l IH]; intros r Hs Hx; simpl in Hs.
  - injection Hs as <-. contradiction.
  - destruct (sequence l) as [ys|]; [|discriminate]. injection Hs as <-.
    destruct Hx as [->|Hx]; [now left|right; eapply IH; eauto].
  - discriminate.
Qed.

(* every stripped entry carries the payload of an original entry *)
Lemma stripped_payload {A} ns (l : list (str * A)) r n a :
  stripped ns l = inl r -> In (n, a) r -> exists k, In (k, a) l.
Proof.
  unfold stripped. intros Hs Hin. apply (sequence_In _ _ _ Hs) in Hin.
  apply in_map_iff in Hin. destruct Hin as ([k a'] & E & Hk). unfold strip1 in E. simpl in E.
  destruct (strip_namespace ns k); [|discriminate]. injection E as _ ->.
  exists k. eapply Permutation.Permutation_in; [apply (isort_perm fst_leb)|exact Hk].
Qed.

Lemma Forall_skipn {A} (P : A -> Prop) n l : Forall P l -> Forall P (skipn n l).
Proof. intros Hl. revert n. induction Hl; intros [|m]; simpl; auto. Qed.

Lemma strip_iname ns n m : iname n -> strip_namespace ns n = inl m -> iname m.
Proof.
  unfold strip_namespace. intros Hn. destruct ns as [q|]; [|intros E; injection E as <-; exact Hn].
  destruct q as [|c q'] eqn:Eq; [intros E; injection E as <-; exact Hn|]. rewrite <- Eq.
  destruct (starts_with q n); [|discriminate]. intros E.
  assert (Em : m = skipn (List.length q + 2) n) by (injection E; auto). rewrite Em.
  now apply Forall_skipn.
Qed.

Lemma sequence_Forall {A} (P : A -> Prop) (l : list (res A)) r :
  sequence l = inl r -> (forall x, In (inl x) l -> P x) -> Forall P r.
Proof.
  revert r. induction l as [|[y|e] l IH]; intros r Hs Hp; simpl in Hs.
  - injection Hs as <-. constructor.
  - destruct (sequence l) as [ys|]; [|discriminate]. injection Hs as <-.
    constructor; [apply Hp; now left|apply IH; auto; intros; apply Hp; now right].
  - discriminate.
Qed.

Lemma stripped_inames {A} ns (l : list (str * A)) sl :
  (forall x, In x l -> iname (fst x)) -> stripped ns l = inl sl -> Forall (fun x => iname (fst x)) sl.
Proof.
  intros Hl Hs. unfold stripped in Hs. apply (sequence_Forall _ _ _ Hs).
  intros [m a] Hin. apply in_map_iff in Hin. destruct Hin as ([n a'] & E & Hin).
  unfold strip1 in E. simpl in E. destruct (strip_namespace ns n) as [m'|] eqn:Es; [|discriminate].
  injection E as -> ->. simpl. eapply strip_iname; [|exact Es].
  apply (Hl (n, a)). eapply Permutation.Permutation_in; [apply (isort_perm fst_leb)|exact Hin].
Qed.

(* ---------- the hash chain over the DAG ---------- *)
From TC Require Import Dict Chain MultiProofs.

(* what a task computes, as far as the key is concerned: its persisted parameter values and, per input,
   the name under which it is wired and what THAT task computes *)
Inductive sg := Sg (params : list (str * value)) (inputs : list (str * sg)).

Section HashChain.
  Variable H : str -> str.

  Section OneChain.
    Variable tasks1 : list (str * node).

    Inductive KS : str -> str -> sg -> Prop :=
    | KS_intro name nd both key sl :
        dget name tasks1 = Some nd -> InKS (n_inputs nd) both ->
        task_key H (n_ns nd) (n_params nd) (map (on_snd fst) both) = inl key ->
        stripped (n_ns nd) (map (on_snd snd) both) = inl sl ->
        KS name key (Sg (persisted (n_params nd)) sl)
    with InKS : list (str * (str + value)) -> list (str * (str * sg)) -> Prop :=
    | IS_nil : InKS [] []
    | IS_task k t key s r rs : KS t key s -> InKS r rs -> InKS ((k, inl t) :: r) ((k, (key, s)) :: rs)
    | IS_default k d r rs : InKS r rs -> InKS ((k, inr d) :: r) rs.

    Scheme KS_mut := Induction for KS Sort Prop
    with InKS_mut := Induction for InKS Sort Prop.

    (* KS refines the key relation of the construction proof *)
    Lemma KS_KeyOf : forall name key s, KS name key s -> KeyOf H tasks1 name key.
    Proof.
      apply (KS_mut (fun name key s _ => KeyOf H tasks1 name key)
                    (fun ins both _ => InKeys H tasks1 ins (map (on_snd fst) both))).
      - intros name nd both key sl Hd _ IH Hk _. econstructor; eauto.
      - constructor.
      - intros k t key s r rs _ IHk _ IHr. simpl. constructor; assumption.
      - intros k d r rs _ IHr. constructor. assumption.
    Qed.

    Lemma InKS_payload : forall ins both, InKS ins both ->
      forall k key s, In (k, (key, s)) both -> exists t, KS t key s.
    Proof.
      induction 1 as [|k t key s r rs Hk _ IH|k d r rs _ IH]; intros k' key' s' Hin.
      - contradiction.
      - destruct Hin as [E|Hin]; [injection E as _ <- <-; eauto|eauto].
      - eauto.
    Qed.

    (* the texts that are hashed in this chain *)
    Definition Texts (t : str) : Prop :=
      exists name nd both s, dget name tasks1 = Some nd /\ InKS (n_inputs nd) both /\
                             key_text (n_ns nd) (n_params nd) (map (on_snd fst) both) = inl t /\
                             KS name (key_of_text H t) s.

    (* the fragment: JSON-like parameter values, identifier names, well-formed input names *)
    Definition NodesOk : Prop :=
      forall name nd, dget name tasks1 = Some nd ->
        Forall pok (n_params nd) /\ forall k v, In (k, v) (n_inputs nd) -> iname k.

    Lemma InKS_names : forall ins both, InKS ins both ->
      forall x, In x both -> exists v, In (fst x, v) ins.
    Proof.
      induction 1 as [|k t key s r rs Hk _ IH|k d r rs _ IH]; intros x Hin.
      - contradiction.
      - destruct Hin as [<-|Hin]; [eexists; left; reflexivity|].
        destruct (IH _ Hin) as [v Hv]. exists v. now right.
      - destruct (IH _ Hin) as [v Hv]. exists v. now right.
    Qed.

    Lemma stripped_names_ok name nd both sl :
      NodesOk -> dget name tasks1 = Some nd -> InKS (n_inputs nd) both ->
      stripped (n_ns nd) both = inl sl -> Forall (fun x => iname (fst x)) sl.
    Proof.
      intros Hok Hd Hi Hs. eapply stripped_inames; [|exact Hs].
      intros x Hx. destruct (InKS_names _ _ Hi x Hx) as [v Hv]. destruct (Hok _ _ Hd) as [_ Hn]. eapply Hn; eauto.
    Qed.

    (* every key of the construction proof is the key of a computation signature *)
    Lemma KeyOf_KS : forall name key, KeyOf H tasks1 name key -> exists s, KS name key s.
    Proof.
      apply (KeyOf_mut H tasks1 (fun name key _ => exists s, KS name key s)
               (fun ins keys _ => exists both, InKS ins both /\ keys = map (on_snd fst) both)).
      - intros name nd inkeys key Hd _ [both [Hb ->]] Hk.
        pose proof Hk as Hk'. unfold task_key in Hk'.
        destruct (key_text (n_ns nd) (n_params nd) (map (on_snd fst) both)) as [t|] eqn:Et; [|discriminate].
        unfold key_text in Et. rewrite inputs_text_stripped in Et.
        destruct (stripped (n_ns nd) (map (on_snd fst) both)) as [lk|] eqn:Es; [|discriminate].
        rewrite stripped_map in Es. destruct (stripped (n_ns nd) both) as [L|] eqn:EL; [|discriminate].
        exists (Sg (persisted (n_params nd)) (map (on_snd snd) L)).
        apply KS_intro with (both := both); [exact Hd|exact Hb|exact Hk|].
        now rewrite stripped_map, EL.
      - exists []. split; [constructor|reflexivity].
      - intros k t key r rs _ [s Hs] _ [both [Hb ->]]. exists ((k, (key, s)) :: both). split; [now constructor|reflexivity].
      - intros k d r rs _ [both [Hb ->]]. exists both. split; [now constructor|reflexivity].
    Qed.
  End OneChain.

  Variables tasksA tasksB : list (str * node).
  Hypothesis okA : NodesOk tasksA.
  Hypothesis okB : NodesOk tasksB.
  (* keys are written with identifier characters (hex digits for sha256) *)
  Hypothesis key_chars : forall t, ident (key_of_text H t).
  (* the hash does not collide on the texts of the two chains *)
  Hypothesis no_collision : forall t1 t2, Texts tasksA t1 -> Texts tasksB t2 ->
                                          key_of_text H t1 = key_of_text H t2 -> t1 = t2.

  Lemma task_key_text ns ps ins key : task_key H ns ps ins = inl key ->
    exists t, key_text ns ps ins = inl t /\ key = key_of_text H t.
  Proof. unfold task_key. destruct (key_text ns ps ins) as [t|]; [|discriminate]. intros E. injection E as <-. eauto. Qed.

  Lemma stripped_keys_good tasks1 both sl (ns : option str) :
    (forall k key s, In (k, (key, s)) both -> exists t, KS tasks1 t key s) ->
    stripped ns both = inl sl -> Forall (fun x => iname (fst x)) sl ->
    Forall igood (map (on_snd fst) sl).
  Proof.
    intros Hp Hs Hn. rewrite Forall_forall in *. intros [n key] Hin.
    apply in_map_iff in Hin. destruct Hin as ([n' [key' s]] & E & Hin). unfold on_snd in E. simpl in E.
    injection E as -> ->. split; [apply (Hn _ Hin)|]. simpl.
    destruct (stripped_payload _ _ _ _ _ Hs Hin) as [k Hk]. destruct (Hp _ _ _ Hk) as [t Ht].
    inversion Ht as [name nd both' key' sl' Hd Hi Hk' Hsl]; subst.
    destruct (task_key_text _ _ _ _ Hk') as (tx & _ & ->). apply key_chars.
  Qed.

  Theorem same_key_same_computation :
    forall nameA key sa, KS tasksA nameA key sa -> forall nameB sb, KS tasksB nameB key sb -> sa = sb.
  Proof.
    apply (KS_mut tasksA
             (fun nameA key sa _ => forall nameB sb, KS tasksB nameB key sb -> sa = sb)
             (fun ins both _ => forall k key s, In (k, (key, s)) both ->
                                forall nameB sb, KS tasksB nameB key sb -> s = sb)).
    - intros nameA ndA bothA key slA HdA HiA IH HkA HsA nameB sb HB.
      inversion HB as [nB ndB bothB key' slB HdB HiB HkB HsB]; subst.
      destruct (task_key_text _ _ _ _ HkA) as (tA & HtA & EA).
      destruct (task_key_text _ _ _ _ HkB) as (tB & HtB & EB).
      assert (Et : tA = tB).
      { apply no_collision; [| |congruence].
        - exists nameA, ndA, bothA, (Sg (persisted (n_params ndA)) slA). repeat split; auto.
          rewrite <- EA. econstructor; eauto.
        - exists nameB, ndB, bothB, (Sg (persisted (n_params ndB)) slB). repeat split; auto.
          rewrite <- EB. rewrite EA in *. econstructor; eauto. }
      subst tB.
      destruct (okA _ _ HdA) as [PA _]. destruct (okB _ _ HdB) as [PB _].
      (* the stripped lists with both payloads *)
      destruct (stripped (n_ns ndA) bothA) as [LA|e] eqn:SA.
      2:{ rewrite stripped_map, SA in HsA. discriminate. }
      destruct (stripped (n_ns ndB) bothB) as [LB|e] eqn:SB.
      2:{ rewrite stripped_map, SB in HsB. discriminate. }
      rewrite stripped_map, SA in HsA. injection HsA as <-.
      rewrite stripped_map, SB in HsB. injection HsB as <-.
      destruct (key_text_injective (n_ns ndA) (n_params ndA) (map (on_snd fst) bothA)
                                   (n_ns ndB) (n_params ndB) (map (on_snd fst) bothB) tA
                                   (map (on_snd fst) LA) (map (on_snd fst) LB)) as [Ep El]; auto.
      + now rewrite stripped_map, SA.
      + now rewrite stripped_map, SB.
      + eapply stripped_keys_good; [apply (InKS_payload tasksA _ _ HiA)|exact SA|apply (stripped_names_ok tasksA nameA ndA bothA LA okA HdA HiA SA)].
      + eapply stripped_keys_good; [apply (InKS_payload tasksB _ _ HiB)|exact SB|apply (stripped_names_ok tasksB nameB ndB bothB LB okB HdB HiB SB)].
      + rewrite Ep. f_equal.
        (* position by position: equal names and keys, hence equal signatures *)
        assert (HA : forall n key s, In (n, (key, s)) LA -> forall nameB sb, KS tasksB nameB key sb -> s = sb).
        { intros n key0 s Hin. destruct (stripped_payload _ _ _ _ _ SA Hin) as [k Hk]. eapply IH; exact Hk. }
        assert (HB' : forall n key s, In (n, (key, s)) LB -> exists t, KS tasksB t key s).
        { intros n key0 s Hin. destruct (stripped_payload _ _ _ _ _ SB Hin) as [k Hk].
          eapply (InKS_payload tasksB); eauto. }
        clear - El HA HB'. revert LB El HB'.
        induction LA as [|[n [key0 s]] LA IHl]; intros [|[n' [key' s']] LB] El HB'; try discriminate; [reflexivity|].
        simpl in El. unfold on_snd in El at 1 3. simpl in El. injection El as -> -> El.
        simpl. unfold on_snd at 1 3. simpl. f_equal.
        * f_equal. destruct (HB' n' key' s') as [t Ht]; [now left|].
          eapply HA; [now left|exact Ht].
        * apply IHl; auto.
          -- intros; eapply HA; [right|]; eauto.
          -- intros; eapply HB'; right; eauto.
    - intros k key s Hin. contradiction.
    - intros k t key s r rs Hk IHk Hr IHr k' key' s' Hin nameB sb HB.
      destruct Hin as [E|Hin]; [injection E as _ <- <-; eapply IHk; eauto|eapply IHr; eauto].
    - intros k d r rs Hr IHr k' key' s' Hin. eapply IHr; eauto.
  Qed.
End HashChain.

(* ---------- the hypotheses are met by the real hash and by real chains ---------- *)
From TC Require Import Sha256.
From Coq Require Import NArith.

Lemma hexdig_ident n : (n < 16)%N -> identc (hexdig n) = true.
Proof.
  intros Hn.
  assert (Hin : In n (map N.of_nat (seq 0 16))).
  { apply in_map_iff. exists (N.to_nat n). split; [lia|apply in_seq; lia]. }
  assert (Hall : forallb (fun m => identc (hexdig m)) (map N.of_nat (seq 0 16)) = true) by reflexivity.
  rewrite forallb_forall in Hall. now apply Hall.
Qed.

Lemma be_bytes_small k x : Forall (fun b => (b < 256)%N) (be_bytes k x).
Proof.
  revert x. induction k as [|k IH]; intros x; simpl; [constructor|].
  apply Forall_app. split; [apply IH|]. constructor; [|constructor]. apply N.mod_lt. discriminate.
Qed.

Lemma Forall_flat_map {A B} (P : B -> Prop) (f : A -> list B) l :
  (forall x, In x l -> Forall P (f x)) -> Forall P (flat_map f l).
Proof.
  induction l as [|x l IH]; intros Hf; simpl; [constructor|].
  apply Forall_app. split; [apply Hf; now left|apply IH; intros; apply Hf; now right].
Qed.

Theorem sha256_hex_chars t : ident (sha256_hex t).
Proof.
  unfold sha256_hex, ident. apply Forall_flat_map. intros b Hb.
  assert (Hs : (b < 256)%N).
  { apply in_flat_map in Hb. destruct Hb as (w & _ & Hb).
    pose proof (be_bytes_small 4 w) as F. rewrite Forall_forall in F. now apply F. }
  unfold hex_byte. constructor; [|constructor; [|constructor]].
  - apply hexdig_ident. apply N.div_lt_upper_bound; [discriminate|exact Hs].
  - apply hexdig_ident. apply N.mod_lt. discriminate.
Qed.

Lemma Forall_firstn {A} (P : A -> Prop) n l : Forall P l -> Forall P (firstn n l).
Proof. intros Hl. revert n. induction Hl; intros [|m]; simpl; constructor; auto. Qed.

Corollary sha256_key_chars t : ident (key_of_text sha256_hex t).
Proof. apply Forall_firstn, sha256_hex_chars. Qed.


(* ---------- the storage location ---------- *)
From TC Require Import Eval.

Theorem same_location_same_key tc o1 o2 : result_path tc o1 = result_path tc o2 -> o_key o1 = o_key o2.
Proof.
  unfold result_path, result_file. intros E. apply app_inv_head in E. apply app_inv_head in E.
  destruct (extension (c_data tc)); [|exact E]. now apply app_inv_tail in E.
Qed.

Theorem different_key_different_location tc o1 o2 : o_key o1 <> o_key o2 -> result_path tc o1 <> result_path tc o2.
Proof. intros Hk E. apply Hk. eapply same_location_same_key; exact E. Qed.

(* non-vacuity: a JSON-like value with every construct, and the persisted list of a small registry *)
Example jsonlike_example :
  jsonlike (VDict [(lit "b", VList [VInt 1; VFloat (lit "1.5e-07"); VNone; VBool true; VStr (lit "x, y]")]);
                   (lit "a", VDict [(lit "k", VFloat (lit "-inf"))])]) = true.
Proof. reflexivity. Qed.
