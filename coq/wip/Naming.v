(* Names of tasks: MetaTask.slugname / group / fullname and the module-derived groups of ModuleTask and
   DoubleModuleTask (taskchain/task.py).  ASCII class names (Python identifiers of the usual kind). *)
From Coq Require Import List Ascii String Bool Arith.
From TC Require Import PyStr.
Import ListNotations.

Definition is_upper (c : ascii) : bool := Nat.leb 65 (nat_of_ascii c) && Nat.leb (nat_of_ascii c) 90.
Definition lower (c : ascii) : ascii := if is_upper c then ascii_of_nat (nat_of_ascii c + 32) else c.

(* re.sub(r'(?<!^)(?=[A-Z])', '_', name).lower() : an underscore before every capital that is not the first character *)
Fixpoint snake_go (first : bool) (s : str) : str :=
  match s with
  | [] => []
  | c :: r => (if is_upper c && negb first then ["_"%char; lower c] else [lower c]) ++ snake_go false r
  end.
Definition snake (s : str) : str := snake_go true s.

Definition task_suffix : str := lit "_task".

(* the name derived from the class name: snake case without a trailing _task *)
Definition default_name (cname : str) : str :=
  let n := snake cname in
  if ends_with task_suffix n then firstn (List.length n - 5) n else n.

(* MetaTask.slugname: Meta.name verbatim when given; the group, when not empty, in front *)
Definition slug_name (group : str) (name : option str) (cname : str) : str :=
  let n := match name with Some n => n | None => default_name cname end in
  match group with [] => n | _ => group ++ [colon] ++ n end.

(* MetaTask.fullname(config) *)
Definition full_name (namespace : option str) (slug : str) : str :=
  match namespace with None => slug | Some ns => ns ++ lit "::" ++ slug end.

(* module-derived groups *)
Definition dot : ascii := "."%char.
Definition last_n {A} (n : nat) (l : list A) : list A := skipn (List.length l - n) l.
Definition module_group (module : str) : str := last_str (split_c dot module).
Definition double_module_group (meta_group : option str) (module : str) : str :=
  match meta_group with
  | Some g => g
  | None => join [colon] (last_n 2 (split_c dot module))
  end.
