From Coq Require Import List Ascii String Bool Arith Lia.
From TC Require Import PyStr StrProofs.
From TCW Require Import Naming.
Import ListNotations.

(* an explicit Meta.name is used verbatim - no case change, no suffix stripped *)
Theorem explicit_name_verbatim group n cname :
  slug_name group (Some n) cname = match group with [] => n | _ => group ++ [colon] ++ n end.
Proof. reflexivity. Qed.

Theorem derived_name group cname :
  slug_name group None cname = match group with [] => default_name cname | _ => group ++ [colon] ++ default_name cname end.
Proof. reflexivity. Qed.

(* the derived name has no capital letter *)
Lemma lower_not_upper c : is_upper (lower c) = false.
Proof.
  unfold lower. destruct (is_upper c) eqn:E; [|exact E].
  unfold is_upper in *. apply andb_true_iff in E. destruct E as [E1 E2].
  apply Nat.leb_le in E1, E2. rewrite nat_ascii_embedding by lia.
  apply andb_false_iff. right. apply Nat.leb_gt. lia.
Qed.

Lemma snake_go_lower first s : forall c, In c (snake_go first s) -> is_upper c = false.
Proof.
  revert first. induction s as [|x r IH]; intros first c Hc; [contradiction|].
  simpl in Hc. apply in_app_or in Hc. destruct Hc as [Hc|Hc]; [|eapply IH; eauto].
  destruct (is_upper x && negb first); cbn [In] in Hc.
  - destruct Hc as [Hc|[Hc|Hc]]; [subst c; reflexivity|subst c; apply lower_not_upper|contradiction].
  - destruct Hc as [Hc|Hc]; [subst c; apply lower_not_upper|contradiction].
Qed.

Theorem default_name_lower cname : forall c, In c (default_name cname) -> is_upper c = false.
Proof.
  intros c Hc. unfold default_name in Hc. destruct (ends_with task_suffix (snake cname)).
  - apply (snake_go_lower true cname). fold (snake cname).
    assert (G : forall n (l : str), In c (firstn n l) -> In c l).
    { intros n l. revert n. induction l as [|y l IH]; intros [|n] H; simpl in H; try contradiction.
      destruct H as [H|H]; [now left|right; eauto]. }
    eapply G; eauto.
  - now apply (snake_go_lower true cname).
Qed.

(* a class name without capitals after the first character and without the suffix is only lower-cased *)
Lemma snake_go_plain s : (forall c, In c s -> is_upper c = false) -> snake_go false s = s.
Proof.
  induction s as [|x r IH]; intros H; [reflexivity|]. simpl.
  assert (Hx : is_upper x = false) by (apply H; now left).
  rewrite Hx. simpl. unfold lower. rewrite Hx. f_equal. apply IH. intros c Hc. apply H. now right.
Qed.

(* the full name is the slug behind its namespace; without a namespace it is the slug *)
Theorem full_name_none slug : full_name None slug = slug.
Proof. reflexivity. Qed.
Theorem full_name_some ns slug : full_name (Some ns) slug = ns ++ lit "::" ++ slug.
Proof. reflexivity. Qed.

Example naming_examples :
  default_name (lit "PrepareData") = lit "prepare_data" /\
  default_name (lit "PrepareTask") = lit "prepare" /\
  default_name (lit "Task") = lit "task" /\
  default_name (lit "ATask") = lit "a" /\
  default_name (lit "HTTPServer") = lit "h_t_t_p_server" /\
  default_name (lit "My_Task") = lit "my_" /\
  default_name (lit "K01") = lit "k01" /\
  slug_name (lit "g:h") None (lit "CleanTask") = lit "g:h:clean" /\
  slug_name [] (Some (lit "prepare_task")) (lit "X") = lit "prepare_task" /\
  slug_name (lit "g") (Some (lit "Mixed_Case")) (lit "X") = lit "g:Mixed_Case" /\
  module_group (lit "pkg.sub.features") = lit "features" /\
  double_module_group None (lit "pkg.sub.features") = lit "sub:features" /\
  double_module_group None (lit "features") = lit "features" /\
  double_module_group (Some (lit "own")) (lit "pkg.sub.features") = lit "own".
Proof. vm_compute. repeat split. Qed.
