From Coq Require Import List Ascii String Bool Arith ZArith Lia.
From TC Require Import PyStr Value StrProofs.
Import ListNotations.

Lemma value_eqb_eq a : forall b, value_eqb a b = true <-> a = b.
Proof.
  induction a using value_ind'; intros b0; destruct b0; simpl; try (split; [discriminate|discriminate]);
    try (split; [reflexivity|reflexivity]).
  - rewrite Bool.eqb_true_iff. split; congruence.
  - rewrite Z.eqb_eq. split; congruence.
  - rewrite str_eqb_eq. split; congruence.
  - rewrite str_eqb_eq. split; congruence.
  - rewrite andb_true_iff, !str_eqb_eq. split; [intros [-> ->]; reflexivity|intros E; injection E; auto].
  - (* VList *)
    match goal with |- context [?f l l0] => set (leq := f) end.
    assert (G : forall y, leq l y = true <-> l = y).
    { induction H as [|x r Hx Hr IH]; intros [|q y]; simpl; split; intros E; try discriminate; auto.
      - apply andb_true_iff in E. destruct E as [E1 E2]. apply Hx in E1. apply IH in E2. congruence.
      - injection E as -> ->. apply andb_true_iff. split; [now apply Hx|now apply IH]. }
    rewrite G. split; congruence.
  - (* VDict *)
    match goal with |- context [?f kvs kvs0] => set (kveq := f) end.
    assert (G : forall y, kveq kvs y = true <-> kvs = y).
    { induction H as [|[k x] r Hx Hr IH]; intros [|[k' q] y]; simpl; try (simpl in Hx); split; intros E; try discriminate; auto.
      - apply andb_true_iff in E. destruct E as [E E3]. apply andb_true_iff in E. destruct E as [E1 E2].
        apply str_eqb_eq in E1. apply Hx in E2. apply IH in E3. congruence.
      - injection E as -> -> ->. rewrite str_eqb_refl. simpl. apply andb_true_iff.
        split; [now apply Hx|now apply IH]. }
    rewrite G. split; congruence.
  - (* VAuto *)
    match goal with |- context [?f args args0] => set (kveq := f) end.
    assert (G : forall y, kveq args y = true <-> args = y).
    { induction H as [|[k x] r Hx Hr IH]; intros [|[k' q] y]; simpl; try (simpl in Hx); split; intros E; try discriminate; auto.
      - apply andb_true_iff in E. destruct E as [E E3]. apply andb_true_iff in E. destruct E as [E1 E2].
        apply str_eqb_eq in E1. apply Hx in E2. apply IH in E3. congruence.
      - injection E as -> -> ->. rewrite str_eqb_refl. simpl. apply andb_true_iff.
        split; [now apply Hx|now apply IH]. }
    rewrite andb_true_iff, str_eqb_eq, G. split; [intros [-> ->]; reflexivity|intros E; injection E; auto].
  - (* VInst *)
    match goal with |- context [?f args args0] => set (leq := f) end.
    match goal with |- context [?h kw kwargs] => set (kveq := h) end.
    assert (G1 : forall y, leq args y = true <-> args = y).
    { induction H as [|x r Hx Hr IH]; intros [|q y]; simpl; split; intros E; try discriminate; auto.
      - apply andb_true_iff in E. destruct E as [E1 E2]. apply Hx in E1. apply IH in E2. congruence.
      - injection E as -> ->. apply andb_true_iff. split; [now apply Hx|now apply IH]. }
    assert (G2 : forall y, kveq kw y = true <-> kw = y).
    { induction H0 as [|[k x] r Hx Hr IH]; intros [|[k' q] y]; simpl; try (simpl in Hx); split; intros E; try discriminate; auto.
      - apply andb_true_iff in E. destruct E as [E E3]. apply andb_true_iff in E. destruct E as [E1 E2].
        apply str_eqb_eq in E1. apply Hx in E2. apply IH in E3. congruence.
      - injection E as -> -> ->. rewrite str_eqb_refl. simpl. apply andb_true_iff.
        split; [now apply Hx|now apply IH]. }
    rewrite !andb_true_iff, str_eqb_eq, G1, G2.
    split; [intros [[-> ->] ->]; reflexivity|intros E; injection E; auto].
  - rewrite str_eqb_eq. split; congruence.
Qed.

Lemma value_eqb_refl a : value_eqb a a = true.
Proof. now apply value_eqb_eq. Qed.
