(* InMemoryCache as a map: what get / get_or_compute / len do to the mapping, for every state. *)
From Coq Require Import String Ascii List Bool Arith ZArith Lia.
From TC Require Import PyStr Value.
From TC Require Import MemCache.
Import ListNotations.

Lemma mget_mset_same k v s : mget k (mset k v s) = Some v.
Proof.
  induction s as [|[k' v'] r IH]; simpl.
  - destruct (mkey_eq_dec k k); [reflexivity|contradiction].
  - destruct (mkey_eq_dec k k') as [E|N]; simpl.
    + destruct (mkey_eq_dec k k); [reflexivity|contradiction].
    + destruct (mkey_eq_dec k k'); [contradiction|exact IH].
Qed.

Lemma mget_mset_other k k' v s : k' <> k -> mget k' (mset k v s) = mget k' s.
Proof.
  intros N. induction s as [|[k2 v2] r IH]; simpl.
  - destruct (mkey_eq_dec k' k); [contradiction|reflexivity].
  - destruct (mkey_eq_dec k k2) as [E|N2]; simpl.
    + subst k2. destruct (mkey_eq_dec k' k); [contradiction|reflexivity].
    + destruct (mkey_eq_dec k' k2); [reflexivity|exact IH].
Qed.

(* keys of the mapping *)
Lemma mset_keys_in k v s k' : In k' (map fst (mset k v s)) <-> k' = k \/ In k' (map fst s).
Proof.
  induction s as [|[k2 v2] r IH]; simpl.
  - split; [intros [H|[]]; left; auto | intros [H|[]]; left; auto].
  - destruct (mkey_eq_dec k k2) as [E|N]; simpl.
    + subst k2. split; [intros [H|H]; auto | intros [H|[H|H]]; auto].
    + rewrite IH. split; [intros [H|[H|H]]; auto | intros [H|[H|H]]; auto].
Qed.

Lemma mget_none_notin k s : mget k s = None <-> ~ In k (map fst s).
Proof.
  induction s as [|[k2 v2] r IH]; simpl.
  - split; [intros _ []|reflexivity].
  - destruct (mkey_eq_dec k k2) as [E|N].
    + subst. split; [discriminate|intros H; exfalso; apply H; left; reflexivity].
    + rewrite IH. split; [intros H [E|I]; [apply N; auto|auto] | intros H I; apply H; right; exact I].
Qed.

Lemma mset_nodup k v s : NoDup (map fst s) -> NoDup (map fst (mset k v s)).
Proof.
  induction s as [|[k2 v2] r IH]; simpl; intros H.
  - constructor; [intros []|constructor].
  - inversion H as [|? ? Hn Hr]; subst.
    destruct (mkey_eq_dec k k2) as [E|N]; simpl.
    + subst k2. constructor; assumption.
    + constructor; [|apply IH; exact Hr].
      rewrite mset_keys_in. intros [E|I]; [apply N; auto|contradiction].
Qed.

(* ---------- the operations ---------- *)
Theorem get_changes_nothing s sub k :
  mstep s (MGet sub k) = (s, match mget (sub, k) s with Some v => MVal v 0 | None => MNoValue end).
Proof. reflexivity. Qed.

Theorem len_changes_nothing s sub : fst (mstep s (MLen sub)) = s.
Proof. reflexivity. Qed.

Theorem goc_hit s sub k v comp : mget (sub, k) s = Some v -> mstep s (MGoc sub k comp false) = (s, MVal v 0).
Proof. intros H. simpl. rewrite H. reflexivity. Qed.

Theorem goc_computes s sub k comp force v :
  mget (sub, k) s = None \/ force = true -> comp = Some v ->
  let s' := fst (mstep s (MGoc sub k comp force)) in
  snd (mstep s (MGoc sub k comp force)) = MVal v 1 /\
  mget (sub, k) s' = Some v /\
  (forall k', k' <> (sub, k) -> mget k' s' = mget k' s).
Proof.
  intros Hm -> . simpl.
  assert (E : (match mget (sub, k) s, force with
               | Some v0, false => (s, MVal v0 0)
               | _, _ => (mset (sub, k) v s, MVal v 1) end) = (mset (sub, k) v s, MVal v 1)).
  { destruct Hm as [H| ->]; [rewrite H; reflexivity | destruct (mget (sub, k) s); reflexivity]. }
  rewrite E. simpl. repeat split.
  - apply mget_mset_same.
  - intros k' N. apply mget_mset_other. exact N.
Qed.

Theorem raising_stores_nothing s sub k force :
  fst (mstep s (MGoc sub k None force)) = s /\
  (mget (sub, k) s = None \/ force = true -> snd (mstep s (MGoc sub k None force)) = MExc 1).
Proof.
  simpl. destruct (mget (sub, k) s) as [v|] eqn:E, force; simpl; split; try reflexivity;
    intros [H|H]; try reflexivity; discriminate.
Qed.

Definition calls_of (o : mout) : nat := match o with MVal _ n | MExc n => n | _ => 0 end.
Theorem at_most_one_call s o : calls_of (snd (mstep s o)) <= 1.
Proof.
  destruct o as [sub k|sub k comp force|sub]; simpl; try lia.
  - destruct (mget (sub, k) s); simpl; lia.
  - destruct (mget (sub, k) s), force, comp; simpl; lia.
Qed.

(* a look-up that misses leaves no trace: the next unforced get_or_compute calls f and stores its result *)
Theorem missed_lookup_then_compute s sub k v :
  mget (sub, k) s = None ->
  let s1 := fst (mstep s (MGet sub k)) in
  mstep s1 (MGoc sub k (Some v) false) = (mset (sub, k) v s, MVal v 1).
Proof. intros H. simpl. rewrite H. reflexivity. Qed.

(* every operation leaves the entries of other keys and other sub-caches alone *)
Definition target (o : mop) : option mkey :=
  match o with MGet sub k | MGoc sub k _ _ => Some (sub, k) | MLen _ => None end.
Theorem other_entries_untouched s o k' :
  target o <> Some k' -> mget k' (fst (mstep s o)) = mget k' s.
Proof.
  destruct o as [sub k|sub k comp force|sub]; simpl; intros N; try reflexivity.
  destruct (mget (sub, k) s) as [v|], force, comp as [c|]; simpl; try reflexivity;
    apply mget_mset_other; intros E; apply N; rewrite E; reflexivity.
Qed.

(* reachable states have one entry per key, so len counts the keys stored in that sub-cache *)
Theorem step_nodup s o : NoDup (map fst s) -> NoDup (map fst (fst (mstep s o))).
Proof.
  intros H. destruct o as [sub k|sub k comp force|sub]; simpl; try exact H.
  destruct (mget (sub, k) s) as [v|], force, comp as [c|]; simpl; try exact H; apply mset_nodup; exact H.
Qed.

Fixpoint mstate (s : mstore) (ops : list mop) : mstore :=
  match ops with [] => s | o :: r => mstate (fst (mstep s o)) r end.
Theorem reachable_nodup ops : NoDup (map fst (mstate [] ops)).
Proof.
  assert (G : forall s, NoDup (map fst s) -> NoDup (map fst (mstate s ops))).
  { induction ops as [|o r IH]; intros s H; simpl; [exact H|]. apply IH. apply step_nodup. exact H. }
  apply G. constructor.
Qed.

Example mem_example :
  mrun [] [MGet [] (lit "k"); MLen []; MGoc [] (lit "k") (Some (VInt 1%Z)) false; MGoc [] (lit "k") (Some (VInt 2%Z)) false;
           MGoc [lit "s"] (lit "k") None false; MGet [lit "s"] (lit "k"); MGoc [] (lit "k") (Some (VInt 3%Z)) true; MLen []]
  = [MNoValue; MCount 0; MVal (VInt 1%Z) 1; MVal (VInt 1%Z) 0; MExc 1; MNoValue; MVal (VInt 3%Z) 1; MCount 1].
Proof. vm_compute. reflexivity. Qed.
