(* The name MetaTask gives a task is the rendered name whose components the resolver recovers:
   slug = group levels and name joined by ':', full name = namespaces joined by '::' in front of it. *)
From Coq Require Import List Ascii String Bool Arith Lia.
From TC Require Import PyStr StrProofs Names NamesProofs NamesWfProofs Naming.
Import ListNotations.

Lemma join_snoc sep l x : l <> [] -> join sep (l ++ [x]) = join sep l ++ sep ++ x.
Proof.
  induction l as [|a l IH]; [contradiction|]. intros _.
  destruct l as [|b l].
  - reflexivity.
  - change ((a :: b :: l) ++ [x]) with (a :: ((b :: l) ++ [x])).
    rewrite join_cons by (destruct l; discriminate).
    rewrite IH by discriminate. rewrite (join_cons sep a (b :: l)) by discriminate.
    now rewrite <- !app_assoc.
Qed.

(* the slug of a task with group levels gs (Meta.task_group = the levels joined by ':') and name n *)
Theorem slug_is_local_part gs n cname :
  (forall p, In p gs -> p <> []) ->
  slug_name (join [colon] gs) (Some n) cname = loc_of gs n.
Proof.
  intros Hne. unfold slug_name, loc_of.
  destruct gs as [|g gs]; [reflexivity|].
  assert (Hj : join [colon] (g :: gs) <> []) by (apply join_nonempty; [discriminate|exact Hne]).
  destruct (join [colon] (g :: gs)) as [|c r] eqn:E; [contradiction|].
  rewrite <- E. rewrite join_snoc by discriminate. reflexivity.
Qed.

(* the full name under the namespaces ns (config.namespace = the namespaces joined by '::') *)
Theorem full_name_is_rendered ns gs n cname :
  (forall p, In p gs -> p <> []) ->
  full_name (match ns with [] => None | _ => Some (join dcolon ns) end) (slug_name (join [colon] gs) (Some n) cname)
  = render ns gs n.
Proof.
  intros Hne. rewrite (slug_is_local_part gs n cname Hne). unfold render, full_name.
  destruct ns as [|a ns]; [reflexivity|].
  rewrite join_snoc by discriminate. reflexivity.
Qed.

(* hence: the names the chain registers are well-formed names whenever namespaces, group levels and the task name
   are non-empty texts without ':' - the hypothesis of C10_full_name_resolves *)
Theorem registered_name_wf ns gs n cname :
  wf ns gs n ->
  wf_name (full_name (match ns with [] => None | _ => Some (join dcolon ns) end) (slug_name (join [colon] gs) (Some n) cname)).
Proof.
  intros W. exists ns, gs, n. split; [exact W|].
  apply full_name_is_rendered. intros p Hp. now destruct (wf_gs _ _ _ W p Hp).
Qed.
