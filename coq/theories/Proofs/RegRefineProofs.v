(* The registry of the chain model (Chain.register, keyed by slug and hash) is an instance of the registry of
   Model/Sharing.v: any sequence of registrations, within a chain or across the members of a MultiChain, hands out
   one object per (slug, hash). *)
From Coq Require Import String Ascii List Bool Arith Lia.
From TC Require Import PyStr Value Dict Repr Param Config Key Chain StrProofs Sharing SharingProofs.
Import ListNotations.

Definition sk_eqb (a b : str * str) : bool := str_eqb (fst a) (fst b) && str_eqb (snd a) (snd b).

Lemma sk_eqb_eq a b : sk_eqb a b = true <-> a = b.
Proof.
  destruct a as [s1 k1], b as [s2 k2]. unfold sk_eqb. cbn [fst snd]. rewrite andb_true_iff, !str_eqb_eq.
  split; [intros [-> ->]; reflexivity|intros [= -> ->]; auto].
Qed.

Lemma reg_find_is_kfind slug key reg : reg_find slug key reg = kfind sk_eqb (slug, key) reg.
Proof.
  unfold reg_find. induction reg as [|[[s k] id] r IH]; cbn [find kfind fst snd]; [reflexivity|].
  unfold sk_eqb at 1. cbn [fst snd]. destruct (str_eqb s slug && str_eqb k key); [reflexivity|exact IH].
Qed.

(* a sequence of registrations: (slug, hash, name in the chain, the freshly made object) *)
Fixpoint registers (st : pstate) (rs : list (str * str * str * obj)) : pstate * list nat :=
  match rs with
  | [] => (st, [])
  | (s, k, n, o) :: r => let '(st1, id) := register st s k n o in
                          let '(st2, ids) := registers st1 r in (st2, id :: ids)
  end.

Definition abs_reg (st : pstate) : list (str * str * nat) * nat := (ps_registry st, List.length (ps_objs st)).

Lemma register_is_kstep st s k n o st' id :
  register st s k n o = (st', id) -> kstep sk_eqb (abs_reg st) (s, k) = (abs_reg st', id).
Proof.
  unfold register, kstep, abs_reg. cbn [fst snd]. rewrite reg_find_is_kfind.
  destruct (kfind sk_eqb (s, k) (ps_registry st)) as [i|]; intros [= <- <-]; cbn [ps_registry ps_objs]; [reflexivity|].
  rewrite app_length. cbn [List.length]. now rewrite Nat.add_1_r.
Qed.

Lemma registers_is_krun rs : forall st st' ids,
  registers st rs = (st', ids) ->
  krun sk_eqb (abs_reg st) (map (fun r => (fst (fst (fst r)), snd (fst (fst r)))) rs) = (abs_reg st', ids).
Proof.
  induction rs as [|[[[s k] n] o] r IH]; intros st st' ids E; cbn [registers map krun fst snd] in *.
  - now injection E as <- <-.
  - destruct (register st s k n o) as [st1 id] eqn:E1. destruct (registers st1 r) as [st2 ids2] eqn:E2.
    injection E as <- <-. rewrite (register_is_kstep _ _ _ _ _ _ _ E1). now rewrite (IH _ _ _ E2).
Qed.

(* any two registrations of any sequence get the same object exactly when slug and hash agree *)
Theorem registers_shared_iff st rs st' ids i j si ki ni oi sj kj nj oj a b :
  RegInv (str * str) (abs_reg st) -> registers st rs = (st', ids) ->
  nth_error rs i = Some (si, ki, ni, oi) -> nth_error rs j = Some (sj, kj, nj, oj) ->
  nth_error ids i = Some a -> nth_error ids j = Some b ->
  (a = b <-> si = sj /\ ki = kj).
Proof.
  intros HI E Hi Hj Ha Hb. apply registers_is_krun in E.
  assert (Hi' : nth_error (map (fun r : str * str * str * obj => (fst (fst (fst r)), snd (fst (fst r)))) rs) i = Some (si, ki))
    by (rewrite nth_error_map, Hi; reflexivity).
  assert (Hj' : nth_error (map (fun r : str * str * str * obj => (fst (fst (fst r)), snd (fst (fst r)))) rs) j = Some (sj, kj))
    by (rewrite nth_error_map, Hj; reflexivity).
  rewrite (krun_shared_iff_same_key _ _ sk_eqb_eq _ _ _ _ _ _ _ _ _ _ HI E Hi' Hj' Ha Hb).
  split; [intros [= -> ->]; auto|intros [-> ->]; reflexivity].
Qed.

(* the empty registry of a fresh chain (or MultiChain) satisfies the invariant *)
Lemma fresh_registry_ok : RegInv (str * str) (abs_reg {| ps_objs := []; ps_registry := []; ps_new := [] |}).
Proof. apply reginv_empty. Qed.
