(* Invariance lemmas behind C02: what the key text does NOT depend on. *)
From Coq Require Import String Ascii List Bool Arith ZArith Lia Permutation Sorted.
From TC Require Import PyStr Value Dict Placeholder Repr Param Key StrProofs SortProofs PlaceholderProofs.
Import ListNotations.

(* ---------- more about the insertion sort ---------- *)
Section SortMore.
  Context {A : Type} (leb : A -> A -> bool).

  Lemma isort_cons x l : isort leb (x :: l) = insert_sorted leb x (isort leb l).
  Proof. reflexivity. Qed.

  Lemma insert_head x l :
    Forall (fun y => leb x y = true) l -> insert_sorted leb x l = x :: l.
  Proof. intros H. destruct l as [|y r]; [reflexivity|]. inversion H; subst. simpl. now rewrite H2. Qed.

  Lemma isort_sorted_id l : StronglySorted (fun a b => leb a b = true) l -> isort leb l = l.
  Proof.
    induction 1 as [|x l Hs IH Hx]; [reflexivity|].
    rewrite isort_cons, IH. now apply insert_head.
  Qed.
End SortMore.

Section SortMap.
  Context {A B : Type} (leA : A -> A -> bool) (leB : B -> B -> bool) (g : A -> B).
  Hypothesis mono : forall a b, leB (g a) (g b) = leA a b.

  Lemma insert_map x l : insert_sorted leB (g x) (map g l) = map g (insert_sorted leA x l).
  Proof. induction l as [|y r IH]; simpl; [reflexivity|]. rewrite mono. destruct (leA x y); simpl; [reflexivity|]. now rewrite IH. Qed.

  Lemma isort_map l : isort leB (map g l) = map g (isort leA l).
  Proof. induction l as [|x r IH]; [reflexivity|]. simpl map. rewrite !isort_cons, IH. apply insert_map. Qed.
End SortMap.

(* ---------- the registry text ---------- *)
Lemma pv_leb_total a b : pv_leb a b = true \/ pv_leb b a = true.
Proof. apply str_leb_total. Qed.
Lemma pv_leb_trans a b c : pv_leb a b = true -> pv_leb b c = true -> pv_leb a c = true.
Proof. apply str_leb_trans. Qed.

Definition pname (pv : pdecl * (value * bool)) : str := pd_name (fst pv).

(* the order in which parameters are declared is irrelevant *)
Theorem registry_repr_perm ps ps' :
  NoDup (map pname ps) -> Permutation ps ps' -> registry_repr ps = registry_repr ps'.
Proof.
  intros Hnd Hp. unfold registry_repr.
  replace (isort pv_leb ps') with (isort pv_leb ps); [reflexivity|].
  apply (sorted_perm_unique pname str_leb str_leb_antisym).
  - eapply Permutation_NoDup; [symmetry; apply Permutation_map, isort_perm|exact Hnd].
  - rewrite !isort_perm. exact Hp.
  - apply (isort_sorted pv_leb pv_leb_total pv_leb_trans).
  - apply (isort_sorted pv_leb pv_leb_total pv_leb_trans).
Qed.

Lemma somes_insert_none (f : pdecl * (value * bool) -> option str) x l :
  f x = None -> somes (map f (insert_sorted pv_leb x l)) = somes (map f l).
Proof.
  intros Hx. induction l as [|y r IH]; simpl; [now rewrite Hx|].
  destruct (pv_leb x y); simpl; [now rewrite Hx|]. destruct (f y); now rewrite IH.
Qed.

(* a parameter that is not persisted can be added or removed without changing the text *)
Theorem registry_repr_unpersisted p v ps :
  param_repr p v = None -> registry_repr ((p, v) :: ps) = registry_repr ps.
Proof.
  intros H. unfold registry_repr. rewrite isort_cons.
  now rewrite (somes_insert_none (fun pv => param_repr (fst pv) (snd pv)) (p, v)).
Qed.

Theorem ignored_not_persisted p v : pd_ignore p = true -> param_repr p v = None.
Proof. intros H. unfold param_repr. destruct v. now rewrite H. Qed.

Theorem default_not_persisted p d v fd :
  pd_ignore p = false -> pd_dropdef p = true -> pd_default p = Some d -> pd_dtype p <> DPath ->
  (fd = true \/ py_eq v d = true) -> param_repr p (v, fd) = None.
Proof.
  intros Hi Hd Hdef Hp Heq. unfold param_repr. rewrite Hi, Hd, Hdef. simpl.
  assert (E : fd || py_eq v d = true) by (destruct Heq as [->| ->]; [reflexivity|apply orb_true_r]).
  destruct (pd_dtype p); try contradiction; try (now rewrite E).
Qed.

(* ---------- substituted strings: the text depends on the source, never on global_vars ---------- *)
Theorem value_repr_independent_of_global_vars p g g' s :
  value_repr p (apply_str g s) = value_repr p (apply_str g' s).
Proof.
  destruct (apply_str_cases g s) as [[Hn ->]|[Hn ->]], (apply_str_cases g' s) as [[Hn' ->]|[Hn' ->]];
    try reflexivity; rewrite (count_independent g g') in Hn; contradiction.
Qed.

(* ---------- the inputs text ---------- *)
Lemma in_leb_total a b : in_leb a b = true \/ in_leb b a = true.
Proof. apply str_leb_total. Qed.
Lemma in_leb_trans a b c : in_leb a b = true -> in_leb b c = true -> in_leb a c = true.
Proof. apply str_leb_trans. Qed.

Theorem inputs_text_perm ns ins ins' :
  NoDup (map fst ins) -> Permutation ins ins' -> inputs_text ns ins = inputs_text ns ins'.
Proof.
  intros Hnd Hp. unfold inputs_text.
  replace (isort in_leb ins') with (isort in_leb ins); [reflexivity|].
  apply (sorted_perm_unique fst str_leb str_leb_antisym).
  - eapply Permutation_NoDup; [symmetry; apply Permutation_map, isort_perm|exact Hnd].
  - rewrite !isort_perm. exact Hp.
  - apply (isort_sorted in_leb in_leb_total in_leb_trans).
  - apply (isort_sorted in_leb in_leb_total in_leb_trans).
Qed.

Lemma str_ltb_app_prefix p a b : str_ltb (p ++ a) (p ++ b) = str_ltb a b.
Proof. induction p as [|c p IH]; simpl; [reflexivity|]. rewrite Nat.ltb_irrefl. exact IH. Qed.
Lemma str_leb_app_prefix p a b : str_leb (p ++ a) (p ++ b) = str_leb a b.
Proof. unfold str_leb. now rewrite str_ltb_app_prefix. Qed.

Lemma starts_with_app p s : starts_with p (p ++ s) = true.
Proof. induction p as [|c p IH]; simpl; [reflexivity|]. now rewrite Ascii.eqb_refl. Qed.

Lemma strip_prefixed n x : n <> [] -> strip_namespace (Some n) (n ++ lit "::" ++ x) = inl x.
Proof.
  intros Hn. unfold strip_namespace. destruct n as [|c n]; [contradiction|].
  rewrite starts_with_app. f_equal.
  replace (List.length (c :: n) + 2) with (List.length ((c :: n) ++ lit "::")) by (rewrite app_length; reflexivity).
  rewrite app_assoc. rewrite skipn_app, skipn_all, Nat.sub_diag. reflexivity.
Qed.

Definition mount (n : str) (ins : list (str * str)) : list (str * str) :=
  map (fun nk => (n ++ lit "::" ++ fst nk, snd nk)) ins.

(* mounting a pipeline under a namespace: input names gain the prefix, the text does not change *)
Theorem inputs_text_mount n ins : n <> [] -> inputs_text (Some n) (mount n ins) = inputs_text None ins.
Proof.
  intros Hn. unfold inputs_text, mount.
  rewrite (isort_map in_leb in_leb (fun nk => (n ++ lit "::" ++ fst nk, snd nk))).
  2:{ intros a b. unfold in_leb. cbn [fst snd]. rewrite !(app_assoc n). apply str_leb_app_prefix. }
  rewrite map_map.
  match goal with
  | |- match sequence (map ?F ?l) with _ => _ end = match sequence (map ?G ?l) with _ => _ end =>
      assert (E : map F l = map G l)
  end.
  { apply map_ext. intros [k v]. cbn [fst snd]. now rewrite strip_prefixed. }
  now rewrite E.

Qed.

Theorem key_text_mount n ps ins : n <> [] -> key_text (Some n) ps (mount n ins) = key_text None ps ins.
Proof. intros Hn. unfold key_text. now rewrite inputs_text_mount. Qed.

(* ---------- dict key order ---------- *)
Definition dkey_leb (a b : str * value) : bool := str_leb (fst a) (fst b).
Fixpoint norm (v : value) : value :=
  match v with
  | VList l => VList (map norm l)
  | VDict kvs => VDict (isort dkey_leb (map (fun kv => (fst kv, norm (snd kv))) kvs))
  | _ => v
  end.

Lemma kv_leb_total a b : kv_leb a b = true \/ kv_leb b a = true.
Proof. apply str_leb_total. Qed.
Lemma kv_leb_trans a b c : kv_leb a b = true -> kv_leb b c = true -> kv_leb a c = true.
Proof. apply str_leb_trans. Qed.
Lemma dkey_leb_total a b : dkey_leb a b = true \/ dkey_leb b a = true.
Proof. apply str_leb_total. Qed.
Lemma dkey_leb_trans a b c : dkey_leb a b = true -> dkey_leb b c = true -> dkey_leb a c = true.
Proof. apply str_leb_trans. Qed.

Theorem repr_inst_norm v : repr_inst (norm v) = repr_inst v.
Proof.
  induction v using value_ind'; try reflexivity.
  - cbn [norm repr_inst]. rewrite map_map.
    assert (E : map (fun x => repr_inst (norm x)) l = map repr_inst l).
    { apply map_ext_in. intros x Hx. rewrite Forall_forall in H. now apply H. }
    now rewrite E.
  - cbn [norm repr_inst].
    match goal with |- _ ++ join _ (map _ ?a) ++ _ = _ ++ join _ (map _ ?b) ++ _ => assert (E : a = b); [|now rewrite E] end.
    set (G := fun kv : str * value => (fst kv, repr_inst (snd kv))).
    set (N := fun kv : str * value => (fst kv, norm (snd kv))).
    rewrite !(isort_map dkey_leb kv_leb G (fun _ _ => eq_refl)).
    rewrite (isort_sorted_id dkey_leb) by apply (isort_sorted dkey_leb dkey_leb_total dkey_leb_trans).
    rewrite (isort_map dkey_leb dkey_leb N (fun _ _ => eq_refl)).
    rewrite map_map. apply map_ext_in. intros [k x] Hx. unfold G, N. simpl. f_equal.
    rewrite Forall_forall in H. apply (H (k, x)).
    eapply Permutation_in; [apply (isort_perm dkey_leb)|exact Hx].
Qed.

(* two values that differ only in the order of mapping keys, at any depth, have one text *)
Theorem repr_inst_dict_order v w : norm v = norm w -> repr_inst v = repr_inst w.
Proof. intros E. rewrite <- (repr_inst_norm v), <- (repr_inst_norm w). now rewrite E. Qed.

Theorem norm_dict_perm kvs kvs' :
  NoDup (map fst kvs) -> Permutation kvs kvs' -> norm (VDict kvs) = norm (VDict kvs').
Proof.
  intros Hnd Hp. simpl. f_equal.
  apply (sorted_perm_unique fst str_leb str_leb_antisym).
  - eapply Permutation_NoDup; [symmetry; apply Permutation_map, isort_perm|].
    rewrite map_map. simpl. exact Hnd.
  - rewrite !isort_perm. now apply Permutation_map.
  - apply (isort_sorted dkey_leb dkey_leb_total dkey_leb_trans).
  - apply (isort_sorted dkey_leb dkey_leb_total dkey_leb_trans).
Qed.

(* ---------- config vs context: only the effective value matters ---------- *)
Theorem set_value_effective p d1 d2 :
  cfg_get (pd_cfg p) d1 = cfg_get (pd_cfg p) d2 -> set_value p d1 = set_value p d2.
Proof. intros E. unfold set_value. now rewrite E. Qed.

(* ---------- K2a: where the order in which something was written does enter the text ---------- *)
Lemma inst_kwargs_order_matters :
  repr_inst (VInst (lit "Plain") [VInt 1] [(lit "k", VInt 1); (lit "a", VInt 2)]) <>
  repr_inst (VInst (lit "Plain") [VInt 1] [(lit "a", VInt 2); (lit "k", VInt 1)]).
Proof. vm_compute. discriminate. Qed.

Lemma auto_mapping_argument_order_matters :
  repr_inst (VAuto (lit "AutoA") [(lit "a", VDict [(lit "z", VInt 1); (lit "b", VStr (lit "q"))])]) <>
  repr_inst (VAuto (lit "AutoA") [(lit "a", VDict [(lit "b", VStr (lit "q")); (lit "z", VInt 1)])]).
Proof. vm_compute. discriminate. Qed.

(* K2c: a placeholder string under dont_persist_default_value - whether the parameter enters the key text depends on
   the value substituted for the placeholder (it is dropped exactly when the substituted text equals the default) *)
Definition k2c_param : pdecl :=
  {| pd_name := lit "q"; pd_cfg := lit "q"; pd_default := Some (VStr (lit "/mnt/x")); pd_ignore := false;
     pd_dropdef := true; pd_dtype := DAny |}.
Lemma placeholder_default_matters :
  param_repr k2c_param (sr (of_map [(lit "D", lit "/mnt")]) (VStr (lit "{D}/x")), false) <>
  param_repr k2c_param (sr (of_map [(lit "D", lit "/srv")]) (VStr (lit "{D}/x")), false).
Proof. vm_compute. discriminate. Qed.

(* K2e: global_vars given or not *)
(* global_vars given or not: a string whose repr() is the text between single quotes gets the same text both ways *)
Lemma no_global_vars_same_text p g s :
  py_repr_str s = squote :: s ++ [squote] ->
  value_repr p (apply_str g s) = value_repr p (VStr s).
Proof.
  intros Hs. destruct (apply_str_cases g s) as [[_ ->]|[_ ->]]; [reflexivity|].
  cbn [value_repr]. rewrite Hs. destruct (pd_dtype p); reflexivity.
Qed.

Definition k2e_param : pdecl :=
  {| pd_name := lit "s"; pd_cfg := lit "s"; pd_default := None; pd_ignore := false; pd_dropdef := false; pd_dtype := DAny |}.
Lemma quoted_placeholder_text_matters :
  value_repr k2e_param (apply_str (of_map []) (lit "it's {Y}")) <> value_repr k2e_param (VStr (lit "it's {Y}")).
Proof. vm_compute. discriminate. Qed.
