(* C13: task objects are shared exactly when they are the same computation (same class slug, same key);
   a MultiChain is the fold of chain constructions over one registry. *)
From Coq Require Import String Ascii List Bool Arith ZArith Lia.
From TC Require Import PyStr Value Dict Repr Param Names Config Key Chain World StrProofs DictProofs.
Import ListNotations.

Section Registry.
  Variable classes : list tclass.

  Definition slug_of_obj (o : obj) : option str :=
    match nth_error classes (o_cls o) with Some tc => Some (c_slug tc) | None => None end.

  (* every registry entry points to an object with that slug and key, and no (slug, key) is listed twice *)
  Definition RegOK (st : pstate) : Prop :=
    (forall slug key id, In (slug, key, id) (ps_registry st) ->
       exists o, nth_error (ps_objs st) id = Some o /\ slug_of_obj o = Some slug /\ o_key o = key) /\
    (forall slug key id1 id2, In (slug, key, id1) (ps_registry st) -> In (slug, key, id2) (ps_registry st) -> id1 = id2).

  Lemma reg_find_some slug key reg id :
    reg_find slug key reg = Some id -> In (slug, key, id) reg.
  Proof.
    unfold reg_find. destruct (find _ reg) as [[[s k] i]|] eqn:E; [|discriminate].
    intros H. injection H as <-. apply find_some in E. destruct E as [Hin Hb]. simpl in Hb.
    apply andb_true_iff in Hb. destruct Hb as [H1 H2]. apply str_eqb_eq in H1, H2. now subst.
  Qed.

  Lemma reg_find_none slug key reg : reg_find slug key reg = None -> forall id, ~ In (slug, key, id) reg.
  Proof.
    unfold reg_find. destruct (find _ reg) as [e|] eqn:E; [discriminate|]. intros _ id Hin.
    apply (find_none _ _ E) in Hin. simpl in Hin. now rewrite !str_eqb_refl in Hin.
  Qed.

  Lemma reg_find_in slug key reg id :
    In (slug, key, id) reg -> exists id', reg_find slug key reg = Some id'.
  Proof.
    intros Hin. destruct (reg_find slug key reg) eqn:E; [eauto|]. exfalso. eapply reg_find_none; eauto.
  Qed.

  (* registration of an object whose slug and key are the ones announced *)
  Definition well_announced (slug key : str) (o : obj) : Prop := slug_of_obj o = Some slug /\ o_key o = key.

  Theorem register_hit st slug key name o id :
    reg_find slug key (ps_registry st) = Some id ->
    register st slug key name o =
    ({| ps_objs := ps_objs st; ps_registry := ps_registry st; ps_new := dset name id (ps_new st) |}, id).
  Proof. intros H. unfold register. now rewrite H. Qed.

  Theorem register_miss st slug key name o :
    reg_find slug key (ps_registry st) = None ->
    register st slug key name o =
    ({| ps_objs := ps_objs st ++ [o]; ps_registry := ps_registry st ++ [(slug, key, List.length (ps_objs st))];
        ps_new := dset name (List.length (ps_objs st)) (ps_new st) |}, List.length (ps_objs st)).
  Proof. intros H. unfold register. now rewrite H. Qed.

  Theorem register_keeps_regok st slug key name o st' id :
    RegOK st -> well_announced slug key o -> register st slug key name o = (st', id) ->
    RegOK st' /\ exists o', nth_error (ps_objs st') id = Some o' /\ slug_of_obj o' = Some slug /\ o_key o' = key.
  Proof.
    intros [H1 H2] [Hs Hk] E. unfold register in E.
    destruct (reg_find slug key (ps_registry st)) as [id0|] eqn:Ef.
    - injection E as <- <-. split; [split; assumption|]. apply reg_find_some in Ef. now apply H1.
    - injection E as <- <-. split; [split|].
      + intros s k i Hin. cbn [ps_registry ps_objs] in *. apply in_app_or in Hin. destruct Hin as [Hin|[Hin|[]]].
        * destruct (H1 _ _ _ Hin) as [o' [Hn Ho']]. exists o'. split; [|exact Ho'].
          rewrite nth_error_app1; [exact Hn|]. apply nth_error_Some. congruence.
        * injection Hin as <- <- <-. exists o. split; [|auto].
          rewrite nth_error_app2 by lia. now rewrite Nat.sub_diag.
      + intros s k i1 i2 Hi1 Hi2. cbn [ps_registry] in *.
        apply in_app_or in Hi1. apply in_app_or in Hi2.
        destruct Hi1 as [Hi1|[Hi1|[]]], Hi2 as [Hi2|[Hi2|[]]].
        * eapply H2; eauto.
        * injection Hi2 as <- <- <-. exfalso. eapply reg_find_none; eauto.
        * injection Hi1 as <- <- <-. exfalso. eapply reg_find_none; eauto.
        * injection Hi1 as _ _ <-. now injection Hi2 as _ _ <-.
      + cbn [ps_objs]. exists o. split; [|auto]. rewrite nth_error_app2 by lia. now rewrite Nat.sub_diag.
  Qed.

  (* two registrations over one registry (within a chain, or across the chains of a MultiChain) yield
     the same task object exactly when slug and key coincide *)
  Theorem shared_iff_same_computation st s1 k1 n1 o1 st1 id1 s2 k2 n2 o2 st2 id2 :
    RegOK st -> well_announced s1 k1 o1 -> well_announced s2 k2 o2 ->
    register st s1 k1 n1 o1 = (st1, id1) -> register st1 s2 k2 n2 o2 = (st2, id2) ->
    (id1 = id2 <-> s1 = s2 /\ k1 = k2).
  Proof.
    intros Hok Ha1 Ha2 E1 E2.
    destruct (register_keeps_regok _ _ _ _ _ _ _ Hok Ha1 E1) as [Hok1 [o1' [Hn1 [Hs1 Hk1]]]].
    destruct (register_keeps_regok _ _ _ _ _ _ _ Hok1 Ha2 E2) as [Hok2 [o2' [Hn2 [Hs2 Hk2]]]].
    assert (Hin1 : In (s1, k1, id1) (ps_registry st1)).
    { unfold register in E1. destruct (reg_find s1 k1 (ps_registry st)) as [i|] eqn:Ef; injection E1 as <- <-; cbn [ps_registry].
      - now apply reg_find_some.
      - apply in_or_app. right. now left. }
    assert (Hmono : forall e, In e (ps_registry st1) -> In e (ps_registry st2)).
    { intros e He. unfold register in E2. destruct (reg_find s2 k2 (ps_registry st1)); injection E2 as <- _; cbn [ps_registry]; auto.
      apply in_or_app. now left. }
    assert (Hobjs : forall i o, nth_error (ps_objs st1) i = Some o -> nth_error (ps_objs st2) i = Some o).
    { intros i o Hi. unfold register in E2. destruct (reg_find s2 k2 (ps_registry st1)); injection E2 as <- _; cbn [ps_objs]; auto.
      rewrite nth_error_app1; [exact Hi|]. apply nth_error_Some. congruence. }
    assert (Hin2 : In (s2, k2, id2) (ps_registry st2)).
    { unfold register in E2. destruct (reg_find s2 k2 (ps_registry st1)) as [i|] eqn:Ef; injection E2 as <- <-; cbn [ps_registry].
      - now apply reg_find_some.
      - apply in_or_app. right. now left. }
    split.
    - intros <-. apply Hobjs in Hn1. rewrite Hn1 in Hn2. injection Hn2 as <-. split; congruence.
    - intros [<- <-]. destruct Hok2 as [_ Hu]. eapply Hu; [apply Hmono; exact Hin1|exact Hin2].
  Qed.
End Registry.

(* a MultiChain is the fold of Chain constructions threading one set of objects and one registry *)
Theorem build_multi_cons H w b bases objs reg :
  build_multi H w (b :: bases) objs reg =
  match build H w b objs reg with
  | inr e => inr e
  | inl (rc, objs1, reg1) =>
      match build_multi H w bases objs1 reg1 with
      | inl (rcs, objs2, reg2) => inl (rc :: rcs, objs2, reg2)
      | inr e => inr e
      end
  end.
Proof. reflexivity. Qed.

Theorem build_multi_nil H w objs reg : build_multi H w [] objs reg = inl ([], objs, reg).
Proof. reflexivity. Qed.

(* ---------- the key of a task does not depend on what the registry already holds ---------- *)
Section Keys.
  Variable H : str -> str.
  Variable classes : list tclass.
  Variable tasks1 : list (str * node).

  (* the key a first-pass task must get: the hash chain over its inputs *)
  Inductive KeyOf : str -> str -> Prop :=
  | KeyOf_intro name nd inkeys key :
      dget name tasks1 = Some nd -> InKeys (n_inputs nd) inkeys ->
      task_key H (n_ns nd) (n_params nd) inkeys = inl key -> KeyOf name key
  with InKeys : list (str * (str + value)) -> list (str * str) -> Prop :=
  | IK_nil : InKeys [] []
  | IK_task k t key r rs : KeyOf t key -> InKeys r rs -> InKeys ((k, inl t) :: r) ((k, key) :: rs)
  | IK_default k d r rs : InKeys r rs -> InKeys ((k, inr d) :: r) rs.

  Scheme KeyOf_mut := Induction for KeyOf Sort Prop
  with InKeys_mut := Induction for InKeys Sort Prop.

  Theorem KeyOf_functional : forall name k1, KeyOf name k1 -> forall k2, KeyOf name k2 -> k1 = k2.
  Proof.
    apply (KeyOf_mut (fun name k1 _ => forall k2, KeyOf name k2 -> k1 = k2)
                     (fun ins ks1 _ => forall ks2, InKeys ins ks2 -> ks1 = ks2)).
    - intros name nd inkeys key Hd Hi IH Hk k2 H2. inversion H2 as [n nd2 inkeys2 key2 Hd2 Hi2 Hk2]; subst.
      rewrite Hd in Hd2. injection Hd2 as <-. rewrite (IH _ Hi2) in Hk. rewrite Hk in Hk2. now injection Hk2.
    - intros ks2 H2. now inversion H2.
    - intros k t key r rs Hk IHk Hr IHr ks2 H2. inversion H2; subst. f_equal; [f_equal; now apply IHk|now apply IHr].
    - intros k d r rs Hr IHr ks2 H2. inversion H2; subst. now apply IHr.
  Qed.

  Lemma InKeys_app a ka b kb : InKeys a ka -> InKeys b kb -> InKeys (a ++ b) (ka ++ kb).
  Proof. induction 1; simpl; intros; [assumption|constructor; auto|constructor; auto]. Qed.

  Definition Ext (st st' : pstate) : Prop := exists l, ps_objs st' = ps_objs st ++ l.
  Lemma Ext_refl st : Ext st st. Proof. exists []. now rewrite app_nil_r. Qed.
  Lemma Ext_trans a b c : Ext a b -> Ext b c -> Ext a c.
  Proof. intros [l1 H1] [l2 H2]. exists (l1 ++ l2). now rewrite H2, H1, app_assoc. Qed.

  Lemma obj_key_ext st st' id : Ext st st' -> id < List.length (ps_objs st) -> obj_key st' id = obj_key st id.
  Proof. intros [l Hl] Hlt. unfold obj_key. rewrite Hl. now rewrite nth_error_app1. Qed.

  Definition NewOK (st : pstate) : Prop :=
    forall n i, dget n (ps_new st) = Some i -> i < List.length (ps_objs st) /\ KeyOf n (obj_key st i).
  Definition Good (st : pstate) : Prop := RegOK classes st /\ NewOK st.

  Definition kstep (f : nat) :=
    fun (racc : res (pstate * list (str * str))) (inp : str * (str + value)) =>
      match racc with
      | inr e => inr e
      | inl (s, keys) =>
          match snd inp with
          | inr _ => inl (s, keys)
          | inl tname =>
              match get_task H classes f tasks1 tname s with
              | inl (s', id) => inl (s', keys ++ [(fst inp, obj_key s' id)])
              | inr e => inr e
              end
          end
      end.

  Definition PK (f : nat) : Prop :=
    forall name st st' id, Good st -> get_task H classes f tasks1 name st = inl (st', id) ->
      Good st' /\ Ext st st' /\ id < List.length (ps_objs st') /\ KeyOf name (obj_key st' id).

  Lemma kfold_err f l e : fold_left (kstep f) l (inr e) = inr e.
  Proof. induction l as [|x r IH]; simpl; auto. Qed.

  (* keys collected so far stay valid while objects are only appended *)
  Definition KeysValid (st : pstate) (done : list (str * (str + value))) (keys : list (str * str)) : Prop :=
    InKeys done keys.

  Lemma kfold f : PK f -> forall rest done s keys s' keys',
      Good s -> InKeys done keys ->
      fold_left (kstep f) rest (inl (s, keys)) = inl (s', keys') ->
      Good s' /\ Ext s s' /\ InKeys (done ++ rest) keys'.
  Proof.
    intros HP. induction rest as [|[k [t|d]] r IH]; intros done s keys s' keys' Hg Hk Hf.
    - simpl in Hf. injection Hf as <- <-. rewrite app_nil_r. split; [exact Hg|split; [apply Ext_refl|exact Hk]].
    - cbn [fold_left kstep snd fst] in Hf.
      destruct (get_task H classes f tasks1 t s) as [[s1 id]|e] eqn:Eg; [|rewrite kfold_err in Hf; discriminate].
      destruct (HP _ _ _ _ Hg Eg) as (Hg1 & He1 & Hlt & Hko).
      replace (done ++ (k, inl t) :: r) with ((done ++ [(k, inl t)]) ++ r) by now rewrite <- app_assoc.
      destruct (IH (done ++ [(k, inl t)]) s1 (keys ++ [(k, obj_key s1 id)]) s' keys' Hg1) as (Hg' & He' & Hk'); auto.
      + apply InKeys_app; [exact Hk|]. constructor; [exact Hko|constructor].
      + split; [exact Hg'|split; [eapply Ext_trans; eauto|exact Hk']].
    - cbn [fold_left kstep snd fst] in Hf.
      replace (done ++ (k, inr d) :: r) with ((done ++ [(k, inr d)]) ++ r) by now rewrite <- app_assoc.
      destruct (IH (done ++ [(k, inr d)]) s keys s' keys' Hg) as (Hg' & He' & Hk'); auto.
      replace keys with (keys ++ []) by apply app_nil_r. apply InKeys_app; [exact Hk|]. constructor. constructor.
  Qed.

  Lemma register_ext st slug key name o st' id : register st slug key name o = (st', id) -> Ext st st'.
  Proof.
    unfold register. destruct (reg_find slug key (ps_registry st)); intros E; injection E as <- _.
    - exists []. simpl. now rewrite app_nil_r.
    - eexists. reflexivity.
  Qed.

  Lemma register_new st slug key name o st' id :
    register st slug key name o = (st', id) -> ps_new st' = dset name id (ps_new st).
  Proof. unfold register. destruct (reg_find slug key (ps_registry st)); intros E; now injection E as <- <-. Qed.

  Theorem keys_all_fuel f : PK f.
  Proof.
    induction f as [|f IHf]; intros name st st' id Hg Hget; [discriminate|].
    cbn [get_task] in Hget. fold (kstep f) in Hget.
    destruct (dget name tasks1) as [nd|] eqn:En; [|discriminate].
    destruct (dget name (ps_new st)) as [id0|] eqn:Ed.
    { injection Hget as <- <-. destruct (proj2 Hg _ _ Ed) as [Hlt Hk].
      split; [exact Hg|split; [apply Ext_refl|split; assumption]]. }
    destruct (fold_left (kstep f) (n_inputs nd) (inl (st, []))) as [[st1 inkeys]|e] eqn:Ef; [|discriminate].
    destruct (kfold f IHf (n_inputs nd) [] st [] st1 inkeys Hg IK_nil Ef) as (Hg1 & He1 & Hik). simpl in Hik.
    destruct (cls classes (n_cls nd)) as [tc|e] eqn:Ec; [|discriminate].
    destruct (task_key H (n_ns nd) (n_params nd) inkeys) as [key|e] eqn:Ek; [|discriminate].
    injection Hget as Hreg.
    set (o := {| o_cls := n_cls nd; o_cfg := n_cfg nd; o_ns := n_ns nd; o_cfgname := n_cfgname nd;
                 o_ctxname := n_ctxname nd; o_fullname := name;
                 o_params := n_params nd; o_inkeys := inkeys; o_key := key; o_inputs := [] |}) in *.
    destruct (register st1 (c_slug tc) key name o) as [st2 id2] eqn:Er. injection Hreg as <- <-.
    destruct Hg1 as [Hr1 Hn1].
    assert (Hwa : well_announced classes (c_slug tc) key o).
    { split; [|reflexivity]. unfold slug_of_obj, o. simpl. unfold cls in Ec.
      destruct (nth_error classes (n_cls nd)); [now injection Ec as ->|discriminate]. }
    destruct (register_keeps_regok classes _ _ _ _ _ _ _ Hr1 Hwa Er) as [Hr2 [o' [Hno [_ Hko]]]].
    pose proof (register_ext _ _ _ _ _ _ _ Er) as He2.
    assert (Hid : id2 < List.length (ps_objs st2)) by (apply nth_error_Some; congruence).
    assert (Hkey : obj_key st2 id2 = key) by (unfold obj_key; now rewrite Hno).
    assert (Hkof : KeyOf name key) by (econstructor; eauto).
    split; [split; [exact Hr2|]|split; [eapply Ext_trans; eauto|split; [exact Hid|now rewrite Hkey]]].
    - intros n i Hd. rewrite (register_new _ _ _ _ _ _ _ Er) in Hd.
      destruct (str_eq_dec n name) as [->|Hne].
      + rewrite dget_dset_same in Hd. injection Hd as <-. split; [exact Hid|now rewrite Hkey].
      + rewrite dget_dset_other in Hd by assumption. destruct (Hn1 _ _ Hd) as [Hlt Hk]. split.
        * destruct He2 as [l Hl]. rewrite Hl, app_length. lia.
        * now rewrite (obj_key_ext _ _ _ He2 Hlt).
  Qed.

  Theorem recreate_keys fuel todo st st' :
    Good st -> recreate H classes fuel tasks1 todo st = inl st' -> Good st' /\ Ext st st'.
  Proof.
    revert st. induction todo as [|[n nd] r IH]; intros st Hg Hr; cbn [recreate] in Hr.
    - injection Hr as <-. split; [exact Hg|apply Ext_refl].
    - destruct (get_task H classes fuel tasks1 n st) as [[s1 id]|e] eqn:Eg; [|discriminate].
      destruct (keys_all_fuel fuel _ _ _ _ Hg Eg) as (Hg1 & He1 & _).
      destruct (IH _ Hg1 Hr) as [Hg' He']. split; [exact Hg'|eapply Ext_trans; eauto].
  Qed.

  (* Two re-creations of the same first-pass tasks - one starting from whatever objects and registry a
     MultiChain (or earlier chains) already hold, one starting from nothing - give every task the same key. *)
  Theorem member_key_equals_standalone fuel1 fuel2 todo1 todo2 objs reg st1 st2 name i1 i2 :
    Good {| ps_objs := objs; ps_registry := reg; ps_new := [] |} ->
    recreate H classes fuel1 tasks1 todo1 {| ps_objs := objs; ps_registry := reg; ps_new := [] |} = inl st1 ->
    recreate H classes fuel2 tasks1 todo2 {| ps_objs := []; ps_registry := []; ps_new := [] |} = inl st2 ->
    dget name (ps_new st1) = Some i1 -> dget name (ps_new st2) = Some i2 ->
    obj_key st1 i1 = obj_key st2 i2.
  Proof.
    intros Hg H1 H2 D1 D2.
    destruct (recreate_keys _ _ _ _ Hg H1) as [[_ Hn1] _].
    assert (Hg0 : Good {| ps_objs := []; ps_registry := []; ps_new := [] |}).
    { split; [split; intros; contradiction|intros n i Hd; discriminate]. }
    destruct (recreate_keys _ _ _ _ Hg0 H2) as [[_ Hn2] _].
    eapply KeyOf_functional; [apply (Hn1 _ _ D1)|apply (Hn2 _ _ D2)].
  Qed.
End Keys.
