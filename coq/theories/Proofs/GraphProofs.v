From Coq Require Import List Bool Arith Lia.
From TC Require Import Graph.
Import ListNotations.

Section ReachFacts.
  Variable edge : nat -> nat -> bool.
  Variable nodes : list nat.

  (* a non-empty walk along arcs whose intermediate and final nodes belong to `nodes` *)
  Inductive Path (a : nat) : nat -> Prop :=
  | path_one x : edge a x = true -> In x nodes -> Path a x
  | path_step y x : Path a y -> edge y x = true -> In x nodes -> Path a x.

  Lemma mem_in x l : mem x l = true <-> In x l.
  Proof.
    unfold mem. rewrite existsb_exists. split.
    - intros [y [Hy E]]. apply Nat.eqb_eq in E. now subst.
    - intros H. exists x. split; [exact H|apply Nat.eqb_refl].
  Qed.

  Lemma frontier_spec acc i :
    In i (frontier edge nodes acc) <-> In i nodes /\ ~ In i acc /\ exists a, In a acc /\ edge a i = true.
  Proof.
    unfold frontier. rewrite filter_In, andb_true_iff, negb_true_iff, existsb_exists.
    split.
    - intros [Hn [Hm He]]. repeat split; auto. intro Hi. apply mem_in in Hi. congruence.
    - intros [Hn [Hm He]]. repeat split; auto. destruct (mem i acc) eqn:E; auto. apply mem_in in E. contradiction.
  Qed.

  Lemma path_trans a b c : Path a b -> Path b c -> Path a c.
  Proof.
    intros Hab Hbc. induction Hbc as [x He Hn|y x Hp IH He Hn].
    - eapply path_step; eauto.
    - eapply path_step; [exact IH|exact He|exact Hn].
  Qed.

  (* soundness: only roots and nodes reachable from a root are collected *)
  Lemma reach_sound fuel acc x :
    In x (reach edge nodes fuel acc) -> In x acc \/ exists a, In a acc /\ Path a x.
  Proof.
    revert acc. induction fuel as [|f IH]; intros acc H; simpl in H; [now left|].
    destruct (frontier edge nodes acc) as [|n0 next0] eqn:Ef; [now left|].
    apply IH in H. destruct H as [H|[a [Ha Hp]]].
    - apply in_app_or in H. destruct H as [H|H]; [now left|].
      rewrite <- Ef in H. apply frontier_spec in H. destruct H as [Hn [_ [a [Ha He]]]].
      right. exists a. split; [exact Ha|now apply path_one].
    - apply in_app_or in Ha. destruct Ha as [Ha|Ha]; [right; eauto|].
      rewrite <- Ef in Ha. apply frontier_spec in Ha. destruct Ha as [Hn [_ [b [Hb He]]]].
      right. exists b. split; [exact Hb|]. eapply path_trans; [apply path_one; eauto|exact Hp].
  Qed.

  Lemma reach_incl fuel acc x : In x acc -> In x (reach edge nodes fuel acc).
  Proof.
    revert acc. induction fuel as [|f IH]; intros acc H; simpl; [exact H|].
    destruct (frontier edge nodes acc); [exact H|]. apply IH. apply in_or_app. now left.
  Qed.

  (* number of nodes not collected yet *)
  Definition missing (acc : list nat) : nat := length (filter (fun i => negb (mem i acc)) nodes).

  Lemma mem_app_l z acc next : mem z acc = true -> mem z (acc ++ next) = true.
  Proof. intros H. apply mem_in, in_or_app. left. now apply mem_in. Qed.

  Lemma filter_mono acc next l :
    length (filter (fun i => negb (mem i (acc ++ next))) l) <= length (filter (fun i => negb (mem i acc)) l).
  Proof.
    induction l as [|z zs IH]; simpl; [lia|].
    destruct (mem z acc) eqn:E1.
    - rewrite (mem_app_l _ _ next E1). simpl. exact IH.
    - simpl. destruct (mem z (acc ++ next)); simpl; lia.
  Qed.

  Lemma filter_strict acc next n0 l :
    In n0 l -> ~ In n0 acc -> In n0 next ->
    length (filter (fun i => negb (mem i (acc ++ next))) l) < length (filter (fun i => negb (mem i acc)) l).
  Proof.
    intros Hin Hnot Hnext.
    assert (E1 : mem n0 acc = false) by (destruct (mem n0 acc) eqn:E; auto; apply mem_in in E; contradiction).
    assert (E2 : mem n0 (acc ++ next) = true) by (apply mem_in, in_or_app; now right).
    induction l as [|z zs IH]; [contradiction|]. simpl. destruct Hin as [->|Hin].
    - rewrite E1, E2. simpl. pose proof (filter_mono acc next zs). lia.
    - specialize (IH Hin). destruct (mem z acc) eqn:E3.
      + rewrite (mem_app_l _ _ next E3). simpl. exact IH.
      + simpl. destruct (mem z (acc ++ next)); simpl; lia.
  Qed.

  Lemma missing_app_lt acc next :
    next <> [] -> (forall i, In i next -> In i nodes /\ ~ In i acc) ->
    missing (acc ++ next) < missing acc.
  Proof.
    intros Hne Hn. unfold missing. destruct next as [|n0 r]; [contradiction|].
    destruct (Hn n0 (or_introl eq_refl)) as [Hin Hnot].
    apply (filter_strict acc (n0 :: r) n0); auto. now left.
  Qed.

  Lemma reach_closed fuel acc :
    missing acc < fuel -> frontier edge nodes (reach edge nodes fuel acc) = [].
  Proof.
    revert acc. induction fuel as [|f IH]; intros acc Hm; [lia|]. simpl.
    destruct (frontier edge nodes acc) as [|n0 next0] eqn:Ef; [exact Ef|].
    apply IH.
    assert (missing (acc ++ n0 :: next0) < missing acc); [|lia].
    apply missing_app_lt; [discriminate|].
    intros i Hi. rewrite <- Ef in Hi. apply frontier_spec in Hi. tauto.
  Qed.

  Lemma missing_le acc : missing acc <= length nodes.
  Proof. unfold missing. induction nodes as [|z zs IH]; simpl; [lia|]. destruct (negb (mem z acc)); simpl; lia. Qed.

  (* completeness: a closed set containing the roots contains everything reachable from them *)
  Lemma closed_complete acc a x :
    frontier edge nodes acc = [] -> In a acc -> Path a x -> In x acc.
  Proof.
    intros Hc Ha Hp. induction Hp as [x He Hn|y x Hp IH He Hn].
    - destruct (in_dec Nat.eq_dec x acc) as [Hi|Hni]; [exact Hi|].
      assert (Hf : In x (frontier edge nodes acc)) by (apply frontier_spec; eauto).
      rewrite Hc in Hf. contradiction.
    -       destruct (in_dec Nat.eq_dec x acc) as [Hi|Hni]; [exact Hi|].
      assert (Hf : In x (frontier edge nodes acc)) by (apply frontier_spec; eauto).
      rewrite Hc in Hf. contradiction.
  Qed.

  (* closure_from is exactly: the roots and everything reachable from one of them *)
  Theorem closure_from_spec roots x :
    In x (closure_from edge nodes roots) <-> In x roots \/ exists a, In a roots /\ Path a x.
  Proof.
    unfold closure_from. split.
    - apply reach_sound.
    - intros [H|[a [Ha Hp]]].
      + now apply reach_incl.
      + eapply closed_complete; [|apply reach_incl; exact Ha|exact Hp].
        apply reach_closed. pose proof (missing_le roots). lia.
  Qed.
End ReachFacts.

Theorem descendants_spec edge nodes x y :
  In y (descendants edge nodes x) <-> y <> x /\ Path edge nodes x y.
Proof.
  unfold descendants. rewrite filter_In, closure_from_spec, negb_true_iff, Nat.eqb_neq. split.
  - intros [[[->|[]]|[a [[->|[]] Hp]]] Hne]; [contradiction|auto].
  - intros [Hne Hp]. split; [right; exists x; split; [now left|exact Hp]|exact Hne].
Qed.

Theorem ancestors_spec edge nodes x y :
  In y (ancestors edge nodes x) <-> y <> x /\ Path (fun a b => edge b a) nodes x y.
Proof. apply descendants_spec. Qed.

Theorem has_path_spec edge nodes a b :
  has_path edge nodes a b = true <-> b = a \/ Path edge nodes a b.
Proof.
  unfold has_path. rewrite mem_in, closure_from_spec. split.
  - intros [[->|[]]|[x [[->|[]] Hp]]]; auto.
  - intros [->|Hp]; [left; now left|right; exists a; split; [now left|exact Hp]].
Qed.
