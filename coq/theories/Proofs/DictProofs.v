From Coq Require Import List Ascii String Bool Arith Lia Permutation.
From TC Require Import PyStr Dict StrProofs.
Import ListNotations.

Section DictFacts.
  Context {V : Type}.
  Implicit Types (v : V) (d : list (str * V)).
Lemma dget_dset_same k v d : dget k (dset k v d) = Some v.
Proof.
  induction d as [|[k' v'] r IH]; simpl; [now rewrite str_eqb_refl|].
  destruct (str_eqb k k') eqn:E; simpl; [now rewrite str_eqb_refl|]. now rewrite E.
Qed.

Lemma dget_dset_other k k' v d : k <> k' -> dget k (dset k' v d) = dget k d.
Proof.
  intros Hne. induction d as [|[k2 v2] r IH]; simpl.
  - apply str_eqb_neq in Hne. now rewrite Hne.
  - destruct (str_eqb k' k2) eqn:E; simpl.
    + apply str_eqb_eq in E. subst. apply str_eqb_neq in Hne. now rewrite Hne.
    + destruct (str_eqb k k2); auto.
Qed.

Lemma dset_keys k v d : In k (map fst d) -> map fst (dset k v d) = map fst d.
Proof.
  induction d as [|[k' v'] r IH]; simpl; [contradiction|].
  destruct (str_eqb k k') eqn:E; simpl.
  - apply str_eqb_eq in E. now subst.
  - intros [H|H]; [apply str_eqb_neq in E; congruence|]. f_equal. now apply IH.
Qed.

Lemma dset_keys_new k v d : ~ In k (map fst d) -> map fst (dset k v d) = map fst d ++ [k].
Proof.
  induction d as [|[k' v'] r IH]; simpl; intros H; [reflexivity|].
  destruct (str_eqb k k') eqn:E.
  - apply str_eqb_eq in E. subst. exfalso. apply H. now left.
  - simpl. f_equal. apply IH. intro. apply H. now right.
Qed.

Lemma dset_nodup k v d : NoDup (map fst d) -> NoDup (map fst (dset k v d)).
Proof.
  intros H. destruct (in_dec str_eq_dec k (map fst d)) as [Hi|Hn].
  - now rewrite dset_keys.
  - rewrite dset_keys_new by assumption.
    eapply Permutation_NoDup; [apply Permutation_cons_append|]. now constructor.
Qed.


  Lemma dset_nil_eq k v : dset k v (@nil (str * V)) = [(k, v)].
  Proof. reflexivity. Qed.

  Lemma dget_ddel_same k d : dget k (ddel k d) = None.
  Proof.
    unfold ddel. induction d as [|[k' v] r IH]; simpl; [reflexivity|].
    destruct (str_eqb k k') eqn:E; simpl; [exact IH|]. now rewrite E.
  Qed.

  Lemma dget_ddel_other k k' d : k <> k' -> dget k (ddel k' d) = dget k d.
  Proof.
    intros Hne. unfold ddel. induction d as [|[k2 v] r IH]; simpl; [reflexivity|].
    destruct (str_eqb k' k2) eqn:E; simpl.
    - apply str_eqb_eq in E. subst. apply str_eqb_neq in Hne. now rewrite Hne.
    - destruct (str_eqb k k2); auto.
  Qed.
End DictFacts.
