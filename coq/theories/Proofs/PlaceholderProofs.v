From Coq Require Import List Ascii String Bool Arith Lia.
From TC Require Import PyStr Value Placeholder StrProofs.
Import ListNotations.

(* ---------- an independent description of "occurrence of a placeholder" ---------- *)
Definition name_ok (name : str) : Prop := ~ In rbrace name /\ ~ In newline name.
Definition no_close (r : str) : Prop := forall name rest, name_ok name -> r <> name ++ rbrace :: rest.

Inductive Subst (g : str -> option str) : str -> str -> nat -> Prop :=
| Sb_nil : Subst g [] [] 0
| Sb_match name rest out n :
    name_ok name -> Subst g rest out n ->
    Subst g (lbrace :: name ++ rbrace :: rest) (replacement g name ++ out) (S n)
| Sb_keep c r out n :
    c <> lbrace \/ no_close r -> Subst g r out n -> Subst g (c :: r) (c :: out) n.

Lemma scan_close_some r name rest :
  scan_close r = Some (name, rest) -> name_ok name /\ r = name ++ rbrace :: rest.
Proof.
  revert name rest. induction r as [|c r IH]; intros name rest; cbn [scan_close]; [discriminate|].
  destruct (Ascii.eqb c rbrace) eqn:E1.
  - apply Ascii.eqb_eq in E1. subst. intros H. injection H as <- <-. split; [split; intros []|reflexivity].
  - destruct (Ascii.eqb c newline) eqn:E2; [discriminate|].
    destruct (scan_close r) as [[n' r']|] eqn:Es; [|discriminate].
    intros H. injection H as <- <-. destruct (IH _ _ eq_refl) as [[H1 H2] ->].
    apply Ascii.eqb_neq in E1, E2.
    split; [split; intros [H|H]; auto|reflexivity].
Qed.

Lemma scan_close_none r : scan_close r = None -> no_close r.
Proof.
  induction r as [|c r IH]; cbn [scan_close]; intros H name rest [Hb Hn] E.
  - destruct name; discriminate.
  - destruct (Ascii.eqb c rbrace) eqn:E1; [discriminate|].
    destruct (Ascii.eqb c newline) eqn:E2.
    + apply Ascii.eqb_eq in E2. subst c. destruct name as [|x name]; cbn [app] in E.
      * injection E as E _. apply Ascii.eqb_neq in E1. congruence.
      * injection E as Ex _. subst x. apply Hn. now left.
    + destruct (scan_close r) as [[n' r']|] eqn:Es; [discriminate|].
      destruct name as [|x name]; cbn [app] in E.
      * injection E as E _. apply Ascii.eqb_neq in E1. congruence.
      * injection E as -> E. apply (IH eq_refl name rest); auto.
        split; intro; [apply Hb|apply Hn]; now right.
Qed.

Lemma subst_go_skip g pre rest : subst_go g (pre ++ rest) (List.length pre) = subst_go g rest 0.
Proof. induction pre as [|c pre IH]; simpl; auto. Qed.

Lemma subst_go_nil g k : subst_go g [] k = ([], 0).
Proof. reflexivity. Qed.

Theorem subst_meets_spec g s : Subst g s (fst (subst g s)) (snd (subst g s)).
Proof.
  unfold subst. induction s as [s IH] using str_len_ind.
  destruct s as [|c r]; [constructor|].
  cbn [subst_go]. destruct (Ascii.eqb c lbrace) eqn:Ec.
  - apply Ascii.eqb_eq in Ec. subst c.
    destruct (scan_close r) as [[name rest]|] eqn:Es.
    + destruct (scan_close_some _ _ _ Es) as [Hok ->].
      replace (name ++ rbrace :: rest) with ((name ++ [rbrace]) ++ rest) by now rewrite <- app_assoc.
      replace (S (List.length name)) with (List.length (name ++ [rbrace])) by (rewrite app_length; simpl; lia).
      rewrite subst_go_skip. rewrite <- app_assoc. simpl app.
      specialize (IH rest). destruct (subst_go g rest 0) as [out n] eqn:Er. simpl.
      apply Sb_match; auto. apply IH. simpl. rewrite app_length. simpl. lia.
    + specialize (IH r). destruct (subst_go g r 0) as [out n]. simpl.
      apply Sb_keep; [right; now apply scan_close_none|]. apply IH. simpl. lia.
  - specialize (IH r). destruct (subst_go g r 0) as [out n]. simpl.
    apply Sb_keep; [left; now apply Ascii.eqb_neq|]. apply IH. simpl. lia.
Qed.

(* the description determines the result: it is a specification, not a restatement *)
Lemma name_ok_split n1 r1 n2 r2 :
  name_ok n1 -> name_ok n2 -> n1 ++ rbrace :: r1 = n2 ++ rbrace :: r2 -> n1 = n2 /\ r1 = r2.
Proof.
  revert n2. induction n1 as [|x n1 IH]; intros n2 [H1 H1'] [H2 H2'] E.
  - destruct n2 as [|y n2]; simpl in E; [injection E; auto|].
    injection E as <- _. exfalso. apply H2. now left.
  - destruct n2 as [|y n2]; simpl in E.
    + injection E as -> _. exfalso. apply H1. now left.
    + injection E as -> E. destruct (IH n2) as [-> ->]; auto; split; intro; auto;
        [apply H1|apply H1'|apply H2|apply H2']; now right.
Qed.

Theorem Subst_functional g s o1 n1 o2 n2 : Subst g s o1 n1 -> Subst g s o2 n2 -> o1 = o2 /\ n1 = n2.
Proof.
  intros H1. revert o2 n2. induction H1 as [|name rest out n Hok _ IH|c r out n Hc _ IH]; intros o2 n2 H2.
  - inversion H2; auto.
  - inversion H2 as [|name' rest' out' n' Hok' Hs' E|c' r' out' n' Hc' Hs' E]; subst.
    + destruct (name_ok_split _ _ _ _ Hok Hok' (eq_sym E)) as [-> ->].
      destruct (IH _ _ Hs') as [-> ->]. auto.
    + destruct Hc' as [Hc'|Hc']; [congruence|]. exfalso. eapply Hc'; eauto.
  - inversion H2 as [|name' rest' out' n' Hok' Hs' E|c' r' out' n' Hc' Hs' E]; subst.
    + destruct Hc as [Hc|Hc]; [congruence|]. exfalso. eapply Hc; eauto.
    + destruct (IH _ _ Hs') as [-> ->]. auto.
Qed.

(* ---------- consequences ---------- *)
Lemma subst_go_count_indep g g' s k : snd (subst_go g s k) = snd (subst_go g' s k).
Proof.
  revert k. induction s as [|c r IH]; intros k; [reflexivity|].
  cbn [subst_go]. destruct k as [|k]; [|apply IH].
  destruct (Ascii.eqb c lbrace).
  - destruct (scan_close r) as [[name rest]|].
    + specialize (IH (S (List.length name))).
      destruct (subst_go g r _), (subst_go g' r _). simpl in *. congruence.
    + specialize (IH 0). destruct (subst_go g r 0), (subst_go g' r 0). simpl in *. congruence.
  - specialize (IH 0). destruct (subst_go g r 0), (subst_go g' r 0). simpl in *. congruence.
Qed.

Theorem count_independent g g' s : snd (subst g s) = snd (subst g' s).
Proof. apply subst_go_count_indep. Qed.

Theorem undefined_identity g s : (forall name, g name = None) -> fst (subst g s) = s.
Proof.
  intros Hg. pose proof (subst_meets_spec g s) as H.
  induction H as [|name rest out n Hok _ IH|c r out n Hc _ IH]; auto.
  - unfold replacement. rewrite Hg, IH. simpl. now rewrite <- app_assoc.
  - now rewrite IH.
Qed.

Theorem no_brace_identity g s : ~ In lbrace s -> subst g s = (s, 0).
Proof.
  intros Hn. pose proof (subst_meets_spec g s) as H. destruct (subst g s) as [o n]. simpl in H.
  induction H as [|name rest out n Hok _ IH|c r out n Hc _ IH]; auto.
  - exfalso. apply Hn. now left.
  - assert (E : (out, n) = (r, 0)) by (apply IH; intro; apply Hn; now right).
    injection E as -> ->. reflexivity.
Qed.

Theorem apply_str_cases g s :
  (snd (subst g s) = 0 /\ apply_str g s = VStr s) \/
  (snd (subst g s) <> 0 /\ apply_str g s = VRepr (fst (subst g s)) s).
Proof.
  unfold apply_str. destruct (subst g s) as [out n]. simpl.
  destruct (Nat.eqb_spec n 0); [left|right]; auto.
Qed.

Theorem sr_idempotent g g' v : sr g' (sr g v) = sr g v.
Proof.
  induction v using value_ind'; try reflexivity.
  - simpl. destruct (apply_str_cases g s) as [[Hn ->]|[Hn ->]]; [|reflexivity].
    simpl. destruct (apply_str_cases g' s) as [[_ ->]|[Hn' _]]; [reflexivity|].
    rewrite (count_independent g' g) in Hn'. contradiction.
  - simpl. f_equal. rewrite map_map. apply map_ext_in. intros x Hx.
    rewrite Forall_forall in H. now apply H.
  - simpl. f_equal. rewrite map_map. apply map_ext_in. intros [k x] Hx. simpl. f_equal.
    rewrite Forall_forall in H. apply (H (k, x) Hx).
Qed.

(* relational description of the traversal: every string leaf at any depth of lists and dict
   values, nothing else *)
Inductive Sr (g : str -> option str) : value -> value -> Prop :=
| Sr_str s : Sr g (VStr s) (apply_str g s)
| Sr_list l l' : Forall2 (Sr g) l l' -> Sr g (VList l) (VList l')
| Sr_dict kvs kvs' :
    Forall2 (fun a b => fst a = fst b /\ Sr g (snd a) (snd b)) kvs kvs' -> Sr g (VDict kvs) (VDict kvs')
| Sr_leaf v : (match v with VStr _ | VList _ | VDict _ => False | _ => True end) -> Sr g v v.

Theorem sr_meets_spec g v : Sr g v (sr g v).
Proof.
  induction v using value_ind'; try (apply Sr_leaf; exact I).
  - apply Sr_str.
  - simpl. apply Sr_list. induction H; simpl; constructor; auto.
  - simpl. apply Sr_dict. induction H; simpl; constructor; auto.
Qed.
