(* C04: over a whole history of requests, without forcing, failure or deletion, the run of a persisted task
   executes at most once per storage location. *)
From Coq Require Import String Ascii List Bool Arith ZArith Lia.
From TC Require Import PyStr Value Dict Repr Param Names Config Key Chain Eval StrProofs DictProofs EvalProofs RunInfoProofs.
Import ListNotations.

Definition entry : Type := (str * str)%type.
Definition entry_eq_dec : forall a b : entry, {a = b} + {a <> b}.
Proof. decide equality; apply str_eq_dec. Defined.
Definition cnt (e : entry) (l : list entry) : nat := count_occ entry_eq_dec l e.

Lemma cnt_snoc e l x : cnt e (l ++ [x]) = cnt e l + (if entry_eq_dec x e then 1 else 0).
Proof. unfold cnt. rewrite count_occ_app. simpl. destruct (entry_eq_dec x e); lia. Qed.

Definition Stored (st : store) (tc : tclass) (o : obj) : Prop :=
  exists v, dget (result_path tc o) st = Some (FValue v).

Lemma stored_mkdirs st tc o path : Stored st tc o -> Stored (mkdirs path st) tc o.
Proof. intros [v Hv]. exists v. unfold mkdirs. now apply dget_mkdirs_go_existing. Qed.

Lemma stored_dset_other st tc o p x : p <> result_path tc o -> Stored st tc o -> Stored (dset p x st) tc o.
Proof. intros Hp [v Hv]. exists v. rewrite dget_dset_other; auto. Qed.

Lemma stored_dset_value st tc o p v : Stored st tc o -> Stored (dset p (FValue v) st) tc o.
Proof.
  intros [u Hu]. destruct (str_eq_dec (result_path tc o) p) as [<-|Hn].
  - exists v. apply dget_dset_same.
  - exists u. rewrite dget_dset_other; auto.
Qed.

Section Once.
  Variable classes : list tclass.
  Variable run : nat -> list (str * str) -> list (str * value) -> value.
  Variable objs : list obj.
  Variable mu : nat -> nat.

  Definition entry_of (tc : tclass) (o : obj) : entry := (c_slug tc, o_key o).
  Definition IsObj (id : nat) (o : obj) (tc : tclass) : Prop :=
    nth_error objs id = Some o /\ cls_of classes o = Some tc.

  (* the shape of a chain: inputs are strictly lower; objects stored at one place are at one level and of one
     data class; log and record files are nobody's result file *)
  Hypothesis mu_inputs : forall id o k j, nth_error objs id = Some o -> In (k, inl j) (o_inputs o) -> mu j < mu id.
  Hypothesis mu_entry : forall i oi ti j oj tj, IsObj i oi ti -> IsObj j oj tj -> entry_of ti oi = entry_of tj oj -> mu i = mu j.
  Hypothesis kind_entry : forall i oi ti j oj tj, IsObj i oi ti -> IsObj j oj tj -> entry_of ti oi = entry_of tj oj ->
                                                  c_data ti = c_data tj.
  Hypothesis apart : forall i oi ti j oj tj, IsObj i oi ti -> IsObj j oj tj ->
                                             log_path ti oi <> result_path tj oj /\ info_path ti oi <> result_path tj oj.

  Lemma same_entry_same_path i oi ti j oj tj :
    IsObj i oi ti -> IsObj j oj tj -> entry_of ti oi = entry_of tj oj -> result_path ti oi = result_path tj oj.
  Proof.
    intros Hi Hj E. pose proof (kind_entry _ _ _ _ _ _ Hi Hj E) as Hk. unfold entry_of in E. injection E as Es Ek.
    unfold result_path. now rewrite Es, Ek, Hk.
  Qed.

  Definition Inv (w : world) (P : list entry) : Prop :=
    forall id o tc, IsObj id o tc -> persisting (c_data tc) = true ->
      cnt (entry_of tc o) (w_runlog w) <= 1 /\
      (cnt (entry_of tc o) (w_runlog w) = 1 -> Stored (w_store w) tc o \/ In (entry_of tc o) P).

  Definition Quiet (w : world) : Prop :=
    w_fail w = [] /\ w_objs w = objs /\ forall id, os_forced (state_of w id) = false.

  Definition RankOK (P : list entry) (id : nat) : Prop :=
    forall e, In e P -> forall j oj tj, IsObj j oj tj -> entry_of tj oj = e -> mu id < mu j.

  (* every run started between w and w' belongs to an object at level <= m *)
  Definition Below (w w' : world) (m : nat) : Prop :=
    forall e, cnt e (w_runlog w') <> cnt e (w_runlog w) ->
              exists j oj tj, IsObj j oj tj /\ e = entry_of tj oj /\ mu j <= m.

  Definition StoreMono (w w' : world) : Prop :=
    forall j oj tj, IsObj j oj tj -> Stored (w_store w) tj oj -> Stored (w_store w') tj oj.

  Lemma below_refl w m : Below w w m.
  Proof. intros e H. congruence. Qed.
  Lemma below_trans a b c m : Below a b m -> Below b c m -> Below a c m.
  Proof.
    intros H1 H2 e H. destruct (Nat.eq_dec (cnt e (w_runlog b)) (cnt e (w_runlog a))) as [E|N].
    - apply H2. congruence.
    - now apply H1.
  Qed.
  Lemma below_weaken a b m n : m <= n -> Below a b m -> Below a b n.
  Proof.
    intros Hmn H e He. destruct (H e He) as (j & oj & tj & Hj & Ee & Hm). exists j, oj, tj.
    split; [exact Hj|]. split; [exact Ee|]. eapply Nat.le_trans; eauto.
  Qed.
  Lemma mono_refl w : StoreMono w w. Proof. intros j oj tj _ H. exact H. Qed.
  Lemma mono_trans a b c : StoreMono a b -> StoreMono b c -> StoreMono a c.
  Proof. intros H1 H2 j oj tj Hj H. eapply H2; eauto. Qed.

  Lemma inv_same_log w w' P : w_runlog w' = w_runlog w -> StoreMono w w' -> Inv w P -> Inv w' P.
  Proof.
    intros Hl Hm Hi id o tc Ho Hp. destruct (Hi id o tc Ho Hp) as [H1 H2]. rewrite Hl. split; [exact H1|].
    intros E. destruct (H2 E) as [Hs|Hin]; [left; eapply Hm; eauto|now right].
  Qed.

  Lemma inv_more_pending w P Q : (forall e, In e P -> In e Q) -> Inv w P -> Inv w Q.
  Proof.
    intros Hs Hi id o tc Ho Hp. destruct (Hi id o tc Ho Hp) as [H1 H2]. split; [exact H1|].
    intros E. destruct (H2 E); auto.
  Qed.

  (* ... at a level strictly below m *)
  Definition BelowS (w w' : world) (m : nat) : Prop :=
    forall e, cnt e (w_runlog w') <> cnt e (w_runlog w) ->
              exists j oj tj, IsObj j oj tj /\ e = entry_of tj oj /\ mu j < m.
  Lemma belowS_refl w m : BelowS w w m.
  Proof. intros e H. congruence. Qed.
  Lemma belowS_trans a b c m : BelowS a b m -> BelowS b c m -> BelowS a c m.
  Proof.
    intros H1 H2 e H. destruct (Nat.eq_dec (cnt e (w_runlog b)) (cnt e (w_runlog a))) as [E|N].
    - apply H2. congruence.
    - now apply H1.
  Qed.
  Lemma below_strict a b j m : mu j < m -> Below a b (mu j) -> BelowS a b m.
  Proof.
    intros Hlt H e He. destruct (H e He) as (i & oi & ti & Hi & Ee & Hm). exists i, oi, ti.
    split; [exact Hi|]. split; [exact Ee|]. lia.
  Qed.

  (* ---- what one successful request guarantees ---- *)
  Definition Good (f : nat) : Prop :=
    forall w id w' v P, Quiet w -> Inv w P -> RankOK P id ->
      eval classes run f w id = (w', inl v) ->
      Quiet w' /\ Inv w' P /\ Below w w' (mu id) /\ StoreMono w w'.

  Lemma find_input_in o k n j : find_input o k = Some (n, inl j) -> In (n, inl j) (o_inputs o).
  Proof. unfold find_input. intros H. apply find_some in H. tauto. Qed.

  (* the requests for the run arguments *)
  Lemma fold_pre_good f id o P : Good f -> nth_error objs id = Some o ->
    (forall j, mu j < mu id -> RankOK P j) ->
    forall l wa wz, Quiet wa -> Inv wa P ->
      fold_left (pre_of classes run f o) l (wa, true) = (wz, true) ->
      Quiet wz /\ Inv wz P /\ BelowS wa wz (mu id) /\ StoreMono wa wz.
  Proof.
    intros HG Ho HR. induction l as [|k l IH]; intros wa wz Hq Hi Hf.
    - simpl in Hf. injection Hf as <-. split; [exact Hq|]. split; [exact Hi|]. split; [apply belowS_refl|apply mono_refl].
    - cbn [fold_left pre_of] in Hf.
      assert (Hfalse : forall l' w0 wz0, fold_left (pre_of classes run f o) l' (w0, false) <> (wz0, true)).
      { induction l' as [|k' l' IH']; intros w0 wz0; simpl; [intro E; discriminate|apply IH']. }
      destruct (find_input o k) as [[n [j|d]]|] eqn:Ef.
      + destruct (eval classes run f wa j) as [wb [v|e]] eqn:Ee; [|exfalso; eapply Hfalse; exact Hf].
        assert (Hlt : mu j < mu id) by (eapply mu_inputs; [exact Ho|eapply find_input_in; exact Ef]).
        destruct (HG _ _ _ _ P Hq Hi (HR j Hlt) Ee) as (Hq' & Hi' & Hb & Hm).
        destruct (IH wb wz Hq' Hi' Hf) as (Hq'' & Hi'' & Hb' & Hm').
        split; [exact Hq''|]. split; [exact Hi''|]. split.
        * eapply belowS_trans; [eapply below_strict; eauto|exact Hb'].
        * eapply mono_trans; eauto.
      + apply IH; auto.
      + apply IH; auto.
  Qed.

  (* the inputs read by the body of run *)
  Lemma fold_inputs_good f id o P : Good f -> nth_error objs id = Some o ->
    (forall j, mu j < mu id -> RankOK P j) ->
    forall rest done wa vs wz ins, o_inputs o = done ++ rest -> Quiet wa -> Inv wa P ->
      fold_left (step_of classes run f) rest (wa, inl vs) = (wz, inl ins) ->
      Quiet wz /\ Inv wz P /\ BelowS wa wz (mu id) /\ StoreMono wa wz.
  Proof.
    intros HG Ho HR. induction rest as [|[k [j|d]] rest IH]; intros done wa vs wz ins Hsplit Hq Hi Hf.
    - simpl in Hf. injection Hf as <- _. split; [exact Hq|]. split; [exact Hi|]. split; [apply belowS_refl|apply mono_refl].
    - cbn [fold_left step_of snd fst] in Hf.
      destruct (eval classes run f wa j) as [wb [v|e]] eqn:Ee.
      2:{ exfalso. rewrite fold_err in Hf. discriminate. }
      assert (Hlt : mu j < mu id).
      { eapply mu_inputs; [exact Ho|]. rewrite Hsplit. apply in_or_app. right. now left. }
      destruct (HG _ _ _ _ P Hq Hi (HR j Hlt) Ee) as (Hq' & Hi' & Hb & Hm).
      destruct (IH (done ++ [(k, inl j)]) wb (vs ++ [(k, v)]) wz ins) as (Hq'' & Hi'' & Hb' & Hm'); auto.
      { rewrite Hsplit, <- app_assoc. reflexivity. }
      split; [exact Hq''|]. split; [exact Hi''|]. split.
      + eapply belowS_trans; [eapply below_strict; eauto|exact Hb'].
      + eapply mono_trans; eauto.
    - cbn [fold_left step_of snd fst] in Hf.
      eapply (IH (done ++ [(k, inr d)]) wa _ wz ins); [|exact Hq|exact Hi|exact Hf].
      rewrite Hsplit, <- app_assoc. reflexivity.
  Qed.

  Lemma quiet_set_state w id s : Quiet w -> os_forced s = false -> Quiet (set_state id s w).
  Proof.
    intros (Hf & Ho & Hfo) Hs. split; [exact Hf|]. split; [exact Ho|]. intros j.
    rewrite state_of_set_state. destruct (_ && _); [exact Hs|apply Hfo].
  Qed.

  Lemma rank_cons P id o tc j : IsObj id o tc -> RankOK P id -> mu j < mu id -> RankOK (entry_of tc o :: P) j.
  Proof.
    intros Hid HR Hlt e [<-|Hin] i oi ti Hi E.
    - rewrite (mu_entry _ _ _ _ _ _ Hi Hid E). exact Hlt.
    - specialize (HR e Hin i oi ti Hi E). lia.
  Qed.

  Lemma rank_lower P id j : RankOK P id -> mu j < mu id -> RankOK P j.
  Proof. intros HR Hlt e Hin i oi ti Hi E. specialize (HR e Hin i oi ti Hi E). lia. Qed.

  (* an entry of the level of id is not touched by what happens strictly below *)
  Lemma belowS_keeps a b id o tc : IsObj id o tc -> BelowS a b (mu id) ->
    cnt (entry_of tc o) (w_runlog b) = cnt (entry_of tc o) (w_runlog a).
  Proof.
    intros Hid Hb. destruct (Nat.eq_dec (cnt (entry_of tc o) (w_runlog b)) (cnt (entry_of tc o) (w_runlog a))) as [E|N]; [exact E|].
    destruct (Hb _ N) as (j & oj & tj & Hj & Ee & Hlt). rewrite (mu_entry _ _ _ _ _ _ Hid Hj Ee) in Hlt. lia.
  Qed.

  Theorem all_good f : Good f.
  Proof.
    induction f as [|f IHf]; intros w id w' v P Hq Hi HR He; [discriminate|].
    cbn [eval] in He. fold (step_of classes run f) in He.
    destruct Hq as (Hfail & Hobjs & Hforced).
    destruct (nth_error (w_objs w) id) as [o|] eqn:En; [|discriminate].
    destruct (cls_of classes o) as [tc|] eqn:Ec; [|discriminate].
    rewrite Hobjs in En.
    assert (Hid : IsObj id o tc) by (split; assumption).
    destruct (os_mem (state_of w id)) as [v0|] eqn:Emem.
    { injection He as <- <-. split; [repeat split; auto|]. split; [exact Hi|]. split; [apply below_refl|apply mono_refl]. }
    set (w1 := with_store (mkdirs (dir_of_slug (c_slug tc)) (w_store w)) w) in *.
    assert (M1 : StoreMono w w1) by (intros j oj tj _ H; now apply stored_mkdirs).
    assert (Hq1 : Quiet w1) by (repeat split; auto).
    assert (Hi1 : Inv w1 P) by (apply (inv_same_log w w1 P eq_refl M1 Hi)).
    rewrite (Hforced id) in He. rewrite andb_true_r in He.
    destruct (if persisting (c_data tc) then dget (result_path tc o) (w_store w1) else None) as [[|v1|v1|l1]|] eqn:Eload;
      try discriminate.
    { (* load *)
      injection He as <- <-. split; [apply quiet_set_state; [exact Hq1|reflexivity]|].
      split; [apply (inv_same_log w1 _ P eq_refl); [|exact Hi1]; intros j oj tj _ H; exact H|].
      split; [intros e' H; exfalso; apply H; reflexivity|exact M1]. }
    (* run *)
    set (w2 := with_store (dset (log_path tc o) (FLog []) (w_store w1)) w1) in *.
    assert (M2 : StoreMono w1 w2).
    { intros j oj tj Hj H. apply stored_dset_other; [|exact H]. apply (apart _ _ _ _ _ _ Hid Hj). }
    assert (Hq2 : Quiet w2) by (repeat split; auto).
    assert (Hi2 : Inv w2 P) by (apply (inv_same_log w1 w2 P eq_refl M2 Hi1)).
    fold (pre_of classes run f o) in He.
    destruct (fold_left (pre_of classes run f o) (c_runargs tc) (w2, true)) as [w2' b'] eqn:Epre.
    destruct b'; [|discriminate].
    destruct (fold_pre_good f id o P IHf En (fun j Hlt => rank_lower P id j HR Hlt) _ _ _ Hq2 Hi2 Epre)
      as (Hq2' & Hi2' & B2' & M2').
    set (e := (c_slug tc, o_key o)) in *.
    assert (Ee0 : entry_of tc o = e) by reflexivity.
    set (w3 := {| w_store := w_store w2'; w_objs := w_objs w2'; w_states := w_states w2';
                  w_runlog := w_runlog w2' ++ [e]; w_fail := w_fail w2' |}) in *.
    assert (Hq3 : Quiet w3) by exact Hq2'.
    destruct Hq2' as (Hfail2 & _ & _).
    replace (existsb (str_eqb (c_slug tc)) (w_fail w3)) with false in He by (simpl; now rewrite Hfail2).
    cbv iota in He.
    (* the own entry, when the result is persisted: not yet in the log *)
    assert (Hzero : persisting (c_data tc) = true -> cnt e (w_runlog w2') = 0).
    { intros Hp. rewrite Hp in Eload.
      assert (Hns : ~ Stored (w_store w) tc o).
      { intros Hs. apply (stored_mkdirs _ _ _ (dir_of_slug (c_slug tc))) in Hs. destruct Hs as [u Hu].
        unfold w1 in Eload. cbn [w_store with_store] in Eload. congruence. }
      assert (Hnp : ~ In e P).
      { intros Hin. specialize (HR e Hin id o tc Hid eq_refl). lia. }
      destruct (Hi id o tc Hid Hp) as [Hle Hone]. rewrite Ee0 in Hle, Hone.
      assert (H0 : cnt e (w_runlog w) = 0).
      { destruct (cnt e (w_runlog w)) as [|[|n]]; [reflexivity| |lia]. destruct (Hone eq_refl); contradiction. }
      rewrite <- Ee0. rewrite (belowS_keeps w2 w2' id o tc Hid B2'). rewrite Ee0. exact H0. }
    assert (Hi3 : Inv w3 (e :: P)).
    { intros j oj tj Hj Hp. destruct (Hi2' j oj tj Hj Hp) as [Hle Hone].
      cbn [w_runlog w3]. rewrite cnt_snoc. destruct (entry_eq_dec e (entry_of tj oj)) as [Ee|Ne].
      - assert (Hpo : persisting (c_data tc) = true).
        { rewrite (kind_entry _ _ _ _ _ _ Hid Hj Ee). exact Hp. }
        rewrite <- Ee, (Hzero Hpo). split; [lia|]. intros _. right. now left.
      - rewrite Nat.add_0_r. split; [exact Hle|]. intros E1. destruct (Hone E1) as [Hs|Hin]; [left; exact Hs|right; right; exact Hin]. }
    destruct (fold_left (step_of classes run f) (o_inputs o) (w3, inl [])) as [w4 [ins|er]] eqn:Ef; [|discriminate].
    destruct (fold_inputs_good f id o (e :: P) IHf En (fun j Hlt => rank_cons P id o tc j Hid HR Hlt)
                               (o_inputs o) [] w3 [] w4 ins eq_refl Hq3 Hi3 Ef) as (Hq4 & Hi4 & B4 & M4).
    injection He as <- <-.
    assert (Mfin : forall j oj tj, IsObj j oj tj -> Stored (w_store w4) tj oj ->
              Stored (dset (info_path tc o) (FInfo (run_info tc o (List.length (w_runlog w3)) ins))
                        (if persisting (c_data tc)
                         then dset (result_path tc o) (FValue (run (o_cls o) (persisted_reprs o) ins))
                                   (dset (log_path tc o) (FLog [run_token tc]) (w_store w4))
                         else dset (log_path tc o) (FLog [run_token tc]) (w_store w4))) tj oj).
    { intros j oj tj Hj H. apply stored_dset_other; [apply (apart _ _ _ _ _ _ Hid Hj)|].
      destruct (persisting (c_data tc)).
      - apply stored_dset_value. apply stored_dset_other; [apply (apart _ _ _ _ _ _ Hid Hj)|exact H].
      - apply stored_dset_other; [apply (apart _ _ _ _ _ _ Hid Hj)|exact H]. }
    split; [apply quiet_set_state; [exact Hq4|reflexivity]|].
    split.
    - (* the invariant, with the own entry no longer pending *)
      intros j oj tj Hj Hp. destruct (Hi4 j oj tj Hj Hp) as [Hle Hone].
      cbn [w_runlog set_state with_store w_store]. split; [exact Hle|].
      intros E1. destruct (Hone E1) as [Hs|[Ee|Hin]].
      + left. exact (Mfin j oj tj Hj Hs).
      + left. (* the own location: just written *)
        assert (Hpo : persisting (c_data tc) = true).
        { rewrite (kind_entry _ _ _ _ _ _ Hid Hj Ee). exact Hp. }
        unfold Stored. rewrite <- (same_entry_same_path _ _ _ _ _ _ Hid Hj Ee).
        rewrite Hpo. eexists. rewrite dget_dset_other by apply result_ne_info.
        apply dget_dset_same.
      + now right.
    - split.
      + (* what ran: the object itself and objects strictly below *)
        intros e' Hne. cbn [w_runlog set_state with_store] in Hne.
        destruct (Nat.eq_dec (cnt e' (w_runlog w4)) (cnt e' (w_runlog w3))) as [E43|N43].
        * rewrite E43 in Hne. cbn [w_runlog w3] in Hne. rewrite cnt_snoc in Hne.
          destruct (entry_eq_dec e e') as [<-|Ne].
          -- exists id, o, tc. split; [exact Hid|]. split; [reflexivity|lia].
          -- rewrite Nat.add_0_r in Hne.
             destruct (B2' e' Hne) as (j & oj & tj & Hj & Ee & Hlt). exists j, oj, tj.
             split; [exact Hj|split; [exact Ee|apply Nat.lt_le_incl; exact Hlt]].
        * destruct (B4 e' N43) as (j & oj & tj & Hj & Ee & Hlt). exists j, oj, tj.
          split; [exact Hj|split; [exact Ee|apply Nat.lt_le_incl; exact Hlt]].
      + intros j oj tj Hj H. cbn [w_store set_state with_store]. apply (Mfin j oj tj Hj).
        apply (M4 _ _ _ Hj). cbn [w_store w3]. apply (M2' _ _ _ Hj). apply (M2 _ _ _ Hj). now apply (M1 _ _ _ Hj).
  Qed.

  (* ---- histories: value requests on arbitrary objects, in any order, with restarts in between ---- *)
  Inductive hop := HReq (id : nat) | HForget.

  (* a new process on the same data directory: nothing is in memory any more *)
  Definition forget (w : world) : world :=
    {| w_store := w_store w; w_objs := w_objs w;
       w_states := map (fun s => {| os_mem := None; os_forced := os_forced s |}) (w_states w);
       w_runlog := w_runlog w; w_fail := w_fail w |}.

  (* None: some request failed (the theorem is about histories without failure) *)
  Fixpoint run_hist (f : nat) (w : world) (ops : list hop) : option world :=
    match ops with
    | [] => Some w
    | HReq id :: r => match eval classes run f w id with
                      | (w', inl _) => run_hist f w' r
                      | (_, inr _) => None
                      end
    | HForget :: r => run_hist f (forget w) r
    end.

  Lemma quiet_forget w : Quiet w -> Quiet (forget w).
  Proof.
    intros (Hf & Ho & Hfo). split; [exact Hf|]. split; [exact Ho|]. intros id.
    specialize (Hfo id). unfold state_of, forget in *. cbn [w_states] in *. rewrite nth_error_map.
    destruct (nth_error (w_states w) id); simpl in *; auto.
  Qed.

  Lemma rank_nil id : RankOK [] id.
  Proof. intros e []. Qed.

  Lemma hist_inv f : forall ops w w', Quiet w -> Inv w [] -> run_hist f w ops = Some w' -> Quiet w' /\ Inv w' [].
  Proof.
    induction ops as [|[id|] ops IH]; intros w w' Hq Hi Hr.
    - injection Hr as <-. auto.
    - cbn [run_hist] in Hr. destruct (eval classes run f w id) as [w1 [v|e]] eqn:Ee; [|discriminate].
      destruct (all_good f w id w1 v [] Hq Hi (rank_nil id) Ee) as (Hq1 & Hi1 & _ & _). eapply IH; eauto.
    - cbn [run_hist] in Hr. eapply IH; [apply quiet_forget; exact Hq| |exact Hr].
      apply (inv_same_log w (forget w) [] eq_refl); [|exact Hi]. intros j oj tj _ H. exact H.
  Qed.

  (* C04: starting with an empty log, whatever is stored already: after any history of successful requests and
     restarts, no storage location has been computed twice *)
  Theorem at_most_once_per_location f ops w w' :
    Quiet w -> w_runlog w = [] -> run_hist f w ops = Some w' ->
    forall id o tc, IsObj id o tc -> persisting (c_data tc) = true ->
                    cnt (entry_of tc o) (w_runlog w') <= 1.
  Proof.
    intros Hq Hl Hr id o tc Hid Hp.
    assert (Hi : Inv w []).
    { intros j oj tj _ _. rewrite Hl. simpl. split; [lia|discriminate]. }
    destruct (hist_inv f ops w w' Hq Hi Hr) as [_ Hi']. now destruct (Hi' id o tc Hid Hp).
  Qed.

  (* and a location that was computed is stored: every later request for it is a load (C04_stored_is_loaded) *)
  Theorem computed_is_stored f ops w w' :
    Quiet w -> w_runlog w = [] -> run_hist f w ops = Some w' ->
    forall id o tc, IsObj id o tc -> persisting (c_data tc) = true ->
                    cnt (entry_of tc o) (w_runlog w') = 1 -> Stored (w_store w') tc o.
  Proof.
    intros Hq Hl Hr id o tc Hid Hp H1.
    assert (Hi : Inv w []).
    { intros j oj tj _ _. rewrite Hl. simpl. split; [lia|discriminate]. }
    destruct (hist_inv f ops w w' Hq Hi Hr) as [_ Hi']. destruct (Hi' id o tc Hid Hp) as [_ H].
    destruct (H H1) as [Hs|[]]. exact Hs.
  Qed.
End Once.

(* ---------- the hypotheses are satisfiable: a two-task chain b <- a, with a named in the signature of b.run ---------- *)
Module OnceExample.
  Definition cA : tclass := {| c_slug := lit "a"; c_abstract := false; c_params := []; c_meta_inputs := [];
                               c_param_inputs := []; c_data := KJson; c_runargs := [] |}.
  Definition cB : tclass := {| c_slug := lit "b"; c_abstract := false; c_params := []; c_meta_inputs := [];
                               c_param_inputs := []; c_data := KJson; c_runargs := [lit "a"] |}.
  Definition oA : obj := {| o_cls := 0; o_cfg := 0; o_ns := None; o_cfgname := lit "c"; o_ctxname := None;
                            o_fullname := lit "a"; o_params := []; o_inkeys := []; o_key := lit "k0"; o_inputs := [] |}.
  Definition oB : obj := {| o_cls := 1; o_cfg := 0; o_ns := None; o_cfgname := lit "c"; o_ctxname := None;
                            o_fullname := lit "b"; o_params := []; o_inkeys := [(lit "a", lit "k0")]; o_key := lit "k1";
                            o_inputs := [(lit "a", inl 0)] |}.
  Definition classes := [cA; cB].
  Definition objs := [oA; oB].
  Definition run0 (_ : nat) (_ : list (str * str)) (_ : list (str * value)) : value := VNone.
  Definition mu (i : nat) := i.
  Definition w0 : world := {| w_store := []; w_objs := objs;
                              w_states := [{| os_mem := None; os_forced := false |}; {| os_mem := None; os_forced := false |}];
                              w_runlog := []; w_fail := [] |}.

  Ltac cases_obj H := let i := fresh "i" in
    match type of H with IsObj _ _ ?id _ _ =>
      destruct H as [H1 H2]; destruct id as [|[|[|i]]]; simpl in H1; try discriminate;
      injection H1 as <-; unfold cls_of in H2; simpl in H2; injection H2 as <- end.

  Lemma ex_mu_inputs : forall id o k j, nth_error objs id = Some o -> In (k, inl j) (o_inputs o) -> mu j < mu id.
  Proof.
    intros [|[|[|id]]] o k j H Hin; simpl in H; try discriminate; injection H as <-; simpl in Hin.
    - contradiction.
    - destruct Hin as [E|[]]. injection E as _ <-. unfold mu. lia.
  Qed.

  Lemma ex_entry_id : forall i oi ti j oj tj, IsObj classes objs i oi ti -> IsObj classes objs j oj tj ->
    entry_of ti oi = entry_of tj oj -> i = j.
  Proof.
    intros i oi ti j oj tj Hi Hj E. cases_obj Hi; cases_obj Hj; try reflexivity; discriminate E.
  Qed.

  Lemma ex_apart : forall i oi ti j oj tj, IsObj classes objs i oi ti -> IsObj classes objs j oj tj ->
    log_path ti oi <> result_path tj oj /\ info_path ti oi <> result_path tj oj.
  Proof. intros i oi ti j oj tj Hi Hj. cases_obj Hi; cases_obj Hj; split; discriminate. Qed.

  Example history_runs_each_location_once :
    exists w', run_hist classes run0 5 w0 [HReq 1; HForget; HReq 1; HReq 0; HForget; HReq 0] = Some w' /\
               w_runlog w' = [(lit "a", lit "k0"); (lit "b", lit "k1")].
  Proof. eexists. split; reflexivity. Qed.

  Example the_theorem_applies : forall ops w', run_hist classes run0 7 w0 ops = Some w' ->
    cnt (entry_of cB oB) (w_runlog w') <= 1.
  Proof.
    intros ops w' Hr.
    apply (at_most_once_per_location classes run0 objs mu ex_mu_inputs) with (f := 7) (ops := ops) (w := w0) (id := 1) (o := oB) (tc := cB); auto.
    - intros i oi ti j oj tj Hi Hj E. now rewrite (ex_entry_id _ _ _ _ _ _ Hi Hj E).
    - intros i oi ti j oj tj Hi Hj E. pose proof (ex_entry_id _ _ _ _ _ _ Hi Hj E) as ->.
      destruct Hi as [H1 H2], Hj as [H3 H4]. rewrite H1 in H3. injection H3 as <-. rewrite H2 in H4. now injection H4 as <-.
    - exact ex_apart.
    - split; [reflexivity|]. split; [reflexivity|]. intros [|[|[|id]]]; reflexivity.
    - split; reflexivity.
  Qed.
End OnceExample.
