(* C03, parameter objects and Path parameters: CPython's repr of strings (quotes chosen by content, escapes)
   and of JSON-like values built from ANY strings is uniquely readable; hence the text of an
   AutoParameterObject determines its persisted arguments. *)
From Coq Require Import String Ascii List Bool Arith ZArith Lia.
From TC Require Import PyStr Value Repr Param StrProofs SortProofs ReprProofs ReadProofs.
Import ListNotations.

(* ---------- all 256 characters ---------- *)
Definition all_ascii : list ascii := map ascii_of_nat (seq 0 256).
Lemma in_all_ascii c : In c all_ascii.
Proof.
  unfold all_ascii. apply in_map_iff. exists (nat_of_ascii c). split; [apply ascii_nat_embedding|].
  apply in_seq. pose proof (nat_ascii_bounded c). lia.
Qed.

Fixpoint is_prefix (a b : str) : bool :=
  match a, b with
  | [], _ => true
  | x :: a', y :: b' => Ascii.eqb x y && is_prefix a' b'
  | _ :: _, [] => false
  end.
Definition comparable (a b : str) : bool := is_prefix a b || is_prefix b a.

Lemma app_eq_comparable (a b r1 r2 : str) : a ++ r1 = b ++ r2 -> comparable a b = true.
Proof.
  unfold comparable. revert b. induction a as [|x a IH]; intros b E; [reflexivity|].
  destruct b as [|y b]; [reflexivity|].
  simpl in E. injection E as -> E. simpl. rewrite Ascii.eqb_refl. simpl. now apply IH.
Qed.

(* the escape code is a prefix code, and no code word starts with the quote *)
Definition code_ok (q : ascii) : bool :=
  forallb (fun c => forallb (fun d => implb (comparable (repr_char q c) (repr_char q d)) (Ascii.eqb c d)) all_ascii) all_ascii
  && forallb (fun c => match repr_char q c with x :: _ => negb (Ascii.eqb x q) | [] => false end) all_ascii.

Lemma code_ok_squote : code_ok squote = true. Proof. vm_compute. reflexivity. Qed.
Lemma code_ok_dquote : code_ok dquote = true. Proof. vm_compute. reflexivity. Qed.

Lemma code_prefix q c d r1 r2 : code_ok q = true -> repr_char q c ++ r1 = repr_char q d ++ r2 -> c = d /\ r1 = r2.
Proof.
  intros Hok E. apply andb_true_iff in Hok. destruct Hok as [H1 _].
  rewrite forallb_forall in H1. specialize (H1 c (in_all_ascii c)).
  rewrite forallb_forall in H1. specialize (H1 d (in_all_ascii d)).
  rewrite (app_eq_comparable _ _ _ _ E) in H1. simpl in H1. apply Ascii.eqb_eq in H1. subst d.
  split; [reflexivity|]. now apply app_inv_head in E.
Qed.

Lemma code_first q c : code_ok q = true -> exists x t, repr_char q c = x :: t /\ x <> q.
Proof.
  intros Hok. apply andb_true_iff in Hok. destruct Hok as [_ H2].
  rewrite forallb_forall in H2. specialize (H2 c (in_all_ascii c)).
  destruct (repr_char q c) as [|x t]; [discriminate|]. exists x, t. split; [reflexivity|].
  intro E. subst x. rewrite Ascii.eqb_refl in H2. discriminate.
Qed.

Definition body (q : ascii) (s : str) : str := flat_map (repr_char q) s.

Lemma body_unique q : code_ok q = true -> forall s1 s2 r1 r2,
  body q s1 ++ q :: r1 = body q s2 ++ q :: r2 -> s1 = s2 /\ r1 = r2.
Proof.
  intros Hok. induction s1 as [|c s1 IH]; intros [|d s2] r1 r2 E; simpl in E.
  - injection E as ->. auto.
  - exfalso. destruct (code_first q d Hok) as (x & t & Hd & Hx). rewrite Hd in E. simpl in E. injection E as E _. congruence.
  - exfalso. destruct (code_first q c Hok) as (x & t & Hc & Hx). rewrite Hc in E. simpl in E. injection E as E _. congruence.
  - rewrite <- !app_assoc in E. destruct (code_prefix q c d _ _ Hok E) as [-> E'].
    destruct (IH s2 r1 r2 E') as [-> ->]. auto.
Qed.

Definition quote_of (s : str) : ascii := if has_char squote s && negb (has_char dquote s) then dquote else squote.
Lemma py_repr_str_unfold s : py_repr_str s = quote_of s :: body (quote_of s) s ++ [quote_of s].
Proof. reflexivity. Qed.
Lemma quote_of_ok s : code_ok (quote_of s) = true.
Proof. unfold quote_of. destruct (_ && _); [apply code_ok_dquote|apply code_ok_squote]. Qed.

(* repr of a string is self-delimiting and injective *)
Theorem py_repr_str_unique s1 s2 r1 r2 : py_repr_str s1 ++ r1 = py_repr_str s2 ++ r2 -> s1 = s2 /\ r1 = r2.
Proof.
  rewrite !py_repr_str_unfold. intros E. simpl in E. injection E as Eq E.
  rewrite <- !app_assoc in E. simpl in E. rewrite <- Eq in E.
  exact (body_unique (quote_of s1) (quote_of_ok s1) s1 s2 r1 r2 E).
Qed.

Corollary py_repr_str_injective s1 s2 : py_repr_str s1 = py_repr_str s2 -> s1 = s2.
Proof. intros E. apply (py_repr_str_unique s1 s2 [] []). now rewrite !app_nil_r. Qed.

Lemma py_repr_str_first s : exists t, py_repr_str s = squote :: t \/ py_repr_str s = dquote :: t.
Proof. rewrite py_repr_str_unfold. unfold quote_of. destruct (_ && _); eexists; [right|left]; reflexivity. Qed.

(* ---------- repr of JSON-like values built from ANY strings ---------- *)
From TC Require Import InjProofs.

Fixpoint pyjson (v : value) : bool :=
  match v with
  | VNone | VBool _ | VInt _ | VStr _ => true
  | VFloat r => is_float_repr r
  | VList l => forallb pyjson l
  | VDict kvs => forallb (fun kv => pyjson (snd kv)) kvs
  | _ => false
  end.

Lemma py_repr_atom v : is_atom v = true -> py_repr v = pr v.
Proof. destruct v as [| [|] | | | | | | | | |]; try discriminate; reflexivity. Qed.
Lemma pyjson_atom v : is_atom v = true -> pyjson v = jsonlike v.
Proof. destruct v; try discriminate; reflexivity. Qed.

Definition URp (v1 : value) : Prop :=
  forall v2 r1 r2, pyjson v1 = true -> pyjson v2 = true -> follow_ok r1 -> follow_ok r2 ->
                   py_repr v1 ++ r1 = py_repr v2 ++ r2 -> v1 = v2 /\ r1 = r2.

Definition opener' (c : ascii) : Prop :=
  atomc c = true \/ c = squote \/ c = dquote \/ c = "["%char \/ c = "{"%char.

Lemma opener'_not c : opener' c -> c <> "]"%char /\ c <> "}"%char /\ c <> ","%char /\ c <> ")"%char.
Proof. intros [H|[ -> |[ -> |[ -> | -> ]]]]; repeat split; try discriminate; intro; subst; discriminate H. Qed.

Lemma py_repr_first v : pyjson v = true -> exists c r, py_repr v = c :: r /\ opener' c.
Proof.
  intros Hj. destruct (is_atom v) eqn:Ea.
  - rewrite (pyjson_atom v Ea) in Hj. destruct (atom_chars v Ea Hj) as [Hc Hn]. rewrite (py_repr_atom v Ea).
    destruct (pr v) as [|c r]; [congruence|]. inversion Hc; subst. exists c, r. split; [reflexivity|now left].
  - destruct v; try discriminate Ea; try discriminate Hj.
    + destruct (py_repr_str_first s) as [t [E|E]]; simpl; rewrite E; eexists _, _; (split; [reflexivity|]); unfold opener'; auto.
    + simpl. eexists _, _. split; [reflexivity|]. unfold opener'; auto.
    + simpl. eexists _, _. split; [reflexivity|]. unfold opener'; auto.
Qed.

Lemma URp_atom v : is_atom v = true -> URp v.
Proof.
  intros Ha v2 r1 r2 J1 J2 F1 F2 E. rewrite (pyjson_atom v Ha) in J1. rewrite (py_repr_atom v Ha) in E.
  destruct (is_atom v2) eqn:Ea2.
  - rewrite (pyjson_atom v2 Ea2) in J2. rewrite (py_repr_atom v2 Ea2) in E.
    destruct (atom_chars v Ha J1) as [C1 _]. destruct (atom_chars v2 Ea2 J2) as [C2 _].
    destruct (tok_prefix_eq _ _ _ _ C1 C2 F1 F2 E) as [Hp ->]. split; [|reflexivity]. now apply atom_inj.
  - exfalso. destruct (atom_chars v Ha J1) as [C1 N1].
    destruct (pr v) as [|c r] eqn:Ev; [congruence|]. inversion C1 as [|? ? Hc _]; subst.
    destruct (py_repr_first v2 J2) as (c2 & t2 & E2 & Ho). rewrite E2 in E. simpl in E. injection E as -> _.
    destruct Ho as [Hat|[ -> |[ -> |[ -> | -> ]]]]; try discriminate Hc.
    (* an atom character: v2 would be an atom *)
    destruct v2; try discriminate Ea2; try discriminate J2; cbn [py_repr app lit list_ascii_of_string] in E2.
    + destruct (py_repr_str_first s) as [t [Es|Es]]; rewrite Es in E2; injection E2 as <- _; discriminate Hat.
    + injection E2 as <- _. discriminate Hat.
    + injection E2 as <- _. discriminate Hat.
Qed.

Lemma not_atom_first v c r : is_atom v = true -> jsonlike v = true -> atomc c = false -> pr v <> c :: r.
Proof. intros Ha Hj Hc E. destruct (atom_chars v Ha Hj) as [F _]. rewrite E in F. inversion F; congruence. Qed.

Lemma atom_app_first v c rest r2 : is_atom v = true -> jsonlike v = true -> pr v ++ r2 = c :: rest -> atomc c = true.
Proof.
  intros Ha Hj E. destruct (atom_chars v Ha Hj) as [F N]. destruct (pr v) as [|x t]; [congruence|].
  simpl in E. injection E as -> _. now inversion F.
Qed.

Lemma URp_str s : URp (VStr s).
Proof.
  intros v2 r1 r2 J1 J2 F1 F2 E. cbn [py_repr] in E.
  destruct (is_atom v2) eqn:Ea2.
  { exfalso. rewrite (py_repr_atom v2 Ea2) in E. rewrite (pyjson_atom v2 Ea2) in J2.
    destruct (atom_chars v2 Ea2 J2) as [C2 N2]. destruct (pr v2) as [|c r] eqn:Ev; [congruence|].
    inversion C2 as [|? ? Hc _]; subst.
    destruct (py_repr_str_first s) as [t [Es|Es]]; rewrite Es in E; simpl in E; injection E as <- _; discriminate Hc. }
  destruct v2; try discriminate Ea2; try discriminate J2; cbn [py_repr app lit list_ascii_of_string] in E.
  - destruct (py_repr_str_unique _ _ _ _ E) as [-> ->]. auto.
  - exfalso. destruct (py_repr_str_first s) as [t [Es|Es]]; rewrite Es in E; discriminate E.
  - exfalso. destruct (py_repr_str_first s) as [t [Es|Es]]; rewrite Es in E; discriminate E.
Qed.

Lemma URp_list l : Forall URp l -> URp (VList l).
Proof.
  intros IH v2 r1 r2 J1 J2 F1 F2 E.
  destruct (is_atom v2) eqn:Ea2.
  { exfalso. rewrite (py_repr_atom v2 Ea2) in E. rewrite (pyjson_atom v2 Ea2) in J2. cbn [py_repr app lit list_ascii_of_string] in E. symmetry in E.
    pose proof (atom_app_first v2 _ _ _ Ea2 J2 E) as Hc. discriminate Hc. }
  destruct v2 as [| | | |s2| |l2| | | |]; try discriminate Ea2; try discriminate J2; cbn [py_repr app lit list_ascii_of_string] in E.
  - exfalso. destruct (py_repr_str_first s2) as [t [Es|Es]]; rewrite Es in E; discriminate E.
  - injection E as E. rewrite <- !app_assoc in E. cbn [app lit list_ascii_of_string] in E. cbn [pyjson] in J1, J2.
    destruct (join_unique py_repr "]"%char (fun x => pyjson x = true)) with (l1 := l) (l2 := l2) (r1 := r1) (r2 := r2)
      as [-> ->]; auto.
    + discriminate.
    + intros x Hx. destruct (py_repr_first x Hx) as (c & r & Hp & Ho). exists c, r. split; [exact Hp|].
      now destruct (opener'_not c Ho).
    + apply forallb_Forall in J1. rewrite Forall_forall in *. intros x Hx. split; [now apply J1|].
      intros y s1 s2 Gy S1 S2 Es. apply (IH x Hx y s1 s2); auto.
      * eapply follow_sep_or_close; [|exact S1]. reflexivity.
      * eapply follow_sep_or_close; [|exact S2]. reflexivity.
    + now apply forallb_Forall.
  - discriminate E.
Qed.

Definition dentry (kv : str * value) : str := py_repr_str (fst kv) ++ lit ": " ++ py_repr (snd kv).

Lemma URp_dict kvs : Forall (fun kv => URp (snd kv)) kvs -> URp (VDict kvs).
Proof.
  intros IH v2 r1 r2 J1 J2 F1 F2 E.
  destruct (is_atom v2) eqn:Ea2.
  { exfalso. rewrite (py_repr_atom v2 Ea2) in E. rewrite (pyjson_atom v2 Ea2) in J2. cbn [py_repr app lit list_ascii_of_string] in E. symmetry in E.
    pose proof (atom_app_first v2 _ _ _ Ea2 J2 E) as Hc. discriminate Hc. }
  destruct v2 as [| | | |s2| | |kvs2| | |]; try discriminate Ea2; try discriminate J2; cbn [py_repr app lit list_ascii_of_string] in E.
  - exfalso. destruct (py_repr_str_first s2) as [t [Es|Es]]; rewrite Es in E; discriminate E.
  - discriminate E.
  - injection E as E. rewrite <- !app_assoc in E. cbn [app lit list_ascii_of_string] in E. cbn [pyjson] in J1, J2.
    change (map (fun kv : str * value => py_repr_str (fst kv) ++ lit ": " ++ py_repr (snd kv)) kvs) with (map dentry kvs) in E.
    change (map (fun kv : str * value => py_repr_str (fst kv) ++ lit ": " ++ py_repr (snd kv)) kvs2) with (map dentry kvs2) in E.
    destruct (join_unique dentry "}"%char (fun kv => pyjson (snd kv) = true)) with (l1 := kvs) (l2 := kvs2) (r1 := r1) (r2 := r2)
      as [-> ->]; auto.
    + discriminate.
    + intros [k x] _. unfold dentry. cbn [fst snd]. destruct (py_repr_str_first k) as [t [Es|Es]]; rewrite Es;
        eexists _, _; (split; [reflexivity|discriminate]).
    + apply forallb_Forall in J1. rewrite Forall_forall in *. intros [k x] Hx. split; [apply (J1 _ Hx)|].
      intros [k' y] s1 s2 Gy S1 S2 Es. unfold dentry in Es. cbn [fst snd] in Es. rewrite <- !app_assoc in Es.
      destruct (py_repr_str_unique _ _ _ _ Es) as [-> Es']. simpl in Es'. injection Es' as Es'.
      pose proof (IH (k', x) Hx) as U. simpl in U. specialize (J1 _ Hx). simpl in J1, Gy.
      destruct (U y s1 s2) as [-> ->]; auto.
      * eapply follow_sep_or_close; [|exact S1]. reflexivity.
      * eapply follow_sep_or_close; [|exact S2]. reflexivity.
    + now apply forallb_Forall.
Qed.

Theorem py_repr_unique_readable v : URp v.
Proof.
  induction v using value_ind'.
  - now apply URp_atom.
  - now apply URp_atom.
  - now apply URp_atom.
  - now apply URp_atom.
  - apply URp_str.
  - intros v2 r1 r2 J1. discriminate J1.
  - now apply URp_list.
  - now apply URp_dict.
  - intros v2 r1 r2 J1. discriminate J1.
  - intros v2 r1 r2 J1. discriminate J1.
  - intros v2 r1 r2 J1. discriminate J1.
Qed.

(* ---------- AutoParameterObject: ClassName(arg=repr, ...) with the arguments sorted by name ---------- *)
Definition aitem (kv : str * value) : str := fst kv ++ lit "=" ++ py_repr (snd kv).
Definition agood (kv : str * value) : Prop := ident (fst kv) /\ fst kv <> [] /\ pyjson (snd kv) = true.

Lemma py_repr_auto c args :
  py_repr (VAuto c args) = c ++ lit "(" ++ join (lit ", ") (map aitem (isort dkey_leb args)) ++ lit ")".
Proof.
  cbn [py_repr]. do 3 f_equal.
  set (G := fun kv : str * value => (fst kv, py_repr (snd kv))).
  rewrite (isort_map dkey_leb kv_leb G (fun _ _ => eq_refl)). rewrite map_map. reflexivity.
Qed.

Lemma aitem_unique x y s1 s2 : agood x -> agood y -> sep_or_close ")"%char s1 -> sep_or_close ")"%char s2 ->
  aitem x ++ s1 = aitem y ++ s2 -> x = y /\ s1 = s2.
Proof.
  destruct x as [k1 v1], y as [k2 v2]. unfold aitem, agood. cbn [fst snd]. intros (I1 & _ & J1) (I2 & _ & J2) S1 S2 E.
  rewrite <- !app_assoc in E. cbn [app lit list_ascii_of_string] in E.
  match type of E with _ ++ ?a = _ ++ ?b =>
    destruct (cls_prefix_eq identc k1 k2 a b I1 I2) as [-> E']; [reflexivity|reflexivity|exact E|] end.
  injection E' as E'.
  destruct (py_repr_unique_readable v1 v2 s1 s2) as [-> ->]; auto.
  - eapply follow_sep_or_close; [|exact S1]. reflexivity.
  - eapply follow_sep_or_close; [|exact S2]. reflexivity.
Qed.

Theorem auto_text_injective c1 a1 c2 a2 r1 r2 :
  ident c1 -> ident c2 -> Forall agood a1 -> Forall agood a2 ->
  py_repr (VAuto c1 a1) ++ r1 = py_repr (VAuto c2 a2) ++ r2 ->
  c1 = c2 /\ isort dkey_leb a1 = isort dkey_leb a2 /\ r1 = r2.
Proof.
  intros I1 I2 G1 G2 E. rewrite !py_repr_auto in E. rewrite <- !app_assoc in E.
  cbn [app lit list_ascii_of_string] in E.
  match type of E with _ ++ ?a = _ ++ ?b =>
    destruct (cls_prefix_eq identc c1 c2 a b I1 I2) as [-> E']; [reflexivity|reflexivity|exact E|] end.
  injection E' as E'.
  assert (S1 : Forall agood (isort dkey_leb a1)).
  { rewrite Forall_forall in *. intros x Hx. apply G1. eapply Permutation.Permutation_in; [apply (isort_perm dkey_leb)|exact Hx]. }
  assert (S2 : Forall agood (isort dkey_leb a2)).
  { rewrite Forall_forall in *. intros x Hx. apply G2. eapply Permutation.Permutation_in; [apply (isort_perm dkey_leb)|exact Hx]. }
  destruct (join_unique aitem ")"%char agood) with (l1 := isort dkey_leb a1) (l2 := isort dkey_leb a2) (r1 := r1) (r2 := r2)
    as [El ->]; auto.
  - discriminate.
  - intros [k v] (Ik & Hne & _). unfold aitem. cbn [fst snd] in *. destruct k as [|c k]; [congruence|].
    exists c, (k ++ lit "=" ++ py_repr v). split; [reflexivity|]. inversion Ik as [|? ? Hc _]; subst.
    intro; subst c; discriminate Hc.
  - rewrite Forall_forall in *. intros x Hx. split; [now apply S1|].
    intros y s1 s2 Gy T1 T2 Es. apply (aitem_unique x y s1 s2); auto.
Qed.

(* different persisted arguments (as sets of name = value), different text *)
Corollary auto_text_injective' c a1 a2 :
  ident c -> Forall agood a1 -> Forall agood a2 ->
  py_repr (VAuto c a1) = py_repr (VAuto c a2) -> isort dkey_leb a1 = isort dkey_leb a2.
Proof.
  intros Ic G1 G2 E. destruct (auto_text_injective c a1 c a2 [] [] Ic Ic G1 G2) as (_ & H & _); [now rewrite !app_nil_r|exact H].
Qed.

Example pyjson_example :
  pyjson (VDict [(lit "it's", VList [VStr (lit "a', 'b"); VStr (bytes [92; 110; 10]); VFloat (lit "nan")])]) = true.
Proof. reflexivity. Qed.
