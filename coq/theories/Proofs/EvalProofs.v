(* C01 / C04 core: what Task.value returns is the reference denotation of the task, whether it is
   computed, held in memory or loaded; a stored result is loaded without touching anything upstream. *)
From Coq Require Import String Ascii List Bool Arith ZArith Lia.
From TC Require Import PyStr Value Dict Repr Param Names Config Key Chain Eval StrProofs DictProofs.
Import ListNotations.

Lemma nth_error_set_nth {A} (l : list A) n x j :
  nth_error (set_nth n x l) j = if Nat.eqb j n && Nat.ltb n (List.length l) then Some x else nth_error l j.
Proof.
  revert n j. induction l as [|y r IH]; intros n j; simpl.
  - destruct n, j; simpl; try reflexivity; now rewrite andb_false_r.
  - destruct n as [|n], j as [|j]; simpl; try reflexivity. rewrite IH. reflexivity.
Qed.

Section EvalFacts.
  Variable classes : list tclass.
  Variable run : nat -> list (str * str) -> list (str * value) -> value.
  Variable objs : list obj.

  (* the reference evaluation of the configuration: run applied to the persisted parameters and to
     the denotations of the inputs (or the default of an absent optional input) *)
  Definition default_marker (d : value) : value := VDict [(lit "__default__", d)].
  Inductive Den : nat -> value -> Prop :=
  | Den_intro id o ins :
      nth_error objs id = Some o -> DenIns (o_inputs o) ins ->
      Den id (run (o_cls o) (persisted_reprs o) ins)
  with DenIns : list (str * (nat + value)) -> list (str * value) -> Prop :=
  | DI_nil : DenIns [] []
  | DI_task k j v r rs : Den j v -> DenIns r rs -> DenIns ((k, inl j) :: r) ((k, v) :: rs)
  | DI_default k d r rs : DenIns r rs -> DenIns ((k, inr d) :: r) ((k, default_marker d) :: rs).

  Lemma DenIns_app a xs b ys : DenIns a xs -> DenIns b ys -> DenIns (a ++ b) (xs ++ ys).
  Proof. induction 1; simpl; intros; [assumption|constructor; auto|constructor; auto]. Qed.

  (* `ideal p` is the one value that belongs at storage location p.  That every object's denotation
     is the ideal content of its own location is the interface to C03: same location, same
     computation (under the no-collision hypothesis on the hash) *)
  Variable ideal : str -> option value.
  Hypothesis location_determines_denotation :
    forall id o tc v, nth_error objs id = Some o -> cls_of classes o = Some tc ->
                      Den id v -> ideal (result_path tc o) = Some v.
  Hypothesis well_founded_inputs : forall id o, nth_error objs id = Some o -> exists v, Den id v.

  Definition StoreSound (w : world) : Prop :=
    forall p v, dget p (w_store w) = Some (FValue v) -> ideal p = Some v.
  Definition MemSound (w : world) : Prop :=
    forall id v, os_mem (state_of w id) = Some v -> Den id v.
  Definition Inv (w : world) : Prop := MemSound w /\ StoreSound w /\ w_objs w = objs.

  (* ---- store lemmas ---- *)
  Lemma mkdirs_go_files prefix comps st p v :
    dget p (mkdirs_go prefix comps st) = Some (FValue v) -> dget p st = Some (FValue v).
  Proof.
    revert prefix st. induction comps as [|c r IH]; intros prefix st H; simpl in H; [exact H|].
    apply IH in H. destruct (dhas _ st) eqn:E; [exact H|].
    match type of H with dget p (dset ?q FDir st) = _ =>
      destruct (str_eq_dec p q) as [->|Hne]; [rewrite dget_dset_same in H; discriminate|
                                              now rewrite dget_dset_other in H] end.
  Qed.

  Lemma mkdirs_files path st p v : dget p (mkdirs path st) = Some (FValue v) -> dget p st = Some (FValue v).
  Proof. apply mkdirs_go_files. Qed.

  Lemma store_sound_mkdirs w path : StoreSound w -> StoreSound (with_store (mkdirs path (w_store w)) w).
  Proof. intros H p v Hp. apply H. simpl in Hp. now apply mkdirs_files in Hp. Qed.

  Lemma store_sound_dset_other w q e :
    (forall v, e <> FValue v) -> StoreSound w -> StoreSound (with_store (dset q e (w_store w)) w).
  Proof.
    intros He H p v Hp. simpl in Hp. destruct (str_eq_dec p q) as [->|Hne].
    - rewrite dget_dset_same in Hp. injection Hp as Hp. exfalso. eapply He; eauto.
    - rewrite dget_dset_other in Hp by assumption. now apply H.
  Qed.

  Lemma store_sound_dset_value w q v0 :
    ideal q = Some v0 -> StoreSound w -> StoreSound (with_store (dset q (FValue v0) (w_store w)) w).
  Proof.
    intros Hi H p v Hp. simpl in Hp. destruct (str_eq_dec p q) as [->|Hne].
    - rewrite dget_dset_same in Hp. injection Hp as <-. exact Hi.
    - rewrite dget_dset_other in Hp by assumption. now apply H.
  Qed.

  (* ---- object states ---- *)
  Lemma state_of_set_state w id s j :
    state_of (set_state id s w) j =
    if Nat.eqb j id && Nat.ltb id (List.length (w_states w)) then s else state_of w j.
  Proof. unfold state_of, set_state. simpl. rewrite nth_error_set_nth. now destruct (_ && _). Qed.

  Lemma mem_sound_set w id s :
    MemSound w -> (forall v, os_mem s = Some v -> Den id v) -> MemSound (set_state id s w).
  Proof.
    intros Hm Hs j v. rewrite state_of_set_state.
    destruct (Nat.eqb j id && Nat.ltb id (List.length (w_states w))) eqn:E; [|apply Hm].
    apply andb_true_iff in E. destruct E as [E _]. apply Nat.eqb_eq in E. subst. apply Hs.
  Qed.

  Lemma mem_sound_store w st : MemSound w -> MemSound (with_store st w).
  Proof. intros H j v. exact (H j v). Qed.

  (* ---- the main invariant ---- *)
  Definition step_of (f : nat) :=
    fun (acc : world * res (list (str * value))) (inp : str * (nat + value)) =>
      match acc with
      | (wa, inr e) => (wa, inr e)
      | (wa, inl vs) =>
          match snd inp with
          | inr d => (wa, inl (vs ++ [(fst inp, VDict [(lit "__default__", d)])]))
          | inl j =>
              match eval classes run f wa j with
              | (wb, inl v) => (wb, inl (vs ++ [(fst inp, v)]))
              | (wb, inr e) => (wb, inr e)
              end
          end
      end.

  Definition P (f : nat) : Prop :=
    forall w id w' r, Inv w -> eval classes run f w id = (w', r) -> Inv w' /\ (forall v, r = inl v -> Den id v).

  Lemma fold_err f l wa e : fold_left (step_of f) l (wa, inr e) = (wa, inr e).
  Proof. induction l as [|x r IH]; simpl; auto. Qed.

  Lemma fold_inputs f : P f -> forall rest done wa vs wz rz,
      Inv wa -> DenIns done vs ->
      fold_left (step_of f) rest (wa, inl vs) = (wz, rz) ->
      Inv wz /\ (forall ins, rz = inl ins -> DenIns (done ++ rest) ins).
  Proof.
    intros HP. induction rest as [|[k [j|d]] r IH]; intros done wa vs wz rz Hi Hd Hf.
    - simpl in Hf. injection Hf as <- <-. split; [exact Hi|]. intros ins E. injection E as <-. now rewrite app_nil_r.
    - cbn [fold_left step_of snd fst] in Hf.
      destruct (eval classes run f wa j) as [wb [v|e]] eqn:Ee.
      + destruct (HP _ _ _ _ Hi Ee) as [Hib Hv].
        replace (done ++ (k, inl j) :: r) with ((done ++ [(k, inl j)]) ++ r) by now rewrite <- app_assoc.
        eapply IH; [exact Hib| |exact Hf].
        apply DenIns_app; [exact Hd|]. constructor; [now apply Hv|constructor].
      + destruct (HP _ _ _ _ Hi Ee) as [Hib _]. rewrite fold_err in Hf. injection Hf as <- <-.
        split; [exact Hib|discriminate].
    - cbn [fold_left step_of snd fst] in Hf.
      replace (done ++ (k, inr d) :: r) with ((done ++ [(k, inr d)]) ++ r) by now rewrite <- app_assoc.
      eapply IH; [exact Hi| |exact Hf].
      apply DenIns_app; [exact Hd|]. constructor. constructor.
  Qed.

  Definition pre_of (f : nat) (o : obj) :=
    fun (acc : world * bool) (k : str) =>
      match acc with
      | (wa, false) => (wa, false)
      | (wa, true) =>
          match find_input o k with
          | Some (_, inl j) => match eval classes run f wa j with
                               | (wb, inl _) => (wb, true)
                               | (wb, inr _) => (wb, false)
                               end
          | _ => (wa, true)
          end
      end.

  Lemma fold_pre f o : P f -> forall l wa b wz bz,
      Inv wa -> fold_left (pre_of f o) l (wa, b) = (wz, bz) -> Inv wz.
  Proof.
    intros HP. induction l as [|k l IH]; intros wa b wz bz Hi Hf.
    - simpl in Hf. injection Hf as <- _. exact Hi.
    - cbn [fold_left] in Hf. destruct b; cbn [pre_of] in Hf.
      + destruct (find_input o k) as [[n [j|d]]|]; try (eapply IH; [exact Hi|exact Hf]).
        destruct (eval classes run f wa j) as [wb [v|e]] eqn:Ee; destruct (HP _ _ _ _ Hi Ee) as [Hib _];
          eapply IH; [exact Hib|exact Hf|exact Hib|exact Hf].
      + eapply IH; [exact Hi|exact Hf].
  Qed.

  Theorem eval_sound f : P f.
  Proof.
    induction f as [|f IHf]; intros w id w' r Hi He.
    - simpl in He. injection He as <- <-. split; [exact Hi|discriminate].
    - cbn [eval] in He. fold (step_of f) in He.
      destruct Hi as (Hm & Hs & Ho).
      destruct (nth_error (w_objs w) id) as [o|] eqn:En; [|injection He as <- <-; repeat split; auto; discriminate].
      destruct (cls_of classes o) as [tc|] eqn:Ec; [|injection He as <- <-; repeat split; auto; discriminate].
      destruct (os_mem (state_of w id)) as [v0|] eqn:Emem.
      { injection He as <- <-. repeat split; auto. intros v E. injection E as <-. now apply Hm. }
      set (w1 := with_store (mkdirs (dir_of_slug (c_slug tc)) (w_store w)) w) in *.
      assert (Hi1 : Inv w1) by (repeat split; [apply mem_sound_store, Hm|apply store_sound_mkdirs, Hs|exact Ho]).
      rewrite Ho in En.
      destruct (if persisting (c_data tc) && negb (os_forced (state_of w id))
                then dget (result_path tc o) (w_store w1) else None) as [[|v1|v1|l1]|] eqn:Eload.
      1,3,4: injection He as <- <-; split; [exact Hi1|discriminate].
      { (* load *)
        injection He as <- <-. destruct Hi1 as (Hm1 & Hs1 & Ho1).
        assert (Hd : Den id v1).
        { destruct (persisting (c_data tc) && negb (os_forced (state_of w id))); [|discriminate].
          apply Hs1 in Eload. destruct (well_founded_inputs _ _ En) as [v' Hv'].
          rewrite (location_determines_denotation _ _ _ _ En Ec Hv') in Eload. injection Eload as <-. exact Hv'. }
        split; [|intros v E; injection E as <-; exact Hd].
        repeat split; [|exact Hs1|exact Ho1].
        apply mem_sound_set; [exact Hm1|]. simpl. intros v E. injection E as <-. exact Hd. }
      (* run *)
      set (w2 := with_store (dset (log_path tc o) (FLog []) (w_store w1)) w1) in *.
      assert (Hi2 : Inv w2).
      { destruct Hi1 as (Hm1 & Hs1 & Ho1). repeat split; [apply mem_sound_store, Hm1| |exact Ho1].
        apply store_sound_dset_other; [discriminate|exact Hs1]. }
      fold (pre_of f o) in He.
      destruct (fold_left (pre_of f o) (c_runargs tc) (w2, true)) as [w2' b'] eqn:Epre.
      assert (Hi2' : Inv w2') by (eapply fold_pre; [exact IHf|exact Hi2|exact Epre]).
      destruct b'; [|injection He as <- <-; split; [exact Hi2'|discriminate]].
      set (w3 := {| w_store := w_store w2'; w_objs := w_objs w2'; w_states := w_states w2';
                    w_runlog := w_runlog w2' ++ [(c_slug tc, o_key o)]; w_fail := w_fail w2' |}) in *.
      assert (Hi3 : Inv w3) by exact Hi2'.
      destruct (existsb (str_eqb (c_slug tc)) (w_fail w3)).
      { injection He as <- <-. split; [exact Hi3|discriminate]. }
      destruct (fold_left (step_of f) (o_inputs o) (w3, inl [])) as [w4 [ins|e]] eqn:Ef.
      2:{ injection He as <- <-.
          destruct (fold_inputs f IHf (o_inputs o) [] w3 [] w4 (inr e) Hi3 DI_nil Ef) as [Hi4 _].
          split; [exact Hi4|discriminate]. }
      destruct (fold_inputs f IHf (o_inputs o) [] w3 [] w4 (inl ins) Hi3 DI_nil Ef) as [Hi4 Hins].
      specialize (Hins ins eq_refl). simpl in Hins.
      assert (Hd : Den id (run (o_cls o) (persisted_reprs o) ins)) by (econstructor; eauto).
      injection He as <- <-. split; [|intros v E; injection E as <-; exact Hd].
      destruct Hi4 as (Hm4 & Hs4 & Ho4).
      repeat split; [| |exact Ho4].
      + apply mem_sound_set; [apply mem_sound_store, Hm4|]. simpl. intros v E. injection E as <-. exact Hd.
      + unfold set_state. intros p v Hp. cbn [w_store with_store] in Hp.
        destruct (str_eq_dec p (info_path tc o)) as [->|Hn1]; [rewrite dget_dset_same in Hp; discriminate|].
        rewrite dget_dset_other in Hp by assumption.
        assert (Hlog : forall q u, dget q (dset (log_path tc o) (FLog [run_token tc]) (w_store w4)) = Some (FValue u) ->
                                   ideal q = Some u).
        { intros q u Hq. destruct (str_eq_dec q (log_path tc o)) as [->|Hn3]; [rewrite dget_dset_same in Hq; discriminate|].
          rewrite dget_dset_other in Hq by assumption. now apply Hs4. }
        destruct (persisting (c_data tc)); [|now apply Hlog].
        destruct (str_eq_dec p (result_path tc o)) as [->|Hn2].
        * rewrite dget_dset_same in Hp. injection Hp as <-. eapply location_determines_denotation; eauto.
        * rewrite dget_dset_other in Hp by assumption. now apply Hlog.
  Qed.
End EvalFacts.

(* whatever relation between worlds every request preserves is preserved by the requests for the run
   arguments *)
Lemma fold_pre_rel classes run (R : world -> world -> Prop) f o :
  (forall w, R w w) -> (forall a b c, R a b -> R b c -> R a c) ->
  (forall w id w' r, eval classes run f w id = (w', r) -> R w w') ->
  forall l wa b wz bz, fold_left (pre_of classes run f o) l (wa, b) = (wz, bz) -> R wa wz.
Proof.
  intros Hrefl Htrans He. induction l as [|k l IH]; intros wa b wz bz Hf.
  - simpl in Hf. injection Hf as <- _. apply Hrefl.
  - cbn [fold_left] in Hf. destruct b; cbn [pre_of] in Hf.
    + destruct (find_input o k) as [[n [j|d]]|]; try (eapply IH; exact Hf).
      destruct (eval classes run f wa j) as [wb [v|e]] eqn:Ee; apply He in Ee;
        (eapply Htrans; [exact Ee|eapply IH; exact Hf]).
    + eapply IH; exact Hf.
Qed.

(* ---------- C04: served from memory / loaded without running, without touching upstream ---------- *)
Section Served.
  Variable classes : list tclass.
  Variable run : nat -> list (str * str) -> list (str * value) -> value.

  Theorem eval_memory_hit f w id o tc v :
    nth_error (w_objs w) id = Some o -> cls_of classes o = Some tc -> os_mem (state_of w id) = Some v ->
    eval classes run (S f) w id = (w, inl v).
  Proof. intros Ho Hc Hm. cbn [eval]. now rewrite Ho, Hc, Hm. Qed.

  Lemma dget_mkdirs_go_existing prefix comps st p e : dget p st = Some e -> dget p (mkdirs_go prefix comps st) = Some e.
  Proof.
    revert prefix st. induction comps as [|c r IH]; intros prefix st H; simpl; [exact H|].
    apply IH. destruct (dhas _ st) eqn:E; [exact H|].
    match goal with |- dget p (dset ?q FDir st) = _ =>
      destruct (str_eq_dec p q) as [->|Hne]; [unfold dhas in E; rewrite H in E; discriminate|
                                              now rewrite dget_dset_other] end.
  Qed.

  (* a stored, unforced result: the value is loaded; no run starts; the only change to the data
     directory is the (idempotent) creation of the task directory; no other object is touched *)
  Theorem eval_load_touches_nothing f w id o tc v :
    nth_error (w_objs w) id = Some o -> cls_of classes o = Some tc ->
    os_mem (state_of w id) = None -> os_forced (state_of w id) = false -> persisting (c_data tc) = true ->
    dget (result_path tc o) (w_store w) = Some (FValue v) ->
    exists w', eval classes run (S f) w id = (w', inl v) /\
               w_runlog w' = w_runlog w /\ w_objs w' = w_objs w /\
               w_store w' = mkdirs (dir_of_slug (c_slug tc)) (w_store w) /\
               (forall j, j <> id -> state_of w' j = state_of w j) /\
               (forall p e, dget p (w_store w) = Some e -> dget p (w_store w') = Some e).
  Proof.
    intros Ho Hc Hm Hf Hp Hs. cbn [eval]. rewrite Ho, Hc, Hm, Hp, Hf. simpl.
    unfold mkdirs. rewrite (dget_mkdirs_go_existing _ _ _ _ _ Hs).
    eexists. split; [reflexivity|]. repeat split.
    - intros j Hj. rewrite state_of_set_state. apply Nat.eqb_neq in Hj. now rewrite Hj.
    - intros p e He. simpl. now apply dget_mkdirs_go_existing.
  Qed.

  (* runs are only ever appended *)
  Lemma fold_runlog_prefix f (IH : forall w id w' r, eval classes run f w id = (w', r) -> exists d, w_runlog w' = w_runlog w ++ d)
        l wa acc wz rz :
    fold_left (step_of classes run f) l (wa, acc) = (wz, rz) -> exists d, w_runlog wz = w_runlog wa ++ d.
  Proof.
    revert wa acc. induction l as [|[k [j|dv]] r IHl]; intros wa acc H.
    - simpl in H. injection H as <- _. exists []. now rewrite app_nil_r.
    - cbn [fold_left step_of snd fst] in H. destruct acc as [vs|e].
      + destruct (eval classes run f wa j) as [wb [v|e]] eqn:Ee; destruct (IH _ _ _ _ Ee) as [d1 Hd1];
          apply IHl in H; destruct H as [d2 Hd2]; exists (d1 ++ d2); rewrite Hd2, Hd1; now rewrite app_assoc.
      + apply IHl in H. exact H.
    - cbn [fold_left step_of snd fst] in H. destruct acc as [vs|e]; apply IHl in H; exact H.
  Qed.

  Theorem eval_runlog_grows f : forall w id w' r,
    eval classes run f w id = (w', r) -> exists d, w_runlog w' = w_runlog w ++ d.
  Proof.
    induction f as [|f IHf]; intros w id w' r He.
    - simpl in He. injection He as <- _. exists []. now rewrite app_nil_r.
    - cbn [eval] in He. fold (step_of classes run f) in He.
      destruct (nth_error (w_objs w) id) as [o|]; [|injection He as <- _; exists []; now rewrite app_nil_r].
      destruct (cls_of classes o) as [tc|]; [|injection He as <- _; exists []; now rewrite app_nil_r].
      destruct (os_mem (state_of w id)); [injection He as <- _; exists []; now rewrite app_nil_r|].
      destruct (if persisting (c_data tc) && negb (os_forced (state_of w id)) then _ else None) as [[|v1|v1|l1]|].
      1-4: injection He as <- _; exists []; simpl; now rewrite app_nil_r.
      fold (pre_of classes run f o) in He.
      match type of He with context [fold_left (pre_of classes run f o) ?l ?a] =>
        destruct (fold_left (pre_of classes run f o) l a) as [w2' b'] eqn:Epre end.
      apply (fold_pre_rel classes run (fun a b => exists d, w_runlog b = w_runlog a ++ d)) in Epre;
        [|intros a; exists []; now rewrite app_nil_r
         |intros a b c [d1 H1] [d2 H2]; exists (d1 ++ d2); rewrite H2, H1; now rewrite app_assoc
         |exact IHf].
      destruct Epre as [d0 Hd0]. simpl in Hd0.
      destruct b'; [|injection He as <- _; exists d0; exact Hd0].
      destruct (existsb _ _).
      { injection He as <- _. simpl. eexists. rewrite Hd0, <- app_assoc. reflexivity. }
      match type of He with (match ?X with _ => _ end) = _ => destruct X as [w4 [ins|e]] eqn:Ef end.
      + apply (fold_runlog_prefix f IHf) in Ef. destruct Ef as [d Hd]. injection He as <- _. simpl.
        simpl in Hd. eexists. rewrite Hd, Hd0. rewrite <- !app_assoc. reflexivity.
      + apply (fold_runlog_prefix f IHf) in Ef. destruct Ef as [d Hd]. injection He as <- _.
        simpl in Hd. eexists. rewrite Hd, Hd0. rewrite <- !app_assoc. reflexivity.
  Qed.

End Served.

Section Forced.
  Variable classes : list tclass.
  Variable run : nat -> list (str * str) -> list (str * value) -> value.

  (* a forced object with nothing in memory runs although a result may be stored: the inputs named in
     the signature of run are requested first (d0: what they run); unless one of them fails, the run
     of the object itself is started *)
  Theorem eval_forced_runs f w id o tc w' r :
    nth_error (w_objs w) id = Some o -> cls_of classes o = Some tc ->
    os_mem (state_of w id) = None -> os_forced (state_of w id) = true ->
    eval classes run (S f) w id = (w', r) ->
    (exists d0 d, w_runlog w' = w_runlog w ++ d0 ++ (c_slug tc, o_key o) :: d) \/
    (r = inr ERun /\ c_runargs tc <> []).
  Proof.
    intros Ho Hc Hm Hf He. cbn [eval] in He. fold (step_of classes run f) in He.
    rewrite Ho, Hc, Hm, Hf, andb_false_r in He.
    fold (pre_of classes run f o) in He.
    match type of He with context [fold_left (pre_of classes run f o) ?l ?a] =>
      destruct (fold_left (pre_of classes run f o) l a) as [w2' b'] eqn:Epre end.
    assert (Hne : b' = false -> c_runargs tc <> []).
    { intros -> E. rewrite E in Epre. simpl in Epre. discriminate. }
    apply (fold_pre_rel classes run (fun a b => exists d, w_runlog b = w_runlog a ++ d)) in Epre;
      [|intros a; exists []; now rewrite app_nil_r
       |intros a b c [d1 H1] [d2 H2]; exists (d1 ++ d2); rewrite H2, H1; now rewrite app_assoc
       |apply eval_runlog_grows].
    destruct Epre as [d0 Hd0]. simpl in Hd0.
    destruct b'; [|injection He as <- <-; right; split; [reflexivity|now apply Hne]].
    left. destruct (existsb _ _).
    { injection He as <- _. exists d0, []. simpl. rewrite Hd0, <- app_assoc. reflexivity. }
    match type of He with (match ?X with _ => _ end) = _ => destruct X as [w4 [ins|e]] eqn:Ef end;
      apply (fold_runlog_prefix classes run f (eval_runlog_grows classes run f)) in Ef; destruct Ef as [d Hd];
      injection He as <- _; simpl in *; exists d0, d; rewrite Hd, Hd0; now rewrite <- !app_assoc.
  Qed.

  (* a task that names no input in the signature of run: its own run is the first thing that happens *)
  Corollary eval_forced_runs_plain f w id o tc w' r :
    nth_error (w_objs w) id = Some o -> cls_of classes o = Some tc -> c_runargs tc = [] ->
    os_mem (state_of w id) = None -> os_forced (state_of w id) = true ->
    eval classes run (S f) w id = (w', r) ->
    exists d, w_runlog w' = w_runlog w ++ (c_slug tc, o_key o) :: d.
  Proof.
    intros Ho Hc Hr Hm Hf He. cbn [eval] in He. fold (step_of classes run f) in He.
    rewrite Ho, Hc, Hm, Hf, andb_false_r, Hr in He. cbn [fold_left] in He.
    destruct (existsb _ _).
    { injection He as <- _. exists []. reflexivity. }
    match type of He with (match ?X with _ => _ end) = _ => destruct X as [w4 [ins|e]] eqn:Ef end;
      apply (fold_runlog_prefix classes run f (eval_runlog_grows classes run f)) in Ef; destruct Ef as [d Hd];
      injection He as <- _; simpl in *; exists d; rewrite Hd; now rewrite <- app_assoc.
  Qed.

  Lemma set_nth_length {A} n (x : A) l : List.length (set_nth n x l) = List.length l.
  Proof. revert n. induction l as [|y r IH]; intros [|n]; simpl; auto. Qed.

  Lemma fold_states_len f
        (IH : forall w id w' r, eval classes run f w id = (w', r) -> List.length (w_states w') = List.length (w_states w))
        l wa acc wz rz :
    fold_left (step_of classes run f) l (wa, acc) = (wz, rz) -> List.length (w_states wz) = List.length (w_states wa).
  Proof.
    revert wa acc. induction l as [|[k [j|dv]] r IHl]; intros wa acc H.
    - simpl in H. now injection H as <- _.
    - cbn [fold_left step_of snd fst] in H. destruct acc as [vs|e].
      + destruct (eval classes run f wa j) as [wb [v|e]] eqn:Ee; apply IH in Ee; apply IHl in H; congruence.
      + now apply IHl in H.
    - cbn [fold_left step_of snd fst] in H. destruct acc as [vs|e]; now apply IHl in H.
  Qed.

  Lemma eval_states_len f : forall w id w' r,
    eval classes run f w id = (w', r) -> List.length (w_states w') = List.length (w_states w).
  Proof.
    induction f as [|f IHf]; intros w id w' r He.
    - simpl in He. now injection He as <- _.
    - cbn [eval] in He. fold (step_of classes run f) in He.
      destruct (nth_error (w_objs w) id) as [o|]; [|now injection He as <- _].
      destruct (cls_of classes o) as [tc|]; [|now injection He as <- _].
      destruct (os_mem (state_of w id)); [now injection He as <- _|].
      destruct (if persisting (c_data tc) && negb (os_forced (state_of w id)) then _ else None) as [[|v1|v1|l1]|].
      1,3,4: now injection He as <- _.
      { injection He as <- _. simpl. apply set_nth_length. }
      fold (pre_of classes run f o) in He.
      match type of He with context [fold_left (pre_of classes run f o) ?l ?a] =>
        destruct (fold_left (pre_of classes run f o) l a) as [w2' b'] eqn:Epre end.
      apply (fold_pre_rel classes run (fun a b => List.length (w_states b) = List.length (w_states a))) in Epre;
        [|reflexivity|intros a b c H1 H2; congruence|exact IHf].
      simpl in Epre.
      destruct b'; [|injection He as <- _; exact Epre].
      destruct (existsb _ _); [injection He as <- _; exact Epre|].
      match type of He with (match ?X with _ => _ end) = _ => destruct X as [w4 [ins|e]] eqn:Ef end;
        apply (fold_states_len f IHf) in Ef; injection He as <- _; simpl in *; [rewrite set_nth_length|]; congruence.
  Qed.

  (* a successful request leaves the value in memory: every later request on the same object is a
     memory hit (eval_memory_hit) and starts no run *)
  Theorem eval_success_in_memory f w id w' v :
    id < List.length (w_states w) ->
    eval classes run f w id = (w', inl v) -> os_mem (state_of w' id) = Some v.
  Proof.
    destruct f as [|f]; intros Hl He; [discriminate|].
    cbn [eval] in He. fold (step_of classes run f) in He.
    destruct (nth_error (w_objs w) id) as [o|]; [|discriminate].
    destruct (cls_of classes o) as [tc|]; [|discriminate].
    destruct (os_mem (state_of w id)) eqn:Em; [injection He as <- <-; exact Em|].
    destruct (if persisting (c_data tc) && negb (os_forced (state_of w id)) then _ else None) as [[|v1|v1|l1]|].
    1,3,4: discriminate.
    { injection He as <- <-. rewrite state_of_set_state. simpl. rewrite Nat.eqb_refl.
      apply Nat.ltb_lt in Hl. now rewrite Hl. }
    fold (pre_of classes run f o) in He.
    match type of He with context [fold_left (pre_of classes run f o) ?l ?a] =>
      destruct (fold_left (pre_of classes run f o) l a) as [w2' b'] eqn:Epre end.
    apply (fold_pre_rel classes run (fun a b => List.length (w_states b) = List.length (w_states a))) in Epre;
      [|reflexivity|intros a b c H1 H2; congruence|apply eval_states_len].
    simpl in Epre.
    destruct b'; [|discriminate].
    destruct (existsb _ _); [discriminate|].
    match type of He with (match ?X with _ => _ end) = _ => destruct X as [w4 [ins|e]] eqn:Ef end; [|discriminate].
    apply (fold_states_len f (eval_states_len f)) in Ef. injection He as <- <-.
    rewrite state_of_set_state. simpl in *. rewrite Nat.eqb_refl.
    assert (Hl4 : Nat.ltb id (List.length (w_states w4)) = true) by (apply Nat.ltb_lt; lia).
    now rewrite Hl4.
  Qed.

  (* ... and a successful request that was not a memory hit leaves the object unmarked: the forced
     recomputation consumes the mark (a stored result is loaded only by unmarked objects) *)
  Theorem eval_success_unmarks f w id w' v :
    id < List.length (w_states w) -> os_mem (state_of w id) = None ->
    eval classes run f w id = (w', inl v) -> os_forced (state_of w' id) = false.
  Proof.
    destruct f as [|f]; intros Hl Em He; [discriminate|].
    cbn [eval] in He. fold (step_of classes run f) in He.
    destruct (nth_error (w_objs w) id) as [o|]; [|discriminate].
    destruct (cls_of classes o) as [tc|]; [|discriminate].
    rewrite Em in He.
    destruct (persisting (c_data tc) && negb (os_forced (state_of w id))) eqn:Ec.
    - destruct (dget _ _) as [[|v1|v1|l1]|].
      1,3,4: discriminate.
      { injection He as <- <-. rewrite state_of_set_state. simpl. rewrite Nat.eqb_refl.
        apply Nat.ltb_lt in Hl. rewrite Hl. simpl.
        apply andb_true_iff in Ec. destruct Ec as [_ Ec]. now apply negb_true_iff in Ec. }
      fold (pre_of classes run f o) in He.
      match type of He with context [fold_left (pre_of classes run f o) ?l ?a] =>
        destruct (fold_left (pre_of classes run f o) l a) as [w2' b'] eqn:Epre end.
      apply (fold_pre_rel classes run (fun a b => List.length (w_states b) = List.length (w_states a))) in Epre;
        [|reflexivity|intros a b c H1 H2; congruence|apply eval_states_len].
      simpl in Epre.
      destruct b'; [|discriminate].
      destruct (existsb _ _); [discriminate|].
      match type of He with (match ?X with _ => _ end) = _ => destruct X as [w4 [ins|e]] eqn:Ef end; [|discriminate].
      apply (fold_states_len f (eval_states_len f)) in Ef. injection He as <- <-.
      rewrite state_of_set_state. simpl in *. rewrite Nat.eqb_refl.
      assert (Hl4 : Nat.ltb id (List.length (w_states w4)) = true) by (apply Nat.ltb_lt; lia).
      now rewrite Hl4.
    - fold (pre_of classes run f o) in He.
      match type of He with context [fold_left (pre_of classes run f o) ?l ?a] =>
        destruct (fold_left (pre_of classes run f o) l a) as [w2' b'] eqn:Epre end.
      apply (fold_pre_rel classes run (fun a b => List.length (w_states b) = List.length (w_states a))) in Epre;
        [|reflexivity|intros a b c H1 H2; congruence|apply eval_states_len].
      simpl in Epre.
      destruct b'; [|discriminate].
      destruct (existsb _ _); [discriminate|].
      match type of He with (match ?X with _ => _ end) = _ => destruct X as [w4 [ins|e]] eqn:Ef end; [|discriminate].
      apply (fold_states_len f (eval_states_len f)) in Ef. injection He as <- <-.
      rewrite state_of_set_state. simpl in *. rewrite Nat.eqb_refl.
      assert (Hl4 : Nat.ltb id (List.length (w_states w4)) = true) by (apply Nat.ltb_lt; lia).
      now rewrite Hl4.
  Qed.
End Forced.

Section Objs.
  Variable classes : list tclass.
  Variable run : nat -> list (str * str) -> list (str * value) -> value.

  Lemma fold_objs f
        (IH : forall w id w' r, eval classes run f w id = (w', r) -> w_objs w' = w_objs w)
        l wa acc wz rz :
    fold_left (step_of classes run f) l (wa, acc) = (wz, rz) -> w_objs wz = w_objs wa.
  Proof.
    revert wa acc. induction l as [|[k [j|dv]] r IHl]; intros wa acc H.
    - simpl in H. now injection H as <- _.
    - cbn [fold_left step_of snd fst] in H. destruct acc as [vs|e].
      + destruct (eval classes run f wa j) as [wb [v|e]] eqn:Ee; apply IH in Ee; apply IHl in H; congruence.
      + now apply IHl in H.
    - cbn [fold_left step_of snd fst] in H. destruct acc as [vs|e]; now apply IHl in H.
  Qed.

  Lemma eval_keeps_objs f : forall w id w' r, eval classes run f w id = (w', r) -> w_objs w' = w_objs w.
  Proof.
    induction f as [|f IHf]; intros w id w' r He.
    - simpl in He. now injection He as <- _.
    - cbn [eval] in He. fold (step_of classes run f) in He.
      destruct (nth_error (w_objs w) id) as [o|]; [|now injection He as <- _].
      destruct (cls_of classes o) as [tc|]; [|now injection He as <- _].
      destruct (os_mem (state_of w id)); [now injection He as <- _|].
      destruct (if persisting (c_data tc) && negb (os_forced (state_of w id)) then _ else None) as [[|v1|v1|l1]|].
      1-4: now injection He as <- _.
      fold (pre_of classes run f o) in He.
      match type of He with context [fold_left (pre_of classes run f o) ?l ?a] =>
        destruct (fold_left (pre_of classes run f o) l a) as [w2' b'] eqn:Epre end.
      apply (fold_pre_rel classes run (fun a b => w_objs b = w_objs a)) in Epre;
        [|reflexivity|intros a b c H1 H2; congruence|exact IHf].
      simpl in Epre.
      destruct b'; [|injection He as <- _; exact Epre].
      destruct (existsb _ _); [injection He as <- _; exact Epre|].
      match type of He with (match ?X with _ => _ end) = _ => destruct X as [w4 [ins|e]] eqn:Ef end;
        apply (fold_objs f IHf) in Ef; injection He as <- _; simpl in *; congruence.
  Qed.

  (* C13: the members of a MultiChain hold ONE object for one computation, so a value computed through
     one member is in memory for every other member: requesting it there runs nothing *)
  Theorem shared_object_memory f f' w id o tc w' v :
    nth_error (w_objs w) id = Some o -> cls_of classes o = Some tc -> id < List.length (w_states w) ->
    eval classes run f w id = (w', inl v) ->
    eval classes run (S f') w' id = (w', inl v).
  Proof.
    intros Ho Hc Hl He. apply eval_memory_hit with (o := o) (tc := tc); auto.
    - rewrite (eval_keeps_objs _ _ _ _ _ He). exact Ho.
    - eapply eval_success_in_memory; eauto.
  Qed.
End Objs.
