From Coq Require Import List Ascii String Bool Arith Lia Permutation.
From TC Require Import PyStr.
Import ListNotations.

Lemma str_eqb_eq a b : str_eqb a b = true <-> a = b.
Proof.
  revert b. induction a as [|x a IH]; intros [|y b]; simpl; split; intros H; try discriminate; auto.
  - apply andb_true_iff in H. destruct H as [Hx Hr]. apply Ascii.eqb_eq in Hx. apply IH in Hr. congruence.
  - injection H as -> ->. rewrite Ascii.eqb_refl. simpl. now apply IH.
Qed.
Lemma str_eqb_refl a : str_eqb a a = true.
Proof. now apply str_eqb_eq. Qed.
Lemma str_eqb_neq a b : str_eqb a b = false <-> a <> b.
Proof. split; intros H. - intros E. apply str_eqb_eq in E. congruence.
       - destruct (str_eqb a b) eqn:E; auto. apply str_eqb_eq in E. contradiction. Qed.

Lemma has_char_in c s : has_char c s = true <-> In c s.
Proof.
  induction s as [|x r IH]; simpl; [split; [discriminate|contradiction]|].
  rewrite orb_true_iff, IH, Ascii.eqb_eq. tauto.
Qed.

Lemma join_cons sep x r : r <> [] -> join sep (x :: r) = x ++ sep ++ join sep r.
Proof. destruct r; [contradiction|reflexivity]. Qed.

(* ---- split on one character ---- *)
Lemma split_c_go_nonempty c acc s : split_c_go c acc s <> [].
Proof. revert acc. induction s as [|x r IH]; intros acc; simpl; [discriminate|].
       destruct (Ascii.eqb x c); [discriminate|apply IH]. Qed.

Lemma join_split_c_go c acc s : join [c] (split_c_go c acc s) = rev acc ++ s.
Proof.
  revert acc. induction s as [|x r IH]; intros acc; simpl.
  - now rewrite app_nil_r.
  - destruct (Ascii.eqb x c) eqn:E.
    + apply Ascii.eqb_eq in E. subst x.
      rewrite join_cons by apply split_c_go_nonempty. rewrite IH. reflexivity.
    + rewrite IH. simpl. now rewrite <- app_assoc.
Qed.
Lemma join_split_c c s : join [c] (split_c c s) = s.
Proof. unfold split_c. now rewrite join_split_c_go. Qed.

Lemma split_c_no_char c s : ~ In c s -> split_c c s = [s].
Proof.
  unfold split_c. intros H.
  assert (G : forall acc, split_c_go c acc s = [rev acc ++ s]).
  { induction s as [|x r IH]; intros acc; simpl; [now rewrite app_nil_r|].
    destruct (Ascii.eqb x c) eqn:E.
    - apply Ascii.eqb_eq in E. subst. exfalso. apply H. now left.
    - rewrite IH; [|intro; apply H; now right]. simpl. now rewrite <- app_assoc. }
  apply G.
Qed.

(* ---- split on the double colon ---- *)
Lemma str_len_ind (P : str -> Prop) :
  (forall s, (forall t, List.length t < List.length s -> P t) -> P s) -> forall s, P s.
Proof.
  intros H s. remember (List.length s) as n eqn:En. revert s En.
  induction n as [n IHn] using lt_wf_ind. intros s ->. apply H. intros t Ht. eapply IHn; eauto.
Qed.

Lemma split_dc_go_cons2 acc x y r :
  split_dc_go acc (x :: y :: r) =
  if Ascii.eqb x colon && Ascii.eqb y colon then rev acc :: split_dc_go [] r else split_dc_go (x :: acc) (y :: r).
Proof. reflexivity. Qed.

Lemma split_dc_go_nonempty acc s : split_dc_go acc s <> [].
Proof.
  revert acc. induction s as [s H] using str_len_ind; intros acc.
  destruct s as [|x [|y r]]; try (simpl; discriminate).
  rewrite split_dc_go_cons2.
  destruct (Ascii.eqb x colon && Ascii.eqb y colon); [discriminate|].
  apply H. simpl. lia.
Qed.

Lemma join_split_dc_go acc s : join (lit "::") (split_dc_go acc s) = rev acc ++ s.
Proof.
  revert acc. induction s as [s IH] using str_len_ind; intros acc.
  destruct s as [|x [|y r]].
  - simpl. now rewrite app_nil_r.
  - simpl. reflexivity.
  - rewrite split_dc_go_cons2. destruct (Ascii.eqb x colon && Ascii.eqb y colon) eqn:E.
    + apply andb_true_iff in E. destruct E as [Ex Ey]. apply Ascii.eqb_eq in Ex, Ey. subst.
      rewrite join_cons by apply split_dc_go_nonempty.
      rewrite IH by (simpl; lia). reflexivity.
    + rewrite IH by (simpl; lia). simpl. now rewrite <- app_assoc.
Qed.
Lemma join_split_dc s : join (lit "::") (split_dc s) = s.
Proof. unfold split_dc. now rewrite join_split_dc_go. Qed.

Lemma removelast_last_str (xs : list str) : xs <> [] -> xs = removelast xs ++ [last_str xs].
Proof.
  induction xs as [|x r IH]; [contradiction|]. intros _. destruct r as [|y r]; [reflexivity|].
  change (removelast (x :: y :: r)) with (x :: removelast (y :: r)).
  change (last_str (x :: y :: r)) with (last_str (y :: r)).
  simpl app. f_equal. apply IH. discriminate.
Qed.
