From Coq Require Import String Ascii List Bool Arith ZArith Lia.
From TC Require Import PyStr Value Dict Repr Param Names Config Key Chain Eval Testing
     StrProofs DictProofs ConfigProofs ChainProofs EvalProofs.
Import ListNotations.

Section TestingFacts.
  Variable classes : list tclass.
  Variable run : nat -> list (str * str) -> list (str * value) -> value.

  (* a mocked task returns the supplied value; run is not applied *)
  Theorem mock_returns_supplied f chain mocks name v :
    dget name mocks = Some v -> test_value run (S f) chain mocks name = inl v.
  Proof. intros H. cbn [test_value]. now rewrite H. Qed.

  Lemma reprs_of_persisted o : persisted_reprs o = reprs_of (o_params o).
  Proof. reflexivity. Qed.

  (* the inputs of the test task agree with those of the real task object: same names, same defaults,
     and each upstream value handed to / computed by the helper is the denotation of the real upstream *)
  Inductive InputsAgree (objs : list obj) (f : nat) (chain : list (str * tnode)) (mocks : list (str * value))
    : list (str * (str + value)) -> list (str * (nat + value)) -> Prop :=
  | IA_nil : InputsAgree objs f chain mocks [] []
  | IA_default k d r r' : InputsAgree objs f chain mocks r r' ->
      InputsAgree objs f chain mocks ((k, inr d) :: r) ((k, inr d) :: r')
  | IA_task k tn j v r r' :
      test_value run f chain mocks tn = inl v -> Den run objs j v -> InputsAgree objs f chain mocks r r' ->
      InputsAgree objs f chain mocks ((k, inl tn) :: r) ((k, inl j) :: r').

  Lemma inputs_agree_values objs f chain mocks tins oins :
    InputsAgree objs f chain mocks tins oins ->
    exists vs, sequence (map (fun inp => match snd inp with
                                         | inr d => inl (fst inp, VDict [(lit "__default__", d)])
                                         | inl tn => match test_value run f chain mocks tn with
                                                     | inl v => inl (fst inp, v)
                                                     | inr e => inr e end
                                         end) tins) = inl vs /\ DenIns run objs oins vs.
  Proof.
    induction 1 as [|k d r r' _ IH|k tn j v r r' Hv Hd _ IH].
    - exists []. split; [reflexivity|constructor].
    - destruct IH as [vs [Hs Hi]]. exists ((k, VDict [(lit "__default__", d)]) :: vs). split.
      + simpl. simpl in Hs. now rewrite Hs.
      + now constructor.
    - destruct IH as [vs [Hs Hi]]. exists ((k, v) :: vs). split.
      + simpl. rewrite Hv. simpl in Hs. now rewrite Hs.
      + now constructor.
  Qed.

  (* given the same parameter values and the same upstream values, the helper yields exactly what the
     real chain yields for that task *)
  Theorem helper_yields_real_value objs f chain mocks name nd id o :
    nth_error objs id = Some o -> dget name mocks = None -> dget name chain = Some nd ->
    t_cls nd = o_cls o -> t_params nd = o_params o ->
    InputsAgree objs f chain mocks (t_inputs nd) (o_inputs o) ->
    exists v, test_value run (S f) chain mocks name = inl v /\ Den run objs id v.
  Proof.
    intros Ho Hm Hc Hcls Hps Hin. cbn [test_value]. rewrite Hm, Hc.
    destruct (inputs_agree_values _ _ _ _ _ _ Hin) as [vs [Hs Hd]]. rewrite Hs.
    eexists. split; [reflexivity|]. rewrite Hcls, Hps, <- reprs_of_persisted. now constructor.
  Qed.

  (* a missing required parameter (or an ill-typed value) is reported when the helper is constructed *)
  Theorem helper_reports_bad_parameter k tc mocks params p :
    cls classes k = inl tc -> In p (c_params tc) -> (exists e, set_value p params = inr e) ->
    exists e, test_chain classes [k] mocks params = inr e.
  Proof.
    intros Hc Hin He. unfold test_chain. cbn [fold_left]. rewrite Hc.
    destruct (set_values_error _ _ _ Hin He) as [e' He']. rewrite He'. eauto.
  Qed.

  (* a missing input task is reported when the helper is constructed *)
  Theorem helper_reports_missing_input k tc mocks params ps :
    cls classes k = inl tc -> set_values (c_params tc) params = inl ps -> dhas (c_slug tc) mocks = false ->
    (exists e, resolve_inputs classes tc (c_slug tc)
                 (map fst (fold_left (fun acc m => dset (fst m) tt acc) mocks [(c_slug tc, tt)])) = inr e) ->
    exists e, test_chain classes [k] mocks params = inr e.
  Proof.
    intros Hc Hs Hm [e He]. unfold test_chain. cbn [fold_left]. rewrite Hc, Hs. cbn [fold_left map fst snd].
    rewrite dset_nil_eq. cbn [fold_left map fst snd t_cls]. rewrite Hm, Hc, He. eauto.
  Qed.
End TestingFacts.
