From Coq Require Import List Ascii String Bool Arith ZArith Lia Permutation Sorted.
From TC Require Import PyStr Value Dict Cached StrProofs SortProofs ValueProofs DictProofs.
Import ListNotations.

(* ---------- binding ---------- *)
(* what Python binds to parameter number i: a positional argument, else the keyword, else the default *)
Definition py_value (args : list value) (kwargs : list (str * value)) (i : nat) (p : param) : option value :=
  match nth_error args i with
  | Some a => Some a
  | None => match dget (p_name p) kwargs with Some v => Some v | None => p_default p end
  end.

Lemma dhas_dget k (d : list (str * value)) : dhas k d = match dget k d with Some _ => true | None => false end.
Proof. reflexivity. Qed.

Lemma bind_go_other sig i args kw k :
  ~ In k (map p_name sig) -> dget k (bind_go sig i args kw) = dget k kw.
Proof.
  revert i kw. induction sig as [|p rest IH]; intros i kw Hn; simpl; [reflexivity|].
  rewrite IH by (intro; apply Hn; now right).
  assert (Hk : k <> p_name p) by (intro; apply Hn; now left).
  destruct (nth_error args i); destruct (p_default p); try rewrite dhas_dget;
    repeat match goal with
           | |- context [match dget ?a ?b with _ => _ end] => destruct (dget a b)
           end; rewrite ?dget_dset_other by assumption; reflexivity.
Qed.

Lemma bind_go_param sig i args kw j p :
  NoDup (map p_name sig) -> nth_error sig j = Some p ->
  dget (p_name p) (bind_go sig i args kw) = py_value args kw (i + j) p.
Proof.
  revert i kw j. induction sig as [|q rest IH]; intros i kw j Hnd Hj; [destruct j; discriminate|].
  inversion Hnd as [|? ? Hq Hr]; subst. destruct j as [|j]; simpl in Hj.
  - injection Hj as ->. simpl. rewrite bind_go_other by assumption. rewrite Nat.add_0_r. unfold py_value.
    destruct (nth_error args i) as [a|].
    + destruct (p_default p); [rewrite dhas_dget, dget_dset_same|]; now rewrite dget_dset_same.
    + destruct (p_default p) as [d|]; [|now destruct (dget (p_name p) kw)]. rewrite dhas_dget.
      destruct (dget (p_name p) kw) eqn:E; [exact E|]. now rewrite dget_dset_same.
  - simpl. rewrite (IH (S i) _ j Hr Hj). replace (S i + j) with (i + S j) by lia.
    assert (Hne : p_name p <> p_name q).
    { intro E. apply Hq. rewrite <- E. apply in_map. eapply nth_error_In; eauto. }
    unfold py_value. destruct (nth_error args (i + S j)); [reflexivity|].
    destruct (nth_error args i); destruct (p_default q); try rewrite dhas_dget;
      repeat match goal with
             | |- context [match dget (p_name q) ?b with _ => _ end] => destruct (dget (p_name q) b)
             end; rewrite ?dget_dset_other by assumption; reflexivity.
Qed.

(* the normalisation of cached.__call__ yields exactly Python's binding, parameter by parameter *)
Theorem bind_is_python sig args kwargs j p :
  NoDup (map p_name sig) -> nth_error sig j = Some p ->
  dget (p_name p) (bind_cached sig args kwargs) = py_value args kwargs j p.
Proof. intros. unfold bind_cached. now rewrite (bind_go_param sig 0 args kwargs j p). Qed.

Theorem bind_nothing_else sig args kwargs k :
  ~ In k (map p_name sig) -> dget k (bind_cached sig args kwargs) = dget k kwargs.
Proof. apply bind_go_other. Qed.

Lemma bind_go_nodup sig i args kw : NoDup (map fst kw) -> NoDup (map fst (bind_go sig i args kw)).
Proof.
  revert i kw. induction sig as [|p rest IH]; intros i kw H; simpl; [exact H|]. apply IH.
  destruct (nth_error args i); destruct (p_default p); try destruct (dhas _ _); auto using dset_nodup.
Qed.

Theorem bind_nodup sig args kwargs : NoDup (map fst kwargs) -> NoDup (map fst (bind_cached sig args kwargs)).
Proof. apply bind_go_nodup. Qed.

(* ---------- the key is canonical ---------- *)
Lemma key_leb_total a b : key_leb a b = true \/ key_leb b a = true.
Proof. apply str_leb_total. Qed.
Lemma key_leb_trans a b c : key_leb a b = true -> key_leb b c = true -> key_leb a c = true.
Proof. apply str_leb_trans. Qed.

Lemma in_dget k v (d : list (str * value)) : NoDup (map fst d) -> (In (k, v) d <-> dget k d = Some v).
Proof.
  induction d as [|[k' v'] r IH]; simpl; intros Hnd; [split; [contradiction|discriminate]|].
  inversion Hnd as [|? ? Hk Hr]; subst. destruct (str_eqb k k') eqn:E.
  - apply str_eqb_eq in E. subst k'. split.
    + intros [H|H]; [now injection H as ->|]. exfalso. apply Hk. change k with (fst (k, v)). now apply in_map.
    + intros H. injection H as ->. now left.
  - apply str_eqb_neq in E. rewrite <- (IH Hr). split; [intros [H|H]; [injection H; congruence|exact H]|auto].
Qed.

Lemma map_eq_perm (d1 d2 : list (str * value)) :
  NoDup (map fst d1) -> NoDup (map fst d2) -> (forall k, dget k d1 = dget k d2) -> Permutation d1 d2.
Proof.
  intros H1 H2 He. apply NoDup_Permutation.
  - eapply NoDup_map_inv; eauto.
  - eapply NoDup_map_inv; eauto.
  - intros [k v]. now rewrite (in_dget k v d1 H1), (in_dget k v d2 H2), He.
Qed.

Definition kept (ignore : list str) (d : list (str * value)) : list (str * value) :=
  map (fun kv => (fst kv, canon (snd kv))) (filter (fun kv => negb (is_ignored ignore (fst kv))) d).

Lemma cache_key_unfold ignore d : cache_key ignore d = VDict (isort key_leb (kept ignore d)).
Proof. reflexivity. Qed.

Lemma kept_keys_nodup ignore d : NoDup (map fst d) -> NoDup (map fst (kept ignore d)).
Proof.
  intros H. unfold kept. rewrite map_map. simpl.
  induction d as [|[k v] r IH]; simpl; [constructor|]. inversion H as [|? ? Hk Hr]; subst.
  destruct (negb (is_ignored ignore k)); simpl; auto. constructor; auto.
  intros Hin. apply Hk. apply in_map_iff in Hin. destruct Hin as [[k' v'] [E Hin]]. simpl in E. subst.
  apply filter_In in Hin. destruct Hin as [Hin _]. change k with (fst (k, v')). now apply in_map.
Qed.

Lemma dget_kept ignore d k :
  dget k (kept ignore d) = if is_ignored ignore k then None else option_map canon (dget k d).
Proof.
  unfold kept. induction d as [|[k' v] r IH]; simpl; [now destruct (is_ignored ignore k)|].
  destruct (is_ignored ignore k') eqn:Ei; simpl.
  - rewrite IH. destruct (str_eqb k k') eqn:E; auto. apply str_eqb_eq in E. subst. now rewrite Ei.
  - destruct (str_eqb k k') eqn:E; auto. apply str_eqb_eq in E. subst. now rewrite Ei.
Qed.

(* calls whose bindings agree (as mappings, after sort_keys canonicalisation of the values) on
   every non-ignored parameter share the key; and only those *)
Theorem key_canonical ignore d1 d2 :
  NoDup (map fst d1) -> NoDup (map fst d2) ->
  (cache_key ignore d1 = cache_key ignore d2 <->
   forall k, is_ignored ignore k = false -> option_map canon (dget k d1) = option_map canon (dget k d2)).
Proof.
  intros H1 H2. rewrite !cache_key_unfold. split.
  - intros E k Hk. injection E as E.
    assert (Hp : Permutation (kept ignore d1) (kept ignore d2)).
    { rewrite <- (isort_perm key_leb (kept ignore d1)), <- (isort_perm key_leb (kept ignore d2)). now rewrite E. }
    pose proof (dget_kept ignore d1 k) as G1. pose proof (dget_kept ignore d2 k) as G2. rewrite Hk in G1, G2.
    rewrite <- G1, <- G2.
    destruct (dget k (kept ignore d1)) as [v|] eqn:Ev.
    + apply in_dget in Ev; [|now apply kept_keys_nodup]. symmetry. apply in_dget; [now apply kept_keys_nodup|].
      eapply Permutation_in; eauto.
    + destruct (dget k (kept ignore d2)) as [v|] eqn:Ev2; [|reflexivity].
      apply in_dget in Ev2; [|now apply kept_keys_nodup].
      apply (Permutation_in _ (Permutation_sym Hp)) in Ev2. apply in_dget in Ev2; [|now apply kept_keys_nodup].
      congruence.
  - intros Hall. f_equal.
    apply (sorted_perm_unique fst str_leb str_leb_antisym).
    + eapply Permutation_NoDup; [symmetry; apply Permutation_map, isort_perm|]. now apply kept_keys_nodup.
    + rewrite !isort_perm. apply map_eq_perm; try now apply kept_keys_nodup.
      intros k. rewrite !dget_kept. destruct (is_ignored ignore k) eqn:Ei; auto.
    + apply (isort_sorted key_leb key_leb_total key_leb_trans).
    + apply (isort_sorted key_leb key_leb_total key_leb_trans).
Qed.

(* arguments named in ignore_kwargs never matter *)
Theorem ignored_irrelevant ignore d k v :
  NoDup (map fst d) -> is_ignored ignore k = true -> cache_key ignore (dset k v d) = cache_key ignore d.
Proof.
  intros Hnd Hi. apply key_canonical; auto using dset_nodup.
  intros k' Hk'. rewrite dget_dset_other; [reflexivity|]. congruence.
Qed.

(* ---------- sub-caches of methods and versions ---------- *)
Definition dot : ascii := "."%char.

Lemma app_dot_inj (a b c d : str) : ~ In dot a -> ~ In dot c -> a ++ dot :: b = c ++ dot :: d -> a = c /\ b = d.
Proof.
  revert c. induction a as [|x a IH]; intros c Ha Hc E.
  - destruct c as [|y c]; simpl in E; [injection E; auto|]. injection E as <- _. exfalso. apply Hc. now left.
  - destruct c as [|y c]; simpl in E.
    + injection E as -> _. exfalso. apply Ha. now left.
    + injection E as -> E. destruct (IH c) as [-> ->]; auto; intro; [apply Ha|apply Hc]; now right.
Qed.

Theorem subcache_name_injective m1 v1 m2 v2 :
  ~ In dot m1 -> ~ In dot m2 -> subcache_name m1 v1 = subcache_name m2 v2 -> m1 = m2 /\ v1 = v2.
Proof.
  intros H1 H2. destruct v1 as [v1|], v2 as [v2|]; simpl; intros E.
  - apply app_dot_inj in E; auto. destruct E as [-> ->]. auto.
  - exfalso. apply H2. rewrite <- E. apply in_or_app. right. now left.
  - exfalso. apply H1. rewrite E. apply in_or_app. right. now left.
  - now subst.
Qed.

(* a method that is not overridden keeps the sub-cache it always had *)
Lemma plain_method_keeps_its_name cls name v : subcache_name (method_id cls name false) v = subcache_name name v.
Proof. reflexivity. Qed.

(* a method and the method of the same name it overrides (defined in another class), with the same version or none,
   have different sub-caches *)
Lemma overriding_methods_apart cls1 cls2 name v :
  cls1 <> cls2 -> subcache_name (method_id cls1 name true) v <> subcache_name (method_id cls2 name true) v.
Proof.
  intros Hne E. apply Hne. unfold method_id, subcache_name in E.
  destruct v as [v|].
  - rewrite <- !app_assoc in E. apply app_inv_tail in E. exact E.
  - apply app_inv_tail in E. exact E.
Qed.

(* ... also from the sub-cache of an unrelated method that is not overridden, whose name holds no dot *)
Lemma overridden_apart_from_plain cls name other :
  ~ In "."%char other -> subcache_name (method_id cls name true) None <> subcache_name (method_id cls other false) None.
Proof.
  intros Hd E. apply Hd. cbn [method_id subcache_name] in E. rewrite <- E.
  apply in_or_app. right. now left.
Qed.

(* ---------- control keywords, one call at a time ---------- *)
Section Step.
  Variable body : list (str * value) -> nat -> value.
  Variable sig : list param.
  Variable ignore : list str.
  Let key_of (c : call) := cache_key ignore (bind_cached sig (c_args c) (c_kwargs c)).

  Theorem only_cache_never_executes st c :
    c_only c = true ->
    cached_step body sig ignore st c = (st, kget (key_of c) (entries st)).
  Proof. intros H. unfold cached_step. now rewrite H. Qed.

  Theorem stored_entry_served st c v :
    c_only c = false -> c_force c = false -> kget (key_of c) (entries st) = Some v ->
    cached_step body sig ignore st c = (st, Some v).
  Proof. intros H1 H2 H3. unfold cached_step. fold (key_of c). now rewrite H1, H3, H2. Qed.

  Theorem computes_exactly_once_when_needed st c :
    c_only c = false -> c_store c = None ->
    (kget (key_of c) (entries st) = None \/ c_force c = true) ->
    let v := body (bind_cached sig (c_args c) (c_kwargs c)) (executions st) in
    cached_step body sig ignore st c =
      ({| entries := kset (key_of c) v (entries st); executions := S (executions st) |}, Some v).
  Proof.
    intros H1 H2 H3. unfold cached_step. fold (key_of c). rewrite H1, H2.
    destruct (kget (key_of c) (entries st)) eqn:E; destruct (c_force c) eqn:F; destruct H3; try discriminate; reflexivity.
  Qed.

  Theorem store_value_never_executes st c v :
    c_only c = false -> c_store c = Some v ->
    executions (fst (cached_step body sig ignore st c)) = executions st.
  Proof.
    intros H1 H2. unfold cached_step. rewrite H1, H2.
    destruct (kget _ _); destruct (c_force c); reflexivity.
  Qed.

  Lemma kget_kset_same k v m : kget k (kset k v m) = Some v.
  Proof.
    induction m as [|[k' v'] r IH]; simpl; [now rewrite value_eqb_refl|].
    destruct (value_eqb k k') eqn:E; simpl; [now rewrite value_eqb_refl|]. now rewrite E.
  Qed.

  Lemma kget_kset_other k k' v m : k <> k' -> kget k (kset k' v m) = kget k m.
  Proof.
    intros Hne. assert (Hf : value_eqb k k' = false).
    { destruct (value_eqb k k') eqn:E; auto. apply value_eqb_eq in E. contradiction. }
    induction m as [|[k2 v2] r IH]; simpl; [now rewrite Hf|].
    destruct (value_eqb k' k2) eqn:E; simpl.
    - apply value_eqb_eq in E. subst. now rewrite Hf.
    - destruct (value_eqb k k2); auto.
  Qed.

  (* a call only ever touches the entry of its own key *)
  Theorem other_entries_untouched st c k :
    k <> key_of c -> kget k (entries (fst (cached_step body sig ignore st c))) = kget k (entries st).
  Proof.
    intros Hne. unfold cached_step. fold (key_of c).
    destruct (c_only c); [reflexivity|].
    destruct (kget (key_of c) (entries st)); destruct (c_force c); destruct (c_store c); simpl;
      rewrite ?kget_kset_other by assumption; reflexivity.
  Qed.

  (* after any non-lookup call the entry for its key is what the call returned *)
  Theorem result_is_stored st c :
    c_only c = false ->
    kget (key_of c) (entries (fst (cached_step body sig ignore st c))) = snd (cached_step body sig ignore st c).
  Proof.
    intros H1. unfold cached_step. fold (key_of c). rewrite H1.
    destruct (kget (key_of c) (entries st)) eqn:E; destruct (c_force c); destruct (c_store c); simpl;
      rewrite ?kget_kset_same; auto.
  Qed.
End Step.
