(* The resumable rows task: whatever attempts were killed between the rows of a batch and their commit, the attempt that
   runs to the end leaves exactly the batches in the file, once. *)
From Coq Require Import List Arith Lia.
From TC Require Import Resume.
Import ListNotations.

Section ResumeProofs.
  Context {A : Type}.
  Implicit Types (P ds : list A) (todo batches : list (list A)).

  Lemma firstn_length_app P junk : firstn (length P) (P ++ junk) = P.
  Proof. rewrite firstn_app, Nat.sub_diag, firstn_all. simpl. apply app_nil_r. Qed.

  Lemma append_exact P b c pos : c = length P -> (pos = Some c \/ pos = None) -> append_at P b pos = P ++ b.
  Proof. intros -> [-> | ->]; simpl; [rewrite firstn_all|]; reflexivity. Qed.

  Lemma attempt_exact always todo : forall P c pos k,
    c = length P -> (pos = Some c \/ pos = None) ->
    exists m, snd (attempt always todo P c pos k) <= m <= S (snd (attempt always todo P c pos k)) /\
              m <= length todo /\
              fst (attempt always todo P c pos k) = P ++ concat (firstn m todo) /\
              (k = None -> snd (attempt always todo P c pos k) = length todo).
  Proof.
    induction todo as [|b rest IH]; intros P c pos k Hc Hp.
    - exists 0. simpl. rewrite app_nil_r. repeat split; auto.
    - cbn [attempt]. rewrite (append_exact P b c pos Hc Hp).
      assert (Hc' : c + length b = length (P ++ b)) by (rewrite app_length; lia).
      assert (Hp' : (if always then Some (c + length b) else None) = Some (c + length b) \/
                    (if always then Some (c + length b) else @None nat) = None) by (destruct always; auto).
      destruct k as [[|n]|].
      + exists 1. simpl. rewrite app_nil_r. repeat split; auto; try lia. discriminate.
      + destruct (IH (P ++ b) (c + length b) (if always then Some (c + length b) else None) (option_map pred (Some (S n))) Hc' Hp')
          as (m & Hm & Hl & Hf & _).
        exists (S m). cbn [fst snd]. simpl length. cbn [firstn concat]. rewrite Hf, <- app_assoc.
        repeat split; try lia. discriminate.
      + destruct (IH (P ++ b) (c + length b) (if always then Some (c + length b) else None) (option_map pred None) Hc' Hp')
          as (m & Hm & Hl & Hf & Hn).
        exists (S m). cbn [fst snd]. simpl length. cbn [firstn concat]. rewrite Hf, <- app_assoc.
        repeat split; try lia. intros _. rewrite Hn; reflexivity.
  Qed.

  (* the first append of an attempt names the committed rows: rows beyond them - of a killed attempt - are written over *)
  Lemma attempt_drops_uncommitted always b rest P junk k :
    attempt always (b :: rest) (P ++ junk) (length P) (Some (length P)) k =
    attempt always (b :: rest) P (length P) (Some (length P)) k.
  Proof. cbn [attempt append_at]. rewrite firstn_length_app, firstn_all. reflexivity. Qed.

  Lemma concat_firstn_skipn batches d m :
    concat (firstn d batches) ++ concat (firstn m (skipn d batches)) = concat (firstn (d + m) batches).
  Proof.
    revert batches; induction d as [|d IH]; intros batches; simpl; [reflexivity|].
    destruct batches as [|b r]; simpl.
    - destruct m; reflexivity.
    - rewrite <- app_assoc, IH. reflexivity.
  Qed.

  (* the file holds exactly the committed batches, or those and the one that was being stored *)
  Definition Inv batches (done : nat) ds : Prop :=
    exists m, done <= m <= S done /\ m <= length batches /\ ds = concat (firstn m batches).

  Lemma attempt_step always batches done ds k :
    Inv batches done ds ->
    let r := attempt always (skipn done batches) ds (rows_of batches done) (Some (rows_of batches done)) k in
    Inv batches (done + snd r) (fst r) /\
    (k = None -> done + snd r = length batches /\ fst r = concat batches).
  Proof.
    intros (m & Hm & Hl & Hds). unfold rows_of.
    set (P := concat (firstn done batches)).
    assert (Hex : exists junk, ds = P ++ junk /\ (junk = [] \/ skipn done batches <> [])).
    { subst ds. assert (m = done \/ m = S done) as [->| ->] by lia.
      - exists []. rewrite app_nil_r. auto.
      - exists (concat (firstn 1 (skipn done batches))). split.
        + unfold P. rewrite concat_firstn_skipn, Nat.add_1_r. reflexivity.
        + right. intros E. assert (L : length (skipn done batches) = 0) by (rewrite E; reflexivity).
          rewrite skipn_length in L. lia. }
    destruct Hex as (junk & -> & Hj).
    assert (Heq : attempt always (skipn done batches) (P ++ junk) (length P) (Some (length P)) k =
                  attempt always (skipn done batches) P (length P) (Some (length P)) k).
    { destruct Hj as [->|Hne]; [rewrite app_nil_r; reflexivity|].
      destruct (skipn done batches) as [|b rest] eqn:E; [contradiction|]. apply attempt_drops_uncommitted. }
    cbv zeta. rewrite Heq.
    destruct (attempt_exact always (skipn done batches) P (length P) (Some (length P)) k eq_refl (or_introl eq_refl))
      as (m' & Hm' & Hl' & Hf & Hn).
    rewrite skipn_length in Hl'.
    split.
    - exists (done + m'). repeat split; try lia. rewrite Hf. unfold P. apply concat_firstn_skipn.
    - intros Hk. specialize (Hn Hk). rewrite skipn_length in Hn. split; [lia|].
      rewrite Hf. unfold P. rewrite concat_firstn_skipn.
      assert (m' = length batches - done) by lia. subst m'.
      replace (done + (length batches - done)) with (length batches) by lia. rewrite firstn_all. reflexivity.
  Qed.

  Lemma resume_inv always batches plans : forall done ds,
    Inv batches done ds -> Inv batches (fst (resume always batches done ds plans)) (snd (resume always batches done ds plans)).
  Proof.
    induction plans as [|k more IH]; intros done ds H; simpl; [exact H|].
    apply IH. apply (attempt_step always batches done ds k H).
  Qed.

  Lemma resume_app always batches p q done ds :
    resume always batches done ds (p ++ q) =
    resume always batches (fst (resume always batches done ds p)) (snd (resume always batches done ds p)) q.
  Proof. revert done ds; induction p as [|k more IH]; intros done ds; simpl; [reflexivity|apply IH]. Qed.

  Theorem resumed_rows_exact always batches plans :
    resume always batches 0 [] (plans ++ [None]) = (length batches, concat batches).
  Proof.
    rewrite resume_app.
    assert (I0 : Inv batches 0 []) by (exists 0; repeat split; try lia; reflexivity).
    pose proof (resume_inv always batches plans 0 [] I0) as H.
    destruct (resume always batches 0 [] plans) as [done ds]. cbn [fst snd] in *.
    cbn [resume]. destruct (attempt_step always batches done ds None H) as [_ Hfin].
    destruct (Hfin eq_refl) as [-> ->]. reflexivity.
  Qed.

  (* between the attempts: nothing but the committed batches and at most the one being stored is in the file *)
  Theorem resumed_rows_prefix always batches plans :
    Inv batches (fst (resume always batches 0 [] plans)) (snd (resume always batches 0 [] plans)).
  Proof. apply resume_inv. exists 0; repeat split; try lia; reflexivity. Qed.
End ResumeProofs.

Example resume_example :
  resume false [[1; 2]; [3; 4]; [5; 6]] 0 [] [Some 0; Some 0; Some 1; None] = (3, [1; 2; 3; 4; 5; 6]) /\
  snd (resume true [[1; 2]; [3; 4]; [5; 6]] 0 [] [Some 0]) = [1; 2].
Proof. vm_compute. split; reflexivity. Qed.
