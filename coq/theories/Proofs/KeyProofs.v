From Coq Require Import String Ascii List Bool Arith ZArith.
From TC Require Import PyStr Value Dict Repr Param Config Key Chain Eval.
Import ListNotations.

Lemma key_scheme H ns ps inputs k :
  task_key H ns ps inputs = inl k ->
  exists itext, inputs_text ns inputs = inl itext /\
                k = firstn 32 (H (registry_text ps ++ lit "$$$" ++ itext)).
Proof.
  unfold task_key, key_text, key_of_text. destruct (inputs_text ns inputs) as [it|e]; [|discriminate].
  intros E. injection E as <-. eauto.
Qed.

Lemma registry_scheme ps :
  registry_text ps =
  match somes (map (fun pv => param_repr (fst pv) (snd pv)) (isort pv_leb ps)) with
  | [] => lit "None"
  | reprs => join (lit "###") reprs
  end.
Proof. unfold registry_text, registry_repr. destruct (somes _); reflexivity. Qed.

Lemma sequence_inl {A} (l : list A) : sequence (map (fun x => @inl A err x) l) = inl l.
Proof. induction l as [|x r IH]; simpl; auto. now rewrite IH. Qed.

Lemma inputs_scheme_none inputs :
  inputs_text None inputs =
  inl (join (lit "###") (map (fun nk => fst nk ++ lit "=" ++ snd nk) (isort in_leb inputs))).
Proof.
  unfold inputs_text. simpl.
  rewrite <- (map_map (fun nk => fst nk ++ lit "=" ++ snd nk) (fun x => @inl str err x)).
  now rewrite sequence_inl.
Qed.

Lemma layout tc o :
  result_path tc o = join (lit "/") (split_c colon (c_slug tc)) ++ lit "/" ++
                     match extension (c_data tc) with Some e => o_key o ++ lit "." ++ e | None => o_key o end /\
  info_path tc o = join (lit "/") (split_c colon (c_slug tc)) ++ lit "/" ++ o_key o ++ lit ".run_info.yaml" /\
  log_path tc o = join (lit "/") (split_c colon (c_slug tc)) ++ lit "/" ++ o_key o ++ lit ".log".
Proof. repeat split. Qed.
