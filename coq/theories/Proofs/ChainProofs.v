From Coq Require Import String Ascii List Bool Arith ZArith Lia.
From TC Require Import PyStr Value Dict Placeholder Repr Param Names Config Key Chain Graph World
     StrProofs DictProofs NamesProofs GraphProofs ConfigProofs.
Import ListNotations.

(* ---------- a fold that stops at the first error ---------- *)
Section FoldRes.
  Context {S X : Type} (f : S -> X -> res S).
  Definition fold_res (l : list X) (init : res S) : res S :=
    fold_left (fun racc x => match racc with inr e => inr e | inl a => f a x end) l init.

  Lemma fold_res_err l e : fold_res l (inr e) = inr e.
  Proof. induction l as [|x r IH]; simpl; auto. Qed.

  Lemma fold_res_cons x l a : fold_res (x :: l) (inl a) = fold_res l (f a x).
  Proof. reflexivity. Qed.

  (* an invariant that every successful step preserves holds at the end of a successful fold *)
  Lemma fold_res_inv (P : S -> Prop) l a r :
    (forall s x s', In x l -> P s -> f s x = inl s' -> P s') ->
    P a -> fold_res l (inl a) = inl r -> P r.
  Proof.
    revert a. induction l as [|x l IH]; intros a Hstep Pa H; simpl in H.
    - now injection H as <-.
    - fold (fold_res l (f a x)) in H. destruct (f a x) as [s'|e] eqn:E.
      + apply (IH s'); auto.
        * intros s y s'' Hy. apply Hstep. now right.
        * eapply Hstep; eauto. now left.
      + rewrite fold_res_err in H. discriminate.
  Qed.

  (* a failing step makes the whole fold fail *)
  Lemma fold_res_fails l1 x l2 a :
    (forall s, exists e, f s x = inr e) -> exists e, fold_res (l1 ++ x :: l2) (inl a) = inr e.
  Proof.
    intros Hx. revert a. induction l1 as [|y l1 IH]; intros a; simpl.
    - destruct (Hx a) as [e He]. fold (fold_res l2 (f a x)). rewrite He, fold_res_err. eauto.
    - fold (fold_res (l1 ++ x :: l2) (f a y)). destruct (f a y) as [s|e]; [apply IH|].
      rewrite fold_res_err. eauto.
  Qed.
End FoldRes.

(* ---------- the tasks of a chain are exactly the declared, non-abstract, non-excluded ones ---------- *)
Section Tasks.
  Variable classes : list tclass.
  Variable imports : list (str * list nat).

  Definition eligible (excluded : list nat) (k : nat) (tc : tclass) : Prop :=
    cls classes k = inl tc /\ c_abstract tc = false /\ existsb (Nat.eqb k) excluded = false.

  Lemma keys_dset (name : str) (nd : node) (acc : list (str * node)) x :
    In x (map fst (dset name nd acc)) <-> In x (map fst acc) \/ x = name.
  Proof.
    destruct (in_dec str_eq_dec name (map fst acc)) as [Hi|Hn].
    - rewrite dset_keys by assumption. split; [auto|]. intros [H| ->]; auto.
    - rewrite dset_keys_new by assumption. rewrite in_app_iff. simpl. split.
      + intros [H|[H|H]]; [now left|subst; now right|contradiction].
      + intros [H|H]; [now left|subst; right; now left].
  Qed.

  Theorem add_task_keys ci c excluded acc k acc' x :
    add_task classes ci c excluded acc k = inl acc' ->
    (In x (map fst acc') <->
     In x (map fst acc) \/ exists tc, eligible excluded k tc /\ x = full_name (c_slug tc) (cf_ns c)).
  Proof.
    unfold add_task, eligible. destruct (cls classes k) as [tc|e] eqn:Ec; [|discriminate].
    destruct (c_abstract tc) eqn:Ea; simpl.
    { intros H. injection H as <-. split; [auto|]. intros [H|[tc' [[E1 [E2 _]] _]]]; auto.
      injection E1 as <-. congruence. }
    destruct (existsb (Nat.eqb k) excluded) eqn:Ee.
    { intros H. injection H as <-. split; [auto|]. intros [H|[tc' [[E1 [_ E3]] _]]]; auto. discriminate. }
    destruct (set_values (c_params tc) (cf_data c)) as [ps|e]; [|discriminate].
    destruct (dget (full_name (c_slug tc) (cf_ns c)) acc) as [old|].
    - destruct (Nat.eqb (n_cfg old) ci); [|discriminate]. intros H. injection H as <-.
      rewrite keys_dset. split; intros [H|H]; auto.
      + right. exists tc. auto.
      + destruct H as [tc' [[E1 _] ->]]. injection E1 as <-. now right.
    - intros H. injection H as <-. rewrite keys_dset. split; intros [H|H]; auto.
      + right. exists tc. auto.
      + destruct H as [tc' [[E1 _] ->]]. injection E1 as <-. now right.
  Qed.

  Lemma tasks_fold ci c excluded listed tasks tasks' x :
    fold_res (add_task classes ci c excluded) listed (inl tasks) = inl tasks' ->
    (In x (map fst tasks') <->
     In x (map fst tasks) \/
     exists k tc, In k listed /\ eligible excluded k tc /\ x = full_name (c_slug tc) (cf_ns c)).
  Proof.
    revert tasks. induction listed as [|k r IH]; intros tasks H.
    - simpl in H. injection H as <-. split; [auto|]. intros [H|[k [tc [[] _]]]]. exact H.
    - rewrite fold_res_cons in H. destruct (add_task classes ci c excluded tasks k) as [t1|e] eqn:E1.
      + rewrite (IH t1 H), (add_task_keys _ _ _ _ _ _ x E1). split.
        * intros [[H1|[tc [H2 ->]]]|[k' [tc [H3 H4]]]]; auto.
          -- right. exists k, tc. split; [now left|auto].
          -- right. exists k', tc. split; [now right|auto].
        * intros [H1|[k' [tc [[->|H3] [H4 ->]]]]]; auto.
          -- left. right. eauto.
          -- right. eauto.
      + rewrite fold_res_err in H. discriminate.
  Qed.

  Theorem config_tasks_exact ci c tasks tasks' excluded listed x :
    collect_classes imports (lit "excluded_tasks") (cf_data c) = inl excluded ->
    collect_classes imports (lit "tasks") (cf_data c) = inl listed ->
    create_tasks_of_config classes imports ci c tasks = inl tasks' ->
    (In x (map fst tasks') <->
     In x (map fst tasks) \/
     exists k tc, In k listed /\ eligible excluded k tc /\ x = full_name (c_slug tc) (cf_ns c)).
  Proof.
    intros He Hl. unfold create_tasks_of_config. rewrite He, Hl. intros H.
    apply (tasks_fold ci c excluded listed tasks tasks' x). exact H.
  Qed.
End Tasks.

(* ---------- inputs are resolved inside the declaring task's own namespace ---------- *)
Theorem match_same_namespace q f : task_name_match false q f = true -> ns_text f = ns_text q.
Proof.
  unfold task_name_match. simpl. rewrite orb_true_r. simpl.
  destruct (str_eqb (ns_text f) (ns_text q)) eqn:E; [now apply str_eqb_eq in E|discriminate].
Qed.

Theorem resolved_in_namespace q names f :
  find_task_full_name false q names = inl f -> In f names /\ ns_text f = ns_text q.
Proof.
  intros H. apply find_sound in H. destruct H as [Hin [Hm _]]. split; [exact Hin|now apply match_same_namespace].
Qed.

Section Inputs.
  Variable classes : list tclass.

  (* a by-name declaration binds the task that the C10 resolution selects among the tasks of the
     declaring task's namespace (the declared name prefixed by that namespace) *)
  Theorem resolve_one_by_name ns names acc d q found :
    i_ref d = inl q -> dhas (prefixed ns q) acc = false ->
    find_task_full_name false (prefixed ns q) names = inl found ->
    resolve_one classes ns names acc d = inl (dset found (inl found) acc) /\
    In found names /\ ns_text found = ns_text (prefixed ns q).
  Proof.
    intros Hr Hd Hf. pose proof (resolved_in_namespace _ _ _ Hf) as [Hin Hns].
    unfold resolve_one. rewrite Hr, Hd, Hf.
    assert (E : existsb (str_eqb found) names = true).
    { apply existsb_exists. exists found. split; [exact Hin|apply str_eqb_refl]. }
    now rewrite E.
  Qed.

  Theorem resolve_one_by_class ns names acc d k tc found :
    i_ref d = inr k -> cls classes k = inl tc -> dhas (prefixed ns (c_slug tc)) acc = false ->
    find_task_full_name false (prefixed ns (c_slug tc)) names = inl found ->
    In (prefixed ns (c_slug tc)) names ->
    resolve_one classes ns names acc d
    = inl (dset (prefixed ns (c_slug tc)) (inl (prefixed ns (c_slug tc))) acc).
  Proof.
    intros Hr Hc Hd Hf Hin. unfold resolve_one. rewrite Hr, Hc, Hd, Hf.
    assert (E : existsb (str_eqb (prefixed ns (c_slug tc))) names = true).
    { apply existsb_exists. eexists. split; [exact Hin|apply str_eqb_refl]. }
    now rewrite E.
  Qed.

  (* a reference by class names exactly the task of that class: when that task is not in the chain, a task whose name
     merely matches the short form (another class of the same name in a group) does not stand in for it - the input is
     absent (after the repair F27; before it construction died with a KeyError) *)
  Theorem resolve_one_by_class_absent ns names acc d k tc found :
    i_ref d = inr k -> cls classes k = inl tc -> dhas (prefixed ns (c_slug tc)) acc = false ->
    find_task_full_name false (prefixed ns (c_slug tc)) names = inl found ->
    existsb (str_eqb (prefixed ns (c_slug tc))) names = false ->
    resolve_one classes ns names acc d =
    if i_required d then inr EMissingInput else inl (dset (prefixed ns (c_slug tc)) (inr (i_default d)) acc).
  Proof.
    intros Hr Hc Hd Hf Hn. unfold resolve_one. rewrite Hr, Hc, Hd, Hf, Hn. reflexivity.
  Qed.

  (* a required input that matches no task is an error; an optional one is bound to its default
     and creates no edge *)
  Theorem resolve_one_missing ns names acc d n0 e :
    (match i_ref d with inl s => inl s | inr k => match cls classes k with inl c => inl (c_slug c) | inr e => inr e end end) = inl n0 ->
    dhas (prefixed ns n0) acc = false ->
    find_task_full_name false (prefixed ns n0) names = inr e -> e <> EAmbiguous ->
    resolve_one classes ns names acc d =
    if i_required d then inr EMissingInput else inl (dset (prefixed ns n0) (inr (i_default d)) acc).
  Proof.
    intros Hn Hd Hf He. unfold resolve_one. cbv zeta.
    destruct (i_ref d) as [s|k].
    - injection Hn as <-. rewrite Hd, Hf. destruct e; try reflexivity. now elim He.
    - destruct (cls classes k) as [c|e0]; [|discriminate]. injection Hn as <-. rewrite Hd, Hf.
      destruct e; try reflexivity. now elim He.
  Qed.

  (* an input whose name matches several tasks, none of them the less-nested form of the others, is an
     error also when the input is optional: the default stands for an absent task only *)
  Theorem resolve_one_ambiguous ns names acc d n0 :
    (match i_ref d with inl s => inl s | inr k => match cls classes k with inl c => inl (c_slug c) | inr e => inr e end end) = inl n0 ->
    dhas (prefixed ns n0) acc = false ->
    find_task_full_name false (prefixed ns n0) names = inr EAmbiguous ->
    resolve_one classes ns names acc d = inr EAmbiguous.
  Proof.
    intros Hn Hd Hf. unfold resolve_one. cbv zeta.
    destruct (i_ref d) as [s|k].
    - injection Hn as <-. now rewrite Hd, Hf.
    - destruct (cls classes k) as [c|e0]; [|discriminate]. injection Hn as <-. now rewrite Hd, Hf.
  Qed.

  Theorem missing_required_input_fails tc current names d e l1 l2 :
    declared_inputs tc current names = l1 ++ d :: l2 ->
    (forall acc, resolve_one classes (ns_of_name current) names acc d = inr e) ->
    exists e', resolve_inputs classes tc current names = inr e'.
  Proof.
    intros Hd Hf. unfold resolve_inputs. rewrite Hd.
    apply (fold_res_fails (resolve_one classes (ns_of_name current) names)). intros s. eauto.
  Qed.
  (* K4: a declared name that starts with the namespace of the declaring task is taken for a full name, not for a
     name relative to that namespace *)
  Lemma declared_name_taken_for_full :
    prefixed (Some (lit "n")) (lit "n::n") = lit "n::n" /\ prefixed None (lit "n::n") = lit "n::n" /\
    prefixed (Some (lit "w")) (lit "n::n") = lit "w::n::n".
  Proof. vm_compute. auto. Qed.
End Inputs.

(* ---------- required_tasks, dependent_tasks, is_task_dependent_on are transitive closures ---------- *)
Definition Upstream (objs : list obj) (tasks : list (str * nat)) (x y : nat) : Prop :=
  Path (input_edge objs) (chain_nodes tasks) x y.   (* y is reachable from x along input -> dependant arcs *)

Theorem dependent_tasks_spec objs tasks x y :
  In y (dependent_tasks objs tasks x false) <-> y <> x /\ Upstream objs tasks x y.
Proof. unfold dependent_tasks. simpl. apply descendants_spec. Qed.

Theorem dependent_tasks_self objs tasks x y :
  In y (dependent_tasks objs tasks x true) <-> y = x \/ (y <> x /\ Upstream objs tasks x y).
Proof.
  unfold dependent_tasks. simpl. rewrite descendants_spec. split; intros [H|H]; auto.
Qed.

Theorem required_tasks_spec objs tasks x y :
  In y (required_tasks objs tasks x false) <->
  y <> x /\ Path (fun a b => input_edge objs b a) (chain_nodes tasks) x y.
Proof. unfold required_tasks. simpl. apply ancestors_spec. Qed.

Theorem is_task_dependent_on_spec objs tasks task dependency :
  is_task_dependent_on objs tasks task dependency = true <->
  task = dependency \/ Upstream objs tasks dependency task.
Proof. unfold is_task_dependent_on. apply has_path_spec. Qed.

(* ---------- a cycle never yields a chain: the second pass runs out of fuel ---------- *)
Theorem get_task_out_of_fuel H classes tasks1 name st : get_task H classes 0 tasks1 name st = inr ECycle.
Proof. reflexivity. Qed.

(* A set B of first-pass tasks each of which has an input task in B again (e.g. the tasks on a
   dependency cycle, or anything upstream-dependent on one) can never be re-created: get_task fails
   on every member, whatever the fuel, so no chain is produced. *)
Section Cycles.
  Variable H : str -> str.
  Variable classes : list tclass.
  Variable tasks1 : list (str * node).
  Variable B : str -> Prop.
  Hypothesis B_closed : forall n, B n ->
    forall nd, dget n tasks1 = Some nd -> exists k i, In (k, inl i) (n_inputs nd) /\ B i.

  Definition Inv (st : pstate) : Prop := forall n, B n -> dget n (ps_new st) = None.

  Definition step_of (f : nat) :=
    fun (racc : res (pstate * list (str * str))) (inp : str * (str + value)) =>
      match racc with
      | inr e => inr e
      | inl (s, keys) =>
          match snd inp with
          | inr _ => inl (s, keys)
          | inl tname =>
              match get_task H classes f tasks1 tname s with
              | inl (s', id) => inl (s', keys ++ [(fst inp, obj_key s' id)])
              | inr e => inr e
              end
          end
      end.

  Lemma fold_step_err f l e : fold_left (step_of f) l (inr e) = inr e.
  Proof. induction l as [|x r IH]; simpl; auto. Qed.

  Definition P (f : nat) : Prop :=
    forall name st, Inv st ->
      (B name -> exists e, get_task H classes f tasks1 name st = inr e) /\
      (forall st' id, get_task H classes f tasks1 name st = inl (st', id) -> Inv st').

  Lemma fold_inputs f inputs :
    P f -> forall s keys, Inv s ->
      (forall s' keys', fold_left (step_of f) inputs (inl (s, keys)) = inl (s', keys') -> Inv s') /\
      ((exists k i, In (k, inl i) inputs /\ B i) -> exists e, fold_left (step_of f) inputs (inl (s, keys)) = inr e).
  Proof.
    intros HP. induction inputs as [|[k [i|d]] r IH]; intros s keys Hs.
    - split; [simpl; intros s' keys' E; now injection E as <- _|intros [k [i [[] _]]]].
    - cbn [fold_left step_of snd fst].
      destruct (HP i s Hs) as [Hbad Hok].
      destruct (get_task H classes f tasks1 i s) as [[s1 id]|e] eqn:Eg.
      + destruct (IH s1 (keys ++ [(k, obj_key s1 id)]) (Hok _ _ eq_refl)) as [IH1 IH2].
        split; [exact IH1|]. intros [k' [i' [[Hin|Hin] Hb]]].
        * injection Hin as _ <-. destruct (Hbad Hb) as [e He]. discriminate.
        * apply IH2. eauto.
      + rewrite fold_step_err. split; [discriminate|eauto].
    - cbn [fold_left step_of snd fst]. destruct (IH s keys Hs) as [IH1 IH2].
      split; [exact IH1|]. intros [k' [i' [[Hin|Hin] Hb]]]; [discriminate|apply IH2; eauto].
  Qed.

  Lemma all_fuel f : P f.
  Proof.
    induction f as [|f IHf]; intros name st Hs.
    - split; [intros _; exists ECycle; reflexivity|discriminate].
    - cbn [get_task]. fold (step_of f).
      destruct (dget name tasks1) as [nd|] eqn:En; [|split; [eauto|discriminate]].
      destruct (dget name (ps_new st)) as [id0|] eqn:Ed.
      { split.
        - intros Hb. rewrite (Hs _ Hb) in Ed. discriminate.
        - intros st' id E. now injection E as <- _. }
      destruct (fold_inputs f (n_inputs nd) IHf st [] Hs) as [Hok Hbad].
      split.
      { intros Hb. destruct (Hbad (B_closed _ Hb _ En)) as [e He]. rewrite He. eauto. }
      intros st' id E.
      destruct (fold_left (step_of f) (n_inputs nd) (inl (st, []))) as [[st1 inkeys]|e] eqn:Ef; [|discriminate].
      specialize (Hok _ _ eq_refl).
      intros n Hb.
      destruct (str_eq_dec n name) as [->|Hne].
      { destruct (Hbad (B_closed _ Hb _ En)) as [e He]. discriminate. }
      destruct (cls classes (n_cls nd)) as [tc|e]; [|discriminate].
      destruct (task_key H (n_ns nd) (n_params nd) inkeys) as [key|e]; [|discriminate].
      unfold register in E.
      destruct (reg_find (c_slug tc) key (ps_registry st1)) as [id1|]; injection E as <- _; cbn [ps_new];
        rewrite dget_dset_other by assumption; now apply Hok.
  Qed.

  Theorem cycle_rejected fuel todo st name :
    Inv st -> In name (map fst todo) -> B name ->
    exists e, recreate H classes fuel tasks1 todo st = inr e.
  Proof.
    revert st. induction todo as [|[n nd] r IH]; intros st Hs Hin Hb; [contradiction|].
    cbn [recreate]. destruct (all_fuel fuel n st Hs) as [Hbad Hok].
    destruct Hin as [Hin|Hin].
    - simpl in Hin. subst n. destruct (Hbad Hb) as [e He]. rewrite He. eauto.
    - destruct (get_task H classes fuel tasks1 n st) as [[st' id]|e] eqn:Eg; [|eauto].
      apply IH; auto. eapply Hok; eauto.
  Qed.
End Cycles.
