From Coq Require Import String Ascii List Bool Arith.
From TC Require Import PyStr Names Config Chain.
Import ListNotations.

Lemma nonempty_ns_some x : x <> [] -> nonempty_ns (Some x) = Some x.
Proof. destruct x; [contradiction|reflexivity]. Qed.

Lemma prefixed_some n q : n <> [] ->
  prefixed (Some n) q = if starts_with (n ++ lit "::") q then q else n ++ lit "::" ++ q.
Proof. intros Hn. unfold prefixed. now rewrite nonempty_ns_some. Qed.

(* Outside the collision of K4, qualifying a declared name commutes with mounting the pipeline under a namespace:
   the name a declaration is looked up under in the mounted pipeline is the mounting namespace followed by the name
   it is looked up under in the pipeline built directly. *)
Lemma mount_commutes_at_top w q :
  w <> [] -> starts_with (w ++ lit "::") q = false ->
  prefixed (Some w) q = w ++ lit "::" ++ prefixed None q.
Proof. intros Hw Hs. rewrite prefixed_some by assumption. now rewrite Hs. Qed.

Lemma mount_commutes_nested w P q :
  w <> [] -> P <> [] ->
  starts_with (P ++ lit "::") q = false -> starts_with ((w ++ lit "::" ++ P) ++ lit "::") q = false ->
  prefixed (Some (w ++ lit "::" ++ P)) q = w ++ lit "::" ++ prefixed (Some P) q.
Proof.
  intros Hw HP H1 H2.
  assert (Hne : w ++ lit "::" ++ P <> []) by (destruct w; [contradiction|discriminate]).
  rewrite !prefixed_some by assumption. rewrite H1, H2. now rewrite <- !app_assoc.
Qed.
