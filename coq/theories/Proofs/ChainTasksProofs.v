(* The tasks of a whole chain: every config contributes its own listed classes minus its own exclusions;
   what one config excludes has no bearing on another config. *)
From Coq Require Import String Ascii List Bool Arith.
From TC Require Import PyStr Value Dict Repr Param Names Config Key Chain ChainProofs.
Import ListNotations.

Section ChainTasks.
  Variable classes : list tclass.
  Variable imports : list (str * list nat).

  (* config c of the list contributes x *)
  Definition contributes (c : config) (x : str) : Prop :=
    exists excluded listed k tc,
      collect_classes imports (lit "excluded_tasks") (cf_data c) = inl excluded /\
      collect_classes imports (lit "tasks") (cf_data c) = inl listed /\
      In k listed /\ eligible classes excluded k tc /\ x = full_name (c_slug tc) (cf_ns c).

  Theorem chain_tasks_exact cs : forall ci tasks tasks' x,
    create_tasks classes imports ci cs tasks = inl tasks' ->
    (In x (map fst tasks') <-> In x (map fst tasks) \/ exists n c, In (n, c) cs /\ contributes c x).
  Proof.
    induction cs as [|[n c] r IH]; intros ci tasks tasks' x H; cbn [create_tasks] in H.
    - injection H as <-. split; [auto|]. intros [H|[n [c [[] _]]]]. exact H.
    - destruct (create_tasks_of_config classes imports ci c tasks) as [t|e] eqn:E; [|discriminate].
      pose proof E as E'. unfold create_tasks_of_config in E'.
      destruct (collect_classes imports (lit "excluded_tasks") (cf_data c)) as [excluded|e1] eqn:He; [|discriminate].
      destruct (collect_classes imports (lit "tasks") (cf_data c)) as [listed|e2] eqn:Hl; [|discriminate].
      clear E'.
      rewrite (IH _ _ _ x H). rewrite (config_tasks_exact classes imports ci c tasks t excluded listed x He Hl E).
      split.
      + intros [[Hin|[k [tc [Hk [Hel Hx]]]]]|[n' [c' [Hin Hc]]]].
        * now left.
        * right. exists n, c. split; [now left|]. exists excluded, listed, k, tc. auto.
        * right. exists n', c'. split; [now right|exact Hc].
      + intros [Hin|[n' [c' [[[= <- <-]|Hin] Hc]]]].
        * left. now left.
        * left. right. destruct Hc as [ex [li [k [tc [He' [Hl' [Hk [Hel Hx]]]]]]]].
          rewrite He in He'. rewrite Hl in Hl'. injection He' as <-. injection Hl' as <-. exists k, tc. auto.
        * right. exists n', c'. auto.
  Qed.
End ChainTasks.
