From Coq Require Import List Bool Arith Lia.
From TC Require Import Crash.
Import ListNotations.

Definition ok_final (fs : fsys) (vold : option nat) (vnew : nat) : Prop :=
  fs Final = Absent \/ fs Final = Complete vnew \/ (exists v, vold = Some v /\ fs Final = Complete v).

Definition clean_start (fs : fsys) (vold : option nat) : Prop :=
  match vold with Some v => fs Final = Complete v | None => fs Final = Absent end.

Lemma firstn_cases {A} (l : list A) k : k >= length l -> firstn k l = l.
Proof. apply firstn_all2. Qed.

(* file results: whatever prefix of the save survives, the final name holds nothing, the complete new
   value, or the complete old one - never a truncated or partial file *)
Theorem file_crash_atomic fs vold v k :
  clean_start fs vold -> ok_final (crash fs (save_file v) k) vold v.
Proof.
  intros Hs. unfold crash, save_file, ok_final.
  destruct k as [|[|[|k]]]; simpl; rewrite ?firstn_nil; simpl; unfold upd; simpl.
  1-3: destruct vold as [v0|]; simpl in Hs; rewrite Hs; eauto.
  right. left. reflexivity.
Qed.

Theorem file_save_completes fs v : run fs (save_file v) Final = Complete v /\ run fs (save_file v) Tmp = Absent.
Proof. unfold run, save_file. simpl. unfold upd. simpl. auto. Qed.

(* recovery: saving again from any crashed state ends with the complete new value *)
Theorem file_recovery fs vold v k v' :
  clean_start fs vold -> run (crash fs (save_file v) k) (save_file v') Final = Complete v'.
Proof. intros _. apply file_save_completes. Qed.

(* directory results: same statement; the only instants at which an old result is not visible are after it
   has been renamed aside as a whole *)
Ltac norm :=
  repeat (progress (simpl; unfold upd;
    repeat match goal with H : ?f _ = _ |- _ => rewrite H end)).

Theorem dir_crash_atomic fs vold v k :
  clean_start fs vold -> ok_final (crash fs (save_dir fs v) k) vold v.
Proof.
  intros Hs. unfold crash, save_dir, replace_dir, ok_final.
  assert (Hf : upd fs Tmp (Complete v) Final = fs Final) by reflexivity.
  assert (Ho : upd fs Tmp (Complete v) Old = fs Old) by reflexivity.
  rewrite Hf, Ho.
  destruct vold as [v0|]; simpl in Hs; rewrite Hs;
    destruct (fs Tmp) eqn:Et; destruct (fs Old) eqn:Eo; simpl;
    do 10 (try (destruct k as [|k]; [norm; eauto 6|]));
    simpl; rewrite ?firstn_nil; norm; eauto 6.
Qed.

Theorem dir_save_completes fs vold v :
  clean_start fs vold -> run fs (save_dir fs v) Final = Complete v.
Proof.
  intros Hs. unfold save_dir, replace_dir.
  assert (Hf : upd fs Tmp (Complete v) Final = fs Final) by reflexivity.
  assert (Ho : upd fs Tmp (Complete v) Old = fs Old) by reflexivity.
  rewrite Hf, Ho.
  destruct vold as [v0|]; simpl in Hs; rewrite Hs; destruct (fs Tmp) eqn:Et; destruct (fs Old) eqn:Eo;
    unfold run; norm; reflexivity.
Qed.

Theorem cont_crash_atomic fs vold v k :
  clean_start fs vold -> ok_final (crash fs (save_cont fs v) k) vold v.
Proof.
  intros Hs. unfold crash, save_cont, replace_dir, ok_final.
  assert (Hf : upd fs Tmp (Complete v) Final = fs Final) by reflexivity.
  assert (Ho : upd fs Tmp (Complete v) Old = fs Old) by reflexivity.
  rewrite Hf, Ho.
  destruct vold as [v0|]; simpl in Hs; rewrite Hs;
    destruct (fs Tmp) eqn:Et; destruct (fs Old) eqn:Eo; simpl;
    do 8 (try (destruct k as [|k]; [norm; eauto 6|]));
    simpl; rewrite ?firstn_nil; norm; eauto 6.
Qed.

Theorem cont_save_completes fs vold v :
  clean_start fs vold -> run fs (save_cont fs v) Final = Complete v.
Proof.
  intros Hs. unfold save_cont, replace_dir.
  assert (Hf : upd fs Tmp (Complete v) Final = fs Final) by reflexivity.
  assert (Ho : upd fs Tmp (Complete v) Old = fs Old) by reflexivity.
  rewrite Hf, Ho.
  destruct vold as [v0|]; simpl in Hs; rewrite Hs; destruct (fs Tmp) eqn:Et; destruct (fs Old) eqn:Eo;
    unfold run; norm; reflexivity.
Qed.

Theorem crash_atomic kd fs vold v k :
  clean_start fs vold -> ok_final (crash fs (trace_of kd fs v) k) vold v.
Proof. destruct kd; [apply file_crash_atomic|apply dir_crash_atomic|apply cont_crash_atomic]. Qed.

Theorem save_completes kd fs vold v :
  clean_start fs vold -> run fs (trace_of kd fs v) Final = Complete v.
Proof.
  destruct kd; [intros _; apply file_save_completes|apply dir_save_completes|apply cont_save_completes].
Qed.

(* the names other than the final one never influence what is visible: whatever an earlier, killed attempt
   left under Tmp and Old, the statement is the same (fs is arbitrary there) *)

(* recovery after a crash: the crashed state is again a clean start (for the old value or none), so the
   next computation publishes its complete value *)
Theorem crash_then_recover kd fs vold v k v' :
  clean_start fs vold ->
  let fs' := crash fs (trace_of kd fs v) k in
  visible fs' = false -> run fs' (trace_of kd fs' v') Final = Complete v'.
Proof.
  intros Hs fs' Hv. apply (save_completes kd fs' None). simpl.
  unfold visible in Hv. destruct (fs' Final); [reflexivity|discriminate|discriminate].
Qed.

(* a visible result is complete: the form in which later chains rely on it *)
Corollary visible_means_complete p fs vold v k :
  clean_start fs vold -> visible (crash fs (trace_of p fs v) k) = true ->
  crash fs (trace_of p fs v) k Final = Complete v \/ exists v0, vold = Some v0 /\ crash fs (trace_of p fs v) k Final = Complete v0.
Proof.
  intros Hs Hv.
  assert (H : ok_final (crash fs (trace_of p fs v) k) vold v) by (apply crash_atomic; exact Hs).
  unfold visible in Hv. destruct H as [H|[H|H]]; [rewrite H in Hv; discriminate|now left|now right].
Qed.

(* work directories of failed directory-producing tasks are set aside: the final name is untouched *)
Theorem failed_dir_run_set_aside fs k : crash fs (on_run_error_dir fs) k Final = fs Final.
Proof.
  unfold crash, on_run_error_dir. destruct (fs Err) eqn:Ee; simpl;
    do 3 (try (destruct k as [|k]; [simpl; unfold upd; simpl; rewrite ?Ee; reflexivity|]));
    simpl; rewrite ?firstn_nil; simpl; unfold upd; simpl; rewrite ?Ee; reflexivity.
Qed.

Theorem failed_dir_run_moves_workdir fs v :
  fs Tmp = Complete v \/ fs Tmp = Partial -> run fs (on_run_error_dir fs) Err = fs Tmp /\ run fs (on_run_error_dir fs) Tmp = Absent.
Proof.
  intros _. unfold run, on_run_error_dir. destruct (fs Err) eqn:Ee; simpl; unfold upd; simpl; rewrite ?Ee; auto.
Qed.

(* the discipline matters: writing under the final name exposes a truncated file *)
Lemma in_place_refuted : exists k, visible (crash (fun _ => Absent) (save_in_place 2) k) = true /\
                                   crash (fun _ => Absent) (save_in_place 2) k Final = Partial.
Proof. exists 1. split; reflexivity. Qed.

(* non-vacuity: a forced recomputation over leftovers of an earlier attempt *)
Example crash_states_dir :
  map (fun k => crash (start true true true) (trace_of KDir (start true true true) 2) k Final) (seq 0 11) =
  [Complete 1; Complete 1; Complete 1; Complete 1; Complete 1; Complete 1; Complete 1; Absent;
   Complete 2; Complete 2; Complete 2].
Proof. reflexivity. Qed.
