From Coq Require Import List Ascii String Bool Arith Lia Permutation.
From TC Require Import PyStr Names StrProofs.
Import ListNotations.

(* component views, defined by the very splits the code performs *)
Definition ns_parts (f : str) : list str := removelast (split_dc f).
Definition local_parts (f : str) : list str := split_c colon (local_part f).

Lemma list_str_eqb_eq a b : list_str_eqb a b = true <-> a = b.
Proof.
  revert b. induction a as [|x a IH]; intros [|y b]; simpl; split; intros H; try discriminate; auto.
  - apply andb_true_iff in H. destruct H as [Hx Hr]. apply str_eqb_eq in Hx. apply IH in Hr. congruence.
  - injection H as -> ->. rewrite str_eqb_refl. simpl. now apply IH.
Qed.

(* other[len(other)-len(cand):] == cand  <->  cand is a suffix of other, by components *)
Lemma py_tail_eq_spec cand other :
  py_tail_eq cand other = true <-> exists extra, other = extra ++ cand.
Proof.
  unfold py_tail_eq. rewrite list_str_eqb_eq. split.
  - intros H. exists (firstn (List.length other - List.length cand) other).
    rewrite <- H at 2. symmetry. apply firstn_skipn.
  - intros [extra ->]. rewrite app_length.
    replace (List.length extra + List.length cand - List.length cand) with (List.length extra) by lia.
    rewrite skipn_app, skipn_all, Nat.sub_diag. reflexivity.
Qed.

Lemma py_tail_eq_refl l : py_tail_eq l l = true.
Proof. apply py_tail_eq_spec. now exists []. Qed.

Lemma py_tail_eq_antisym a b : py_tail_eq a b = true -> py_tail_eq b a = true -> a = b.
Proof.
  rewrite !py_tail_eq_spec. intros [e1 H1] [e2 H2].
  assert (List.length e1 = 0).
  { apply (f_equal (@List.length str)) in H1, H2. rewrite app_length in H1, H2. lia. }
  destruct e1; [|discriminate]. now subst.
Qed.

Theorem is_less_nested_spec cand other :
  is_less_nested cand other = true <->
  (exists extra_ns, ns_parts other = extra_ns ++ ns_parts cand) /\
  (exists extra_groups, local_parts other = extra_groups ++ local_parts cand).
Proof. unfold is_less_nested. rewrite andb_true_iff, !py_tail_eq_spec. reflexivity. Qed.

Lemma is_less_nested_refl c : is_less_nested c c = true.
Proof. unfold is_less_nested. now rewrite !py_tail_eq_refl. Qed.

(* a name is determined by its components *)
Lemma name_of_parts f : f = join dcolon (ns_parts f ++ [join [colon] (local_parts f)]).
Proof.
  unfold ns_parts, local_parts, local_part. rewrite join_split_c.
  rewrite <- removelast_last_str by apply split_dc_go_nonempty.
  symmetry. apply join_split_dc.
Qed.

Lemma is_less_nested_antisym a b :
  is_less_nested a b = true -> is_less_nested b a = true -> a = b.
Proof.
  unfold is_less_nested. rewrite !andb_true_iff. intros [H1 H2] [H3 H4].
  pose proof (py_tail_eq_antisym _ _ H1 H3) as Hn.
  pose proof (py_tail_eq_antisym _ _ H2 H4) as Hl.
  rewrite (name_of_parts a), (name_of_parts b). unfold ns_parts, local_parts. now rewrite Hn, Hl.
Qed.

(* ---- the resolver ---- *)
Definition matching det q ts := filter (task_name_match det q) ts.
Definition has_priority (ms : list str) (c : str) : bool := forallb (is_less_nested c) ms.

Lemma find_unfold det q ts :
  find_task_full_name det q ts =
  match matching det q ts with
  | [] => inr ENotFound
  | [m] => inl m
  | ms => match find (has_priority ms) ms with Some c => inl c | None => inr EAmbiguous end
  end.
Proof. unfold find_task_full_name, matching, has_priority. destruct (filter _ ts) as [|a [|b r]]; reflexivity. Qed.

Lemma priority_unique ms c1 c2 :
  In c1 ms -> In c2 ms -> has_priority ms c1 = true -> has_priority ms c2 = true -> c1 = c2.
Proof.
  unfold has_priority. rewrite !forallb_forall. intros I1 I2 P1 P2.
  apply is_less_nested_antisym; auto.
Qed.

Lemma Permutation_filter' {A} (p : A -> bool) l l' : Permutation l l' -> Permutation (filter p l) (filter p l').
Proof.
  induction 1; simpl; auto.
  - destruct (p x); auto.
  - destruct (p x), (p y); auto. apply perm_swap.
  - etransitivity; eauto.
Qed.

Lemma has_priority_perm ms ms' c : Permutation ms ms' -> has_priority ms c = has_priority ms' c.
Proof.
  intros Hp. unfold has_priority.
  destruct (forallb (is_less_nested c) ms) eqn:E1, (forallb (is_less_nested c) ms') eqn:E2; auto.
  - rewrite forallb_forall in E1. assert (forallb (is_less_nested c) ms' = true).
    { apply forallb_forall. intros x Hx. apply E1. eapply Permutation_in; [symmetry; exact Hp|exact Hx]. }
    congruence.
  - rewrite forallb_forall in E2. assert (forallb (is_less_nested c) ms = true).
    { apply forallb_forall. intros x Hx. apply E2. eapply Permutation_in; [exact Hp|exact Hx]. }
    congruence.
Qed.

Lemma find_priority_perm ms ms' : Permutation ms ms' -> find (has_priority ms) ms = find (has_priority ms') ms'.
Proof.
  intros Hp.
  destruct (find (has_priority ms) ms) as [c|] eqn:E1, (find (has_priority ms') ms') as [c'|] eqn:E2; auto.
  - apply find_some in E1, E2. destruct E1 as [I1 P1], E2 as [I2 P2]. f_equal.
    apply (priority_unique ms); auto.
    + eapply Permutation_in; [symmetry; exact Hp|exact I2].
    + now rewrite (has_priority_perm _ _ _ Hp).
  - apply find_some in E1. destruct E1 as [I1 P1].
    eapply find_none in E2; [|eapply Permutation_in; [exact Hp|exact I1]].
    rewrite <- (has_priority_perm _ _ _ Hp) in E2. congruence.
  - apply find_some in E2. destruct E2 as [I2 P2].
    eapply find_none in E1; [|eapply Permutation_in; [symmetry; exact Hp|exact I2]].
    rewrite (has_priority_perm _ _ _ Hp) in E1. congruence.
Qed.

Theorem find_order_independent det q ts ts' :
  Permutation ts ts' -> find_task_full_name det q ts = find_task_full_name det q ts'.
Proof.
  intros Hp. rewrite !find_unfold.
  pose proof (Permutation_filter' (task_name_match det q) _ _ Hp) as Hm. fold (matching det q ts) in Hm.
  fold (matching det q ts') in Hm.
  destruct (matching det q ts) as [|a [|b r]] eqn:E.
  - apply Permutation_nil in Hm. now rewrite Hm.
  - apply Permutation_length_1_inv in Hm. now rewrite Hm.
  - revert Hm. destruct (matching det q ts') as [|a' [|b' r']] eqn:E'; intros Hm.
    + apply Permutation_sym, Permutation_nil in Hm. discriminate.
    + apply Permutation_sym, Permutation_length_1_inv in Hm. discriminate.
    + cbv zeta. now rewrite (find_priority_perm _ _ Hm).
Qed.

(* what a successful resolution means *)
Theorem find_sound det q ts c :
  find_task_full_name det q ts = inl c ->
  In c ts /\ task_name_match det q c = true /\
  forall t, In t ts -> task_name_match det q t = true -> is_less_nested c t = true.
Proof.
  rewrite find_unfold. destruct (matching det q ts) as [|a [|b r]] eqn:E; [discriminate| |].
  - intros H. injection H as ->.
    assert (Hin : In c (matching det q ts)) by (rewrite E; now left).
    apply filter_In in Hin. destruct Hin as [Hin Hm]. repeat split; auto.
    intros t Ht Hmt. assert (In t (matching det q ts)) by (apply filter_In; auto).
    rewrite E in H. destruct H as [<-|[]]. apply is_less_nested_refl.
  - cbv zeta; destruct (find (has_priority _) _) as [c'|] eqn:Ef; [|discriminate]. intros H. injection H as ->.
    apply find_some in Ef. destruct Ef as [Hin Hp]. rewrite <- E in Hin.
    apply filter_In in Hin. destruct Hin as [Hin Hm]. repeat split; auto.
    intros t Ht Hmt. unfold has_priority in Hp. rewrite forallb_forall in Hp. apply Hp.
    rewrite <- E. apply filter_In. auto.
Qed.

Theorem find_complete det q ts c :
  In c ts -> task_name_match det q c = true ->
  (forall t, In t ts -> task_name_match det q t = true -> is_less_nested c t = true) ->
  find_task_full_name det q ts = inl c.
Proof.
  intros Hin Hm Hall. rewrite find_unfold.
  assert (Hc : In c (matching det q ts)) by (apply filter_In; auto).
  assert (Hp : has_priority (matching det q ts) c = true).
  { apply forallb_forall. intros t Ht. apply filter_In in Ht. destruct Ht. now apply Hall. }
  destruct (matching det q ts) as [|a [|b r]] eqn:E; [contradiction| |].
  - destruct Hc as [->|[]]. reflexivity.
  - cbv zeta; destruct (find (has_priority _) _) as [c'|] eqn:Ef.
    + apply find_some in Ef. destruct Ef as [Hin' Hp']. f_equal. eapply priority_unique; eauto.
    + eapply find_none in Ef; [|exact Hc]. congruence.
Qed.

Theorem find_not_found_iff det q ts :
  find_task_full_name det q ts = inr ENotFound <-> forall t, In t ts -> task_name_match det q t = false.
Proof.
  rewrite find_unfold. split.
  - destruct (matching det q ts) as [|a [|b r]] eqn:E; try discriminate.
    + intros _ t Ht. destruct (task_name_match det q t) eqn:Em; auto.
      assert (In t (matching det q ts)) by (apply filter_In; auto). rewrite E in H. contradiction.
    + cbv zeta; destruct (find (has_priority _) _); discriminate.
  - intros H. destruct (matching det q ts) as [|a r] eqn:E; [reflexivity|].
    assert (Hin : In a (matching det q ts)) by (rewrite E; now left).
    apply filter_In in Hin. destruct Hin as [Hin Hm]. rewrite (H _ Hin) in Hm. discriminate.
Qed.

(* errors other than these two never occur; so "ambiguous" is: some match, and no least nested one *)
Theorem find_error_cases det q ts e :
  find_task_full_name det q ts = inr e -> e = ENotFound \/ e = EAmbiguous.
Proof.
  rewrite find_unfold. destruct (matching det q ts) as [|a [|b r]]; [intros H; injection H; auto|discriminate|].
  cbv zeta; destruct (find (has_priority _) _); [discriminate|]. intros H; injection H; auto.
Qed.

Theorem find_unique_resolves det q ts t :
  In t ts -> task_name_match det q t = true ->
  (forall t', In t' ts -> task_name_match det q t' = true -> t' = t) ->
  find_task_full_name det q ts = inl t.
Proof.
  intros Hin Hm Hu. apply find_complete; auto.
  intros t' Ht' Hm'. rewrite (Hu _ Ht' Hm'). apply is_less_nested_refl.
Qed.
