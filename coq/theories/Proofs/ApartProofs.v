(* Log and record files are nobody's result file, when keys are written with hex digits (as SHA-256 keys are):
   discharges the `apart` premise of the at-most-once theorem for parameter-mode chains. *)
From Coq Require Import String Ascii List Bool Arith NArith Lia.
From TC Require Import PyStr Value Dict Repr Param Key Chain Eval Sha256 StrProofs InjProofs OnceProofs.
Import ListNotations.

Definition hexc (c : ascii) : bool :=
  let n := nat_of_ascii c in ((48 <=? n) && (n <=? 57)) || ((97 <=? n) && (n <=? 102)).
Definition hexkey (k : str) : Prop := k <> [] /\ Forall (fun c => hexc c = true) k.

Lemma hexdig_hex n : (n < 16)%N -> hexc (hexdig n) = true.
Proof.
  intros Hn.
  assert (Hin : In n (map N.of_nat (seq 0 16))).
  { apply in_map_iff. exists (N.to_nat n). split; [lia|apply in_seq; lia]. }
  assert (Hall : forallb (fun m => hexc (hexdig m)) (map N.of_nat (seq 0 16)) = true) by reflexivity.
  rewrite forallb_forall in Hall. now apply Hall.
Qed.

Theorem sha256_hex_hexchars t : Forall (fun c => hexc c = true) (sha256_hex t).
Proof.
  unfold sha256_hex. apply Forall_flat_map. intros b Hb.
  assert (Hs : (b < 256)%N).
  { apply in_flat_map in Hb. destruct Hb as (w & _ & Hb).
    pose proof (be_bytes_small 4 w) as F. rewrite Forall_forall in F. now apply F. }
  unfold hex_byte. constructor; [|constructor; [|constructor]].
  - apply hexdig_hex. apply N.div_lt_upper_bound; [discriminate|exact Hs].
  - apply hexdig_hex. apply N.mod_lt. discriminate.
Qed.

Lemma rev_hexkey k : hexkey k -> exists c r, rev k = c :: r /\ hexc c = true.
Proof.
  intros [Hne Hall]. destruct (rev k) as [|c r] eqn:Er.
  - exfalso. apply Hne. apply (f_equal (@rev ascii)) in Er. now rewrite rev_involutive in Er.
  - exists c, r. split; [reflexivity|]. apply Forall_rev in Hall. rewrite Er in Hall. now inversion Hall.
Qed.

Lemma result_not_side_file tc o tc' o' :
  hexkey (o_key o) ->
  log_path tc' o' <> result_path tc o /\ info_path tc' o' <> result_path tc o.
Proof.
  intros Hk. destruct (rev_hexkey _ Hk) as (c & r & Er & Hc).
  unfold log_path, info_path, result_path, result_file, log_file, run_info_file.
  split; intros E; apply (f_equal (@rev ascii)) in E; rewrite !rev_app_distr in E;
    destruct (c_data tc); simpl in E; try discriminate E;
    rewrite ?rev_app_distr in E; simpl in E; rewrite Er in E; simpl in E; injection E as E _;
    try discriminate E; first [rewrite E in Hc | rewrite <- E in Hc]; discriminate Hc.
Qed.

Section Apart.
  Variable classes : list tclass.
  Variable objs : list obj.
  Hypothesis keys_hex : forall id o, nth_error objs id = Some o -> hexkey (o_key o).

  Theorem apart_for_hex_keys : forall i oi ti j oj tj, IsObj classes objs i oi ti -> IsObj classes objs j oj tj ->
    log_path ti oi <> result_path tj oj /\ info_path ti oi <> result_path tj oj.
  Proof. intros i oi ti j oj tj _ [Hj _]. apply result_not_side_file. eapply keys_hex; eauto. Qed.
End Apart.


(* ---------- a SHA-256 key is 32 hex digits: never empty ---------- *)
Lemma round_len st kw : List.length (round st kw) = List.length st.
Proof. destruct st as [|a[|b[|c[|d[|e[|f[|g[|h[|i t]]]]]]]]]; reflexivity. Qed.

Lemma fold_round_len l : forall st, List.length (fold_left round l st) = List.length st.
Proof. induction l as [|x l IH]; intros st; simpl; [reflexivity|]. now rewrite IH, round_len. Qed.

Lemma compress_len st blk : List.length (compress st blk) = List.length st.
Proof. unfold compress. rewrite map_length, combine_length, fold_round_len. apply Nat.min_id. Qed.

Lemma fold_compress_len l : forall st, List.length (fold_left compress l st) = List.length st.
Proof. induction l as [|x l IH]; intros st; simpl; [reflexivity|]. now rewrite IH, compress_len. Qed.

Lemma be_bytes_len k x : List.length (be_bytes k x) = k.
Proof. revert x. induction k as [|k IH]; intros x; simpl; [reflexivity|]. rewrite app_length, IH. simpl. lia. Qed.

Lemma length_flat_map_const {A B} (f : A -> list B) n l :
  (forall x, List.length (f x) = n) -> List.length (flat_map f l) = n * List.length l.
Proof. intros Hf. induction l as [|x l IH]; simpl; [lia|]. rewrite app_length, Hf, IH. lia. Qed.

Lemma sha256_hex_length t : List.length (sha256_hex t) = 64.
Proof.
  unfold sha256_hex.
  rewrite (length_flat_map_const hex_byte 2) by reflexivity.
  rewrite (length_flat_map_const (be_bytes 4) 4) by (intros; apply be_bytes_len).
  unfold sha256_words. rewrite fold_compress_len. reflexivity.
Qed.

Theorem sha256_key_hex t : hexkey (key_of_text sha256_hex t).
Proof.
  split.
  - unfold key_of_text. intro E. assert (L : List.length (firstn 32 (sha256_hex t)) = 0) by now rewrite E.
    rewrite firstn_length, sha256_hex_length in L. simpl in L. discriminate.
  - apply Forall_firstn, sha256_hex_hexchars.
Qed.
