(* Well-formed full names: the component view is faithful.
   A full name built from namespaces, group levels and a task name - each a non-empty text without ':' -
   is split by the code's own splits into exactly those components; matching and priority can then be
   stated on components, and every task is addressed by its full name. *)
From Coq Require Import List Ascii String Bool Arith Lia Permutation.
From TC Require Import PyStr Names StrProofs NamesProofs.
Import ListNotations.

Definition simple (s : str) : Prop := s <> [] /\ ~ In colon s.
Definition loc_of (gs : list str) (n : str) : str := join [colon] (gs ++ [n]).
Definition render (ns gs : list str) (n : str) : str := join dcolon (ns ++ [loc_of gs n]).

(* no two adjacent colons, no colon at the end *)
Fixpoint nodc (s : str) : Prop :=
  match s with
  | [] => True
  | x :: r => match r with
              | [] => x <> colon
              | y :: _ => ~ (x = colon /\ y = colon) /\ nodc r
              end
  end.
Definition nocolon_head (s : str) : Prop := match s with [] => False | x :: _ => x <> colon end.

Lemma nodc_cons2 x y r : nodc (x :: y :: r) <-> ~ (x = colon /\ y = colon) /\ nodc (y :: r).
Proof. reflexivity. Qed.

Lemma eqb_colon_false x y : ~ (x = colon /\ y = colon) -> Ascii.eqb x colon && Ascii.eqb y colon = false.
Proof.
  intros H. destruct (Ascii.eqb x colon) eqn:Ex; [|reflexivity].
  destruct (Ascii.eqb y colon) eqn:Ey; [|reflexivity].
  apply Ascii.eqb_eq in Ex, Ey. exfalso. auto.
Qed.

(* ---- scanning for the double colon ---- *)
Lemma split_dc_go_part acc p rest :
  nodc p -> split_dc_go acc (p ++ colon :: colon :: rest) = (rev acc ++ p) :: split_dc_go [] rest.
Proof.
  revert acc. induction p as [|x p IH]; intros acc Hp.
  - simpl app. rewrite split_dc_go_cons2. unfold colon. simpl. now rewrite app_nil_r.
  - destruct p as [|y p].
    + simpl in Hp. simpl app. rewrite split_dc_go_cons2.
      replace (Ascii.eqb x colon) with false by (symmetry; now apply Ascii.eqb_neq).
      cbn [andb]. pose proof (IH (x :: acc) I) as E. simpl app in E. rewrite E. simpl. now rewrite <- app_assoc.
    + apply nodc_cons2 in Hp. destruct Hp as [Hxy Hr].
      change ((x :: y :: p) ++ colon :: colon :: rest) with (x :: y :: (p ++ colon :: colon :: rest)).
      rewrite split_dc_go_cons2, (eqb_colon_false _ _ Hxy).
      change (y :: p ++ colon :: colon :: rest) with ((y :: p) ++ colon :: colon :: rest).
      rewrite (IH (x :: acc) Hr). simpl. now rewrite <- app_assoc.
Qed.

Lemma split_dc_go_last acc p : nodc p -> split_dc_go acc p = [rev acc ++ p].
Proof.
  revert acc. induction p as [|x p IH]; intros acc Hp.
  - simpl. now rewrite app_nil_r.
  - destruct p as [|y p].
    + simpl. reflexivity.
    + apply nodc_cons2 in Hp. destruct Hp as [Hxy Hr].
      rewrite split_dc_go_cons2, (eqb_colon_false _ _ Hxy), (IH (x :: acc) Hr). simpl. now rewrite <- app_assoc.
Qed.

Lemma split_dc_join parts :
  parts <> [] -> (forall p, In p parts -> nodc p) -> split_dc (join dcolon parts) = parts.
Proof.
  unfold split_dc. induction parts as [|p r IH]; [contradiction|]. intros _ H.
  destruct r as [|q r].
  - simpl. rewrite split_dc_go_last by (apply H; now left). reflexivity.
  - rewrite join_cons by discriminate. unfold dcolon at 1. change (lit "::") with [colon; colon].
    change (p ++ [colon; colon] ++ join dcolon (q :: r)) with (p ++ colon :: colon :: join dcolon (q :: r)).
    rewrite split_dc_go_part by (apply H; now left). simpl rev. simpl app at 1. f_equal.
    apply IH; [discriminate|]. intros p' Hp'. apply H. now right.
Qed.

(* ---- scanning for one colon ---- *)
Lemma split_c_go_part c acc p rest :
  ~ In c p -> split_c_go c acc (p ++ c :: rest) = (rev acc ++ p) :: split_c_go c [] rest.
Proof.
  revert acc. induction p as [|x p IH]; intros acc Hp.
  - simpl. rewrite Ascii.eqb_refl. now rewrite app_nil_r.
  - simpl. replace (Ascii.eqb x c) with false.
    + rewrite IH by (intro; apply Hp; now right). simpl. now rewrite <- app_assoc.
    + symmetry. apply Ascii.eqb_neq. intro; subst. apply Hp. now left.
Qed.

Lemma split_c_join c parts :
  parts <> [] -> (forall p, In p parts -> ~ In c p) -> split_c c (join [c] parts) = parts.
Proof.
  induction parts as [|p r IH]; [contradiction|]. intros _ H.
  destruct r as [|q r].
  - simpl. apply split_c_no_char. apply H. now left.
  - rewrite join_cons by discriminate. unfold split_c.
    change (p ++ [c] ++ join [c] (q :: r)) with (p ++ c :: join [c] (q :: r)).
    rewrite split_c_go_part by (apply H; now left). simpl rev. simpl app at 1. f_equal.
    apply IH; [discriminate|]. intros p' Hp'. apply H. now right.
Qed.

(* ---- what joins of simple parts look like ---- *)
Lemma simple_nodc s : ~ In colon s -> nodc s.
Proof.
  induction s as [|x r IH]; intros H; [exact I|].
  destruct r as [|y r].
  - simpl. intro; subst. apply H. now left.
  - apply nodc_cons2. split.
    + intros [-> _]. apply H. now left.
    + apply IH. intro; apply H. now right.
Qed.

Lemma simple_head s : simple s -> nocolon_head s.
Proof. intros [Hn Hc]. destruct s as [|x r]; [contradiction|]. simpl. intro; subst. apply Hc. now left. Qed.

Lemma nodc_app_colon x s :
  simple x -> nodc s -> nocolon_head s -> nodc (x ++ colon :: s) /\ nocolon_head (x ++ colon :: s).
Proof.
  intros [Hn Hc] Hs Hh. split.
  - induction x as [|a x IH]; [contradiction|].
    destruct x as [|b x].
    + simpl app. destruct s as [|y s]; [contradiction|]. simpl in Hh.
      apply nodc_cons2. split; [intros [-> _]; apply Hc; now left|].
      apply nodc_cons2. split; [intros [_ ->]; now apply Hh|exact Hs].
    + change ((a :: b :: x) ++ colon :: s) with (a :: b :: (x ++ colon :: s)).
      apply nodc_cons2. split; [intros [-> _]; apply Hc; now left|].
      apply IH; [discriminate|]. intro; apply Hc. now right.
  - destruct x as [|a x]; [contradiction|]. simpl. intro; subst. apply Hc. now left.
Qed.

Lemma loc_good parts :
  parts <> [] -> (forall p, In p parts -> simple p) ->
  nodc (join [colon] parts) /\ nocolon_head (join [colon] parts).
Proof.
  induction parts as [|p r IH]; [contradiction|]. intros _ H.
  destruct r as [|q r].
  - simpl. split; [apply simple_nodc, H; now left|apply simple_head, H; now left].
  - rewrite join_cons by discriminate. change (p ++ [colon] ++ join [colon] (q :: r)) with (p ++ colon :: join [colon] (q :: r)).
    destruct IH as [I1 I2]; [discriminate|intros p' Hp'; apply H; now right|].
    apply nodc_app_colon; auto. apply H. now left.
Qed.

Lemma join_nonempty sep parts : parts <> [] -> (forall p, In p parts -> p <> []) -> join sep parts <> [].
Proof.
  destruct parts as [|p r]; [contradiction|]. intros _ H.
  assert (Hp : p <> []) by (apply H; now left).
  destruct r as [|q r]; [exact Hp|]. rewrite join_cons by discriminate.
  destruct p; [contradiction|discriminate].
Qed.

(* ---- component views of a rendered name ---- *)
Record wf (ns gs : list str) (n : str) : Prop := {
  wf_ns : forall p, In p ns -> simple p;
  wf_gs : forall p, In p gs -> simple p;
  wf_n : simple n }.

Lemma wf_loc_parts ns gs n : wf ns gs n -> forall p, In p (gs ++ [n]) -> simple p.
Proof. intros W p Hp. apply in_app_or in Hp. destruct Hp as [Hp|[<-|[]]]; [now apply (wf_gs _ _ _ W)|apply (wf_n _ _ _ W)]. Qed.

Lemma wf_parts_nodc ns gs n : wf ns gs n -> forall p, In p (ns ++ [loc_of gs n]) -> nodc p.
Proof.
  intros W p Hp. apply in_app_or in Hp. destruct Hp as [Hp|[<-|[]]].
  - apply simple_nodc. now apply (wf_ns _ _ _ W).
  - apply loc_good; [now destruct gs|apply (wf_loc_parts _ _ _ W)].
Qed.

Lemma last_str_app l x : last_str (l ++ [x]) = x.
Proof. induction l as [|a l IH]; [reflexivity|]. destruct l; [reflexivity|]. exact IH. Qed.

Lemma split_render ns gs n : wf ns gs n -> split_dc (render ns gs n) = ns ++ [loc_of gs n].
Proof. intros W. apply split_dc_join; [now destruct ns|apply (wf_parts_nodc _ _ _ W)]. Qed.

Theorem ns_parts_render ns gs n : wf ns gs n -> ns_parts (render ns gs n) = ns.
Proof. intros W. unfold ns_parts. rewrite (split_render _ _ _ W). apply removelast_last. Qed.

Theorem local_part_render ns gs n : wf ns gs n -> local_part (render ns gs n) = loc_of gs n.
Proof. intros W. unfold local_part. rewrite (split_render _ _ _ W). apply last_str_app. Qed.

Theorem local_parts_render ns gs n : wf ns gs n -> local_parts (render ns gs n) = gs ++ [n].
Proof.
  intros W. unfold local_parts. rewrite (local_part_render _ _ _ W). unfold loc_of.
  apply split_c_join; [now destruct gs|]. intros p Hp. apply (wf_loc_parts _ _ _ W p Hp).
Qed.

Lemma ns_text_render ns gs n : wf ns gs n -> ns_text (render ns gs n) = join dcolon ns.
Proof. intros W. unfold ns_text. fold (ns_parts (render ns gs n)). now rewrite (ns_parts_render _ _ _ W). Qed.

Lemma join_ns_inj a b :
  (forall p, In p a -> simple p) -> (forall p, In p b -> simple p) -> join dcolon a = join dcolon b -> a = b.
Proof.
  intros Ha Hb E.
  destruct a as [|x a], b as [|y b]; [reflexivity| | |].
  - exfalso. symmetry in E. revert E. apply join_nonempty; [discriminate|]. intros p Hp. now apply Hb.
  - exfalso. revert E. apply join_nonempty; [discriminate|]. intros p Hp. now apply Ha.
  - rewrite <- (split_dc_join (x :: a)), <- (split_dc_join (y :: b)); try discriminate.
    + now rewrite E.
    + intros p Hp. apply simple_nodc. now apply Hb.
    + intros p Hp. apply simple_nodc. now apply Ha.
Qed.

Lemma join_loc_inj a b :
  a <> [] -> b <> [] -> (forall p, In p a -> simple p) -> (forall p, In p b -> simple p) ->
  join [colon] a = join [colon] b -> a = b.
Proof.
  intros Na Nb Ha Hb E.
  rewrite <- (split_c_join colon a), <- (split_c_join colon b); auto.
  - now rewrite E.
  - intros p Hp. now apply Hb.
  - intros p Hp. now apply Ha.
Qed.

Lemma is_empty_join_ns ns : (forall p, In p ns -> simple p) -> is_empty (join dcolon ns) = true <-> ns = [].
Proof.
  intros H. split.
  - destruct ns as [|x r]; [reflexivity|]. intros E. exfalso.
    assert (join dcolon (x :: r) <> []) by (apply join_nonempty; [discriminate|]; intros p Hp; now apply H).
    destruct (join dcolon (x :: r)); [contradiction|discriminate].
  - intros ->. reflexivity.
Qed.

Lemma has_colon_loc gs n : (forall p, In p (gs ++ [n]) -> simple p) -> has_char colon (loc_of gs n) = true <-> gs <> [].
Proof.
  intros H. unfold loc_of. split.
  - intros Hc Hg. subst gs. simpl in Hc. apply has_char_in in Hc. apply (H n); [now left|exact Hc].
  - intros Hg. destruct gs as [|g gs]; [contradiction|]. apply has_char_in.
    change ((g :: gs) ++ [n]) with (g :: (gs ++ [n])). rewrite join_cons by now destruct gs.
    apply in_or_app. right. now left.
Qed.

(* ---- matching, on components ---- *)
Theorem match_by_components det qns qgs qn tns tgs tn :
  wf qns qgs qn -> wf tns tgs tn ->
  task_name_match det (render qns qgs qn) (render tns tgs tn) = true <->
  ((qns <> [] \/ det = false) -> tns = qns) /\ tn = qn /\ (qgs = [] \/ tgs = qgs).
Proof.
  intros Wq Wt. unfold task_name_match.
  rewrite !(ns_text_render _ _ _ Wq), !(ns_text_render _ _ _ Wt), (local_part_render _ _ _ Wq), (local_part_render _ _ _ Wt).
  pose proof (is_empty_join_ns qns (wf_ns _ _ _ Wq)) as Hemp.
  pose proof (wf_loc_parts _ _ _ Wq) as Hq. pose proof (wf_loc_parts _ _ _ Wt) as Ht.
  assert (Hns : str_eqb (join dcolon tns) (join dcolon qns) = true <-> tns = qns).
  { rewrite str_eqb_eq. split; [apply join_ns_inj; [apply (wf_ns _ _ _ Wt)|apply (wf_ns _ _ _ Wq)]|now intros ->]. }
  assert (Hloc : str_eqb (loc_of tgs tn) (loc_of qgs qn) = true <-> tgs = qgs /\ tn = qn).
  { rewrite str_eqb_eq. unfold loc_of. split.
    - intros E. apply join_loc_inj in E; auto; try (now destruct tgs); try (now destruct qgs).
      apply app_inj_tail in E. exact E.
    - now intros [-> ->]. }
  assert (Hlast : last_str (split_c colon (loc_of tgs tn)) = tn).
  { unfold loc_of. rewrite split_c_join; [apply last_str_app|now destruct tgs|]. intros p Hp. now apply Ht. }
  destruct ((negb (is_empty (join dcolon qns)) || negb det) && negb (str_eqb (join dcolon tns) (join dcolon qns))) eqn:Eg.
  - split; [discriminate|]. intros (Hn & _). exfalso.
    apply andb_true_iff in Eg. destruct Eg as [E1 E2]. apply negb_true_iff in E2.
    assert (tns = qns).
    { apply Hn. apply orb_true_iff in E1. destruct E1 as [E1|E1].
      - left. intros Hq0. apply negb_true_iff in E1. apply Hemp in Hq0. congruence.
      - right. now apply negb_true_iff in E1. }
    apply Hns in H. congruence.
  - assert (Hn : (qns <> [] \/ det = false) -> tns = qns).
    { intros Hc. apply andb_false_iff in Eg. destruct Eg as [E1|E2].
      - exfalso. apply orb_false_iff in E1. destruct E1 as [E1 E1']. apply negb_false_iff in E1, E1'.
        destruct Hc as [Hc|Hc]; [apply Hc; now apply Hemp|congruence].
      - apply negb_false_iff in E2. now apply Hns. }
    destruct (str_eqb (loc_of tgs tn) (loc_of qgs qn)) eqn:El.
    + destruct (proj1 Hloc eq_refl) as [-> ->]. split; auto.
    + destruct (has_char colon (loc_of tgs tn) && negb (has_char colon (loc_of qgs qn))) eqn:Eh.
      * apply andb_true_iff in Eh. destruct Eh as [H1 H2]. apply negb_true_iff in H2.
        apply (has_colon_loc _ _ Ht) in H1.
        assert (qgs = []).
        { destruct qgs as [|g qgs]; [reflexivity|]. exfalso.
          assert (has_char colon (loc_of (g :: qgs) qn) = true) by (apply (has_colon_loc _ _ Hq); discriminate). congruence. }
        subst qgs. rewrite Hlast. unfold loc_of. simpl. rewrite str_eqb_eq. split; [intros E; subst; auto|intros (_ & E & _); now subst].
      * split; [discriminate|]. intros (_ & E1 & [E2|E2]); subst; exfalso.
        -- (* qgs = [] : either tgs = [] (then the local parts are equal) or the second rule applies *)
           destruct tgs as [|g tgs].
           ++ unfold loc_of in El. simpl in El. rewrite str_eqb_refl in El. discriminate.
           ++ apply andb_false_iff in Eh. destruct Eh as [Eh|Eh].
              ** assert (has_char colon (loc_of (g :: tgs) qn) = true) by (apply (has_colon_loc _ _ Ht); discriminate). congruence.
              ** apply negb_false_iff in Eh. apply (has_colon_loc _ _ Hq) in Eh. now apply Eh.
        -- rewrite str_eqb_refl in El. discriminate.
Qed.

(* ---- "less nested", on components ---- *)
Theorem less_nested_by_components cns cgs cn ons ogs on_ :
  wf cns cgs cn -> wf ons ogs on_ ->
  is_less_nested (render cns cgs cn) (render ons ogs on_) = true <->
  (exists e, ons = e ++ cns) /\ (exists e, ogs ++ [on_] = e ++ cgs ++ [cn]).
Proof.
  intros Wc Wo. rewrite is_less_nested_spec.
  now rewrite !(ns_parts_render _ _ _ Wc), !(ns_parts_render _ _ _ Wo), (local_parts_render _ _ _ Wc), (local_parts_render _ _ _ Wo).
Qed.

(* ---- every task is addressed by its full name ---- *)
Definition wf_name (t : str) : Prop := exists ns gs n, wf ns gs n /\ t = render ns gs n.

Theorem full_name_resolves det ts t :
  In t ts -> (forall u, In u ts -> wf_name u) -> find_task_full_name det t ts = inl t.
Proof.
  intros Hin Hwf. destruct (Hwf t Hin) as (tns & tgs & tn & Wt & ->).
  apply find_complete; [exact Hin| |].
  - apply match_by_components; auto.
  - intros u Hu Hm. destruct (Hwf u Hu) as (uns & ugs & un & Wu & ->).
    apply (match_by_components det _ _ _ _ _ _ Wt Wu) in Hm. destruct Hm as (Hn & -> & Hg).
    apply less_nested_by_components; auto. split.
    + destruct tns as [|x tns].
      * exists uns. now rewrite app_nil_r.
      * exists []. simpl. apply Hn. left. discriminate.
    + destruct Hg as [->| ->]; [exists ugs; reflexivity|exists []; reflexivity].
Qed.

(* ---- and by every shorter form that only it matches ---- *)
Theorem short_forms_match det tns tgs tn :
  wf tns tgs tn ->
  task_name_match det (render tns tgs tn) (render tns tgs tn) = true /\
  task_name_match det (render tns [] tn) (render tns tgs tn) = true /\
  (det = true -> task_name_match det (render [] tgs tn) (render tns tgs tn) = true /\
                 task_name_match det (render [] [] tn) (render tns tgs tn) = true).
Proof.
  intros W.
  assert (W1 : wf tns [] tn) by (constructor; [apply (wf_ns _ _ _ W)|intros p []|apply (wf_n _ _ _ W)]).
  assert (W2 : wf [] tgs tn) by (constructor; [intros p []|apply (wf_gs _ _ _ W)|apply (wf_n _ _ _ W)]).
  assert (W3 : wf [] [] tn) by (constructor; [intros p []|intros p []|apply (wf_n _ _ _ W)]).
  repeat split.
  - apply match_by_components; auto.
  - apply match_by_components; auto.
  - apply match_by_components; auto. subst det. repeat split; auto. intros [H|H]; [now elim H|discriminate].
  - apply match_by_components; auto. subst det. repeat split; auto. intros [H|H]; [now elim H|discriminate].
Qed.
