(* History-level statements for C01 / C04 / C07 over one process lifetime (a fixed set of task
   objects): every public operation preserves the soundness invariant, inspection runs nothing,
   forcing marks exactly the downstream closure. *)
From Coq Require Import String Ascii List Bool Arith ZArith Lia.
From TC Require Import PyStr Value Dict Repr Param Names Config Key Chain Graph World Eval History
     StrProofs DictProofs GraphProofs EvalProofs.
Import ListNotations.

Section Hist.
  Variable H : str -> str.
  Variable wd : World.world.
  Variable run : nat -> list (str * str) -> list (str * value) -> value.
  Let classes := classes_of_world wd.

  (* ---------- force_obj ---------- *)
  Lemma force_obj_objs delete w id : w_objs (force_obj wd delete w id) = w_objs w.
  Proof.
    unfold force_obj. destruct (nth_error (w_objs w) id); [|reflexivity].
    destruct (cls_of (classes_of_world wd) o); [|reflexivity]. destruct delete; reflexivity.
  Qed.

  Lemma force_obj_runlog delete w id : w_runlog (force_obj wd delete w id) = w_runlog w.
  Proof.
    unfold force_obj. destruct (nth_error (w_objs w) id); [|reflexivity].
    destruct (cls_of (classes_of_world wd) o); [|reflexivity]. destruct delete; reflexivity.
  Qed.

  Lemma force_obj_states_len delete w id :
    List.length (w_states (force_obj wd delete w id)) = List.length (w_states w).
  Proof.
    unfold force_obj. destruct (nth_error (w_objs w) id); [|reflexivity].
    destruct (cls_of (classes_of_world wd) o); [|reflexivity].
    assert (G : forall n (x : ostate) l, List.length (set_nth n x l) = List.length l).
    { intros n x l. revert n. induction l as [|y r IH]; intros [|n]; simpl; auto. }
    destruct delete; simpl; apply G.
  Qed.

  (* the object itself: result dropped from memory, flag set; every other object untouched *)
  Lemma force_obj_state delete w id j :
    (exists o tc, nth_error (w_objs w) id = Some o /\ cls_of classes o = Some tc) ->
    id < List.length (w_states w) ->
    state_of (force_obj wd delete w id) j =
    if Nat.eqb j id then {| os_mem := None; os_forced := true |} else state_of w j.
  Proof.
    intros [o [tc [Ho Hc]]] Hlt. unfold force_obj. rewrite Ho. unfold classes in Hc. rewrite Hc.
    apply Nat.ltb_lt in Hlt.
    destruct delete; rewrite state_of_set_state; cbn [w_states with_store]; rewrite Hlt, andb_true_r;
      destruct (Nat.eqb j id); reflexivity.
  Qed.

  (* files: nothing but the object's own result file can disappear, and only with delete_data *)
  Lemma force_obj_files delete w id p e :
    dget p (w_store w) = Some e ->
    dget p (w_store (force_obj wd delete w id)) = Some e \/
    (delete = true /\ exists o tc, nth_error (w_objs w) id = Some o /\ cls_of classes o = Some tc /\ p = result_path tc o).
  Proof.
    intros Hp. unfold force_obj. destruct (nth_error (w_objs w) id) as [o|] eqn:Ho; [|now left].
    fold classes. destruct (cls_of classes o) as [tc|] eqn:Hc; [|now left].
    destruct delete; [|now left]. simpl.
    set (st0 := match os_mem (state_of w id) with Some _ => w_store w | None => mkdirs (dir_of_slug (c_slug tc)) (w_store w) end).
    assert (H0 : dget p st0 = Some e).
    { unfold st0. destruct (os_mem (state_of w id)); [exact Hp|]. now apply dget_mkdirs_go_existing. }
    destruct (persisting (c_data tc) && dhas (result_path tc o) st0); [|now left].
    destruct (str_eq_dec p (result_path tc o)) as [->|Hne]; [right; eauto 6|].
    left. now rewrite dget_ddel_other.
  Qed.

  (* ---------- forcing through the chain marks exactly the named tasks and everything downstream ---------- *)
  Definition valid_ids (w : Eval.world) (ids : list nat) : Prop :=
    forall id, In id ids ->
      (exists o tc, nth_error (w_objs w) id = Some o /\ cls_of classes o = Some tc) /\ id < List.length (w_states w).

  Lemma fold_force_state delete ids w j :
    valid_ids w ids ->
    state_of (fold_left (force_obj wd delete) ids w) j =
    if existsb (Nat.eqb j) ids then {| os_mem := None; os_forced := true |} else state_of w j.
  Proof.
    revert w. induction ids as [|i r IH]; intros w Hv; simpl; [reflexivity|].
    rewrite IH.
    - destruct (Hv i (or_introl eq_refl)) as [He Hl].
      rewrite (force_obj_state delete w i j He Hl).
      destruct (Nat.eqb j i); simpl; [now destruct (existsb (Nat.eqb j) r)|reflexivity].
    - intros id Hin. destruct (Hv id (or_intror Hin)) as [[o [tc [Ho Hc]]] Hl]. split.
      + exists o, tc. now rewrite force_obj_objs.
      + now rewrite force_obj_states_len.
  Qed.

  Lemma force_chain_state h w c names delete j :
    let roots := nodup Nat.eq_dec (flat_map (fun n => match dget n c with Some i => [i] | None => [] end) names) in
    let forced := closure_from (input_edge (w_objs w)) (chain_ids c) roots in
    valid_ids w forced ->
    state_of (force_chain wd run h w c names false delete) j =
    if existsb (Nat.eqb j) forced then {| os_mem := None; os_forced := true |} else state_of w j.
  Proof. intros roots forced Hv. unfold force_chain. now apply fold_force_state. Qed.

  Theorem force_chain_marks_exactly_closure h chain names delete c h' out j :
    nth_error (h_chains h) chain = Some c ->
    let roots := nodup Nat.eq_dec (flat_map (fun n => match dget n c with Some i => [i] | None => [] end) names) in
    let forced := closure_from (input_edge (w_objs (h_world h))) (chain_ids c) roots in
    valid_ids (h_world h) forced ->
    step H wd run h (OForceChain chain names false delete) = (h', out) ->
    state_of (h_world h') j =
    if existsb (Nat.eqb j) forced then {| os_mem := None; os_forced := true |} else state_of (h_world h) j.
  Proof.
    intros Hc roots forced Hv Hs. unfold step in Hs. rewrite Hc in Hs. injection Hs as <- _. cbn [h_world].
    now apply (force_chain_state h).
  Qed.

  Lemma force_chain_runlog h w c names delete :
    w_runlog (force_chain wd run h w c names false delete) = w_runlog w.
  Proof.
    unfold force_chain.
    generalize (closure_from (input_edge (w_objs w)) (chain_ids c)
                  (nodup Nat.eq_dec (flat_map (fun n => match dget n c with Some i => [i] | None => [] end) names))).
    intros l. revert w. induction l as [|i r IH]; intros w; simpl; [reflexivity|].
    rewrite IH. apply force_obj_runlog.
  Qed.

  (* ... where the closure is: a named task, or reachable from one along input -> dependant arcs *)
  Theorem forced_closure_is_downstream objs c roots x :
    In x (closure_from (input_edge objs) (chain_ids c) roots) <->
    In x roots \/ exists r, In r roots /\ Path (input_edge objs) (chain_ids c) r x.
  Proof. apply closure_from_spec. Qed.

  (* ---------- building and inspecting run nothing ---------- *)
  Theorem inspection_runs_nothing h o h' out :
    (match o with OValue _ _ => False | OForceChain _ _ true _ => False | OForceMulti _ _ true _ => False | _ => True end) ->
    step H wd run h o = (h', out) -> w_runlog (h_world h') = w_runlog (h_world h).
  Proof.
    intros Hk Hs. destruct o as [b|bs|c n|c n d|c ns rc d|c n|cs ns rc d|ci ni|cf| |sl|cr nr]; try contradiction; unfold step in Hs.
    - destruct (build H wd b (w_objs (h_world h)) []) as [[[rc objs] reg]|e]; injection Hs as <- _; reflexivity.
    - destruct (build_multi H wd bs (w_objs (h_world h)) []) as [[[rcs objs] reg]|e]; injection Hs as <- _; reflexivity.
    - destruct (oid_of h c n); injection Hs as <- _; [apply force_obj_runlog|reflexivity].
    - destruct rc; [contradiction|]. destruct (nth_error (h_chains h) c) as [ch|]; injection Hs as <- _; [|reflexivity].
      cbn [h_world]. apply (force_chain_runlog h).
    - destruct (oid_of h c n) as [id|]; [|injection Hs as <- _; reflexivity].
      destruct (nth_error (w_objs (h_world h)) id) as [ob|]; [|injection Hs as <- _; reflexivity].
      destruct (cls_of (classes_of_world wd) ob) as [tc|]; [|injection Hs as <- _; reflexivity].
      destruct (persisting (c_data tc)); injection Hs as <- _; reflexivity.
    - destruct rc; [contradiction|].
      match type of Hs with (let '(_, _) := fold_left ?F cs ?init in _) = _ =>
        assert (G : forall l wa g, w_runlog (fst (fold_left F l (wa, g))) = w_runlog wa) end.
      { induction l as [|ci r IH]; intros wa g; cbn [fold_left]; [reflexivity|].
        destruct g; [|apply IH].
        destruct (nth_error (h_chains h) ci) as [c0|]; [|apply IH].
        destruct (forallb (fun n => dhas n c0) ns); rewrite IH; [apply (force_chain_runlog h)|reflexivity]. }
      match type of Hs with (let '(_, _) := ?F in _) = _ => destruct F as [w' g'] eqn:Ef end.
      injection Hs as <- _. simpl. specialize (G cs (h_world h) true). rewrite Ef in G. exact G.
    - destruct (oid_of h ci ni) as [id|]; [|injection Hs as <- _; reflexivity].
      destruct (nth_error (w_objs (h_world h)) id) as [ob|]; [|injection Hs as <- _; reflexivity].
      destruct (cls_of (classes_of_world wd) ob) as [tc|]; injection Hs as <- _; reflexivity.
    - destruct (nth_error (h_chains h) cf) as [ch|]; [|injection Hs as <- _; reflexivity].
      match type of Hs with (let '(_, _) := fold_left ?V ch ?init in _) = _ =>
        assert (G : forall l wa out, w_runlog (fst (fold_left V l (wa, out))) = w_runlog wa) end.
      { induction l as [|t r IH]; intros wa out0; cbn [fold_left]; [reflexivity|].
        destruct (nth_error (w_objs wa) (snd t)) as [ob|]; [|apply IH].
        destruct (cls_of (classes_of_world wd) ob) as [tc|]; [|apply IH].
        destruct (persisting (c_data tc)); rewrite IH; reflexivity. }
      match type of Hs with (let '(_, _) := ?F in _) = _ => destruct F as [w' out'] eqn:Ef end.
      injection Hs as <- _. simpl. specialize (G ch (h_world h) []). rewrite Ef in G. exact G.
    - injection Hs as <- _. reflexivity.
    - injection Hs as <- _. reflexivity.
    - destruct (oid_of h cr nr); injection Hs as <- _; reflexivity.
  Qed.

  (* has_data: the only effect on the data directory is the creation of the task directory *)
  Theorem has_data_keeps_files h c n h' out p e :
    step H wd run h (OHasData c n) = (h', out) ->
    dget p (w_store (h_world h)) = Some e -> dget p (w_store (h_world h')) = Some e.
  Proof.
    intros Hs Hp. unfold step in Hs.
    destruct (oid_of h c n) as [id|]; [|injection Hs as <- _; exact Hp].
    destruct (nth_error (w_objs (h_world h)) id) as [ob|]; [|injection Hs as <- _; exact Hp].
    destruct (cls_of (classes_of_world wd) ob) as [tc|]; [|injection Hs as <- _; exact Hp].
    destruct (persisting (c_data tc)); injection Hs as <- _; [|exact Hp]. simpl.
    destruct (os_mem (state_of (h_world h) id)); [exact Hp|]. now apply dget_mkdirs_go_existing.
  Qed.
  (* reset_data: the value held in memory is dropped, the forced mark and everything else stay *)
  Theorem reset_keeps_forced h c n id h' out j :
    oid_of h c n = Some id -> id < List.length (w_states (h_world h)) ->
    step H wd run h (OReset c n) = (h', out) ->
    out = ok VNone /\
    w_store (h_world h') = w_store (h_world h) /\ w_runlog (h_world h') = w_runlog (h_world h) /\
    state_of (h_world h') j =
    (if Nat.eqb j id then {| os_mem := None; os_forced := os_forced (state_of (h_world h) id) |}
     else state_of (h_world h) j).
  Proof.
    intros Ho Hl Hs. unfold step in Hs. rewrite Ho in Hs. injection Hs as <- <-. cbn [h_world].
    repeat split. rewrite state_of_set_state.
    apply Nat.ltb_lt in Hl. rewrite Hl, andb_true_r. reflexivity.
  Qed.
End Hist.

Ltac nope := let E1 := fresh in let E3 := fresh in
  intros ? ? ? ? E1 ? E3; first [discriminate E1 | (unfold err, ok in E3; discriminate E3)].

(* ---------- C01 over a process lifetime: every operation on a fixed set of objects preserves the
   soundness invariant, and every value a request returns is the denotation ---------- *)
Section HistSound.
  Variable H : str -> str.
  Variable wd : World.world.
  Variable run : nat -> list (str * str) -> list (str * value) -> value.
  Variable objs : list obj.
  Variable ideal : str -> option value.
  Let classes := classes_of_world wd.
  Hypothesis location_determines_denotation :
    forall id o tc v, nth_error objs id = Some o -> cls_of classes o = Some tc ->
                      Den run objs id v -> ideal (result_path tc o) = Some v.
  Hypothesis well_founded_inputs : forall id o, nth_error objs id = Some o -> exists v, Den run objs id v.

  Let InvW := Inv run objs ideal.

  Lemma force_obj_inv delete w id : InvW w -> InvW (force_obj wd delete w id).
  Proof.
    intros (Hm & Hs & Ho). unfold force_obj. destruct (nth_error (w_objs w) id) as [o|]; [|repeat split; auto].
    destruct (cls_of (classes_of_world wd) o) as [tc|]; [|repeat split; auto].
    repeat split.
    - apply mem_sound_set; [|simpl; discriminate]. destruct delete; [apply mem_sound_store|]; exact Hm.
    - destruct delete; [|exact Hs]. intros p v Hp. simpl in Hp.
      set (st0 := match os_mem (state_of w id) with Some _ => w_store w | None => mkdirs (dir_of_slug (c_slug tc)) (w_store w) end) in *.
      assert (Hst0 : forall p v, dget p st0 = Some (FValue v) -> ideal p = Some v).
      { intros q u Hq. unfold st0 in Hq. destruct (os_mem (state_of w id)); [now apply Hs|].
        apply Hs. now apply (mkdirs_files _ _ _ _ Hq). }
      destruct (persisting (c_data tc) && dhas (result_path tc o) st0); [|now apply Hst0].
      destruct (str_eq_dec p (result_path tc o)) as [->|Hne]; [rewrite dget_ddel_same in Hp; discriminate|].
      rewrite dget_ddel_other in Hp by assumption. now apply Hst0.
    - destruct delete; exact Ho.
  Qed.

  Lemma force_chain_inv h w c names rc d : InvW w -> InvW (force_chain wd run h w c names rc d).
  Proof.
    intros Hi. unfold force_chain.
    set (forced := closure_from _ _ _).
    assert (Hf : forall l w0, InvW w0 -> InvW (fold_left (force_obj wd d) l w0)).
    { induction l as [|i r IH]; intros w0 Hw; cbn [fold_left]; [exact Hw|]. apply IH. now apply force_obj_inv. }
    destruct rc; [|now apply Hf].
    assert (Hr : forall l w0, InvW w0 ->
               InvW (fold_left (fun wa i => fst (eval (classes_of_world wd) run (depth h) wa i)) l w0)).
    { induction l as [|i r IH]; intros w0 Hw; cbn [fold_left]; [exact Hw|]. apply IH.
      destruct (eval (classes_of_world wd) run (depth h) w0 i) as [w' r'] eqn:Ee. cbn [fst].
      exact (proj1 (eval_sound (classes_of_world wd) run objs ideal location_determines_denotation
                               well_founded_inputs (depth h) _ _ _ _ Hw Ee)). }
    apply Hr. now apply Hf.
  Qed.

  Theorem step_preserves_soundness h o h' out :
    (match o with OBuild _ | OBuildMulti _ | ORestart => False | _ => True end) ->
    InvW (h_world h) -> step H wd run h o = (h', out) ->
    InvW (h_world h') /\
    (forall c n v id, o = OValue c n -> oid_of h c n = Some id -> out = ok v -> Den run objs id v).
  Proof.
    pose proof I as nope_marker.
    intros Hk Hi Hs. destruct o as [b|bs|c n|c n d|c ns rc d|c n|cs ns rc d|ci ni|cf| |sl|cr nr]; try contradiction; unfold step in Hs.
    - (* value *)
      destruct (oid_of h c n) as [id|] eqn:Eo; [|injection Hs as <- <-; split; [exact Hi|nope]].
      destruct (eval (classes_of_world wd) run (depth h) (h_world h) id) as [w' [v|e]] eqn:Ee.
      + destruct (eval_sound (classes_of_world wd) run objs ideal location_determines_denotation well_founded_inputs
                             (depth h) _ _ _ _ Hi Ee) as [Hi' Hv].
        injection Hs as <- <-. split; [exact Hi'|]. intros c' n' v' id' E1 E2 E3.
        injection E1 as <- <-. rewrite Eo in E2. injection E2 as <-. unfold ok in E3. injection E3 as <-. now apply Hv.
      + destruct (eval_sound (classes_of_world wd) run objs ideal location_determines_denotation well_founded_inputs
                             (depth h) _ _ _ _ Hi Ee) as [Hi' _].
        injection Hs as <- <-. split; [exact Hi'|nope].
    - destruct (oid_of h c n); injection Hs as <- <-; (split; [|nope]); [now apply force_obj_inv|exact Hi].
    - destruct (nth_error (h_chains h) c) as [ch|]; injection Hs as <- <-; (split; [|nope]); [|exact Hi].
      cbn [h_world]. now apply force_chain_inv.
    - destruct (oid_of h c n) as [id|]; [|injection Hs as <- <-; split; [exact Hi|nope]].
      destruct (nth_error (w_objs (h_world h)) id) as [ob|]; [|injection Hs as <- <-; split; [exact Hi|nope]].
      destruct (cls_of (classes_of_world wd) ob) as [tc|]; [|injection Hs as <- <-; split; [exact Hi|nope]].
      destruct (persisting (c_data tc)); injection Hs as <- <-; (split; [|nope]); [|exact Hi].
      simpl. destruct Hi as (Hm & Hst & Ho).
      destruct (os_mem (state_of (h_world h) id)); repeat split; auto.
      apply (store_sound_mkdirs ideal (h_world h)). exact Hst.
    - match type of Hs with (let '(_, _) := fold_left ?F cs ?init in _) = _ =>
        assert (G : forall l wa g, InvW wa -> InvW (fst (fold_left F l (wa, g)))) end.
      { induction l as [|ci r IH]; intros wa g Hw; cbn [fold_left]; [exact Hw|].
        destruct g; [|now apply IH].
        destruct (nth_error (h_chains h) ci) as [c0|]; [|now apply IH].
        destruct (forallb (fun n => dhas n c0) ns); apply IH; [now apply force_chain_inv|exact Hw]. }
      match type of Hs with (let '(_, _) := ?F in _) = _ => destruct F as [w' g'] eqn:Ef end.
      injection Hs as <- <-. split; [|nope]. specialize (G cs (h_world h) true Hi). rewrite Ef in G. exact G.
    - destruct (oid_of h ci ni) as [id|]; [|injection Hs as <- <-; split; [exact Hi|nope]].
      destruct (nth_error (w_objs (h_world h)) id) as [ob|]; [|injection Hs as <- <-; split; [exact Hi|nope]].
      destruct (cls_of (classes_of_world wd) ob) as [tc|]; injection Hs as <- <-; (split; [|nope]); [|exact Hi].
      simpl. destruct Hi as (Hm & Hst & Ho).
      destruct (os_mem (state_of (h_world h) id)); repeat split; auto.
      apply (store_sound_mkdirs ideal (h_world h)). exact Hst.
    - destruct (nth_error (h_chains h) cf) as [ch|]; [|injection Hs as <- <-; split; [exact Hi|nope]].
      match type of Hs with (let '(_, _) := fold_left ?V ch ?init in _) = _ =>
        assert (G : forall l wa out0, InvW wa -> InvW (fst (fold_left V l (wa, out0)))) end.
      { induction l as [|t r IH]; intros wa out0 Hw; cbn [fold_left]; [exact Hw|].
        destruct (nth_error (w_objs wa) (snd t)) as [ob|]; [|now apply IH].
        destruct (cls_of (classes_of_world wd) ob) as [tc|]; [|now apply IH].
        destruct (persisting (c_data tc)); apply IH; [|exact Hw].
        destruct Hw as (Hm & Hst & Ho). destruct (os_mem (state_of wa (snd t))); repeat split; auto.
        apply (store_sound_mkdirs ideal wa). exact Hst. }
      match type of Hs with (let '(_, _) := ?F in _) = _ => destruct F as [w' out'] eqn:Ef end.
      injection Hs as <- <-. split; [|nope]. specialize (G ch (h_world h) [] Hi). rewrite Ef in G. exact G.
    - injection Hs as <- <-. split; [exact Hi|nope].
    - destruct (oid_of h cr nr) as [id|]; injection Hs as <- <-; (split; [|nope]); [|exact Hi].
      cbn [h_world]. destruct Hi as (Hm & Hst & Ho). repeat split; auto.
      apply mem_sound_set; [exact Hm|simpl; discriminate].
  Qed.
End HistSound.
