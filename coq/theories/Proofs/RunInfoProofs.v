(* C18: the run record and the log stored beside a result are those of the latest run of that location. *)
From Coq Require Import String Ascii List Bool Arith ZArith Lia.
From TC Require Import PyStr Value Dict Repr Param Names Config Key Chain Eval StrProofs DictProofs EvalProofs.
Import ListNotations.

Lemma log_ne_info tc o : log_path tc o <> info_path tc o.
Proof.
  unfold log_path, info_path, log_file, run_info_file. intros E.
  apply app_inv_head in E. apply app_inv_head in E. apply app_inv_head in E. discriminate E.
Qed.

Lemma result_ne_log tc o : result_path tc o <> log_path tc o.
Proof.
  unfold result_path, log_path, result_file, log_file. intros E.
  apply app_inv_head in E. apply app_inv_head in E.
  destruct (extension (c_data tc)) as [e|] eqn:Ee.
  - apply app_inv_head in E. destruct (c_data tc); simpl in Ee; try discriminate; injection Ee as <-; discriminate E.
  - rewrite <- (app_nil_r (o_key o)) in E at 1. apply app_inv_head in E. discriminate E.
Qed.

Lemma result_ne_info tc o : result_path tc o <> info_path tc o.
Proof.
  unfold result_path, info_path, result_file, run_info_file. intros E.
  apply app_inv_head in E. apply app_inv_head in E.
  destruct (extension (c_data tc)) as [e|] eqn:Ee.
  - apply app_inv_head in E. destruct (c_data tc); simpl in Ee; try discriminate; injection Ee as <-; discriminate E.
  - rewrite <- (app_nil_r (o_key o)) in E at 1. apply app_inv_head in E. discriminate E.
Qed.

Section Records.
  Variable classes : list tclass.
  Variable run : nat -> list (str * str) -> list (str * value) -> value.

  (* a run that succeeds leaves, beside the result, the record of exactly this run - task, the
     representation of EVERY parameter, the key of every input task, config, namespace, context, the
     records added during run in order - and a log holding the messages of this run only, whatever
     record and log were there before (an earlier run, a failed run, a forced recomputation) *)
  Theorem successful_run_writes_its_record f w id o tc w' v :
    nth_error (w_objs w) id = Some o -> cls_of classes o = Some tc ->
    os_mem (state_of w id) = None ->
    (os_forced (state_of w id) = true \/ persisting (c_data tc) = false \/
     dget (result_path tc o) (mkdirs (dir_of_slug (c_slug tc)) (w_store w)) = None) ->
    eval classes run (S f) w id = (w', inl v) ->
    exists n ins, List.length (w_runlog w) < n <= List.length (w_runlog w') /\
                v = run (o_cls o) (persisted_reprs o) ins /\
                dget (info_path tc o) (w_store w') = Some (FInfo (run_info tc o n ins)) /\
                dget (log_path tc o) (w_store w') = Some (FLog [run_token tc]) /\
                (persisting (c_data tc) = true -> dget (result_path tc o) (w_store w') = Some (FValue v)).
  Proof.
    intros Ho Hc Hm Hrun He. cbn [eval] in He. fold (step_of classes run f) in He.
    rewrite Ho, Hc, Hm in He.
    assert (Hnl : (if persisting (c_data tc) && negb (os_forced (state_of w id))
                   then dget (result_path tc o) (w_store (with_store (mkdirs (dir_of_slug (c_slug tc)) (w_store w)) w))
                   else None) = None).
    { destruct Hrun as [-> | [-> | Hd]]; [now rewrite andb_false_r|reflexivity|].
      destruct (persisting (c_data tc) && negb (os_forced (state_of w id))); [exact Hd|reflexivity]. }
    rewrite Hnl in He.
    fold (pre_of classes run f o) in He.
    match type of He with context [fold_left (pre_of classes run f o) ?l ?a] =>
      destruct (fold_left (pre_of classes run f o) l a) as [w2' b'] eqn:Epre end.
    apply (fold_pre_rel classes run (fun a b => exists d, w_runlog b = w_runlog a ++ d)) in Epre;
      [|intros a; exists []; now rewrite app_nil_r
       |intros a b c [d1 H1] [d2 H2]; exists (d1 ++ d2); rewrite H2, H1; now rewrite app_assoc
       |apply eval_runlog_grows].
    destruct Epre as [d0 Hd0]. cbn [w_runlog with_store] in Hd0.
    destruct b'; [|discriminate].
    destruct (existsb _ _); [discriminate|].
    match type of He with (match ?X with _ => _ end) = _ => destruct X as [w4 [ins|e]] eqn:Ef end; [|discriminate].
    apply (fold_runlog_prefix classes run f (eval_runlog_grows classes run f)) in Ef. destruct Ef as [d4 Hd4].
    cbn [w_runlog] in Hd4.
    injection He as <- <-. exists (List.length (w_runlog w2' ++ [(c_slug tc, o_key o)])), ins. split.
    { cbn [w_runlog set_state with_store]. rewrite Hd4, Hd0, !app_length. simpl. lia. }
    split; [reflexivity|]. cbn [w_store set_state with_store].
    split; [apply dget_dset_same|]. split.
    - rewrite dget_dset_other by apply log_ne_info.
      destruct (persisting (c_data tc)).
      + rewrite dget_dset_other by (intro E; symmetry in E; revert E; apply result_ne_log). apply dget_dset_same.
      + apply dget_dset_same.
    - intros ->. rewrite dget_dset_other by apply result_ne_info. apply dget_dset_same.
  Qed.

  (* a run that fails (its own run raises) leaves a log without messages and writes no record.
     Stated for tasks that name no input in the signature of run: there the failing body is the first
     thing that happens; with run arguments the inputs are requested in between, and that they leave
     this task's files alone is the statement of eval_writes_only_its_objects_files for every file that
     is not a task's own *)
  Theorem failing_run_writes_no_record f w id o tc w' e :
    nth_error (w_objs w) id = Some o -> cls_of classes o = Some tc -> os_mem (state_of w id) = None ->
    c_runargs tc = [] ->
    existsb (str_eqb (c_slug tc)) (w_fail w) = true ->
    (os_forced (state_of w id) = true \/ persisting (c_data tc) = false \/
     dget (result_path tc o) (mkdirs (dir_of_slug (c_slug tc)) (w_store w)) = None) ->
    eval classes run (S f) w id = (w', inr e) ->
    dget (log_path tc o) (w_store w') = Some (FLog []) /\
    dget (info_path tc o) (w_store w') = dget (info_path tc o) (mkdirs (dir_of_slug (c_slug tc)) (w_store w)) /\
    os_mem (state_of w' id) = None.
  Proof.
    intros Ho Hc Hm Hra Hfail Hrun He. cbn [eval] in He. rewrite Ho, Hc, Hm, Hra in He. cbn [fold_left] in He.
    assert (Hnl : (if persisting (c_data tc) && negb (os_forced (state_of w id))
                   then dget (result_path tc o) (w_store (with_store (mkdirs (dir_of_slug (c_slug tc)) (w_store w)) w))
                   else None) = None).
    { destruct Hrun as [-> | [-> | Hd]]; [now rewrite andb_false_r|reflexivity|].
      destruct (persisting (c_data tc) && negb (os_forced (state_of w id))); [exact Hd|reflexivity]. }
    rewrite Hnl in He. cbn [w_fail with_store] in He. rewrite Hfail in He. injection He as <- _.
    cbn [w_store with_store]. split; [apply dget_dset_same|]. split.
    - apply dget_dset_other. intro E. symmetry in E. revert E. apply log_ne_info.
    - exact Hm.
  Qed.
End Records.

(* no cross-talk: a request writes only the result, record and log files of task objects (those that run)
   and creates directories; every other existing file - in particular the log and the record of any
   location that is not one of these objects' - is left as it is *)
Section CrossTalk.
  Variable classes : list tclass.
  Variable run : nat -> list (str * str) -> list (str * value) -> value.

  Definition Owned (objs : list obj) (p : str) : Prop :=
    exists id o tc, nth_error objs id = Some o /\ cls_of classes o = Some tc /\
                    (p = result_path tc o \/ p = info_path tc o \/ p = log_path tc o).

  Definition Keeps (w w' : world) : Prop :=
    w_objs w' = w_objs w /\
    forall p e, ~ Owned (w_objs w) p -> dget p (w_store w) = Some e -> dget p (w_store w') = Some e.

  Lemma keeps_refl w : Keeps w w. Proof. split; auto. Qed.
  Lemma keeps_trans a b c : Keeps a b -> Keeps b c -> Keeps a c.
  Proof. intros [O1 K1] [O2 K2]. split; [congruence|]. intros p e Hn Hp. apply K2; [now rewrite O1|now apply K1]. Qed.

  Lemma fold_keeps f (IH : forall w id w' r, eval classes run f w id = (w', r) -> Keeps w w') l wa acc wz rz :
    fold_left (step_of classes run f) l (wa, acc) = (wz, rz) -> Keeps wa wz.
  Proof.
    revert wa acc. induction l as [|[k [j|dv]] r IHl]; intros wa acc H.
    - simpl in H. injection H as <- _. apply keeps_refl.
    - cbn [fold_left step_of snd fst] in H. destruct acc as [vs|e].
      + destruct (eval classes run f wa j) as [wb [v|e]] eqn:Ee; apply IH in Ee; apply IHl in H; eapply keeps_trans; eauto.
      + now apply IHl in H.
    - cbn [fold_left step_of snd fst] in H. destruct acc as [vs|e]; now apply IHl in H.
  Qed.

  Theorem eval_writes_only_its_objects_files f : forall w id w' r,
    eval classes run f w id = (w', r) -> Keeps w w'.
  Proof.
    induction f as [|f IHf]; intros w id w' r He.
    - simpl in He. injection He as <- _. apply keeps_refl.
    - cbn [eval] in He. fold (step_of classes run f) in He.
      destruct (nth_error (w_objs w) id) as [o|] eqn:Ho; [|injection He as <- _; apply keeps_refl].
      destruct (cls_of classes o) as [tc|] eqn:Hc; [|injection He as <- _; apply keeps_refl].
      destruct (os_mem (state_of w id)); [injection He as <- _; apply keeps_refl|].
      assert (Hown : forall p, ~ Owned (w_objs w) p ->
                 p <> result_path tc o /\ p <> info_path tc o /\ p <> log_path tc o).
      { intros p Hn. repeat split; intros ->; apply Hn; exists id, o, tc; auto. }
      set (w1 := with_store (mkdirs (dir_of_slug (c_slug tc)) (w_store w)) w) in *.
      assert (K1 : Keeps w w1).
      { split; [reflexivity|]. intros p e _ Hp. simpl. now apply dget_mkdirs_go_existing. }
      destruct (if persisting (c_data tc) && negb (os_forced (state_of w id)) then _ else None) as [[|v1|v1|l1]|].
      1-4: injection He as <- _; exact K1.
      set (w2 := with_store (dset (log_path tc o) (FLog []) (w_store w1)) w1) in *.
      assert (K2 : Keeps w w2).
      { destruct K1 as [O1 K1]. split; [exact O1|]. intros p e Hn Hp. simpl.
        destruct (Hown p Hn) as (_ & _ & Hl). rewrite dget_dset_other by assumption. now apply K1. }
      fold (pre_of classes run f o) in He.
      match type of He with context [fold_left (pre_of classes run f o) ?l ?a] =>
        destruct (fold_left (pre_of classes run f o) l a) as [w2' b'] eqn:Epre end.
      apply (fold_pre_rel classes run Keeps f o keeps_refl keeps_trans IHf) in Epre.
      pose proof (keeps_trans _ _ _ K2 Epre) as K2'.
      destruct b'; [|injection He as <- _; exact K2'].
      set (w3 := {| w_store := w_store w2'; w_objs := w_objs w2'; w_states := w_states w2';
                    w_runlog := w_runlog w2' ++ [(c_slug tc, o_key o)]; w_fail := w_fail w2' |}) in *.
      assert (K3 : Keeps w w3) by exact K2'.
      destruct (existsb _ _); [injection He as <- _; exact K3|].
      match type of He with (match ?X with _ => _ end) = _ => destruct X as [w4 [ins|e]] eqn:Ef end;
        apply (fold_keeps f IHf) in Ef; pose proof (keeps_trans _ _ _ K3 Ef) as K4; injection He as <- _; [|exact K4].
      destruct K4 as [O4 K4]. split; [exact O4|]. intros p e Hn Hp. cbn [w_store set_state with_store].
      destruct (Hown p Hn) as (Hr & Hi & Hl).
      rewrite dget_dset_other by assumption.
      destruct (persisting (c_data tc)); rewrite ?(dget_dset_other p (result_path tc o)) by assumption;
        rewrite dget_dset_other by assumption; now apply K4.
  Qed.
End CrossTalk.
