(* A second migration changes nothing in the target - the composition over the whole loop. *)
From Coq Require Import String Ascii List Bool Arith ZArith.
From TC Require Import PyStr Value Dict Config Chain World Eval Migration StrProofs DictProofs EvalProofs MigrationProofs.
Import ListNotations.

(* the directory paths mkdirs visits (and creates where missing) *)
Fixpoint paths_go (prefix : str) (comps : list str) : list str :=
  match comps with
  | [] => []
  | c :: r => let p := match prefix with [] => c | _ => prefix ++ slash ++ c end in p :: paths_go p r
  end.
Definition dir_paths (path : str) : list str := paths_go [] (split_c "/"%char path).

Lemma dhas_dset_same (k : str) (v : fent) d : dhas k (dset k v d) = true.
Proof. unfold dhas. now rewrite dget_dset_same. Qed.

Lemma mkdirs_go_other prefix comps st q :
  ~ In q (paths_go prefix comps) -> dget q (mkdirs_go prefix comps st) = dget q st.
Proof.
  revert prefix st. induction comps as [|c r IH]; intros prefix st Hn; cbn [mkdirs_go paths_go] in *; [reflexivity|].
  rewrite IH by (intro H; apply Hn; now right).
  destruct (dhas _ st); [reflexivity|]. apply dget_dset_other. intro E. apply Hn. now left.
Qed.

Lemma dhas_mkdirs_go_keeps prefix comps st q : dhas q st = true -> dhas q (mkdirs_go prefix comps st) = true.
Proof.
  unfold dhas. destruct (dget q st) as [e|] eqn:E; [|discriminate]. intros _.
  now rewrite (dget_mkdirs_go_existing prefix comps st q e E).
Qed.

Lemma mkdirs_go_present prefix comps st q :
  In q (paths_go prefix comps) -> dhas q (mkdirs_go prefix comps st) = true.
Proof.
  revert prefix st. induction comps as [|c r IH]; intros prefix st Hin; cbn [mkdirs_go paths_go] in *; [contradiction|].
  destruct Hin as [<-|Hin]; [|now apply IH].
  apply dhas_mkdirs_go_keeps. destruct (dhas _ st) eqn:E; [exact E|apply dhas_dset_same].
Qed.

Lemma mkdirs_go_absorbed prefix comps st :
  (forall q, In q (paths_go prefix comps) -> dhas q st = true) -> mkdirs_go prefix comps st = st.
Proof.
  revert prefix st. induction comps as [|c r IH]; intros prefix st H; cbn [mkdirs_go paths_go] in *; [reflexivity|].
  rewrite (H _ (or_introl eq_refl)). apply IH. intros q Hq. apply H. now right.
Qed.

Section Twice.
  Variable ts : list mig_task.
  Variable src0 : store.
  (* the name of a result in the source is not one of the task directories (or their parents) *)
  Hypothesis results_are_not_dirs : forall t t', In t ts -> In t' ts -> ~ In (m_src t) (dir_paths (m_dir t')).

  Definition SrcAgree (s : store) : Prop :=
    forall q, (forall t', In t' ts -> ~ In q (dir_paths (m_dir t'))) -> dget q s = dget q src0.

  Definition Done (d : store) (t : mig_task) : Prop :=
    m_persisting t = true -> dget (m_src t) src0 <> None ->
    dhas (m_dst t) d = true /\ forall q, In q (dir_paths (m_dir t)) -> dhas q d = true.

  Lemma has_result_test s t : SrcAgree s -> In t ts -> dget (m_src t) (mkdirs (m_dir t) s) = dget (m_src t) src0.
  Proof.
    intros Hs Hin. unfold mkdirs. rewrite mkdirs_go_other by (apply (results_are_not_dirs t t); assumption).
    apply Hs. intros t' Ht'. now apply results_are_not_dirs.
  Qed.

  Lemma src_agree_mkdirs s t : SrcAgree s -> In t ts -> SrcAgree (mkdirs (m_dir t) s).
  Proof.
    intros Hs Hin q Hq. unfold mkdirs. rewrite mkdirs_go_other by (now apply Hq). now apply Hs.
  Qed.

  Lemma src_agree_step dry s d t : SrcAgree s -> In t ts -> SrcAgree (fst (migrate_one dry (s, d) t)).
  Proof.
    intros Hs Hin. unfold migrate_one. destruct (negb (m_persisting t)); [exact Hs|].
    destruct (dget (m_src t) (mkdirs (m_dir t) s)); [|now apply src_agree_mkdirs].
    destruct (dhas (m_dst t) (mkdirs (m_dir t) d)); [now apply src_agree_mkdirs|].
    destruct dry; now apply src_agree_mkdirs.
  Qed.

  Lemma target_presence_step dry s d t q : dhas q d = true -> dhas q (snd (migrate_one dry (s, d) t)) = true.
  Proof.
    unfold dhas. destruct (dget q d) as [e|] eqn:E; [|discriminate]. intros _.
    now rewrite (migrate_one_target_keeps dry s d t q e E).
  Qed.

  Lemma done_mono d d' t : (forall q, dhas q d = true -> dhas q d' = true) -> Done d t -> Done d' t.
  Proof. intros Hm Hd Hp Hr. destruct (Hd Hp Hr) as [H1 H2]. split; [now apply Hm|]. intros q Hq. apply Hm. now apply H2. Qed.

  (* the first migration: afterwards the task is done *)
  Lemma first_step s d t : SrcAgree s -> In t ts -> Done (snd (migrate_one false (s, d) t)) t.
  Proof.
    intros Hs Hin Hp Hr. unfold migrate_one. rewrite Hp. cbn [negb]. rewrite (has_result_test s t Hs Hin).
    destruct (dget (m_src t) src0) as [content|]; [|congruence].
    destruct (dhas (m_dst t) (mkdirs (m_dir t) d)) eqn:Ed; cbn [snd].
    - split; [exact Ed|]. intros q Hq. unfold mkdirs. now apply mkdirs_go_present.
    - split; [apply dhas_dset_same|]. intros q Hq.
      assert (Hq' : dhas q (mkdirs (m_dir t) d) = true) by (unfold mkdirs; now apply mkdirs_go_present).
      unfold dhas in *. destruct (dget q (mkdirs (m_dir t) d)) as [e|] eqn:E; [|discriminate].
      destruct (str_eq_dec q (m_dst t)) as [->|Hne]; [now rewrite dget_dset_same|rewrite dget_dset_other by assumption; now rewrite E].
  Qed.

  Lemma first_run l : forall s d, SrcAgree s -> incl l ts ->
    SrcAgree (fst (fold_left (migrate_one false) l (s, d))) /\
    (forall q, dhas q d = true -> dhas q (snd (fold_left (migrate_one false) l (s, d))) = true) /\
    (forall t, In t l -> Done (snd (fold_left (migrate_one false) l (s, d))) t).
  Proof.
    induction l as [|t r IH]; intros s d Hs Hincl; cbn [fold_left].
    - split; [exact Hs|]. split; [auto|]. intros t [].
    - assert (Hin : In t ts) by (apply Hincl; now left).
      assert (Hr : incl r ts) by (intros x Hx; apply Hincl; now right).
      rewrite (surjective_pairing (migrate_one false (s, d) t)).
      destruct (IH _ (snd (migrate_one false (s, d) t)) (src_agree_step false s d t Hs Hin) Hr) as [H1 [H2 H3]].
      split; [exact H1|]. split.
      + intros q Hq. apply H2. now apply target_presence_step.
      + intros t' [<-|Ht']; [|now apply H3].
        eapply done_mono; [exact H2|]. now apply first_step.
  Qed.

  (* the second migration: a task that is done leaves the target as it is *)
  Lemma second_step dry s d t : SrcAgree s -> In t ts -> Done d t -> snd (migrate_one dry (s, d) t) = d.
  Proof.
    intros Hs Hin Hd. unfold migrate_one. destruct (m_persisting t) eqn:Hp; cbn [negb]; [|reflexivity].
    rewrite (has_result_test s t Hs Hin). destruct (dget (m_src t) src0) as [content|] eqn:Hr; [|reflexivity].
    destruct (Hd Hp) as [H1 H2]; [congruence|].
    assert (Hm : mkdirs (m_dir t) d = d) by (unfold mkdirs; apply mkdirs_go_absorbed; exact H2).
    rewrite Hm, H1. reflexivity.
  Qed.

  Lemma second_run dry l : forall s d, SrcAgree s -> incl l ts -> (forall t, In t l -> Done d t) ->
    snd (fold_left (migrate_one dry) l (s, d)) = d.
  Proof.
    induction l as [|t r IH]; intros s d Hs Hincl Hd; cbn [fold_left]; [reflexivity|].
    assert (Hin : In t ts) by (apply Hincl; now left).
    assert (Hr : incl r ts) by (intros x Hx; apply Hincl; now right).
    rewrite (surjective_pairing (migrate_one dry (s, d) t)).
    rewrite (second_step dry s d t Hs Hin (Hd t (or_introl eq_refl))).
    apply IH; [now apply src_agree_step|exact Hr|]. intros t' Ht'. apply Hd. now right.
  Qed.

  Lemma src_agree_refl : SrcAgree src0.
  Proof. intros q _. reflexivity. Qed.
End Twice.

(* Migrating again - really or as a dry run - leaves the target exactly as the first migration left it *)
Theorem second_migration_changes_nothing dry ts src dst :
  (forall t t', In t ts -> In t' ts -> ~ In (m_src t) (dir_paths (m_dir t'))) ->
  let first := migrate false src dst ts in
  snd (migrate dry (fst first) (snd first) ts) = snd first.
Proof.
  intros Hd first. unfold migrate in *.
  destruct (first_run ts src Hd ts src dst (src_agree_refl ts src) (incl_refl ts)) as [H1 [_ H3]].
  apply (second_run ts src Hd dry ts); [exact H1|apply incl_refl|exact H3].
Qed.

(* ... also when results were added to neither side in between but the first run was over a target that already
   held results: nothing the target held is replaced (target_entries_kept), and the second run adds nothing *)
Example second_migration_example :
  let t1 := {| m_persisting := true; m_dir := lit "g/b"; m_src := lit "g/b/cfg.json"; m_dst := lit "g/b/0123.json" |} in
  let t2 := {| m_persisting := true; m_dir := lit "a"; m_src := lit "a/cfg.pickle"; m_dst := lit "a/4567.pickle" |} in
  let src := [(lit "g", FDir); (lit "g/b", FDir); (lit "g/b/cfg.json", FValue (VInt 1%Z))] in
  (forall t t', In t [t1; t2] -> In t' [t1; t2] -> ~ In (m_src t) (dir_paths (m_dir t'))) /\
  dget (lit "g/b/0123.json") (snd (migrate false src [] [t1; t2])) = Some (FValue (VInt 1%Z)).
Proof.
  cbv zeta. split; [|vm_compute; reflexivity].
  intros t t' [<-|[<-|[]]] [<-|[<-|[]]]; vm_compute; intros H; repeat (destruct H as [H|H]; [discriminate H|]); exact H.
Qed.

(* migrate_to_parameter_mode is that loop over a list of task pairs which depends on the configuration only,
   not on what the two directories hold *)
Theorem migrate_config_is_a_loop H w base :
  (exists e, forall dry src dst, migrate_config H w base dry src dst = inr e) \/
  (exists ts, forall dry src dst, migrate_config H w base dry src dst = inl (migrate dry src dst ts)).
Proof.
  unfold migrate_config. destruct w as [[[[[fs classes] imports] ucls] gv] x].
  destruct (base_config (fs, classes, imports, ucls, gv, x) base) as [cfg|e]; [|left; exists e; reflexivity].
  destruct (process_config fs ucls gv 64 cfg []) as [cfgs|e]; [|left; exists e; reflexivity].
  destruct (name_mode_tasks classes imports cfgs) as [olds|e].
  - destruct (build H (fs, classes, imports, ucls, gv, x) base [] []) as [[[rc objs] reg]|e].
    + destruct (pair_tasks olds rc objs classes) as [ts|e]; [right; exists ts; reflexivity|left; exists e; reflexivity].
    + left; exists e; reflexivity.
  - left. exists e. intros. now destruct (build H (fs, classes, imports, ucls, gv, x) base [] []) as [[[rc objs] reg]|e'].
Qed.
