From Coq Require Import List Bool Arith Lia.
From TC Require Import CacheConc.
Import ListNotations.

Lemma nth_error_set_nth {A} (l : list A) n x j :
  nth_error (set_nth n x l) j = if Nat.eqb j n && Nat.ltb n (length l) then Some x else nth_error l j.
Proof.
  revert n j. induction l as [|y r IH]; intros n j; simpl.
  - destruct n, j; simpl; try reflexivity; now rewrite andb_false_r.
  - destruct n as [|n], j as [|j]; simpl; try reflexivity. rewrite IH. reflexivity.
Qed.

Definition holds_lock (p : pc) : bool :=
  match p with
  | PCheck | PRelease1 _ | PCompute | PTruncate _ | PWrite _ | PReplace _ | PRelease2 _ => true
  | _ => false
  end.

(* the value a caller carries once its computer has run, or has returned *)
Definition carried (p : pc) : option nat :=
  match p with PTruncate v | PWrite v | PReplace v | PRelease2 v => Some v | PDone r => r | _ => None end.

(* the caller has seen the cache file, or has published / returned through get_or_compute *)
Definition knows_stored (c : caller) : bool :=
  match c_pc c with
  | PRelease1 true | PLoad true | PRelease2 _ => true
  | PDone _ => match c_kind c with KCompute _ => true | KGet => false end
  | _ => false
  end.

Record Inv (g : gstate) : Prop := {
  inv_holder : forall t c, nth_error (g_callers g) t = Some c -> holds_lock (c_pc c) = true -> g_lock g = Some t;
  inv_lock : forall t, g_lock g = Some t -> exists c, nth_error (g_callers g) t = Some c /\ holds_lock (c_pc c) = true;
  inv_nonempty : g_file g <> FEmpty;
  inv_file : forall v, g_file g = FFull v -> In v (g_computed g);
  inv_carried : forall t c v, nth_error (g_callers g) t = Some c -> carried (c_pc c) = Some v -> In v (g_computed g);
  inv_stored : forall t c, nth_error (g_callers g) t = Some c -> knows_stored c = true -> g_file g <> FAbsent }.

Lemma init_inv file cs : file <> FEmpty -> Inv (init file cs).
Proof.
  intros Hf. unfold init.
  assert (Hpc : forall t c, nth_error (map (fun kv : kind * nat => {| c_kind := fst kv; c_val := snd kv; c_pc := PStart |}) cs) t = Some c -> c_pc c = PStart).
  { intros t c H. apply nth_error_In in H. apply in_map_iff in H. destruct H as [kv [<- _]]. reflexivity. }
  constructor; simpl.
  - intros t c H Hl. rewrite (Hpc _ _ H) in Hl. discriminate.
  - discriminate.
  - exact Hf.
  - intros v ->. now left.
  - intros t c v H E. rewrite (Hpc _ _ H) in E. discriminate.
  - intros t c H E. unfold knows_stored in E. rewrite (Hpc _ _ H) in E. discriminate.
Qed.

(* One step re-establishes the invariant.  All cases have the same shape: the moved caller gets a new
   program counter p'; the lock, the file and the set of computed values change as the step says. *)
Section Step.
  Variables (g : gstate) (t : nat) (c : caller).
  Hypothesis I : Inv g.
  Hypothesis Ec : nth_error (g_callers g) t = Some c.

  Let Hlt : Nat.ltb t (length (g_callers g)) = true.
  Proof. apply Nat.ltb_lt, nth_error_Some. congruence. Qed.

  Lemma other j c' : j <> t -> nth_error (set_nth t c' (g_callers g)) j = nth_error (g_callers g) j.
  Proof. intros Hne. rewrite nth_error_set_nth. apply Nat.eqb_neq in Hne. now rewrite Hne. Qed.
  Lemma self c' : nth_error (set_nth t c' (g_callers g)) t = Some c'.
  Proof. rewrite nth_error_set_nth, Nat.eqb_refl, Hlt. reflexivity. Qed.

  (* the generic re-establishment *)
  Lemma reestablish f l p' comp :
    (* lock *)
    (holds_lock p' = true -> l = Some t) ->
    (holds_lock p' = false -> holds_lock (c_pc c) = true -> l = None) ->
    (holds_lock (c_pc c) = false -> holds_lock p' = false -> l = g_lock g) ->
    (holds_lock (c_pc c) = true -> holds_lock p' = true -> l = g_lock g) ->
    (holds_lock (c_pc c) = false -> holds_lock p' = true -> g_lock g = None) ->
    (* file *)
    f <> FEmpty -> (forall v, f = FFull v -> In v comp) ->
    (g_file g <> FAbsent -> f <> FAbsent) ->
    (* values *)
    (forall v, In v (g_computed g) -> In v comp) ->
    (forall v, carried p' = Some v -> In v comp) ->
    (knows_stored (with_pc c p') = true -> f <> FAbsent) ->
    Inv {| g_file := f; g_lock := l; g_callers := set_nth t (with_pc c p') (g_callers g); g_computed := comp |}.
  Proof.
    intros L1 L2 L3 L4 L5 F1 F2 F3 V1 V2 V3.
    assert (Hme : holds_lock (c_pc c) = true -> g_lock g = Some t) by (apply (inv_holder g I _ _ Ec)).
    constructor; simpl.
    - intros j cj Hj Hl. destruct (Nat.eq_dec j t) as [->|Hne].
      + rewrite self in Hj. injection Hj as <-. simpl in Hl. now apply L1.
      + rewrite other in Hj by assumption. pose proof (inv_holder g I _ _ Hj Hl) as Hg.
        destruct (holds_lock (c_pc c)) eqn:E1; [rewrite (Hme eq_refl) in Hg; congruence|].
        destruct (holds_lock p') eqn:E2; [rewrite (L5 eq_refl eq_refl) in Hg; discriminate|].
        now rewrite (L3 eq_refl eq_refl).
    - intros j Ej. destruct (holds_lock p') eqn:E2.
      + rewrite (L1 eq_refl) in Ej. injection Ej as <-. eexists. split; [apply self|exact E2].
      + destruct (holds_lock (c_pc c)) eqn:E1; [rewrite (L2 eq_refl eq_refl) in Ej; discriminate|].
        rewrite (L3 eq_refl eq_refl) in Ej. destruct (inv_lock g I _ Ej) as [cj [Hj Hl]].
        destruct (Nat.eq_dec j t) as [->|Hne]; [rewrite Ec in Hj; injection Hj as <-; congruence|].
        exists cj. split; [now rewrite other|exact Hl].
    - exact F1.
    - exact F2.
    - intros j cj v Hj Ev. destruct (Nat.eq_dec j t) as [->|Hne].
      + rewrite self in Hj. injection Hj as <-. now apply V2.
      + rewrite other in Hj by assumption. apply V1. eapply inv_carried; eauto.
    - intros j cj Hj Ek. destruct (Nat.eq_dec j t) as [->|Hne].
      + rewrite self in Hj. injection Hj as <-. now apply V3.
      + rewrite other in Hj by assumption. apply F3. eapply inv_stored; eauto.
  Qed.
End Step.

Theorem step_inv g t g' : Inv g -> step g t = Some g' -> Inv g'.
Proof.
  intros I Hs. unfold step in Hs.
  destruct (nth_error (g_callers g) t) as [c|] eqn:Ec; [|discriminate].
  pose proof (inv_holder g I _ _ Ec) as Hme.
  pose proof (inv_nonempty g I) as Hne.
  pose proof (inv_file g I) as Hfile.
  assert (Hcar : forall v, carried (c_pc c) = Some v -> In v (g_computed g)) by (intros v; apply (inv_carried g I _ _ v Ec)).
  assert (Hst : knows_stored c = true -> g_file g <> FAbsent) by (apply (inv_stored g I _ _ Ec)).
  unfold knows_stored in Hst.
  Ltac fin :=
    match goal with
    | |- _ => solve [auto]
    | |- _ => solve [discriminate]
    | |- _ => solve [congruence]
    | |- _ => solve [intros; discriminate]
    | |- _ => solve [intros; congruence]
    | |- forall v, Some _ = Some v -> _ => let E := fresh in intros ? E; injection E as <-; solve [now left | auto]
    | |- forall v, FFull _ = FFull v -> _ => let E := fresh in intros ? E; injection E as <-; solve [now left | auto]
    | |- _ => solve [intros; right; auto]
    | |- _ => solve [unfold knows_stored; simpl; intros; discriminate]
    | |- _ => solve [unfold knows_stored; simpl; intros; auto]
    end.
  destruct (c_pc c) eqn:Epc; simpl in *.
  - destruct (g_lock g) eqn:El; [discriminate|]. injection Hs as <-.
    apply (reestablish g t c I Ec); rewrite ?Epc; simpl; fin.
  - injection Hs as <-. apply (reestablish g t c I Ec); rewrite ?Epc; simpl; try fin.
    all: try (unfold knows_stored; simpl; destruct (g_file g); [discriminate|contradiction|discriminate]).
  - injection Hs as <-. apply (reestablish g t c I Ec); rewrite ?Epc; simpl; try fin.
    all: try (unfold knows_stored; simpl; destruct ex; [auto|discriminate]).
  - (* PLoad *)
    destruct (c_kind c) as [|force] eqn:Ek.
    + destruct ex; [destruct (g_file g) as [| |v] eqn:Ef|]; injection Hs as <-;
        apply (reestablish g t c I Ec); rewrite ?Epc; simpl; try fin;
        try (unfold knows_stored; simpl; rewrite Ek; discriminate).
    + destruct (ex && negb force); [destruct (g_file g) as [| |v] eqn:Ef|]; injection Hs as <-;
        apply (reestablish g t c I Ec); rewrite ?Epc; simpl; try fin;
        try (unfold knows_stored; simpl; rewrite Ek; intros _; discriminate).
  - destruct (g_lock g) eqn:El; [discriminate|]. injection Hs as <-.
    apply (reestablish g t c I Ec); rewrite ?Epc; simpl; fin.
  - injection Hs as <-. apply (reestablish g t c I Ec); rewrite ?Epc; simpl; fin.
  - injection Hs as <-. apply (reestablish g t c I Ec); rewrite ?Epc; simpl; fin.
  - injection Hs as <-. apply (reestablish g t c I Ec); rewrite ?Epc; simpl; fin.
  - injection Hs as <-. apply (reestablish g t c I Ec); rewrite ?Epc; simpl; fin.
  - injection Hs as <-. apply (reestablish g t c I Ec); rewrite ?Epc; simpl; try fin.
  - discriminate.
Qed.

Lemma run_inv schedule : forall g, Inv g -> Inv (run g schedule).
Proof.
  induction schedule as [|t r IH]; intros g I; simpl; [exact I|].
  destruct (step g t) as [g'|] eqn:Es; [apply IH; eapply step_inv; eauto|now apply IH].
Qed.

(* ---------- the property ---------- *)
Theorem only_complete_values file cs schedule t c v :
  file <> FEmpty ->
  nth_error (g_callers (run (init file cs) schedule)) t = Some c -> c_pc c = PDone (Some v) ->
  In v (g_computed (run (init file cs) schedule)).
Proof.
  intros Hf Hn Hp. apply (inv_carried _ (run_inv schedule _ (init_inv file cs Hf)) t c v Hn). now rewrite Hp.
Qed.

(* the cache file is never seen truncated or partially written *)
Theorem file_always_complete file cs schedule :
  file <> FEmpty -> g_file (run (init file cs) schedule) <> FEmpty.
Proof. intros Hf. apply inv_nonempty, run_inv, init_inv, Hf. Qed.

Theorem progress g :
  Inv g -> (exists t c, nth_error (g_callers g) t = Some c /\ forall r, c_pc c <> PDone r) ->
  exists t g', step g t = Some g'.
Proof.
  intros I (t & c & Hn & Hnd).
  destruct (g_lock g) as [h|] eqn:El.
  - destruct (inv_lock g I _ El) as [ch [Hh Hl]]. exists h. unfold step. rewrite Hh.
    destruct (c_pc ch); try discriminate; eauto.
  - exists t. unfold step. rewrite Hn.
    destruct (c_pc c) eqn:Ep; try (pose proof (inv_holder g I _ _ Hn) as Hx; rewrite Ep in Hx; specialize (Hx eq_refl); congruence);
      try (rewrite El; eauto).
    + destruct (c_kind c) as [|force].
      * destruct ex; [destruct (g_file g)|]; eauto.
      * destruct (ex && negb force); [destruct (g_file g)|]; eauto.
    + exfalso. eapply Hnd; eauto.
Qed.

Theorem quiescent_complete g :
  Inv g -> (forall t c, nth_error (g_callers g) t = Some c -> exists r, c_pc c = PDone r) ->
  (exists t c f, nth_error (g_callers g) t = Some c /\ c_kind c = KCompute f) ->
  exists v, g_file g = FFull v /\ In v (g_computed g).
Proof.
  intros I Hall (t & c & f & Hn & Hk).
  destruct (Hall _ _ Hn) as [r Hr].
  assert (Hna : g_file g <> FAbsent).
  { apply (inv_stored g I _ _ Hn). unfold knows_stored. now rewrite Hr, Hk. }
  pose proof (inv_nonempty g I) as Hne.
  destruct (g_file g) as [| |v] eqn:Ef; [contradiction|contradiction|].
  exists v. split; [reflexivity|now apply (inv_file g I)].
Qed.

(* a caller whose existence check finds the entry stored returns a stored, complete value: an unforced
   get_or_compute does not recompute and get does not answer NO_VALUE - whatever the other callers,
   forced writers included, do in between *)
Theorem check_sees_stored g t c g' :
  nth_error (g_callers g) t = Some c -> c_pc c = PCheck -> g_file g <> FAbsent -> step g t = Some g' ->
  exists c', nth_error (g_callers g') t = Some c' /\ c_pc c' = PRelease1 true.
Proof.
  intros Hn Hp Hf Hs. unfold step in Hs. rewrite Hn, Hp in Hs. injection Hs as <-. simpl.
  assert (Hl : Nat.ltb t (length (g_callers g)) = true) by (apply Nat.ltb_lt, nth_error_Some; congruence).
  eexists. split; [rewrite nth_error_set_nth, Nat.eqb_refl, Hl; reflexivity|].
  simpl. destruct (g_file g); [contradiction|reflexivity|reflexivity].
Qed.

Theorem no_recompute_after_return g t c g' :
  Inv g -> nth_error (g_callers g) t = Some c -> c_pc c = PLoad true ->
  (c_kind c = KGet \/ c_kind c = KCompute false) -> step g t = Some g' ->
  exists v c', g_file g = FFull v /\ nth_error (g_callers g') t = Some c' /\ c_pc c' = PDone (Some v) /\
               g_computed g' = g_computed g /\ g_file g' = g_file g.
Proof.
  intros I Hn Hp Hk Hs.
  assert (Hna : g_file g <> FAbsent) by (apply (inv_stored g I _ _ Hn); unfold knows_stored; now rewrite Hp).
  pose proof (inv_nonempty g I) as Hne.
  assert (Hlt : Nat.ltb t (length (g_callers g)) = true) by (apply Nat.ltb_lt, nth_error_Some; congruence).
  unfold step in Hs. rewrite Hn, Hp in Hs.
  destruct (g_file g) as [| |v] eqn:Ef; [contradiction|contradiction|].
  exists v, (with_pc c (PDone (Some v))).
  destruct Hk as [Hk|Hk]; rewrite Hk in Hs; simpl in Hs; injection Hs as <-; simpl;
    rewrite nth_error_set_nth, Nat.eqb_refl, Hlt; auto.
Qed.
