(* The side condition of the second-migration theorem holds when results are files with an extension and the
   task directories have no dot in their path: a name with a dot is none of the directories mkdirs visits. *)
From Coq Require Import String Ascii List Bool Arith ZArith.
From TC Require Import PyStr Value Dict Eval Migration MigTwiceProofs.
Import ListNotations.

Definition dot : ascii := "."%char.

Lemma split_c_go_chars c acc s p x : In p (split_c_go c acc s) -> In x p -> In x acc \/ In x s.
Proof.
  revert acc. induction s as [|y r IH]; intros acc Hp Hx; cbn [split_c_go] in Hp.
  - destruct Hp as [<-|[]]. left. now apply in_rev.
  - destruct (Ascii.eqb y c).
    + destruct Hp as [<-|Hp].
      * left. now apply in_rev.
      * destruct (IH [] Hp Hx) as [[]|H]. right. now right.
    + destruct (IH (y :: acc) Hp Hx) as [[<-|H]|H]; [right; now left|now left|right; now right].
Qed.

Lemma split_c_chars c s p x : In p (split_c c s) -> In x p -> In x s.
Proof. intros Hp Hx. destruct (split_c_go_chars c [] s p x Hp Hx) as [[]|H]. exact H. Qed.

Lemma paths_go_chars prefix comps p x :
  In p (paths_go prefix comps) -> In x p -> In x prefix \/ In x slash \/ exists c, In c comps /\ In x c.
Proof.
  revert prefix. induction comps as [|c r IH]; intros prefix Hp Hx; cbn [paths_go] in Hp; [contradiction|].
  assert (Hcur : forall y, In y (match prefix with [] => c | _ => prefix ++ slash ++ c end) ->
                           In y prefix \/ In y slash \/ exists c0, In c0 (c :: r) /\ In y c0).
  { intros y Hy. destruct prefix as [|a pr].
    - right. right. exists c. split; [now left|exact Hy].
    - apply in_app_or in Hy. destruct Hy as [Hy|Hy]; [now left|].
      apply in_app_or in Hy. destruct Hy as [Hy|Hy]; [right; now left|].
      right. right. exists c. split; [now left|exact Hy]. }
  destruct Hp as [<-|Hp]; [now apply Hcur|].
  destruct (IH _ Hp Hx) as [H|[H|[c0 [Hc0 H]]]].
  - now apply Hcur.
  - right. now left.
  - right. right. exists c0. split; [now right|exact H].
Qed.

Lemma dir_paths_no_dot d p : ~ In dot d -> In p (dir_paths d) -> ~ In dot p.
Proof.
  intros Hd Hp Hx. unfold dir_paths in Hp.
  destruct (paths_go_chars [] _ p dot Hp Hx) as [[]|[H|[c [Hc H]]]].
  - vm_compute in H. destruct H as [H|[]]. discriminate H.
  - apply Hd. eapply split_c_chars; eauto.
Qed.

(* results that are files with an extension, task directories without a dot: the side condition holds *)
Theorem file_results_are_not_dirs ts :
  (forall t, In t ts -> ~ In dot (m_dir t)) -> (forall t, In t ts -> In dot (m_src t)) ->
  forall t t', In t ts -> In t' ts -> ~ In (m_src t) (dir_paths (m_dir t')).
Proof.
  intros Hd Hs t t' Ht Ht' Hin. apply (dir_paths_no_dot (m_dir t') (m_src t) (Hd t' Ht') Hin). now apply Hs.
Qed.

Corollary second_migration_of_file_results dry ts src dst :
  (forall t, In t ts -> ~ In dot (m_dir t)) -> (forall t, In t ts -> In dot (m_src t)) ->
  snd (migrate dry (fst (migrate false src dst ts)) (snd (migrate false src dst ts)) ts) = snd (migrate false src dst ts).
Proof. intros Hd Hs. apply second_migration_changes_nothing. now apply file_results_are_not_dirs. Qed.

(* ---- the task pairs migrate_to_parameter_mode builds ---- *)
From TC Require Import Repr Param Names Config Key Chain World.

Lemma join_chars sep l x : In x (join sep l) -> In x sep \/ exists c, In c l /\ In x c.
Proof.
  induction l as [|a r IH]; cbn [join]; [intros []|].
  destruct r as [|b r'].
  - intros H. right. exists a. split; [now left|exact H].
  - intros H. apply in_app_or in H. destruct H as [H|H]; [right; exists a; split; [now left|exact H]|].
    apply in_app_or in H. destruct H as [H|H]; [now left|].
    destruct (IH H) as [H'|[c [Hc H']]]; [now left|]. right. exists c. split; [now right|exact H'].
Qed.

Lemma dir_of_slug_no_dot slug : ~ In dot slug -> ~ In dot (dir_of_slug slug).
Proof.
  intros Hs H. unfold dir_of_slug in H. destruct (join_chars _ _ _ H) as [H'|[c [Hc H']]].
  - vm_compute in H'. destruct H' as [H'|[]]. discriminate H'.
  - apply Hs. eapply split_c_chars; eauto.
Qed.

Lemma sequence_map_in {A B} (f : A -> res B) l ys y :
  Config.sequence (map f l) = inl ys -> In y ys -> exists a, In a l /\ f a = inl y.
Proof.
  revert ys. induction l as [|a r IH]; intros ys E Hy; cbn [map Config.sequence] in E.
  - injection E as <-. contradiction.
  - destruct (f a) as [b|e] eqn:Ef; [|discriminate].
    destruct (Config.sequence (map f r)) as [xs|e] eqn:Er; [|discriminate]. injection E as <-.
    destruct Hy as [<-|Hy]; [exists a; split; [now left|exact Ef]|].
    destruct (IH xs eq_refl Hy) as [a' [Ha' Hf]]. exists a'. split; [now right|exact Hf].
Qed.

(* every pair comes from a task of the name-mode chain: its directory is the directory of that task's slug, its
   source name that directory, a slash and the result file named by the config *)
Lemma pair_tasks_shape olds rc objs classes ts t :
  pair_tasks olds rc objs classes = inl ts -> In t ts ->
  exists ot, In ot olds /\ m_dir t = dir_of_slug (ot_slug ot) /\
             m_src t = dir_of_slug (ot_slug ot) ++ lit "/" ++ result_file (ot_kind ot) (ot_cfgname ot).
Proof.
  unfold pair_tasks. intros E Hin. destruct (sequence_map_in _ _ _ _ E Hin) as [ot [Hot Hf]].
  exists ot. split; [exact Hot|].
  destruct (find _ (rc_tasks rc)) as [tt|]; [|discriminate].
  destruct (nth_error objs (snd tt)) as [o|]; [|discriminate].
  destruct (nth_error classes (o_cls o)) as [tc|]; [|discriminate].
  injection Hf as <-. cbn [m_dir m_src]. auto.
Qed.

(* migrate_to_parameter_mode over a configuration whose task names have no dot and whose results are files with an
   extension: the second call leaves the target as the first left it *)
Theorem second_migration_of_a_config olds rc objs classes ts dry src dst :
  pair_tasks olds rc objs classes = inl ts ->
  (forall ot, In ot olds -> ~ In dot (ot_slug ot) /\ extension (ot_kind ot) <> None) ->
  snd (migrate dry (fst (migrate false src dst ts)) (snd (migrate false src dst ts)) ts) = snd (migrate false src dst ts).
Proof.
  intros E Hok. apply second_migration_of_file_results.
  - intros t Ht. destruct (pair_tasks_shape _ _ _ _ _ _ E Ht) as [ot [Hot [Hd _]]]. rewrite Hd.
    apply dir_of_slug_no_dot. now apply Hok.
  - intros t Ht. destruct (pair_tasks_shape _ _ _ _ _ _ E Ht) as [ot [Hot [_ Hs]]]. rewrite Hs.
    apply in_or_app. right. apply in_or_app. right. unfold result_file.
    destruct (Hok ot Hot) as [_ He]. destruct (extension (ot_kind ot)) as [e|]; [|congruence].
    apply in_or_app. right. apply in_or_app. left. vm_compute. now left.
Qed.
