(* C03, first layer: the text that repr_from_instantiation produces for a JSON-like value can be read back
   in one way only.  JSON-like: None, booleans, integers, floats, quote-free strings, lists and mappings
   with quote-free keys, nested to any depth.  Strings with a quote character are outside (K1: they are
   wrapped in quotes without escaping, and collide - see quote_collision at the end). *)
From Coq Require Import String Ascii List Bool Arith ZArith Lia Decimal DecimalString DecimalZ DecimalPos.
From TC Require Import PyStr Value Repr Param StrProofs SortProofs ReprProofs.
Import ListNotations.

(* ---------- character classes ---------- *)
Definition intc (c : ascii) : bool :=
  let n := nat_of_ascii c in ((48 <=? n) && (n <=? 57)) || (n =? 45).
Definition floatc (c : ascii) : bool :=
  let n := nat_of_ascii c in ((48 <=? n) && (n <=? 57)) || (n =? 45) || (n =? 43) || (n =? 46) || (n =? 101).
Definition atomc (c : ascii) : bool :=
  let n := nat_of_ascii c in
  ((48 <=? n) && (n <=? 57)) || ((65 <=? n) && (n <=? 90)) || ((97 <=? n) && (n <=? 122)) ||
  (n =? 43) || (n =? 45) || (n =? 46).

(* what may follow a value inside a key text: nothing, or a character that no atom contains *)
Definition follow_ok (r : str) : Prop := match r with [] => True | c :: _ => atomc c = false end.

Definition is_float_repr (r : str) : bool :=
  (forallb floatc r && (has_char "."%char r || has_char "e"%char r) &&
   match r with c :: _ => negb (Ascii.eqb c "e"%char) | [] => false end)
  || str_eqb r (lit "inf") || str_eqb r (lit "-inf") || str_eqb r (lit "nan").

Fixpoint jsonlike (v : value) : bool :=
  match v with
  | VNone | VBool _ | VInt _ => true
  | VFloat r => is_float_repr r
  | VStr s => negb (has_char squote s)
  | VList l => forallb jsonlike l
  | VDict kvs => forallb (fun kv => negb (has_char squote (fst kv)) && jsonlike (snd kv)) kvs
  | _ => false
  end.

(* ---------- the printer without the sorting step ---------- *)
Definition entry (pr : value -> str) (kv : str * value) : str :=
  squote :: fst kv ++ [squote] ++ lit ": " ++ pr (snd kv).
Fixpoint pr (v : value) : str :=
  match v with
  | VList l => lit "[" ++ join (lit ", ") (map pr l) ++ lit "]"
  | VDict kvs => lit "{" ++ join (lit ", ") (map (entry pr) kvs) ++ lit "}"
  | _ => repr_inst v
  end.

Lemma repr_inst_pr v : repr_inst v = pr (norm v).
Proof.
  induction v using value_ind'; try reflexivity.
  - cbn [norm repr_inst pr]. rewrite map_map. do 2 f_equal.
    f_equal. apply map_ext_in. intros x Hx. rewrite Forall_forall in H. now apply H.
  - cbn [norm repr_inst pr]. do 2 f_equal. f_equal.
    set (G := fun kv : str * value => (fst kv, repr_inst (snd kv))).
    set (N := fun kv : str * value => (fst kv, norm (snd kv))).
    rewrite (isort_map dkey_leb kv_leb G (fun _ _ => eq_refl)).
    rewrite (isort_map dkey_leb dkey_leb N (fun _ _ => eq_refl)).
    rewrite !map_map. apply map_ext_in. intros [k x] Hx. unfold G, N, entry. simpl.
    rewrite Forall_forall in H.
    assert (E : repr_inst x = pr (norm x)).
    { apply (H (k, x)). eapply Permutation.Permutation_in; [apply (isort_perm dkey_leb)|exact Hx]. }
    now rewrite E.
Qed.

Lemma forallb_insert {A} (leb : A -> A -> bool) (f : A -> bool) x l :
  forallb f (insert_sorted leb x l) = f x && forallb f l.
Proof.
  induction l as [|y r IH]; simpl; [reflexivity|]. destruct (leb x y); simpl; [reflexivity|].
  rewrite IH. destruct (f x), (f y); reflexivity.
Qed.
Lemma forallb_isort {A} (leb : A -> A -> bool) (f : A -> bool) l : forallb f (isort leb l) = forallb f l.
Proof. induction l as [|x r IH]; [reflexivity|]. rewrite isort_cons, forallb_insert, IH. reflexivity. Qed.

Lemma jsonlike_norm v : jsonlike v = true -> jsonlike (norm v) = true.
Proof.
  induction v using value_ind'; try (intros; assumption).
  - cbn [norm jsonlike]. rewrite !forallb_forall. intros Hl x Hx. apply in_map_iff in Hx.
    destruct Hx as (y & <- & Hy). rewrite Forall_forall in H. apply H; auto.
  - cbn [norm jsonlike]. rewrite forallb_isort. rewrite !forallb_forall. intros Hl x Hx.
    apply in_map_iff in Hx. destruct Hx as ([k y] & <- & Hy). simpl.
    specialize (Hl _ Hy). simpl in Hl. apply andb_true_iff in Hl. destruct Hl as [Hk Hv].
    rewrite Hk. simpl. rewrite Forall_forall in H. apply (H (k, y)); auto.
Qed.

(* ---------- integers ---------- *)
Lemma uint_chars d : Forall (fun c => intc c = true) (list_ascii_of_string (NilEmpty.string_of_uint d)).
Proof. induction d; simpl; constructor; auto. Qed.

Lemma nz_uint_chars d : Forall (fun c => intc c = true) (list_ascii_of_string (NilZero.string_of_uint d)).
Proof. destruct d; try apply uint_chars. simpl. constructor; auto. Qed.

Lemma zrepr_tok z : Forall (fun c => intc c = true) (zrepr z).
Proof.
  unfold zrepr, lit, NilZero.string_of_int. destruct (Z.to_int z) as [d|d].
  - apply nz_uint_chars.
  - simpl. constructor; [reflexivity|apply nz_uint_chars].
Qed.

Lemma nz_uint_nonempty d : NilZero.string_of_uint d <> EmptyString.
Proof. destruct d; simpl; discriminate. Qed.

Lemma zrepr_nonempty z : zrepr z <> [].
Proof.
  unfold zrepr, lit, NilZero.string_of_int. destruct (Z.to_int z) as [d|d]; simpl; [|discriminate].
  pose proof (nz_uint_nonempty d) as H. destruct (NilZero.string_of_uint d); [congruence|discriminate].
Qed.

Lemma zrepr_inj a b : zrepr a = zrepr b -> a = b.
Proof.
  unfold zrepr, lit. intros H.
  assert (H' : NilZero.string_of_int (Z.to_int a) = NilZero.string_of_int (Z.to_int b)).
  { rewrite <- (string_of_list_ascii_of_string (NilZero.string_of_int (Z.to_int a))).
    rewrite <- (string_of_list_ascii_of_string (NilZero.string_of_int (Z.to_int b))). now rewrite H. }
  apply (f_equal NilZero.int_of_string) in H'. rewrite !NilZero.isi in H'.
  - injection H' as H'. apply (f_equal Z.of_int) in H'. rewrite !DecimalZ.of_to in H'. exact H'.
  - destruct b; simpl; intro C; try discriminate C; injection C as C; exact (Unsigned.to_uint_nonnil _ C).
  - destruct b; simpl; intro C; try discriminate C; injection C as C; exact (Unsigned.to_uint_nonnil _ C).
  - destruct a; simpl; intro C; try discriminate C; injection C as C; exact (Unsigned.to_uint_nonnil _ C).
  - destruct a; simpl; intro C; try discriminate C; injection C as C; exact (Unsigned.to_uint_nonnil _ C).
Qed.

(* ---------- atoms ---------- *)
Lemma intc_atomc c : intc c = true -> atomc c = true.
Proof.
  unfold intc, atomc. intros H. apply orb_true_iff in H. destruct H as [H|H].
  - rewrite H. reflexivity.
  - rewrite H. now rewrite !orb_true_r.
Qed.

Lemma floatc_atomc c : floatc c = true -> atomc c = true.
Proof.
  unfold floatc, atomc. set (n := nat_of_ascii c). intros H.
  repeat (apply orb_true_iff in H; destruct H as [H|H]); rewrite ?H, ?orb_true_r; try reflexivity.
  apply Nat.eqb_eq in H. rewrite H. reflexivity.
Qed.

Lemma forallb_Forall {A} (f : A -> bool) l : forallb f l = true <-> Forall (fun x => f x = true) l.
Proof. rewrite forallb_forall, Forall_forall. reflexivity. Qed.

Lemma float_repr_atom r : is_float_repr r = true -> Forall (fun c => atomc c = true) r /\ r <> [].
Proof.
  unfold is_float_repr. intros H.
  repeat (apply orb_true_iff in H; destruct H as [H|H]).
  - apply andb_true_iff in H. destruct H as [H Hne]. apply andb_true_iff in H. destruct H as [H _].
    split; [|destruct r; [discriminate|discriminate]].
    apply forallb_Forall in H. eapply Forall_impl; [|exact H]. apply floatc_atomc.
  - apply str_eqb_eq in H. subst. split; [repeat constructor|discriminate].
  - apply str_eqb_eq in H. subst. split; [repeat constructor|discriminate].
  - apply str_eqb_eq in H. subst. split; [repeat constructor|discriminate].
Qed.

Lemma has_char_intc c s : intc c = false -> Forall (fun x => intc x = true) s -> has_char c s = false.
Proof.
  intros Hc. induction 1 as [|x r Hx _ IH]; [reflexivity|]. simpl. rewrite IH, orb_false_r.
  destruct (Ascii.eqb_spec x c); [congruence|reflexivity].
Qed.

Lemma int_not_float s : Forall (fun x => intc x = true) s -> is_float_repr s = false.
Proof.
  intros H. unfold is_float_repr.
  rewrite (has_char_intc "."%char s eq_refl H), (has_char_intc "e"%char s eq_refl H).
  rewrite andb_false_r.
  destruct s as [|a s]; [reflexivity|]. inversion H as [|? ? Ha H']; subst.
  assert (N1 : str_eqb (a :: s) (lit "inf") = false).
  { apply str_eqb_neq. intro E. injection E as -> _. discriminate Ha. }
  assert (N2 : str_eqb (a :: s) (lit "-inf") = false).
  { apply str_eqb_neq. intro E. injection E as -> ->. inversion H' as [|? ? Hb _]. discriminate Hb. }
  assert (N3 : str_eqb (a :: s) (lit "nan") = false).
  { apply str_eqb_neq. intro E. injection E as -> _. discriminate Ha. }
  rewrite N1, N2, N3. reflexivity.
Qed.

Definition is_atom (v : value) : bool :=
  match v with VNone | VBool _ | VInt _ | VFloat _ => true | _ => false end.

Lemma atom_chars v : is_atom v = true -> jsonlike v = true -> Forall (fun c => atomc c = true) (pr v) /\ pr v <> [].
Proof.
  destruct v as [| [|] | z | r | | | | | | |]; try discriminate; intros _ Hj; simpl.
  - split; [repeat constructor|discriminate].
  - split; [repeat constructor|discriminate].
  - split; [repeat constructor|discriminate].
  - split; [|apply zrepr_nonempty]. eapply Forall_impl; [|apply zrepr_tok]. apply intc_atomc.
  - now apply float_repr_atom.
Qed.

Lemma atom_inj v w : is_atom v = true -> is_atom w = true -> jsonlike v = true -> jsonlike w = true ->
  pr v = pr w -> v = w.
Proof.
  assert (Lit : forall z s, intc (match s with c :: _ => c | [] => "0"%char end) = false -> s <> [] -> zrepr z <> s).
  { intros z s Hc Hn E. pose proof (zrepr_tok z) as T. rewrite E in T.
    destruct s as [|c s]; [congruence|]. inversion T; subst. congruence. }
  destruct v as [| [|] | z | r | | | | | | |]; try discriminate;
  destruct w as [| [|] | z' | r' | | | | | | |]; try discriminate; intros _ _ Hv Hw E; simpl in E, Hv, Hw;
    try reflexivity; try discriminate E;
    try (exfalso; eapply Lit; [| |exact E]; [reflexivity|discriminate]);
    try (exfalso; eapply Lit; [| |symmetry; exact E]; [reflexivity|discriminate]);
    try (subst; discriminate Hw); try (subst; discriminate Hv).
  - apply zrepr_inj in E. now subst.
  - subst r'. rewrite (int_not_float _ (zrepr_tok z)) in Hw. discriminate.
  - subst r. rewrite (int_not_float _ (zrepr_tok z')) in Hv. discriminate.
  - now subst.
Qed.

(* maximal munch: two atom texts followed by non-atom characters *)
Lemma tok_prefix_eq (a b r1 r2 : str) :
  Forall (fun c => atomc c = true) a -> Forall (fun c => atomc c = true) b ->
  follow_ok r1 -> follow_ok r2 -> a ++ r1 = b ++ r2 -> a = b /\ r1 = r2.
Proof.
  revert b. induction a as [|x a IH]; intros b Ha Hb F1 F2 E.
  - destruct b as [|y b]; [auto|]. simpl in E. subst r1. inversion Hb; subst. simpl in F1. congruence.
  - destruct b as [|y b].
    + simpl in E. subst r2. inversion Ha; subst. simpl in F2. congruence.
    + simpl in E. injection E as -> E. inversion Ha; inversion Hb; subst.
      destruct (IH b) as [-> ->]; auto.
Qed.

Lemma quote_free_split (s1 s2 r1 r2 : str) :
  ~ In squote s1 -> ~ In squote s2 -> s1 ++ squote :: r1 = s2 ++ squote :: r2 -> s1 = s2 /\ r1 = r2.
Proof.
  revert s2. induction s1 as [|x s1 IH]; intros s2 N1 N2 E.
  - destruct s2 as [|y s2]; simpl in E. { injection E; auto. }
    injection E as <- _. exfalso. apply N2. now left.
  - destruct s2 as [|y s2]; simpl in E.
    + injection E as -> _. exfalso. apply N1. now left.
    + injection E as -> E. destruct (IH s2) as [-> ->]; auto.
      * intro; apply N1; now right.
      * intro; apply N2; now right.
Qed.

Lemma no_quote s : negb (has_char squote s) = true -> ~ In squote s.
Proof. intros H Hin. apply has_char_in in Hin. rewrite Hin in H. discriminate. Qed.

(* the first character of a value text: never a closing bracket, a comma or a space *)
Definition opener (c : ascii) : Prop :=
  atomc c = true \/ c = squote \/ c = "["%char \/ c = "{"%char.

Lemma pr_first v : jsonlike v = true -> exists c r, pr v = c :: r /\ opener c.
Proof.
  intros Hj. destruct (is_atom v) eqn:Ea.
  - destruct (atom_chars v Ea Hj) as [Hc Hn]. destruct (pr v) as [|c r]; [congruence|].
    inversion Hc; subst. exists c, r. split; [reflexivity|now left].
  - destruct v; try discriminate Ea; try discriminate Hj; simpl; eexists _, _; (split; [reflexivity|]);
      unfold opener; auto.
Qed.

Lemma opener_not c : opener c -> c <> "]"%char /\ c <> "}"%char /\ c <> ","%char /\ c <> " "%char.
Proof.
  intros [H|[ -> |[ -> | -> ]]]; repeat split; try discriminate; intro; subst; discriminate H.
Qed.

(* ---------- separated sequences ---------- *)
Section JoinUnique.
  Context {A : Type} (p : A -> str) (close : ascii).
  Variable Good : A -> Prop.
  Hypothesis close_not_comma : close <> ","%char.
  Hypothesis first : forall x, Good x -> exists c r, p x = c :: r /\ c <> close.
  Definition sep_or_close (s : str) : Prop := exists t, s = ","%char :: t \/ s = close :: t.

  Lemma join_unique l1 : forall l2 r1 r2,
    Forall (fun x => Good x /\ forall y s1 s2, Good y -> sep_or_close s1 -> sep_or_close s2 ->
                                p x ++ s1 = p y ++ s2 -> x = y /\ s1 = s2) l1 ->
    Forall Good l2 ->
    join (lit ", ") (map p l1) ++ close :: r1 = join (lit ", ") (map p l2) ++ close :: r2 ->
    l1 = l2 /\ r1 = r2.
  Proof.
    induction l1 as [|x l1 IHl]; intros l2 r1 r2 H1 H2 E.
    - destruct l2 as [|y l2]; simpl in E. { injection E; auto. }
      inversion H2 as [|? ? Gy _]; subst. destruct (first y Gy) as (c & r & Hy & Hc).
      destruct l2; simpl in E; rewrite Hy in E; simpl in E; injection E as E _; congruence.
    - inversion H1 as [|? ? [Gx Ux] H1']; subst.
      destruct l2 as [|y l2].
      { simpl in E. destruct (first x Gx) as (c & r & Hx & Hc).
        destruct l1; simpl in E; rewrite Hx in E; simpl in E; injection E as E _; congruence. }
      inversion H2 as [|? ? Gy H2']; subst.
      destruct l1 as [|x' l1]; destruct l2 as [|y' l2]; cbn [map join] in E.
      + destruct (Ux y (close :: r1) (close :: r2) Gy) as [-> E'];
          [eexists; right; reflexivity|eexists; right; reflexivity|exact E|].
        injection E' as ->. auto.
      + rewrite <- !app_assoc in E. simpl in E.
        match type of E with _ ++ ?s1 = _ ++ ?s2 => destruct (Ux y s1 s2 Gy) as [_ E'] end;
          [eexists; right; reflexivity|eexists; left; reflexivity|exact E|].
        injection E' as E' _. congruence.
      + rewrite <- !app_assoc in E. simpl in E.
        match type of E with _ ++ ?s1 = _ ++ ?s2 => destruct (Ux y s1 s2 Gy) as [_ E'] end;
          [eexists; left; reflexivity|eexists; right; reflexivity|exact E|].
        injection E' as E' _. congruence.
      + rewrite <- !app_assoc in E. simpl in E.
        match type of E with _ ++ ?s1 = _ ++ ?s2 => destruct (Ux y s1 s2 Gy) as [-> E'] end;
          [eexists; left; reflexivity|eexists; left; reflexivity|exact E|].
        injection E' as E'.
        destruct (IHl (y' :: l2) r1 r2 H1' H2' E') as [-> ->]. auto.
  Qed.
End JoinUnique.

(* ---------- unique readability of the plain printer ---------- *)
Definition UR (v1 : value) : Prop :=
  forall v2 r1 r2, jsonlike v1 = true -> jsonlike v2 = true -> follow_ok r1 -> follow_ok r2 ->
                   pr v1 ++ r1 = pr v2 ++ r2 -> v1 = v2 /\ r1 = r2.

Lemma follow_sep_or_close close s : atomc close = false -> sep_or_close close s -> follow_ok s.
Proof. intros Hc [t [-> | ->]]; simpl; [reflexivity|exact Hc]. Qed.

Lemma atom_first_clash v c r : is_atom v = true -> jsonlike v = true -> atomc c = false -> pr v <> c :: r.
Proof.
  intros Ha Hj Hc E. destruct (atom_chars v Ha Hj) as [F _]. rewrite E in F. inversion F; congruence.
Qed.

Lemma UR_atom v : is_atom v = true -> UR v.
Proof.
  intros Ha v2 r1 r2 J1 J2 F1 F2 E.
  destruct (is_atom v2) eqn:Ea2.
  - destruct (atom_chars v Ha J1) as [C1 _]. destruct (atom_chars v2 Ea2 J2) as [C2 _].
    destruct (tok_prefix_eq _ _ _ _ C1 C2 F1 F2 E) as [Hp ->]. split; [|reflexivity].
    now apply atom_inj.
  - exfalso. destruct (atom_chars v Ha J1) as [C1 N1].
    destruct (pr v) as [|c r] eqn:Ev; [congruence|]. inversion C1 as [|? ? Hc _]; subst.
    destruct v2; try discriminate Ea2; try discriminate J2; simpl in E; injection E as -> _; discriminate Hc.
Qed.

Lemma UR_str s : UR (VStr s).
Proof.
  intros v2 r1 r2 J1 J2 F1 F2 E. simpl in J1.
  destruct (is_atom v2) eqn:Ea2.
  { exfalso. symmetry in E. simpl in E.
    destruct (atom_chars v2 Ea2 J2) as [C2 N2]. destruct (pr v2) as [|c r]; [congruence|].
    inversion C2 as [|? ? Hc _]; subst. injection E as -> _. discriminate Hc. }
  destruct v2; try discriminate Ea2; try discriminate J2; simpl in E; try discriminate E.
  injection E as E. rewrite <- !app_assoc in E. simpl in E, J2.
  destruct (quote_free_split _ _ _ _ (no_quote _ J1) (no_quote _ J2) E) as [-> ->]. auto.
Qed.

Lemma Forall_jsonlike l : forallb jsonlike l = true -> Forall (fun x => jsonlike x = true) l.
Proof. apply forallb_Forall. Qed.

Lemma UR_list l : Forall UR l -> UR (VList l).
Proof.
  intros IH v2 r1 r2 J1 J2 F1 F2 E.
  destruct (is_atom v2) eqn:Ea2.
  { exfalso. symmetry in E. simpl in E.
    destruct (atom_chars v2 Ea2 J2) as [C2 N2]. destruct (pr v2) as [|c r]; [congruence|].
    inversion C2 as [|? ? Hc _]; subst. injection E as -> _. discriminate Hc. }
  destruct v2 as [| | | | | |l2| | | |]; try discriminate Ea2; try discriminate J2; simpl in E; try discriminate E.
  injection E as E. rewrite <- !app_assoc in E. simpl in E, J1, J2.
  destruct (join_unique pr "]"%char (fun x => jsonlike x = true)) with (l1 := l) (l2 := l2) (r1 := r1) (r2 := r2)
    as [-> ->]; auto.
  - discriminate.
  - intros x Hx. destruct (pr_first x Hx) as (c & r & Hp & Ho). exists c, r. split; [exact Hp|].
    now destruct (opener_not c Ho).
  - apply Forall_jsonlike in J1. rewrite Forall_forall in *. intros x Hx. split; [now apply J1|].
    intros y s1 s2 Gy S1 S2 Es. apply (IH x Hx y s1 s2); auto.
    + eapply follow_sep_or_close; [|exact S1]. reflexivity.
    + eapply follow_sep_or_close; [|exact S2]. reflexivity.
  - now apply Forall_jsonlike.
Qed.

Definition entry_ok (kv : str * value) : Prop := negb (has_char squote (fst kv)) && jsonlike (snd kv) = true.

Lemma UR_dict kvs : Forall (fun kv => UR (snd kv)) kvs -> UR (VDict kvs).
Proof.
  intros IH v2 r1 r2 J1 J2 F1 F2 E.
  destruct (is_atom v2) eqn:Ea2.
  { exfalso. symmetry in E. simpl in E.
    destruct (atom_chars v2 Ea2 J2) as [C2 N2]. destruct (pr v2) as [|c r]; [congruence|].
    inversion C2 as [|? ? Hc _]; subst. injection E as -> _. discriminate Hc. }
  destruct v2 as [| | | | | | |kvs2| | |]; try discriminate Ea2; try discriminate J2; simpl in E; try discriminate E.
  injection E as E. rewrite <- !app_assoc in E. simpl in E, J1, J2.
  destruct (join_unique (entry pr) "}"%char entry_ok) with (l1 := kvs) (l2 := kvs2) (r1 := r1) (r2 := r2)
    as [-> ->]; auto.
  - discriminate.
  - intros x _. unfold entry. eexists _, _. split; [reflexivity|discriminate].
  - apply forallb_Forall in J1. rewrite Forall_forall in *. intros [k x] Hx. split; [now apply J1|].
    intros [k' y] s1 s2 Gy S1 S2 Es. unfold entry in Es. simpl in Es.
    injection Es as Es. rewrite <- !app_assoc in Es. simpl in Es.
    specialize (J1 _ Hx). simpl in J1. apply andb_true_iff in J1. destruct J1 as [K1 V1].
    unfold entry_ok in Gy. simpl in Gy. apply andb_true_iff in Gy. destruct Gy as [K2 V2].
    destruct (quote_free_split _ _ _ _ (no_quote _ K1) (no_quote _ K2) Es) as [-> Es'].
    injection Es' as Es'.
    pose proof (IH (k', x) Hx) as U. simpl in U.
    destruct (U y s1 s2) as [-> ->]; auto.
    + eapply follow_sep_or_close; [|exact S1]. reflexivity.
    + eapply follow_sep_or_close; [|exact S2]. reflexivity.
  - now apply forallb_Forall.
Qed.

Theorem pr_unique_readable v : UR v.
Proof.
  induction v using value_ind'.
  - now apply UR_atom.
  - now apply UR_atom.
  - now apply UR_atom.
  - now apply UR_atom.
  - apply UR_str.
  - intros v2 r1 r2 J1. discriminate J1.
  - now apply UR_list.
  - now apply UR_dict.
  - intros v2 r1 r2 J1. discriminate J1.
  - intros v2 r1 r2 J1. discriminate J1.
  - intros v2 r1 r2 J1. discriminate J1.
Qed.

(* the statement about repr_from_instantiation itself: equal texts, equal values up to the order of
   mapping keys (which Python's == ignores too) *)
Theorem repr_inst_unique_readable v1 v2 r1 r2 :
  jsonlike v1 = true -> jsonlike v2 = true -> follow_ok r1 -> follow_ok r2 ->
  repr_inst v1 ++ r1 = repr_inst v2 ++ r2 -> norm v1 = norm v2 /\ r1 = r2.
Proof.
  intros J1 J2 F1 F2 E. rewrite !repr_inst_pr in E.
  apply (pr_unique_readable (norm v1) (norm v2) r1 r2); auto using jsonlike_norm.
Qed.

Corollary repr_inst_injective v1 v2 :
  jsonlike v1 = true -> jsonlike v2 = true -> repr_inst v1 = repr_inst v2 -> norm v1 = norm v2.
Proof.
  intros J1 J2 E. apply (repr_inst_unique_readable v1 v2 [] []); simpl; auto. now rewrite !app_nil_r.
Qed.

(* K1: outside the quote-free fragment the text is ambiguous *)
Lemma quote_collision :
  repr_inst (VList [VStr (lit "a"); VStr (lit "b")]) = repr_inst (VList [VStr (lit "a', 'b")]).
Proof. reflexivity. Qed.
