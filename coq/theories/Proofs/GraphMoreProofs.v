(* Further facts about the forced closure: it does not depend on the order (or multiplicity) in which the
   chain lists its tasks, it is closed under arcs, forcing it again adds nothing; and a single pass over the
   task list is not enough. *)
From Coq Require Import List Bool Arith Lia.
From TC Require Import Graph GraphProofs.
Import ListNotations.

Lemma path_nodes_ext edge nodes nodes' a x :
  (forall i, In i nodes -> In i nodes') -> Path edge nodes a x -> Path edge nodes' a x.
Proof.
  intros Hsub Hp. induction Hp as [x He Hn|y x Hp IH He Hn].
  - apply path_one; auto.
  - eapply path_step; eauto.
Qed.

(* the order in which the tasks were registered is not part of the closure *)
Theorem closure_order_independent edge nodes nodes' roots x :
  (forall i, In i nodes <-> In i nodes') ->
  (In x (closure_from edge nodes roots) <-> In x (closure_from edge nodes' roots)).
Proof.
  intros Hext. rewrite !closure_from_spec. split; intros [H|[a [Ha Hp]]]; auto; right; exists a; split; auto;
    eapply path_nodes_ext; try exact Hp; intros i Hi; apply Hext; exact Hi.
Qed.

(* the closure is closed under arcs into the chain's tasks ... *)
Theorem closure_closed edge nodes roots a x :
  In a (closure_from edge nodes roots) -> edge a x = true -> In x nodes -> In x (closure_from edge nodes roots).
Proof.
  rewrite !closure_from_spec. intros [Ha|[r [Hr Hp]]] He Hn; right.
  - exists a. split; [exact Ha|apply path_one; assumption].
  - exists r. split; [exact Hr|eapply path_step; eauto].
Qed.

(* ... so forcing the closure itself marks nothing more *)
Theorem closure_idempotent edge nodes roots x :
  In x (closure_from edge nodes (closure_from edge nodes roots)) <-> In x (closure_from edge nodes roots).
Proof.
  split.
  - intros H. apply closure_from_spec in H. destruct H as [H|[a [Ha Hp]]]; [exact H|].
    induction Hp as [y He Hn|y z Hp IH He Hn].
    + eapply closure_closed; eauto.
    + eapply closure_closed; eauto.
  - intros H. apply closure_from_spec. now left.
Qed.

(* more roots, more closure; the closure of a union is the union of the closures *)
Theorem closure_union edge nodes r1 r2 x :
  In x (closure_from edge nodes (r1 ++ r2)) <-> In x (closure_from edge nodes r1) \/ In x (closure_from edge nodes r2).
Proof.
  rewrite !closure_from_spec. split.
  - intros [H|[a [Ha Hp]]].
    + apply in_app_or in H. destruct H; [left|right]; now left.
    + apply in_app_or in Ha. destruct Ha; [left|right]; right; exists a; auto.
  - intros [[H|[a [Ha Hp]]]|[H|[a [Ha Hp]]]].
    + left. apply in_or_app. now left.
    + right. exists a. split; [apply in_or_app; now left|exact Hp].
    + left. apply in_or_app. now right.
    + right. exists a. split; [apply in_or_app; now right|exact Hp].
Qed.

(* One pass over the task list in the order of registration, collecting a task when one of its inputs is
   already collected, is what a "tasks are registered after their inputs" shortcut computes. *)
Definition single_pass (edge : nat -> nat -> bool) (nodes roots : list nat) : list nat :=
  fold_left (fun acc i => if negb (mem i acc) && existsb (fun a => edge a i) acc then acc ++ [i] else acc) nodes roots.

(* it loses a dependant that is listed before the task it depends on: report(0) <- clean(1) <- load(2),
   listed dependants first *)
Theorem single_pass_refuted :
  exists edge nodes roots x, In x (closure_from edge nodes roots) /\ ~ In x (single_pass edge nodes roots).
Proof.
  exists (fun a b => (Nat.eqb a 2 && Nat.eqb b 1) || (Nat.eqb a 1 && Nat.eqb b 0)), [0; 1; 2], [2], 0.
  vm_compute. split; [auto|]. intros [H|[H|[]]]; discriminate.
Qed.
