From Coq Require Import String Ascii List Bool Arith ZArith Lia Permutation.
From TC Require Import PyStr Value Dict Placeholder Repr Param Names Config Key Chain StrProofs DictProofs.
Import ListNotations.

(* ---------- d.update(e) ---------- *)
Section Update.
  Context {V : Type}.
  Implicit Types (d e : list (str * V)).

  Lemma dget_dupdate_notin k d e : ~ In k (map fst e) -> dget k (dupdate d e) = dget k d.
  Proof.
    unfold dupdate. revert d. induction e as [|[k' v] r IH]; intros d Hn; simpl; [reflexivity|].
    rewrite IH by (intro; apply Hn; now right).
    apply dget_dset_other. intro E. apply Hn. left. now subst.
  Qed.

  Theorem dget_dupdate k d e :
    NoDup (map fst e) ->
    dget k (dupdate d e) = match dget k e with Some v => Some v | None => dget k d end.
  Proof.
    unfold dupdate. revert d. induction e as [|[k' v] r IH]; intros d Hnd; simpl; [reflexivity|].
    inversion Hnd as [|? ? Hk Hr]; subst.
    destruct (str_eqb k k') eqn:E.
    - apply str_eqb_eq in E. subst k'.
      fold (dupdate (dset k v d) r). rewrite dget_dupdate_notin by assumption. apply dget_dset_same.
    - rewrite IH by assumption. destruct (dget k r); [reflexivity|].
      apply dget_dset_other. intro Eq. subst. now rewrite str_eqb_refl in E.
  Qed.
End Update.

(* ---------- Config.apply_context: the declared precedence ---------- *)
Definition wf_context (c : context) : Prop :=
  NoDup (map fst (cx_data c)) /\ NoDup (map fst (cx_for c)) /\ Forall (fun nd => NoDup (map fst (snd nd))) (cx_for c).

Definition for_ns (c : context) (n : str) : cfgdata := match dget n (cx_for c) with Some d => d | None => [] end.

Lemma fold_for_notin (n : str) (fors : list (str * cfgdata)) (d : cfgdata) :
  ~ In n (map fst fors) ->
  fold_left (fun acc nd => if str_eqb n (fst nd) then dupdate acc (snd nd) else acc) fors d = d.
Proof.
  revert d. induction fors as [|[n' e] r IH]; intros d Hn; simpl; [reflexivity|].
  destruct (str_eqb n n') eqn:E.
  - apply str_eqb_eq in E. subst. exfalso. apply Hn. now left.
  - apply IH. intro. apply Hn. now right.
Qed.

Lemma fold_for_spec (n : str) (fors : list (str * cfgdata)) (d : cfgdata) :
  NoDup (map fst fors) ->
  fold_left (fun acc nd => if str_eqb n (fst nd) then dupdate acc (snd nd) else acc) fors d
  = dupdate d (match dget n fors with Some e => e | None => [] end).
Proof.
  revert d. induction fors as [|[n' e] r IH]; intros d Hnd; simpl; [reflexivity|].
  inversion Hnd as [|? ? Hk Hr]; subst.
  destruct (str_eqb n n') eqn:E.
  - apply str_eqb_eq in E. subst n'. now rewrite fold_for_notin.
  - now apply IH.
Qed.

(* a task of a config mounted as `ns` sees: the context entry for exactly `ns`, else the global
   context entry, else the value of its own config *)
Theorem apply_context_precedence ns data c k :
  wf_context c ->
  dget k (apply_context ns data c) =
  match (match nonempty_ns ns with Some n => dget k (for_ns c n) | None => None end) with
  | Some v => Some v
  | None => match dget k (cx_data c) with Some v => Some v | None => dget k data end
  end.
Proof.
  intros (Hd & Hf & Hall). unfold apply_context, for_ns.
  destruct (nonempty_ns ns) as [n|]; [|now apply dget_dupdate].
  rewrite fold_for_spec by assumption.
  destruct (dget n (cx_for c)) as [e|] eqn:En.
  - rewrite dget_dupdate.
    + destruct (dget k e); [reflexivity|]. now apply dget_dupdate.
    + rewrite Forall_forall in Hall.
      assert (Hin : In (n, e) (cx_for c)).
      { clear -En. induction (cx_for c) as [|[n' e'] r IH]; simpl in *; [discriminate|].
        destruct (str_eqb n n') eqn:E; [apply str_eqb_eq in E; injection En as ->; subst; now left|right; auto]. }
      apply (Hall _ Hin).
  - simpl. now apply dget_dupdate.
Qed.

(* entries for any other namespace (a prefix, an extension, a sibling) are never used *)
Theorem other_namespaces_irrelevant ns data c c' :
  cx_data c = cx_data c' ->
  (forall n, nonempty_ns ns = Some n ->
     filter (fun nd => str_eqb n (fst nd)) (cx_for c) = filter (fun nd => str_eqb n (fst nd)) (cx_for c')) ->
  apply_context ns data c = apply_context ns data c'.
Proof.
  intros Hd Hf. unfold apply_context. rewrite Hd. destruct (nonempty_ns ns) as [n|]; [|reflexivity].
  specialize (Hf n eq_refl).
  assert (G : forall (fors : list (str * cfgdata)) (d : cfgdata),
             fold_left (fun acc nd => if str_eqb n (fst nd) then dupdate acc (snd nd) else acc) fors d
             = fold_left (fun acc nd => dupdate acc (snd nd)) (filter (fun nd => str_eqb n (fst nd)) fors) d).
  { induction fors as [|[n' e] r IH]; intros d; simpl; [reflexivity|].
    destruct (str_eqb n n'); simpl; apply IH. }
  now rewrite !G, Hf.
Qed.

(* the effective value of a parameter: context for the exact namespace, global context, own
   config, default; a missing required value and a wrongly typed one are errors *)
Definition effective (ns : option str) (data : cfgdata) (c : context) (k : str) : option value :=
  match (match nonempty_ns ns with Some n => dget k (for_ns c n) | None => None end) with
  | Some v => Some v
  | None => match dget k (cx_data c) with Some v => Some v | None => dget k data end
  end.

Lemma cfg_get_dget k (d : cfgdata) : cfg_get k d = dget k d.
Proof. induction d as [|[k' v] r IH]; simpl; [reflexivity|]. now rewrite IH. Qed.

Theorem effective_value p ns data c :
  wf_context c ->
  set_value p (apply_context ns data c) =
  match effective ns data c (pd_cfg p) with
  | Some v => if dtype_ok (pd_dtype p) v then inl (v, false) else inr EType
  | None => match pd_default p with
            | Some d => if dtype_ok (pd_dtype p) d then inl (d, true) else inr EType
            | None => inr EMissingParam
            end
  end.
Proof.
  intros Hwf. unfold set_value. rewrite cfg_get_dget, (apply_context_precedence _ _ _ _ Hwf).
  fold (effective ns data c (pd_cfg p)). destruct (effective ns data c (pd_cfg p)); [reflexivity|].
  destruct (pd_default p); reflexivity.
Qed.

(* ---------- Context.merge_contexts: later contexts win ---------- *)
Definition last_defined (k : str) (cs : list context) : option value :=
  fold_left (fun acc c => match dget k (cx_data c) with Some v => Some v | None => acc end) cs None.

Lemma merged_data_spec k cs init :
  Forall (fun c => NoDup (map fst (cx_data c))) cs ->
  dget k (fold_left (fun acc c => dupdate acc (cx_data c)) cs init)
  = fold_left (fun acc c => match dget k (cx_data c) with Some v => Some v | None => acc end) cs (dget k init).
Proof.
  revert init. induction cs as [|c r IH]; intros init H; simpl; [reflexivity|].
  inversion H; subst. rewrite IH by assumption. now rewrite dget_dupdate.
Qed.

Theorem merge_later_wins k cs :
  k <> lit "for_namespaces" ->
  Forall (fun c => NoDup (map fst (cx_data c))) cs ->
  dget k (cx_data (merge_contexts cs)) = last_defined k cs.
Proof.
  intros Hk H. unfold merge_contexts, ctx_prepare. cbn [cx_data].
  rewrite dget_dset_other by assumption. now rewrite merged_data_spec.
Qed.

(* ---------- mounting ---------- *)
Theorem mk_config_keeps_namespace_and_context fs ucls gv ctx src ns c :
  mk_config fs ucls gv ctx src ns = inl c -> cf_ns c = ns /\ cf_ctx c = ctx.
Proof.
  unfold mk_config. intros H.
  repeat match type of H with
         | match ?x with _ => _ end = _ => destruct x; try discriminate
         | (let '(_, _) := ?x in _) = _ => destruct x
         end.
  all: injection H as <-; auto.
Qed.

Theorem compose_ns_spec outer inner :
  compose_ns outer inner = match outer with
                           | Some (c :: o) => (c :: o) ++ lit "::" ++ inner
                           | _ => inner
                           end.
Proof. destruct outer as [[|c o]|]; reflexivity. Qed.

(* ---------- tasks are configured by the config that declares them; conflicts ---------- *)
Section Tasks.
  Variable classes : list tclass.

  Theorem add_task_conflict ci c excluded acc k tc ps old :
    cls classes k = inl tc -> c_abstract tc = false -> existsb (Nat.eqb k) excluded = false ->
    set_values (c_params tc) (cf_data c) = inl ps ->
    dget (full_name (c_slug tc) (cf_ns c)) acc = Some old -> n_cfg old <> ci ->
    add_task classes ci c excluded acc k = inr EConflict.
  Proof.
    intros Hc Ha He Hs Ho Hne. unfold add_task. rewrite Hc, Ha, He, Hs, Ho. simpl.
    apply Nat.eqb_neq in Hne. now rewrite Hne.
  Qed.

  (* on success the task is registered with the parameter values of the declaring config only *)
  Theorem add_task_params ci c excluded acc k tc acc' :
    cls classes k = inl tc -> c_abstract tc = false -> existsb (Nat.eqb k) excluded = false ->
    add_task classes ci c excluded acc k = inl acc' ->
    exists ps, set_values (c_params tc) (cf_data c) = inl ps /\
               dget (full_name (c_slug tc) (cf_ns c)) acc'
               = Some {| n_cls := k; n_cfg := ci; n_ns := cf_ns c;
                       n_cfgname := match config_name c with inl n => n | inr _ => [] end;
                       n_ctxname := match cf_ctx c with Some x => Some (cx_name x) | None => None end;
                       n_params := ps; n_inputs := [] |}.
  Proof.
    intros Hc Ha He. unfold add_task. rewrite Hc, Ha, He. simpl.
    destruct (set_values (c_params tc) (cf_data c)) as [ps|e]; [|discriminate].
    intros H. exists ps. split; [reflexivity|].
    destruct (dget (full_name (c_slug tc) (cf_ns c)) acc) as [old|].
    - destruct (Nat.eqb (n_cfg old) ci); [|discriminate]. injection H as <-. apply dget_dset_same.
    - injection H as <-. apply dget_dset_same.
  Qed.

  Theorem add_task_excluded ci c excluded acc k tc :
    cls classes k = inl tc -> (c_abstract tc = true \/ existsb (Nat.eqb k) excluded = true) ->
    add_task classes ci c excluded acc k = inl acc.
  Proof.
    intros Hc H. unfold add_task. rewrite Hc.
    destruct H as [-> | ->]; [reflexivity|now rewrite orb_true_r].
  Qed.

  (* other tasks are left as they were *)
  Theorem add_task_others ci c excluded acc k acc' name :
    add_task classes ci c excluded acc k = inl acc' ->
    (forall tc, cls classes k = inl tc -> name <> full_name (c_slug tc) (cf_ns c)) ->
    dget name acc' = dget name acc.
  Proof.
    unfold add_task. destruct (cls classes k) as [tc|e]; [|discriminate]. intros H Hn.
    specialize (Hn tc eq_refl).
    destruct (c_abstract tc || existsb (Nat.eqb k) excluded); [now injection H as <-|].
    destruct (set_values (c_params tc) (cf_data c)); [|discriminate].
    destruct (dget (full_name (c_slug tc) (cf_ns c)) acc) as [old|].
    - destruct (Nat.eqb (n_cfg old) ci); [|discriminate]. injection H as <-. now apply dget_dset_other.
    - injection H as <-. now apply dget_dset_other.
  Qed.
End Tasks.

(* a missing required value or an ill-typed one makes set_values, hence construction, fail *)
Theorem set_values_error ps data p :
  In p ps -> (exists e, set_value p data = inr e) -> exists e, set_values ps data = inr e.
Proof.
  induction ps as [|q r IH]; intros Hin [e He]; [contradiction|]. simpl.
  destruct Hin as [->|Hin].
  - rewrite He. eauto.
  - destruct (set_value q data); [|eauto].
    destruct (IH Hin (ex_intro _ e He)) as [e' He']. rewrite He'. eauto.
Qed.
