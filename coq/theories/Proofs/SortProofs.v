(* Generic facts about the insertion sort of Base/PyStr.v and the byte order on strings. *)
From Coq Require Import List Ascii String Bool Arith Lia Permutation Sorted.
From TC Require Import PyStr StrProofs.
Import ListNotations.

Section SortFacts.
  Context {A : Type} (leb : A -> A -> bool).
  Hypothesis leb_total : forall a b, leb a b = true \/ leb b a = true.
  Hypothesis leb_trans : forall a b c, leb a b = true -> leb b c = true -> leb a c = true.
  Let le a b := leb a b = true.

  Lemma insert_perm x l : Permutation (insert_sorted leb x l) (x :: l).
  Proof.
    induction l as [|y r IH]; simpl; [reflexivity|].
    destruct (leb x y); [reflexivity|]. rewrite IH. apply perm_swap.
  Qed.

  Lemma isort_perm l : Permutation (isort leb l) l.
  Proof.
    induction l as [|x r IH]; simpl; [reflexivity|].
    unfold isort in *. simpl. rewrite insert_perm. now constructor.
  Qed.

  Lemma insert_sorted_sorted x l : StronglySorted le l -> StronglySorted le (insert_sorted leb x l).
  Proof.
    induction l as [|y r IH]; intros Hs; simpl.
    - repeat constructor.
    - inversion Hs as [|? ? Hr Hy]; subst.
      destruct (leb x y) eqn:E.
      + constructor; [assumption|]. constructor; [exact E|].
        eapply Forall_impl; [|exact Hy]. intros a Ha. eapply leb_trans; eauto.
      + constructor; [apply IH; assumption|].
        assert (Hyx : le y x) by (destruct (leb_total x y) as [H|H]; [congruence|exact H]).
        eapply Permutation_Forall; [symmetry; apply insert_perm|].
        constructor; assumption.
  Qed.

  Lemma isort_sorted l : StronglySorted le (isort leb l).
  Proof.
    induction l as [|x r IH]; unfold isort in *; simpl; [constructor|].
    apply insert_sorted_sorted. exact IH.
  Qed.
End SortFacts.

Section Unique.
  Context {A K : Type} (key : A -> K) (kleb : K -> K -> bool).
  Hypothesis kleb_antisym : forall a b, kleb a b = true -> kleb b a = true -> a = b.
  Let le (a b : A) := kleb (key a) (key b) = true.

  Lemma key_determines (l : list A) a b :
    NoDup (map key l) -> In a l -> In b l -> key a = key b -> a = b.
  Proof.
    induction l as [|x r IH]; simpl; intros Hnd Ha Hb E; [contradiction|].
    inversion Hnd as [|? ? Hx Hr]; subst.
    destruct Ha as [->|Ha], Hb as [->|Hb]; auto.
    - exfalso. apply Hx. rewrite E. now apply in_map.
    - exfalso. apply Hx. rewrite <- E. now apply in_map.
  Qed.

  Lemma sorted_perm_unique (l l' : list A) :
    NoDup (map key l) -> Permutation l l' -> StronglySorted le l -> StronglySorted le l' -> l = l'.
  Proof.
    revert l'. induction l as [|a t IH]; intros l' Hnd Hp Hs Hs'.
    - apply Permutation_nil in Hp. now subst.
    - destruct l' as [|b t']; [apply Permutation_sym, Permutation_nil in Hp; discriminate|].
      inversion Hs as [|? ? Ht Ha]; inversion Hs' as [|? ? Ht' Hb]; subst.
      assert (Hab : a = b).
      { assert (Hina : In a (b :: t')) by (eapply Permutation_in; [exact Hp|now left]).
        assert (Hinb : In b (a :: t)) by (eapply Permutation_in; [symmetry; exact Hp|now left]).
        destruct Hina as [->|Hina]; [reflexivity|].
        destruct Hinb as [->|Hinb]; [reflexivity|].
        rewrite Forall_forall in Ha, Hb.
        specialize (Ha _ Hinb). specialize (Hb _ Hina).
        apply (key_determines (a :: t));
          [exact Hnd|now left|now right|apply kleb_antisym; assumption]. }
      subst b. f_equal. apply IH; auto.
      + simpl in Hnd. now inversion Hnd.
      + eapply Permutation_cons_inv; exact Hp.
  Qed.
End Unique.

(* ---- the byte order on strings ---- *)
Lemma str_ltb_irrefl a : str_ltb a a = false.
Proof. induction a as [|x a IH]; simpl; auto. rewrite Nat.ltb_irrefl. exact IH. Qed.

Lemma str_ltb_trans a b c : str_ltb a b = true -> str_ltb b c = true -> str_ltb a c = true.
Proof.
  revert b c. induction a as [|x a IH]; intros [|y b] [|z c]; simpl; try discriminate; auto.
  destruct (Nat.ltb_spec (nat_of_ascii x) (nat_of_ascii y)), (Nat.ltb_spec (nat_of_ascii y) (nat_of_ascii z));
    destruct (Nat.ltb_spec (nat_of_ascii x) (nat_of_ascii z)); auto; try lia;
    destruct (Nat.ltb_spec (nat_of_ascii y) (nat_of_ascii x)); try discriminate; try lia;
    destruct (Nat.ltb_spec (nat_of_ascii z) (nat_of_ascii y)); try discriminate; try lia;
    destruct (Nat.ltb_spec (nat_of_ascii z) (nat_of_ascii x)); try discriminate; try lia; eauto.
Qed.

Lemma str_ltb_total a b : str_ltb a b = true \/ a = b \/ str_ltb b a = true.
Proof.
  revert b. induction a as [|x a IH]; intros [|y b]; simpl; auto.
  destruct (Nat.ltb_spec (nat_of_ascii x) (nat_of_ascii y)); auto.
  destruct (Nat.ltb_spec (nat_of_ascii y) (nat_of_ascii x)); auto.
  assert (x = y).
  { assert (E : nat_of_ascii x = nat_of_ascii y) by lia.
    apply (f_equal ascii_of_nat) in E. now rewrite !ascii_nat_embedding in E. }
  subst. destruct (IH b) as [H1|[->|H1]]; auto.
Qed.

Lemma str_ltb_asym a b : str_ltb a b = true -> str_ltb b a = false.
Proof.
  intros H. destruct (str_ltb b a) eqn:E; auto.
  pose proof (str_ltb_trans _ _ _ H E) as C. now rewrite str_ltb_irrefl in C.
Qed.

Lemma str_leb_total a b : str_leb a b = true \/ str_leb b a = true.
Proof.
  unfold str_leb. destruct (str_ltb_total a b) as [H|[->|H]].
  - left. now rewrite (str_ltb_asym _ _ H).
  - left. now rewrite str_ltb_irrefl.
  - right. now rewrite (str_ltb_asym _ _ H).
Qed.

Lemma str_leb_antisym a b : str_leb a b = true -> str_leb b a = true -> a = b.
Proof.
  unfold str_leb. intros H1 H2. apply negb_true_iff in H1, H2.
  destruct (str_ltb_total a b) as [H|[->|H]]; congruence.
Qed.

Lemma str_leb_trans a b c : str_leb a b = true -> str_leb b c = true -> str_leb a c = true.
Proof.
  unfold str_leb. intros H1 H2. apply negb_true_iff in H1, H2. apply negb_true_iff.
  destruct (str_ltb c a) eqn:E; auto.
  destruct (str_ltb_total a b) as [H|[->|H]]; try congruence.
  pose proof (str_ltb_trans _ _ _ E H). congruence.
Qed.
