From Coq Require Import String Ascii List Bool Arith ZArith Lia.
From TC Require Import PyStr Value Dict Repr Param Names Config Key Chain Eval Migration StrProofs DictProofs EvalProofs.
Import ListNotations.

(* ---------- directories ---------- *)
Lemma mkdirs_go_only_adds_dirs prefix comps st p e :
  dget p (mkdirs_go prefix comps st) = Some e -> dget p st = Some e \/ e = FDir.
Proof.
  revert prefix st. induction comps as [|c r IH]; intros prefix st H; simpl in H; [now left|].
  apply IH in H. destruct H as [H|H]; [|now right].
  destruct (dhas _ st); [now left|].
  match type of H with dget p (dset ?q FDir st) = _ =>
    destruct (str_eq_dec p q) as [->|Hne];
    [rewrite dget_dset_same in H; injection H as <-; now right|rewrite dget_dset_other in H by assumption; now left] end.
Qed.

Lemma mkdirs_only_adds_dirs path st p e : dget p (mkdirs path st) = Some e -> dget p st = Some e \/ e = FDir.
Proof. apply mkdirs_go_only_adds_dirs. Qed.

Lemma mkdirs_keeps path st p e : dget p st = Some e -> dget p (mkdirs path st) = Some e.
Proof. apply dget_mkdirs_go_existing. Qed.

(* ---------- one task ---------- *)
Lemma migrate_one_source dry src dst t p e :
  dget p src = Some e -> dget p (fst (migrate_one dry (src, dst) t)) = Some e.
Proof.
  intros H. unfold migrate_one. destruct (negb (m_persisting t)); [exact H|].
  destruct (dget (m_src t) (mkdirs (m_dir t) src)); [|now apply mkdirs_keeps].
  destruct (dhas (m_dst t) (mkdirs (m_dir t) dst)); [now apply mkdirs_keeps|].
  destruct dry; now apply mkdirs_keeps.
Qed.

Lemma migrate_one_source_adds_dirs dry src dst t p e :
  dget p (fst (migrate_one dry (src, dst) t)) = Some e -> dget p src = Some e \/ e = FDir.
Proof.
  unfold migrate_one. destruct (negb (m_persisting t)); [now left|].
  destruct (dget (m_src t) (mkdirs (m_dir t) src)); [|apply mkdirs_only_adds_dirs].
  destruct (dhas (m_dst t) (mkdirs (m_dir t) dst)); [apply mkdirs_only_adds_dirs|].
  destruct dry; apply mkdirs_only_adds_dirs.
Qed.

Lemma migrate_one_target_keeps dry src dst t p e :
  dget p dst = Some e -> dget p (snd (migrate_one dry (src, dst) t)) = Some e.
Proof.
  intros H. unfold migrate_one. destruct (negb (m_persisting t)); [exact H|].
  destruct (dget (m_src t) (mkdirs (m_dir t) src)); [|exact H].
  destruct (dhas (m_dst t) (mkdirs (m_dir t) dst)) eqn:Ed; [now apply mkdirs_keeps|].
  destruct dry; [now apply mkdirs_keeps|]. simpl.
  destruct (str_eq_dec p (m_dst t)) as [->|Hne].
  - unfold dhas in Ed. rewrite (mkdirs_keeps _ _ _ _ H) in Ed. discriminate.
  - rewrite dget_dset_other by assumption. now apply mkdirs_keeps.
Qed.

Lemma migrate_one_dry src dst t p e :
  dget p (snd (migrate_one true (src, dst) t)) = Some e -> dget p dst = Some e \/ e = FDir.
Proof.
  unfold migrate_one. destruct (negb (m_persisting t)); [now left|].
  destruct (dget (m_src t) (mkdirs (m_dir t) src)); [|now left].
  destruct (dhas (m_dst t) (mkdirs (m_dir t) dst)); apply mkdirs_only_adds_dirs.
Qed.

(* ---------- the whole loop ---------- *)
Lemma fold_pair dry ts src dst :
  fold_left (migrate_one dry) ts (src, dst) =
  (fst (fold_left (migrate_one dry) ts (src, dst)), snd (fold_left (migrate_one dry) ts (src, dst))).
Proof. now destruct (fold_left (migrate_one dry) ts (src, dst)). Qed.

(* every file and directory of the source exists afterwards with identical content ... *)
Theorem source_entries_untouched dry ts src dst p e :
  dget p src = Some e -> dget p (fst (migrate dry src dst ts)) = Some e.
Proof.
  unfold migrate. revert src dst. induction ts as [|t r IH]; intros src dst H; cbn [fold_left]; [exact H|].
  match goal with |- context [fold_left _ _ ?x] => rewrite (surjective_pairing x) end. apply IH. now apply migrate_one_source.
Qed.

(* ... and whatever is new in the source tree is an (empty) directory: known finding K3 *)
Theorem source_additions_are_directories dry ts src dst p e :
  dget p (fst (migrate dry src dst ts)) = Some e -> dget p src = Some e \/ e = FDir.
Proof.
  unfold migrate. revert src dst. induction ts as [|t r IH]; intros src dst H; cbn [fold_left] in H; [now left|].
  match type of H with context [fold_left _ _ ?x] => rewrite (surjective_pairing x) in H end. apply IH in H. destruct H as [H|H]; [|now right].
  now apply migrate_one_source_adds_dirs in H.
Qed.

(* dry=True writes no result files *)
Theorem dry_writes_no_results ts src dst p e :
  dget p (snd (migrate true src dst ts)) = Some e -> dget p dst = Some e \/ e = FDir.
Proof.
  unfold migrate. revert src dst. induction ts as [|t r IH]; intros src dst H; cbn [fold_left] in H; [now left|].
  match type of H with context [fold_left _ _ ?x] => rewrite (surjective_pairing x) in H end. apply IH in H. destruct H as [H|H]; [|now right].
  now apply migrate_one_dry in H.
Qed.

(* nothing that is in the target is ever changed or removed by a migration *)
Theorem target_entries_kept dry ts src dst p e :
  dget p dst = Some e -> dget p (snd (migrate dry src dst ts)) = Some e.
Proof.
  unfold migrate. revert src dst. induction ts as [|t r IH]; intros src dst H; cbn [fold_left]; [exact H|].
  match goal with |- context [fold_left _ _ ?x] => rewrite (surjective_pairing x) end. apply IH. now apply migrate_one_target_keeps.
Qed.

(* every result that exists in name mode is carried to the key location with identical content
   (unless the target already holds something there, which is then kept) *)
Theorem results_carried ts src dst t content :
  In t ts -> m_persisting t = true -> dget (m_src t) src = Some content ->
  exists c', dget (m_dst t) (snd (migrate false src dst ts)) = Some c'.
Proof.
  intros Hin Hp Hs. unfold migrate. revert src dst Hs. induction ts as [|t0 r IH]; intros src dst Hs; [contradiction|].
  cbn [fold_left]. match goal with |- context [fold_left _ _ ?x] => rewrite (surjective_pairing x) end.
  destruct Hin as [->|Hin].
  - assert (Hd : exists c', dget (m_dst t) (snd (migrate_one false (src, dst) t)) = Some c').
    { unfold migrate_one. rewrite Hp. simpl. rewrite (mkdirs_keeps _ _ _ _ Hs).
      destruct (dhas (m_dst t) (mkdirs (m_dir t) dst)) eqn:Ed; simpl.
      - unfold dhas in Ed. destruct (dget (m_dst t) (mkdirs (m_dir t) dst)); [eauto|discriminate].
      - exists content. apply dget_dset_same. }
    destruct Hd as [c' Hc']. exists c'. now apply (target_entries_kept false r).
  - apply IH; auto. now apply migrate_one_source.
Qed.

(* when nothing was at the key location before, the migrated content is the source content *)
Theorem carried_content_is_source t src dst content :
  m_persisting t = true -> dget (m_src t) src = Some content -> dhas (m_dst t) (mkdirs (m_dir t) dst) = false ->
  dget (m_dst t) (snd (migrate_one false (src, dst) t)) = Some content.
Proof.
  intros Hp Hs Hd. unfold migrate_one. rewrite Hp. simpl. rewrite (mkdirs_keeps _ _ _ _ Hs), Hd. simpl.
  apply dget_dset_same.
Qed.

(* a task without a name-mode result gets nothing in the target *)
Theorem nothing_for_missing_results dry t src dst :
  dget (m_src t) (mkdirs (m_dir t) src) = None -> snd (migrate_one dry (src, dst) t) = dst.
Proof. intros H. unfold migrate_one. destruct (negb (m_persisting t)); [reflexivity|]. now rewrite H. Qed.

(* the step of a repeated migration: once the key location is occupied nothing is copied there again *)
Theorem occupied_target_is_skipped dry t src dst p e :
  dhas (m_dst t) (mkdirs (m_dir t) dst) = true ->
  dget p (snd (migrate_one dry (src, dst) t)) = Some e -> dget p dst = Some e \/ e = FDir.
Proof.
  intros Hd. unfold migrate_one. destruct (negb (m_persisting t)); [now left|].
  destruct (dget (m_src t) (mkdirs (m_dir t) src)); [|now left]. rewrite Hd. apply mkdirs_only_adds_dirs.
Qed.
