From Coq Require Import List Arith Bool Lia Permutation Sorted.
From TC Require Import PyStr Par.
Import ListNotations.

(* ---------- insertion sort ---------- *)
Section SortFacts.
  Context {A : Type} (leb : A -> A -> bool).
  Hypothesis leb_total : forall a b, leb a b = true \/ leb b a = true.
  Hypothesis leb_trans : forall a b c, leb a b = true -> leb b c = true -> leb a c = true.
  Let le a b := leb a b = true.

  Lemma insert_perm x l : Permutation (insert_sorted leb x l) (x :: l).
  Proof.
    induction l as [|y r IH]; simpl; [reflexivity|].
    destruct (leb x y); [reflexivity|].
    rewrite IH. apply perm_swap.
  Qed.

  Lemma isort_perm l : Permutation (isort leb l) l.
  Proof.
    induction l as [|x r IH]; simpl; [reflexivity|].
    unfold isort in *. simpl. rewrite insert_perm. now constructor.
  Qed.

  Lemma insert_sorted_sorted x l : StronglySorted le l -> StronglySorted le (insert_sorted leb x l).
  Proof.
    induction l as [|y r IH]; intros Hs; simpl.
    - repeat constructor.
    - inversion Hs as [|? ? Hr Hy]; subst.
      destruct (leb x y) eqn:E.
      + constructor; [assumption|]. constructor; [exact E|].
        eapply Forall_impl; [|exact Hy]. intros a Ha. eapply leb_trans; eauto.
      + constructor; [apply IH; assumption|].
        assert (Hyx : le y x) by (destruct (leb_total x y) as [H|H]; [congruence|exact H]).
        eapply Permutation_Forall; [symmetry; apply insert_perm|].
        constructor; assumption.
  Qed.

  Lemma isort_sorted l : StronglySorted le (isort leb l).
  Proof.
    induction l as [|x r IH]; unfold isort in *; simpl; [constructor|].
    apply insert_sorted_sorted. exact IH.
  Qed.
End SortFacts.

(* ---------- sorted permutations with distinct keys are equal ---------- *)
Section Unique.
  Context {B : Type}.
  Let le (a b : nat * B) := by_index a b = true.

  Lemma by_index_total a b : @by_index B a b = true \/ by_index b a = true.
  Proof. unfold by_index. destruct (Nat.leb_spec (fst a) (fst b)); [now left|right]. apply Nat.leb_le. lia. Qed.
  Lemma by_index_trans a b c : @by_index B a b = true -> by_index b c = true -> by_index a c = true.
  Proof. unfold by_index. rewrite !Nat.leb_le. lia. Qed.

  Lemma key_determines (l : list (nat * B)) a b :
    NoDup (map fst l) -> In a l -> In b l -> fst a = fst b -> a = b.
  Proof.
    induction l as [|x r IH]; simpl; intros Hnd Ha Hb E; [contradiction|].
    inversion Hnd as [|? ? Hx Hr]; subst.
    destruct Ha as [->|Ha], Hb as [->|Hb]; auto.
    - exfalso. apply Hx. rewrite E. now apply in_map.
    - exfalso. apply Hx. rewrite <- E. now apply in_map.
  Qed.

  Lemma sorted_perm_unique (l l' : list (nat * B)) :
    NoDup (map fst l) -> Permutation l l' -> StronglySorted le l -> StronglySorted le l' -> l = l'.
  Proof.
    revert l'. induction l as [|a t IH]; intros l' Hnd Hp Hs Hs'.
    - apply Permutation_nil in Hp. now subst.
    - destruct l' as [|b t']; [apply Permutation_sym, Permutation_nil in Hp; discriminate|].
      inversion Hs as [|? ? Ht Ha]; inversion Hs' as [|? ? Ht' Hb]; subst.
      assert (Hab : a = b).
      { assert (Hina : In a (b :: t')) by (eapply Permutation_in; [exact Hp|now left]).
        assert (Hinb : In b (a :: t)) by (eapply Permutation_in; [symmetry; exact Hp|now left]).
        destruct Hina as [->|Hina]; [reflexivity|].
        destruct Hinb as [->|Hinb]; [reflexivity|].
        rewrite Forall_forall in Ha, Hb.
        specialize (Ha _ Hinb). specialize (Hb _ Hina). unfold le, by_index in Ha, Hb.
        apply Nat.leb_le in Ha, Hb.
        apply (key_determines (a :: t)); auto; [now left|now right|lia]. }
      subst b. f_equal. apply IH; auto.
      + simpl in Hnd. now inversion Hnd.
      + eapply Permutation_cons_inv; exact Hp.
  Qed.
End Unique.

(* ---------- tagged results ---------- *)
Section Collect.
  Context {A B : Type} (f : A -> B).

  Lemma map_fst_combine {X Y} (xs : list X) (ys : list Y) :
    length xs = length ys -> map fst (combine xs ys) = xs.
  Proof. revert ys; induction xs as [|x r IH]; intros [|y ys]; simpl; intros H; try discriminate; auto.
         f_equal. apply IH. lia. Qed.
  Lemma map_snd_combine {X Y} (xs : list X) (ys : list Y) :
    length xs = length ys -> map snd (combine xs ys) = ys.
  Proof. revert ys; induction xs as [|x r IH]; intros [|y ys]; simpl; intros H; try discriminate; auto.
         f_equal. apply IH. lia. Qed.

  Lemma tagged_keys (c : list A) : map fst (tagged f c) = seq 0 (length c).
  Proof. unfold tagged. apply map_fst_combine. now rewrite seq_length, map_length. Qed.
  Lemma tagged_vals (c : list A) : map snd (tagged f c) = map f c.
  Proof. unfold tagged. apply map_snd_combine. now rewrite seq_length, map_length. Qed.

  Lemma seq_sorted_keys (l : list (nat * B)) start len :
    map fst l = seq start len -> StronglySorted (fun a b => by_index a b = true) l.
  Proof.
    revert start len. induction l as [|a t IH]; intros start len H; [constructor|].
    destruct len as [|len]; [discriminate|]. simpl in H. injection H as Ha Ht.
    constructor; [eapply IH; exact Ht|].
    rewrite Forall_forall. intros b Hb. unfold by_index. apply Nat.leb_le.
    assert (In (fst b) (seq (S start) len)) by (rewrite <- Ht; now apply in_map).
    apply in_seq in H. lia.
  Qed.

  Theorem collect_sorted (c : list A) (done : list (nat * B)) :
    Permutation done (tagged f c) -> collect true done = map f c.
  Proof.
    intros Hp. unfold collect.
    assert (E : isort by_index done = tagged f c).
    { symmetry. apply sorted_perm_unique.
      - rewrite tagged_keys. apply seq_NoDup.
      - rewrite isort_perm. now symmetry.
      - eapply seq_sorted_keys. apply tagged_keys.
      - apply isort_sorted; [apply by_index_total|apply by_index_trans]. }
    rewrite E. apply tagged_vals.
  Qed.

  Theorem collect_unsorted_perm (c : list A) (done : list (nat * B)) :
    Permutation done (tagged f c) -> Permutation (collect false done) (map f c).
  Proof. intros Hp. unfold collect. rewrite <- tagged_vals. now apply Permutation_map. Qed.
End Collect.

(* ---------- chunked ---------- *)
Section Chunked.
  Context {A : Type}.

  Lemma chunked_go_concat n (cur_rev : list A) size xs :
    size = length cur_rev -> concat (chunked_go n cur_rev size xs) = rev cur_rev ++ xs.
  Proof.
    revert cur_rev size. induction xs as [|x r IH]; intros cur_rev size Hs; cbn [chunked_go].
    - destruct (size =? 0) eqn:E; simpl.
      + apply Nat.eqb_eq in E. subst. destruct cur_rev; [reflexivity|discriminate].
      + now rewrite !app_nil_r.
    - destruct (S size =? n) eqn:E; simpl.
      + rewrite (IH [] 0 eq_refl). simpl. now rewrite <- app_assoc.
      + rewrite (IH (x :: cur_rev) (S size)); [|simpl; lia]. simpl. now rewrite <- app_assoc.
  Qed.

  Theorem chunked_concat n (xs : list A) : concat (chunked n xs) = xs.
  Proof. unfold chunked. now rewrite chunked_go_concat. Qed.

  Theorem chunked_nil n : chunked n (@nil A) = [].
  Proof. reflexivity. Qed.

  (* every chunk but the last has exactly n elements, the last between 1 and n *)
  Inductive chunks_ok (n : nat) : list (list A) -> Prop :=
  | ck_nil : chunks_ok n []
  | ck_last c : 1 <= length c <= n -> chunks_ok n [c]
  | ck_cons c r : length c = n -> r <> [] -> chunks_ok n r -> chunks_ok n (c :: r).

  Lemma chunks_ok_cons n c r : length c = n -> 1 <= n -> chunks_ok n r -> chunks_ok n (c :: r).
  Proof. intros Hc Hn Hr. destruct r; [apply ck_last; lia|apply ck_cons; auto; discriminate]. Qed.

  Lemma chunked_go_ok n (cur_rev : list A) size xs :
    1 <= n -> size = length cur_rev -> size < n -> chunks_ok n (chunked_go n cur_rev size xs).
  Proof.
    intros Hn. revert cur_rev size. induction xs as [|x r IH]; intros cur_rev size Hs Hlt; cbn [chunked_go].
    - destruct (size =? 0) eqn:E; [constructor|]. apply Nat.eqb_neq in E.
      apply ck_last. rewrite rev_length. lia.
    - destruct (S size =? n) eqn:E.
      + apply Nat.eqb_eq in E.
        apply chunks_ok_cons; [rewrite rev_length; simpl; lia | assumption | apply IH; simpl; lia].
      + apply Nat.eqb_neq in E. apply IH; simpl; lia.
  Qed.

  Theorem chunked_sizes n (xs : list A) : 1 <= n -> chunks_ok n (chunked n xs).
  Proof. intros Hn. apply chunked_go_ok; simpl; lia. Qed.
End Chunked.

(* ---------- completion orders given as positions ---------- *)
Section Reorder.
  Context {X : Type}.
  Lemma flat_nth_seq (l : list X) :
    flat_map (fun i => match nth_error l i with Some x => [x] | None => [] end) (seq 0 (length l)) = l.
  Proof.
    induction l as [|a l IH]; [reflexivity|].
    cbn [length]. rewrite <- cons_seq, <- seq_shift. cbn [flat_map nth_error]. simpl. f_equal.
    rewrite flat_map_concat_map, map_map, <- flat_map_concat_map. exact IH.
  Qed.

  Lemma reorder_perm (order : list nat) (l : list X) :
    Permutation order (seq 0 (length l)) -> Permutation (reorder order l) l.
  Proof.
    intros Hp. unfold reorder. rewrite Hp. now rewrite flat_nth_seq.
  Qed.

  Lemma in_reorder_perm order (l : list X) y :
    Permutation order (seq 0 (length l)) -> In y l -> In y (reorder order l).
  Proof. intros Hp Hy. eapply Permutation_in; [symmetry; apply reorder_perm; exact Hp|exact Hy]. Qed.

  Lemma reorder_map {Y} (g : X -> Y) order (l : list X) : reorder order (map g l) = map g (reorder order l).
  Proof.
    unfold reorder. induction order as [|i r IH]; simpl; [reflexivity|].
    rewrite map_app, IH. f_equal. rewrite nth_error_map. now destruct (nth_error l i).
  Qed.
End Reorder.

(* ---------- parallel_map ---------- *)
Section ParallelMap.
  Context {A B : Type} (f : A -> B).

  (* every completion order: dones is any family of per-chunk permutations of the tagged results *)
  Definition completion_of (done : list (nat * B)) (chunk : list A) : Prop :=
    Permutation done (tagged f chunk).

  Lemma collect_all_sorted (dones : list (list (nat * B))) (chunks : list (list A)) :
    Forall2 completion_of dones chunks ->
    concat (map (collect true) dones) = map f (concat chunks).
  Proof.
    induction 1 as [|d c ds cs Hdc _ IH]; simpl; [reflexivity|].
    rewrite map_app, (collect_sorted f c d Hdc), IH. reflexivity.
  Qed.

  Theorem parallel_map_any_schedule n (xs : list A) (dones : list (list (nat * B))) :
    Forall2 completion_of dones (chunked n xs) ->
    concat (map (collect true) dones) = map f xs.
  Proof. intros H. rewrite (collect_all_sorted _ _ H). now rewrite chunked_concat. Qed.

  Theorem parallel_map_unsorted n (xs : list A) (dones : list (list (nat * B))) :
    Forall2 completion_of dones (chunked n xs) ->
    Forall2 (fun r chunk => Permutation r (map f chunk)) (map (collect false) dones) (chunked n xs).
  Proof.
    generalize (chunked n xs). intros chunks H. induction H as [|d c ds cs Hdc _ IH]; simpl; constructor; auto.
    now apply collect_unsorted_perm.
  Qed.

  (* f is applied exactly once per element: the completions carry each f x exactly once *)
  Theorem parallel_map_calls_once n (xs : list A) (dones : list (list (nat * B))) :
    Forall2 completion_of dones (chunked n xs) ->
    Permutation (concat (map (map snd) dones)) (map f xs).
  Proof.
    intros H. assert (Hx : map f xs = map f (concat (chunked n xs))) by now rewrite chunked_concat.
    rewrite Hx. clear Hx. revert H. generalize (chunked n xs). intros chunks H.
    induction H as [|d c ds cs Hdc _ IH]; simpl; [reflexivity|].
    rewrite map_app. apply Permutation_app; [|exact IH].
    rewrite <- (tagged_vals f c). now apply Permutation_map.
  Qed.

  (* the executable form used by the correspondence check is an instance *)
  Definition valid_orders (orders : list (list nat)) (chunks : list (list A)) : Prop :=
    Forall2 (fun order chunk => Permutation order (seq 0 (length chunk))) orders chunks.

  Lemma zip_with_map {X Y Z} (g : X -> Y -> Z) xs ys :
    zip_with g xs ys = map (fun p => g (fst p) (snd p)) (combine xs ys).
  Proof. revert ys; induction xs as [|x r IH]; intros [|y ys]; simpl; auto. now rewrite IH. Qed.

  Lemma tagged_length c : length (tagged f c) = length c.
  Proof. unfold tagged. rewrite combine_length, seq_length, map_length. lia. Qed.

  Theorem parallel_map_spec threads n orders (xs : list A) :
    valid_orders orders (chunked n xs) ->
    parallel_map f threads true n orders xs = map f xs.
  Proof.
    intros Hv. unfold parallel_map. destruct (threads =? 1); [reflexivity|].
    rewrite <- (parallel_map_any_schedule n xs
                 (zip_with (fun order chunk => reorder order (tagged f chunk)) orders (chunked n xs))).
    - f_equal. revert Hv. generalize (chunked n xs). intros chunks Hv.
      induction Hv as [|o c os cs _ _ IH]; simpl; [reflexivity|]. now rewrite IH.
    - revert Hv. generalize (chunked n xs). intros chunks Hv.
      induction Hv as [|o c os cs Hoc _ IH]; simpl; constructor; auto.
      unfold completion_of. apply reorder_perm. now rewrite tagged_length.
  Qed.

  Theorem parallel_map_unsorted_spec threads n orders (xs : list A) :
    valid_orders orders (chunked n xs) ->
    exists rs, parallel_map f threads false n orders xs = concat rs /\
               Forall2 (fun r chunk => Permutation r (map f chunk)) rs (chunked n xs).
  Proof.
    intros Hv. unfold parallel_map. destruct (threads =? 1).
    - exists (map (map f) (chunked n xs)). split.
      + rewrite <- concat_map. now rewrite chunked_concat.
      + generalize (chunked n xs). intros chunks. induction chunks; simpl; constructor; auto.
    - eexists. split; [reflexivity|].
      revert Hv. generalize (chunked n xs). intros chunks Hv.
      induction Hv as [|o c os cs Hoc _ IH]; simpl; constructor; auto.
      apply collect_unsorted_perm. apply reorder_perm. now rewrite tagged_length.
  Qed.

  Theorem parallel_map_iter_spec threads order (xs : list A) :
    Permutation order (seq 0 (length xs)) -> parallel_map_iter f threads order xs = map f xs.
  Proof.
    intros Hp. unfold parallel_map_iter. destruct (threads =? 1); [reflexivity|].
    apply collect_sorted. apply reorder_perm. now rewrite tagged_length.
  Qed.
End ParallelMap.

(* ---------- exceptions ---------- *)
Section Exc.
  Context {A B E : Type} (f : A -> B + E).

  Lemma first_error_in (rs : list (nat * (B + E))) e :
    first_error rs = Some e -> exists i, In (i, inr e) rs.
  Proof.
    induction rs as [|[i [b|e']] r IH]; simpl; intros H; try discriminate.
    - destruct (IH H) as [j Hj]. exists j. now right.
    - injection H as ->. exists i. now left.
  Qed.

  Lemma in_reorder {X} order (l : list X) x : In x (reorder order l) -> In x l.
  Proof.
    unfold reorder. rewrite in_flat_map. intros [i [_ Hi]].
    destruct (nth_error l i) eqn:En; [|contradiction]. destruct Hi as [<-|[]]. eapply nth_error_In; eauto.
  Qed.

  Lemma in_combine_map {X} (ks : list X) (c : list A) k r : In (k, r) (combine ks (map f c)) -> exists x, In x c /\ f x = r.
  Proof.
    intros H. apply in_combine_r in H. apply in_map_iff in H. destruct H as [x [Hx Hin]]. eauto.
  Qed.

  (* whatever is raised was raised by f on an element of the input *)
  Theorem run_chunks_error_from_f sort orders chunks e :
    run_chunks f sort orders chunks = inr e -> exists x, In x (concat chunks) /\ f x = inr e.
  Proof.
    revert chunks. induction orders as [|o os IH]; intros [|c cs]; simpl; try discriminate.
    destruct (first_error _) eqn:Ef.
    - intros H. injection H as ->. apply first_error_in in Ef. destruct Ef as [i Hi].
      apply in_reorder in Hi. apply in_combine_map in Hi. destruct Hi as [x [Hx Hfx]].
      exists x. split; [apply in_or_app; now left|exact Hfx].
    - destruct (run_chunks f sort os cs) eqn:Er; [discriminate|].
      intros H. injection H as ->. destruct (IH _ Er) as [x [Hx Hfx]].
      exists x. split; [apply in_or_app; now right|exact Hfx].
  Qed.

  Lemma map_seq_error xs e : map_seq f xs = inr e -> exists x, In x xs /\ f x = inr e.
  Proof.
    induction xs as [|x r IH]; simpl; [discriminate|].
    destruct (f x) eqn:Ex.
    - destruct (map_seq f r); [discriminate|]. intros H. injection H as ->.
      destruct (IH eq_refl) as [y [Hy Hfy]]. exists y. auto.
    - intros H. injection H as ->. exists x. auto.
  Qed.

  Theorem parallel_map_exc_error threads sort n orders xs e :
    parallel_map_exc f threads sort n orders xs = inr e -> exists x, In x xs /\ f x = inr e.
  Proof.
    unfold parallel_map_exc. destruct (threads =? 1).
    - apply map_seq_error.
    - intros H. apply run_chunks_error_from_f in H. now rewrite chunked_concat in H.
  Qed.

  (* a raising element makes the whole call raise (valid orders cover every submitted job) *)
  Lemma first_error_none_all_ok (rs : list (nat * (B + E))) :
    first_error rs = None -> forall i r, In (i, r) rs -> exists b, r = inl b.
  Proof.
    induction rs as [|[j [b|e']] rest IH]; simpl; intros H i r Hin; try discriminate; [contradiction|].
    destruct Hin as [Hin|Hin]; [injection Hin as _ <-; eauto|eauto].
  Qed.


  Lemma nth_error_combine_seq (c : list A) s i x :
    nth_error c i = Some x -> nth_error (combine (seq s (length c)) (map f c)) i = Some (s + i, f x).
  Proof.
    revert s i. induction c as [|a c IH]; intros s [|i] H; simpl in *; try discriminate.
    - injection H as ->. now rewrite Nat.add_0_r.
    - rewrite (IH (S s) i H). f_equal. f_equal. lia.
  Qed.

  Theorem run_chunks_raises sort orders chunks x e0 :
    Forall2 (fun order chunk => Permutation order (seq 0 (length chunk))) orders chunks ->
    In x (concat chunks) -> f x = inr e0 -> exists e, run_chunks f sort orders chunks = inr e.
  Proof.
    induction 1 as [|o c os cs Hoc _ IH]; simpl; intros Hx Hfx; [contradiction|].
    destruct (first_error _) eqn:Ef; [eauto|].
    apply in_app_or in Hx. destruct Hx as [Hx|Hx].
    - exfalso. apply In_nth_error in Hx. destruct Hx as [i Hi].
      pose proof (nth_error_combine_seq c 0 i x Hi) as Hn. apply nth_error_In in Hn.
      apply (in_reorder_perm o) in Hn;
        [|rewrite combine_length, seq_length, map_length, Nat.min_id; exact Hoc].
      destruct (first_error_none_all_ok _ Ef _ _ Hn) as [b Hb]. congruence.
    - destruct (IH Hx Hfx) as [e He]. rewrite He. eauto.
  Qed.

  Lemma map_seq_raises xs x e0 : In x xs -> f x = inr e0 -> exists e, map_seq f xs = inr e.
  Proof.
    induction xs as [|a r IH]; simpl; intros Hx Hfx; [contradiction|].
    destruct (f a) eqn:Ea; [|eauto].
    destruct Hx as [->|Hx]; [congruence|]. destruct (IH Hx Hfx) as [e He]. rewrite He. eauto.
  Qed.

  Theorem parallel_map_exc_raises threads sort n orders xs x e0 :
    Forall2 (fun order chunk => Permutation order (seq 0 (length chunk))) orders (chunked n xs) ->
    In x xs -> f x = inr e0 -> exists e, parallel_map_exc f threads sort n orders xs = inr e.
  Proof.
    intros Hv Hx Hfx. unfold parallel_map_exc. destruct (threads =? 1).
    - eapply map_seq_raises; eauto.
    - eapply run_chunks_raises; eauto. now rewrite chunked_concat.
  Qed.
End Exc.

(* when f never raises, the exception-aware model is the plain one *)
Section Total.
  Context {A B E : Type} (g : A -> B).
  Let f : A -> B + E := fun x => inl (g x).
  Let wrap (p : nat * B) : nat * (B + E) := (fst p, inl (snd p)).

  Lemma combine_wrap (ks : list nat) (c : list A) :
    combine ks (map f c) = map wrap (combine ks (map g c)).
  Proof. revert ks. induction c as [|a c IH]; intros [|k ks]; simpl; auto. now rewrite IH. Qed.
  Lemma first_error_wrap l : first_error (map wrap l) = None.
  Proof. induction l as [|[i b] r IH]; simpl; auto. Qed.
  Lemma oks_wrap l : oks (map wrap l) = l.
  Proof. induction l as [|[i b] r IH]; simpl; auto. now rewrite IH. Qed.

  Lemma map_seq_total xs : map_seq f xs = inl (map g xs).
  Proof. induction xs as [|x r IH]; simpl; auto. now rewrite IH. Qed.

  Lemma run_chunks_total sort orders chunks :
    run_chunks f sort orders chunks =
    inl (concat (zip_with (fun order chunk => collect sort (reorder order (tagged g chunk))) orders chunks)).
  Proof.
    revert chunks. induction orders as [|o os IH]; intros [|c cs]; simpl; auto.
    rewrite combine_wrap, reorder_map, first_error_wrap, oks_wrap, IH. reflexivity.
  Qed.

  Theorem parallel_map_exc_total threads sort n orders xs :
    parallel_map_exc f threads sort n orders xs = inl (parallel_map g threads sort n orders xs).
  Proof.
    unfold parallel_map_exc, parallel_map. destruct (threads =? 1);
      [apply map_seq_total|apply run_chunks_total].
  Qed.
End Total.
