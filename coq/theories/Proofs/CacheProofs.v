From Coq Require Import String Ascii List Bool Arith ZArith Lia.
From TC Require Import PyStr Value Dict Cache StrProofs DictProofs ValueProofs.
Import ListNotations.

Section CacheFacts.
  Variable H : str -> str.

  Definition stored (c : cache) (fs : cfs) (key : str) (v : value) : Prop :=
    dget (cpath H c key) fs = Some (CEntry key v).
  Definition acceptable (c : cache) (v : value) : bool :=
    negb (is_none v && negb (ca_allow_nones c) && ca_checks_key c).

  (* a value stored intact for exactly this key is returned; the computer is not called *)
  Theorem hit_returns_stored c fs key v comp :
    stored c fs key v -> acceptable c v = true ->
    cache_get_or_compute H c fs key comp false = (fs, CVal v, 0) /\ cache_get H c fs key = CVal v.
  Proof.
    unfold stored, acceptable, cache_get_or_compute, cache_get, load. intros Hs Ha. rewrite Hs.
    rewrite str_eqb_refl, andb_false_r. apply negb_true_iff in Ha. rewrite Ha. auto.
  Qed.

  (* a missing or damaged file: the computer is called exactly once, its result stored and returned *)
  Theorem miss_computes_once c fs key v :
    (dget (cpath H c key) fs = None \/ dget (cpath H c key) fs = Some CDamaged) -> acceptable c v = true ->
    cache_get_or_compute H c fs key (Some v) false = (dset (cpath H c key) (CEntry key v) fs, CVal v, 1) /\
    stored c (dset (cpath H c key) (CEntry key v) fs) key v.
  Proof.
    unfold acceptable, cache_get_or_compute, stored. intros Hm Ha. apply negb_true_iff in Ha.
    split; [|apply dget_dset_same].
    destruct Hm as [-> | ->]; simpl; now rewrite Ha.
  Qed.

  (* force always recomputes and replaces *)
  Theorem force_recomputes c fs key v :
    acceptable c v = true ->
    cache_get_or_compute H c fs key (Some v) true = (dset (cpath H c key) (CEntry key v) fs, CVal v, 1).
  Proof. unfold acceptable, cache_get_or_compute. intros Ha. apply negb_true_iff in Ha. now rewrite Ha. Qed.

  (* a computation that raises stores nothing *)
  Theorem raising_computer_stores_nothing c fs key force fs' out n :
    cache_get_or_compute H c fs key None force = (fs', out, n) -> fs' = fs.
  Proof.
    unfold cache_get_or_compute. destruct force; [now intros E; injection E|].
    destruct (dget (cpath H c key) fs) as [e|]; [|now intros E; injection E].
    destruct (load c key e); intros E; now injection E.
  Qed.

  (* a damaged file is never returned as a value *)
  Theorem damaged_never_returned c fs key :
    dget (cpath H c key) fs = Some CDamaged -> cache_get H c fs key = CNoValue.
  Proof. unfold cache_get. now intros ->. Qed.

  (* a file recorded for another key is reported *)
  Theorem foreign_key_reported c fs key k v comp :
    ca_checks_key c = true -> dget (cpath H c key) fs = Some (CEntry k v) -> k <> key ->
    cache_get H c fs key = CExcCache /\ cache_get_or_compute H c fs key comp false = (fs, CExcCache, 0).
  Proof.
    intros Hc Hd Hne. unfold cache_get, cache_get_or_compute, load. rewrite Hd, Hc.
    assert (E : str_eqb key k = false) by (apply str_eqb_neq; congruence). now rewrite E.
  Qed.

  (* get never stores anything and never calls anything: it is a function of the files *)
  Theorem get_is_pure c fs key : exists o, cache_get H c fs key = o.
  Proof. eauto. Qed.

  (* an operation on one path leaves every other path alone *)
  Theorem other_paths_untouched c fs key comp force fs' out n p :
    cache_get_or_compute H c fs key comp force = (fs', out, n) -> p <> cpath H c key -> dget p fs' = dget p fs.
  Proof.
    unfold cache_get_or_compute. intros E Hp.
    assert (G : forall x, (match comp with
                           | None => (fs, CExcCompute, 1)
                           | Some v => if is_none v && negb (ca_allow_nones c) && ca_checks_key c then (fs, CExcCache, 1)
                                       else (dset (cpath H c key) (CEntry key v) fs, CVal v, 1)
                           end) = x -> dget p (fst (fst x)) = dget p fs).
    { intros x <-. destruct comp as [v|]; [|reflexivity].
      destruct (is_none v && negb (ca_allow_nones c) && ca_checks_key c); [reflexivity|].
      simpl. now apply dget_dset_other. }
    destruct force; [now apply G in E|].
    destruct (dget (cpath H c key) fs) as [e|]; [|now apply G in E].
    destruct (load c key e); [now injection E as <- _ _|now apply G in E].
  Qed.

  (* ---------- distinct keys and sub-caches use distinct files ---------- *)
  Hypothesis hash_shape : forall s, List.length (H s) = 64 /\ ~ In "/"%char (H s).

  Lemma app_len_inj {A} (a1 a2 x y : list A) : List.length a1 = List.length a2 -> a1 ++ x = a2 ++ y -> a1 = a2 /\ x = y.
  Proof.
    revert a2. induction a1 as [|h t IH]; intros [|h2 t2] Hl E; simpl in *; try discriminate; auto.
    injection E as -> E. destruct (IH t2) as [-> ->]; auto.
  Qed.

  Theorem distinct_keys_distinct_files c k1 k2 :
    (H k1 = H k2 -> k1 = k2) -> cpath H c k1 = cpath H c k2 -> k1 = k2.
  Proof.
    intros Hnc E. unfold cpath in E. apply app_inv_head in E. apply app_inv_head in E.
    destruct (hash_shape k1) as [L1 _], (hash_shape k2) as [L2 _].
    apply app_len_inj in E; [|rewrite !firstn_length; lia]. destruct E as [Ea E].
    apply app_inv_head in E. apply app_inv_tail in E. apply Hnc.
    rewrite <- (firstn_skipn 5 (H k1)), <- (firstn_skipn 5 (H k2)). now rewrite Ea, E.
  Qed.

  Fixpoint slashes (s : str) : nat :=
    match s with [] => 0 | c :: r => (if Ascii.eqb c "/"%char then 1 else 0) + slashes r end.
  Lemma slashes_app a b : slashes (a ++ b) = slashes a + slashes b.
  Proof. induction a as [|c r IH]; simpl; [reflexivity|]. rewrite IH. lia. Qed.
  Lemma slashes_none s : ~ In "/"%char s -> slashes s = 0.
  Proof.
    induction s as [|c r IH]; simpl; intros Hn; [reflexivity|].
    destruct (Ascii.eqb c "/"%char) eqn:E; [apply Ascii.eqb_eq in E; subst; exfalso; apply Hn; now left|].
    apply IH. intro. apply Hn. now right.
  Qed.
  Lemma in_firstn {A} n (l : list A) x : In x (firstn n l) -> In x l.
  Proof. revert n. induction l as [|y r IH]; intros [|n]; simpl; auto; try contradiction. intros [Hi|Hi]; eauto. Qed.
  Lemma in_skipn {A} n (l : list A) x : In x (skipn n l) -> In x l.
  Proof. revert n. induction l as [|y r IH]; intros [|n]; simpl; auto. intros Hi. right. eapply IH; eauto. Qed.

  Lemma file_name_slashes key :
    slashes (firstn 5 (H key) ++ lit "/" ++ skipn 5 (H key) ++ lit ".json") = 1.
  Proof.
    destruct (hash_shape key) as [_ Hn].
    rewrite !slashes_app.
    rewrite (slashes_none (firstn 5 (H key))) by (intro Hi; apply Hn; eapply in_firstn; eauto).
    rewrite (slashes_none (skipn 5 (H key))) by (intro Hi; apply Hn; eapply in_skipn; eauto).
    reflexivity.
  Qed.

  (* a sub-cache never uses a file of its parent, whatever its name (also a name that looks like a bucket) *)
  Theorem subcache_files_disjoint c name k1 k2 : cpath H c k1 <> cpath H (subcache c name) k2.
  Proof.
    unfold cpath, subcache. cbn [ca_dir]. intros E.
    rewrite <- !app_assoc in E. apply app_inv_head in E. apply app_inv_head in E.
    apply (f_equal slashes) in E. rewrite file_name_slashes in E.
    rewrite slashes_app in E. change (lit "/" ++ firstn 5 (H k2) ++ lit "/" ++ skipn 5 (H k2) ++ lit ".json")
      with (lit "/" ++ (firstn 5 (H k2) ++ lit "/" ++ skipn 5 (H k2) ++ lit ".json")) in E.
    rewrite slashes_app, file_name_slashes in E. simpl in E. lia.
  Qed.

  (* two sub-caches of one cache with different names - of one or of several components, also names that end in
     the same component or look like a bucket - never use the same file *)
  Lemma app_same_length_inj {A} (a c b d : list A) :
    List.length b = List.length d -> a ++ b = c ++ d -> a = c /\ b = d.
  Proof.
    revert c. induction a as [|x a IH]; intros [|y c] Hl E; simpl in E.
    - now split.
    - exfalso. apply (f_equal (@List.length A)) in E. simpl in E. rewrite app_length in E. lia.
    - exfalso. apply (f_equal (@List.length A)) in E. simpl in E. rewrite app_length in E. lia.
    - injection E as -> E. destruct (IH c Hl E) as [-> ->]. now split.
  Qed.

  Lemma file_tail_length key :
    List.length (lit "/" ++ firstn 5 (H key) ++ lit "/" ++ skipn 5 (H key) ++ lit ".json") = 71.
  Proof.
    destruct (hash_shape key) as [Hl _].
    rewrite !app_length, firstn_length, skipn_length, Hl. reflexivity.
  Qed.

  Theorem sibling_subcaches_disjoint c n1 n2 k1 k2 :
    n1 <> n2 -> cpath H (subcache c n1) k1 <> cpath H (subcache c n2) k2.
  Proof.
    intros Hne E. unfold cpath, subcache in E. cbn [ca_dir] in E.
    rewrite <- !app_assoc in E. apply app_inv_head in E. apply app_inv_head in E.
    apply app_same_length_inj in E; [now apply Hne|].
    now rewrite !file_tail_length.
  Qed.

  Theorem sibling_subcaches_never_share c n1 n2 fs k1 k2 comp force fs' out n :
    n1 <> n2 ->
    cache_get_or_compute H (subcache c n2) fs k2 comp force = (fs', out, n) ->
    cache_get H (subcache c n1) fs' k1 = cache_get H (subcache c n1) fs k1.
  Proof.
    intros Hne E. unfold cache_get.
    rewrite (other_paths_untouched _ _ _ _ _ _ _ _ _ E); [reflexivity|now apply sibling_subcaches_disjoint].
  Qed.

  (* hence operations on distinct keys, or on a cache and one of its sub-caches, never see each other *)
  Theorem distinct_keys_never_share c fs k1 k2 comp force fs' out n :
    (H k1 = H k2 -> k1 = k2) -> k1 <> k2 ->
    cache_get_or_compute H c fs k2 comp force = (fs', out, n) -> cache_get H c fs' k1 = cache_get H c fs k1.
  Proof.
    intros Hnc Hne E. unfold cache_get.
    rewrite (other_paths_untouched _ _ _ _ _ _ _ _ _ E); [reflexivity|].
    intro Ep. apply Hne. now apply (distinct_keys_distinct_files c k1 k2 Hnc).
  Qed.

  Theorem subcache_never_shares c name fs k1 k2 comp force fs' out n :
    cache_get_or_compute H (subcache c name) fs k2 comp force = (fs', out, n) ->
    cache_get H c fs' k1 = cache_get H c fs k1.
  Proof.
    intros E. unfold cache_get.
    rewrite (other_paths_untouched _ _ _ _ _ _ _ _ _ E); [reflexivity|apply subcache_files_disjoint].
  Qed.
End CacheFacts.
