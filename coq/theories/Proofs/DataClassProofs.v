From Coq Require Import String Ascii List Bool Arith ZArith Lia Permutation Sorted.
From TC Require Import PyStr Value DataClass StrProofs SortProofs.
Import ListNotations.

(* ---------- json lines ---------- *)
Lemma lines_go_item acc item rest :
  ~ In nl item -> lines_go acc (item ++ nl :: rest) = (rev acc ++ item ++ [nl]) :: lines_go [] rest.
Proof.
  revert acc. induction item as [|c r IH]; intros acc Hn; cbn [lines_go app].
  - rewrite Ascii.eqb_refl. cbn [rev]. reflexivity.
  - destruct (Ascii.eqb c nl) eqn:E; [apply Ascii.eqb_eq in E; subst; exfalso; apply Hn; now left|].
    rewrite IH by (intro; apply Hn; now right). cbn [rev]. now rewrite <- app_assoc.
Qed.

Lemma file_rows_write items :
  Forall (fun s => ~ In nl s) items -> file_rows (write_jsonl items) = map (fun s => s ++ [nl]) items.
Proof.
  unfold file_rows. induction 1 as [|s r Hs _ IH]; [reflexivity|].
  cbn [write_jsonl flat_map map]. rewrite <- app_assoc. cbn [app]. rewrite lines_go_item by assumption.
  cbn [rev app]. f_equal. exact IH.
Qed.

Lemma is_space_nl : is_space nl = true.
Proof. reflexivity. Qed.

Lemma lstrip_id s : (match s with c :: _ => is_space c = false | [] => True end) -> lstrip s = s.
Proof. destruct s as [|c r]; simpl; auto. now intros ->. Qed.

(* an item that neither starts nor ends with whitespace survives: strip(item + '\n') = item *)
Lemma strip_row item :
  item <> [] ->
  (match item with c :: _ => is_space c = false | [] => True end) ->
  (match rev item with c :: _ => is_space c = false | [] => True end) ->
  strip (item ++ [nl]) = item.
Proof.
  intros Hne Hh Ht. unfold strip.
  assert (E1 : lstrip (item ++ [nl]) = item ++ [nl]).
  { destruct item as [|c r]; [contradiction|]. cbn [app lstrip] in *. now rewrite Hh. }
  rewrite E1, rev_app_distr. cbn [rev app lstrip]. rewrite is_space_nl.
  rewrite (lstrip_id (rev item)) by exact Ht. apply rev_involutive.
Qed.

Definition clean (item : str) : Prop :=
  item <> [] /\ ~ In nl item /\
  (match item with c :: _ => is_space c = false | [] => True end) /\
  (match rev item with c :: _ => is_space c = false | [] => True end).

(* every list of items - empty, one, many - comes back, in order *)
Theorem jsonl_roundtrip items : Forall clean items -> read_jsonl (write_jsonl items) = items.
Proof.
  intros H. unfold read_jsonl. rewrite file_rows_write.
  - rewrite map_map. induction H as [|s r (Hne & _ & Hh & Ht) _ IH]; [reflexivity|].
    simpl. rewrite strip_row by assumption. now rewrite IH.
  - eapply Forall_impl; [|exact H]. intros s (_ & Hn & _). exact Hn.
Qed.

(* ---------- the value guard ---------- *)
Theorem value_guard_is_none_only v : (exists e, data_value v = inr e) <-> v = VNone.
Proof.
  split.
  - intros [e H]. destruct v; simpl in H; try discriminate. reflexivity.
  - intros ->. simpl. eauto.
Qed.

Theorem falsy_values_returned :
  Forall (fun v => data_value v = inl v)
         [VBool false; VInt 0; VFloat (lit "0.0"); VStr []; VList []; VDict []].
Proof. repeat constructor. Qed.

(* ---------- ListOfNumpyData: arrays come back in numeric, not lexicographic, order ---------- *)
Section Numbered.
  Variable num : str -> nat.
  Variable name : nat -> str.
  Hypothesis num_name : forall i, num (name i) = i.

  Lemma by_number_total a b : by_number num a b = true \/ by_number num b a = true.
  Proof. unfold by_number. destruct (Nat.leb_spec (num a) (num b)); [now left|right]. apply Nat.leb_le. lia. Qed.
  Lemma by_number_trans a b c : by_number num a b = true -> by_number num b c = true -> by_number num a c = true.
  Proof. unfold by_number. rewrite !Nat.leb_le. lia. Qed.

  Lemma names_sorted start len : StronglySorted (fun a b => by_number num a b = true) (map name (seq start len)).
  Proof.
    revert start. induction len as [|len IH]; intros start; simpl; constructor; [apply IH|].
    rewrite Forall_forall. intros b Hb. apply in_map_iff in Hb. destruct Hb as [j [<- Hj]].
    apply in_seq in Hj. unfold by_number. rewrite !num_name. apply Nat.leb_le. lia.
  Qed.

  Theorem list_of_arrays_order listing n :
    Permutation listing (map name (seq 0 n)) -> load_order num listing = map name (seq 0 n).
  Proof.
    intros Hp. unfold load_order. symmetry.
    apply (sorted_perm_unique num Nat.leb).
    - intros a b H1 H2. apply Nat.leb_le in H1, H2. lia.
    - rewrite map_map. erewrite map_ext; [|intros; apply num_name]. rewrite map_id. apply seq_NoDup.
    - rewrite (isort_perm (by_number num) listing). now symmetry.
    - apply names_sorted.
    - apply (isort_sorted (by_number num) by_number_total by_number_trans).
  Qed.
End Numbered.
