From Coq Require Import List Bool Arith Lia.
From TC Require Import PyStr StrProofs.
From TC Require Import Sharing.
Import ListNotations.

Section RegFacts.
  Variable K : Type.
  Variable keqb : K -> K -> bool.
  Hypothesis keqb_eq : forall a b, keqb a b = true <-> a = b.

  (* the registry is a partial bijection between keys and the numbers below the counter *)
  Definition RegInv (st : list (K * nat) * nat) : Prop :=
    (forall k id, In (k, id) (fst st) -> id < snd st) /\
    (forall k id1 id2, In (k, id1) (fst st) -> In (k, id2) (fst st) -> id1 = id2) /\
    (forall k1 k2 id, In (k1, id) (fst st) -> In (k2, id) (fst st) -> k1 = k2).

  Lemma kfind_some k reg id : kfind keqb k reg = Some id -> In (k, id) reg.
  Proof.
    induction reg as [|[k' i] r IH]; cbn [kfind]; [discriminate|].
    destruct (keqb k' k) eqn:E.
    - intros [= <-]. apply keqb_eq in E. subst. now left.
    - intros H. right. auto.
  Qed.

  Lemma kfind_none k reg : kfind keqb k reg = None -> forall id, ~ In (k, id) reg.
  Proof.
    induction reg as [|[k' i] r IH]; cbn [kfind]; intros H id; [intros []|].
    destruct (keqb k' k) eqn:E; [discriminate|].
    intros [[= -> ->]|Hin].
    - assert (keqb k k = true) by now apply keqb_eq. congruence.
    - eapply IH; eauto.
  Qed.

  Definition RegExt (st st' : list (K * nat) * nat) : Prop := forall e, In e (fst st) -> In e (fst st').

  Lemma kstep_inv st k st' id :
    RegInv st -> kstep keqb st k = (st', id) -> RegInv st' /\ RegExt st st' /\ In (k, id) (fst st').
  Proof.
    intros [Hlt [Hf Hi]] E. unfold kstep in E. destruct (kfind keqb k (fst st)) as [i|] eqn:Ef.
    - injection E as <- <-. split; [repeat split; assumption|]. split; [intros e He; exact He|]. now apply kfind_some.
    - injection E as <- <-. unfold RegInv, RegExt. cbn [fst snd]. split; [|split].
      + split; [|split].
        * intros k0 i0 Hin. apply in_app_or in Hin. destruct Hin as [Hin|[[= <- <-]|[]]]; [apply Hlt in Hin; lia|lia].
        * intros k0 i1 i2 H1 H2. apply in_app_or in H1. apply in_app_or in H2.
          destruct H1 as [H1|[[= <- <-]|[]]]; destruct H2 as [H2|[H2|[]]].
          -- eapply Hf; eauto.
          -- injection H2 as -> <-. exfalso. eapply kfind_none; eauto.
          -- exfalso. eapply kfind_none; eauto.
          -- now injection H2.
        * intros k1 k2 i0 H1 H2. apply in_app_or in H1. apply in_app_or in H2.
          destruct H1 as [H1|[[= <- <-]|[]]]; destruct H2 as [H2|[H2|[]]].
          -- eapply Hi; eauto.
          -- injection H2 as <- <-. apply Hlt in H1. lia.
          -- apply Hlt in H2. lia.
          -- now injection H2.
      + intros e He. apply in_or_app. now left.
      + apply in_or_app. right. now left.
  Qed.

  Lemma krun_inv ks : forall st st' ids,
    RegInv st -> krun keqb st ks = (st', ids) ->
    RegInv st' /\ RegExt st st' /\ length ids = length ks /\
    forall i k id, nth_error ks i = Some k -> nth_error ids i = Some id -> In (k, id) (fst st').
  Proof.
    induction ks as [|k ks IH]; intros st st' ids HI E; cbn [krun] in E.
    - injection E as <- <-. split; [exact HI|]. split; [intros e He; exact He|]. split; [reflexivity|].
      intros [|i] k0 id H; discriminate.
    - destruct (kstep keqb st k) as [st1 id1] eqn:E1. destruct (krun keqb st1 ks) as [st2 ids2] eqn:E2.
      injection E as <- <-.
      destruct (kstep_inv _ _ _ _ HI E1) as [HI1 [Hx1 Hin1]].
      destruct (IH _ _ _ HI1 E2) as [HI2 [Hx2 [Hlen Hall]]].
      split; [exact HI2|]. split; [intros e He; apply Hx2, Hx1, He|]. split; [cbn; now rewrite Hlen|].
      intros [|i] k0 id Hk Hid; cbn [nth_error] in Hk, Hid.
      + injection Hk as <-. injection Hid as <-. apply Hx2. exact Hin1.
      + eapply Hall; eauto.
  Qed.

  (* whatever the sequence of registrations: two of them get the same object exactly when their keys are equal *)
  Theorem krun_shared_iff_same_key st ks st' ids i j ki kj a b :
    RegInv st -> krun keqb st ks = (st', ids) ->
    nth_error ks i = Some ki -> nth_error ks j = Some kj -> nth_error ids i = Some a -> nth_error ids j = Some b ->
    (a = b <-> ki = kj).
  Proof.
    intros HI E Hi Hj Ha Hb. destruct (krun_inv _ _ _ _ HI E) as [[_ [Hf Hinj]] [_ [_ Hall]]].
    pose proof (Hall _ _ _ Hi Ha) as H1. pose proof (Hall _ _ _ Hj Hb) as H2. split.
    - intros <-. eapply Hinj; eauto.
    - intros <-. eapply Hf; eauto.
  Qed.

  (* what the registry held before is served, never replaced *)
  Theorem krun_serves_registered st ks st' ids i k id0 id :
    RegInv st -> krun keqb st ks = (st', ids) -> In (k, id0) (fst st) ->
    nth_error ks i = Some k -> nth_error ids i = Some id -> id = id0.
  Proof.
    intros HI E Hin Hk Hid. destruct (krun_inv _ _ _ _ HI E) as [[_ [Hf _]] [Hx [_ Hall]]].
    eapply Hf; [eapply Hall; eauto|apply Hx; exact Hin].
  Qed.

  (* objects are numbered in the order of creation, without gaps: the counter grows by the number of new keys *)
  Lemma krun_every_answer_below ks : forall st st' ids id,
    RegInv st -> krun keqb st ks = (st', ids) -> In id ids -> id < snd st'.
  Proof.
    intros st st' ids id HI E Hin. destruct (krun_inv _ _ _ _ HI E) as [[Hlt _] [_ [Hlen Hall]]].
    apply In_nth_error in Hin. destruct Hin as [i Hi].
    assert (Hk : exists k, nth_error ks i = Some k).
    { destruct (nth_error ks i) eqn:Ek; [eauto|]. apply nth_error_None in Ek.
      assert (i < length ids) by (apply nth_error_Some; congruence). lia. }
    destruct Hk as [k Hk]. eapply Hlt. eapply Hall; eauto.
  Qed.

  Lemma reginv_empty : RegInv ([], 0).
  Proof. split; [|split]; intros; cbn in *; contradiction. Qed.
End RegFacts.

Lemma loc_eqb_eq a b : loc_eqb a b = true <-> a = b.
Proof.
  destruct a as [[d1 s1] k1], b as [[d2 s2] k2]. unfold loc_eqb. cbn [fst snd].
  rewrite !andb_true_iff, !str_eqb_eq. split.
  - intros [[-> ->] ->]. reflexivity.
  - intros [= -> -> ->]. auto.
Qed.

(* Across the members of a MultiChain (one registry) and within a chain: two tasks are one object exactly when
   they have the same data directory, the same slug name and the same hash - that is, the same result location. *)
Theorem share_iff_same_location ls i j d1 s1 k1 d2 s2 k2 a b :
  nth_error ls i = Some (d1, s1, k1) -> nth_error ls j = Some (d2, s2, k2) ->
  nth_error (share ls) i = Some a -> nth_error (share ls) j = Some b ->
  (a = b <-> d1 = d2 /\ s1 = s2 /\ k1 = k2).
Proof.
  intros Hi Hj Ha Hb. unfold share in *. destruct (krun loc_eqb ([], 0) ls) as [st' ids] eqn:E. cbn [snd] in *.
  rewrite (krun_shared_iff_same_key _ _ loc_eqb_eq _ _ _ _ _ _ _ _ _ _ (reginv_empty _) E Hi Hj Ha Hb).
  split; [intros [= -> -> ->]; auto|intros [-> [-> ->]]; reflexivity].
Qed.

(* in particular: equal parameters and inputs under different data directories are different objects *)
Corollary other_directory_other_object ls i j d1 d2 s k a b :
  nth_error ls i = Some (d1, s, k) -> nth_error ls j = Some (d2, s, k) ->
  nth_error (share ls) i = Some a -> nth_error (share ls) j = Some b -> d1 <> d2 -> a <> b.
Proof.
  intros Hi Hj Ha Hb Hd E. apply (share_iff_same_location _ _ _ _ _ _ _ _ _ _ _ Hi Hj Ha Hb) in E. now destruct E.
Qed.

Theorem share_length ls : length (share ls) = length ls.
Proof.
  unfold share. destruct (krun loc_eqb ([], 0) ls) as [st' ids] eqn:E. cbn [snd].
  now destruct (krun_inv _ _ loc_eqb_eq _ _ _ _ (reginv_empty _) E) as [_ [_ [H _]]].
Qed.
