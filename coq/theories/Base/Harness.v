(* Support for the correspondence check: compare what the model computes with what the
   implementation produced (written into the generated case file by the harness) and
   return the indices that disagree. *)
From Coq Require Import List Ascii String Bool Arith ZArith.
From TC Require Import PyStr.
Import ListNotations.

Section Mismatch.
  Context {I O : Type} (eqb : O -> O -> bool) (model : I -> O).
  Fixpoint mismatches_from (n : nat) (cases : list (I * O)) : list nat :=
    match cases with
    | [] => []
    | (i, o) :: r =>
        if eqb (model i) o then mismatches_from (S n) r else n :: mismatches_from (S n) r
    end.
  Definition mismatches := mismatches_from 0.
End Mismatch.

Definition dec_eqb {A} (d : forall a b : A, {a = b} + {a <> b}) (a b : A) : bool := if d a b then true else false.
Definition nat_list_eq_dec := list_eq_dec Nat.eq_dec.
Definition Z_list_eq_dec := list_eq_dec Z.eq_dec.
Definition bool_eq_dec := Bool.bool_dec.
Definition str_list_eq_dec := list_eq_dec str_eq_dec.
Definition res_eq_dec {A} (d : forall a b : A, {a = b} + {a <> b}) : forall a b : res A, {a = b} + {a <> b}.
Proof. decide equality. apply err_eq_dec. Defined.
Definition option_eq_dec {A} (d : forall a b : A, {a = b} + {a <> b}) : forall a b : option A, {a = b} + {a <> b}.
Proof. decide equality. Defined.
Definition prod_eq_dec {A B} (da : forall a b : A, {a = b} + {a <> b}) (db : forall a b : B, {a = b} + {a <> b})
  : forall a b : A * B, {a = b} + {a <> b}.
Proof. decide equality. Defined.
