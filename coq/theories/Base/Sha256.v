(* SHA-256 (FIPS 180-4) on byte strings, N-based; used to instantiate the hash in executable
   instances of the model (keys of results and of cache files). Theorems never unfold it: they are
   stated for an arbitrary hash function under an explicit no-collision hypothesis. *)
From Coq Require Import NArith List Ascii String.
From TC Require Import PyStr.
Import ListNotations.
Local Open Scope N_scope.

Definition w32 : N := 4294967296.
Definition add32 (a b : N) : N := (a + b) mod w32.
Definition rotr (n x : N) : N := N.lor (N.shiftr x n) ((N.shiftl x (32 - n)) mod w32).
Definition shr (n x : N) : N := N.shiftr x n.
Definition not32 (x : N) : N := N.lxor x (w32 - 1).
Definition ch x y z := N.lxor (N.land x y) (N.land (not32 x) z).
Definition maj x y z := N.lxor (N.lxor (N.land x y) (N.land x z)) (N.land y z).
Definition bsig0 x := N.lxor (N.lxor (rotr 2 x) (rotr 13 x)) (rotr 22 x).
Definition bsig1 x := N.lxor (N.lxor (rotr 6 x) (rotr 11 x)) (rotr 25 x).
Definition ssig0 x := N.lxor (N.lxor (rotr 7 x) (rotr 18 x)) (shr 3 x).
Definition ssig1 x := N.lxor (N.lxor (rotr 17 x) (rotr 19 x)) (shr 10 x).
Definition K : list N := [
0x428a2f98;0x71374491;0xb5c0fbcf;0xe9b5dba5;0x3956c25b;0x59f111f1;0x923f82a4;0xab1c5ed5;
0xd807aa98;0x12835b01;0x243185be;0x550c7dc3;0x72be5d74;0x80deb1fe;0x9bdc06a7;0xc19bf174;
0xe49b69c1;0xefbe4786;0x0fc19dc6;0x240ca1cc;0x2de92c6f;0x4a7484aa;0x5cb0a9dc;0x76f988da;
0x983e5152;0xa831c66d;0xb00327c8;0xbf597fc7;0xc6e00bf3;0xd5a79147;0x06ca6351;0x14292967;
0x27b70a85;0x2e1b2138;0x4d2c6dfc;0x53380d13;0x650a7354;0x766a0abb;0x81c2c92e;0x92722c85;
0xa2bfe8a1;0xa81a664b;0xc24b8b70;0xc76c51a3;0xd192e819;0xd6990624;0xf40e3585;0x106aa070;
0x19a4c116;0x1e376c08;0x2748774c;0x34b0bcb5;0x391c0cb3;0x4ed8aa4a;0x5b9cca4f;0x682e6ff3;
0x748f82ee;0x78a5636f;0x84c87814;0x8cc70208;0x90befffa;0xa4506ceb;0xbef9a3f7;0xc67178f2].
Definition H0 : list N :=
  [0x6a09e667;0xbb67ae85;0x3c6ef372;0xa54ff53a;0x510e527f;0x9b05688c;0x1f83d9ab;0x5be0cd19].
Fixpoint be_bytes (n : nat) (x : N) : list N :=
  match n with O => [] | S k => be_bytes k (x / 256) ++ [x mod 256] end.
Definition pad (m : list N) : list N :=
  let l := N.of_nat (List.length m) in
  let k := (119 - (l mod 64)) mod 64 in
  m ++ [128] ++ repeat 0 (N.to_nat k) ++ be_bytes 8 (l * 8).
Fixpoint words (fuel : nat) (bs : list N) : list N :=
  match fuel, bs with
  | S f, a :: b :: c :: d :: r => (((a*256+b)*256+c)*256+d) :: words f r
  | _, _ => [] end.
Fixpoint chunks16 (fuel : nat) (ws : list N) : list (list N) :=
  match fuel with O => [] | S f =>
   match ws with [] => [] | _ => firstn 16 ws :: chunks16 f (skipn 16 ws) end end.
Fixpoint schedule (n : nat) (w : list N) (acc : list N) : list N :=
  match n with O => acc | S k =>
    let w16 := nth 0 w 0 in let w15 := nth 1 w 0 in let w7 := nth 9 w 0 in let w2 := nth 14 w 0 in
    let nw := add32 (add32 (ssig1 w2) w7) (add32 (ssig0 w15) w16) in
    schedule k (tl w ++ [nw]) (acc ++ [nw]) end.
Definition round (st : list N) (kw : N * N) : list N :=
  match st with
  | [a;b;c;d;e;f;g;h] =>
    let t1 := add32 (add32 (add32 h (bsig1 e)) (add32 (ch e f g) (fst kw))) (snd kw) in
    let t2 := add32 (bsig0 a) (maj a b c) in
    [add32 t1 t2; a; b; c; add32 d t1; e; f; g]
  | _ => st end.
Definition compress (st : list N) (blk : list N) : list N :=
  let w := schedule 48 blk blk in
  let st' := fold_left round (combine K w) st in
  map (fun p => add32 (fst p) (snd p)) (combine st st').
Definition sha256_words (m : list N) : list N :=
  let p := pad m in
  let ws := words (List.length p) p in
  fold_left compress (chunks16 (List.length ws) ws) H0.
Definition hexdig (n : N) : ascii := ascii_of_N (if n <? 10 then 48 + n else 87 + n).
Definition hex_byte (b : N) : str := [hexdig (b / 16); hexdig (b mod 16)].

(* hashlib.sha256(s.encode()).hexdigest() for s given by its UTF-8 bytes *)
Definition sha256_hex (s : str) : str :=
  flat_map hex_byte (flat_map (be_bytes 4) (sha256_words (map N_of_ascii s))).
