(* Python strings as lists of bytes (UTF-8), with the handful of str methods the
   modelled code uses.  Definitions only; lemmas live in Proofs/. *)
From Coq Require Import List Ascii String Bool Arith.
Import ListNotations.

Definition str := list ascii.
Definition lit (s : string) : str := list_ascii_of_string s.
Definition bytes (l : list nat) : str := map ascii_of_nat l.

Fixpoint str_eqb (a b : str) : bool :=
  match a, b with
  | [], [] => true
  | x :: a', y :: b' => Ascii.eqb x y && str_eqb a' b'
  | _, _ => false
  end.

Definition str_eq_dec : forall a b : str, {a = b} + {a <> b} := list_eq_dec ascii_dec.

(* s.startswith(p) *)
Fixpoint starts_with (p s : str) : bool :=
  match p, s with
  | [], _ => true
  | x :: p', y :: s' => Ascii.eqb x y && starts_with p' s'
  | _ :: _, [] => false
  end.

(* s.endswith(p) *)
Definition ends_with (p s : str) : bool := starts_with (rev p) (rev s).

(* c in s, for a single character *)
Fixpoint has_char (c : ascii) (s : str) : bool :=
  match s with [] => false | x :: r => Ascii.eqb x c || has_char c r end.

(* sep.join(xs) *)
Fixpoint join (sep : str) (xs : list str) : str :=
  match xs with
  | [] => []
  | [x] => x
  | x :: r => x ++ sep ++ join sep r
  end.

Definition colon : ascii := ":"%char.

(* s.split(':') : leftmost, always at least one piece *)
Fixpoint split_c_go (c : ascii) (cur_rev : str) (s : str) : list str :=
  match s with
  | [] => [rev cur_rev]
  | x :: r => if Ascii.eqb x c then rev cur_rev :: split_c_go c [] r
              else split_c_go c (x :: cur_rev) r
  end.
Definition split_c (c : ascii) (s : str) : list str := split_c_go c [] s.

(* s.split('::') : leftmost non-overlapping occurrences of the two-character separator *)
Fixpoint split_dc_go (cur_rev : str) (s : str) : list str :=
  match s with
  | [] => [rev cur_rev]
  | x :: r =>
      match r with
      | y :: r' => if Ascii.eqb x colon && Ascii.eqb y colon
                   then rev cur_rev :: split_dc_go [] r'
                   else split_dc_go (x :: cur_rev) r
      | [] => [rev (x :: cur_rev)]
      end
  end.
Definition split_dc (s : str) : list str := split_dc_go [] s.

(* xs[-1] / xs[:-1] on the (never empty) result of a split *)
Fixpoint last_str (xs : list str) : str :=
  match xs with [] => [] | [x] => x | _ :: r => last_str r end.

(* lexicographic order on bytes = Python's order on code points for UTF-8 *)
Fixpoint str_ltb (a b : str) : bool :=
  match a, b with
  | [], [] => false
  | [], _ :: _ => true
  | _ :: _, [] => false
  | x :: a', y :: b' =>
      let nx := nat_of_ascii x in let ny := nat_of_ascii y in
      if Nat.ltb nx ny then true else if Nat.ltb ny nx then false else str_ltb a' b'
  end.
Definition str_leb (a b : str) : bool := negb (str_ltb b a).

(* insertion sort, stable, on any key order *)
Section Sort.
  Context {A : Type} (leb : A -> A -> bool).
  Fixpoint insert_sorted (x : A) (l : list A) : list A :=
    match l with
    | [] => [x]
    | y :: r => if leb x y then x :: l else y :: insert_sorted x r
    end.
  Definition isort (l : list A) : list A := fold_right insert_sorted [] l.
End Sort.

(* Errors shared by all layers; Python exceptions are mapped onto this enum by the harness *)
Inductive err :=
  | ENotFound | EAmbiguous | EMissingInput | ECycle | EConflict | EMissingParam
  | EType | EDupInput | ERunArg | ERun | EResultType | ESave | ECacheKey | EOutOfFuel | EOther.
Definition res (A : Type) := (A + err)%type.
Definition err_eq_dec : forall a b : err, {a = b} + {a <> b}.
Proof. decide equality. Defined.
