(* Model of taskchain.config: Config construction (file or in-memory data, multi-config parts,
   `#part` rewriting of uses, context application, global vars, object instantiation) and
   Context preparation (dict / file / list sources, for_namespaces, nested `uses ... as ns`,
   merging).  Files are a finite map path -> parsed document supplied with the case. *)
From Coq Require Import List Ascii String Bool Arith ZArith.
From TC Require Import PyStr Value Dict Placeholder Repr.
Import ListNotations.

Definition cfgdata := list (str * value).

Definition RESERVED : list str :=
  [lit "tasks"; lit "excluded_tasks"; lit "uses"; lit "human_readable_data_name"; lit "configs";
   lit "for_namespaces"; lit "main_part"].
Definition is_reserved (k : str) : bool := existsb (str_eqb k) RESERVED.

Definition nonempty_ns (ns : option str) : option str :=
  match ns with Some ((_ :: _) as n) => Some n | _ => None end.

(* f'{outer}::{inner}' if outer else inner *)
Definition compose_ns (outer : option str) (inner : str) : str :=
  match nonempty_ns outer with Some o => o ++ lit "::" ++ inner | None => inner end.

(* Python truthiness on the value grammar *)
Definition truthy (v : value) : bool :=
  match v with
  | VNone => false | VBool b => b | VInt z => negb (Z.eqb z 0)
  | VFloat r => negb (str_eqb r (lit "0.0")) | VStr s => negb (match s with [] => true | _ => false end)
  | VRepr s _ => negb (match s with [] => true | _ => false end)
  | VList l => negb (match l with [] => true | _ => false end)
  | VDict d => negb (match d with [] => true | _ => false end)
  | _ => true
  end.

(* list_or_str_to_list restricted to what configs contain: a string or a list of strings *)
Definition str_list (v : value) : list str :=
  match v with
  | VStr s => [s]
  | VRepr s _ => [s]
  | VList l => flat_map (fun x => match x with VStr s => [s] | VRepr s _ => [s] | _ => [] end) l
  | _ => []
  end.

(* re.match of the pattern  <any> as <any>  on a use: the first group is greedy, so the LAST " as " splits *)
Fixpoint split_as_go (acc_rev : str) (s : str) (best : option (str * str)) : option (str * str) :=
  match s with
  | [] => best
  | c :: r =>
      let best' := if starts_with (lit " as ") s then Some (rev acc_rev, skipn 4 s) else best in
      split_as_go (c :: acc_rev) r best'
  end.
Definition split_as (use : str) : option (str * str) := split_as_go [] use None.

(* ---------- contexts ---------- *)
Record context := { cx_name : str; cx_ns : option str; cx_data : cfgdata; cx_for : list (str * cfgdata) }.

Definition for_of_value (v : value) : list (str * cfgdata) :=
  match v with
  | VDict kvs => map (fun kv => (fst kv, match snd kv with VDict d => d | _ => [] end)) kvs
  | _ => []
  end.
Definition value_of_for (f : list (str * cfgdata)) : value :=
  VDict (map (fun kd => (fst kd, VDict (snd kd))) f).

(* Context._prepare *)
Definition ctx_prepare (name : str) (ns : option str) (data : cfgdata) : context :=
  let for0 := match dget (lit "for_namespaces") data with Some v => for_of_value v | None => [] end in
  match ns with
  | None => {| cx_name := name; cx_ns := None; cx_data := data; cx_for := for0 |}
  | Some n =>
      let for1 := map (fun kd => (n ++ lit "::" ++ fst kd, snd kd)) for0 in
      let own := filter (fun kv => negb (is_reserved (fst kv)) || str_eqb (fst kv) (lit "uses")) data in
      {| cx_name := name; cx_ns := Some n; cx_data := []; cx_for := dset n own for1 |}
  end.

(* Context.merge_contexts *)
Definition merge_contexts (cs : list context) : context :=
  let data := fold_left (fun acc c => dupdate acc (cx_data c)) cs [] in
  let fors := fold_left (fun acc c =>
                fold_left (fun acc2 nd =>
                  dset (fst nd) (dupdate (match dget (fst nd) acc2 with Some d => d | None => [] end) (snd nd)) acc2)
                  (cx_for c) acc) cs [] in
  ctx_prepare (join (lit ";") (map cx_name cs)) None (dset (lit "for_namespaces") (value_of_for fors) data).

(* ---------- files ---------- *)
Definition files := list (str * value).

Definition basename (p : str) : str := last_str (split_c "/"%char p).
(* (path without #part, part) *)
Definition split_hash (p : str) : res (str * option str) :=
  match split_c "#"%char p with
  | [a] => inl (a, None)
  | [a; b] => inl (a, Some b)
  | _ => inr EOther
  end.
(* name of a config file: everything before the last '.', and the extension must be json/yaml *)
Definition file_name (path : str) : res str :=
  let parts := split_c "."%char (basename path) in
  let ext := last_str parts in
  if str_eqb ext (lit "json") || str_eqb ext (lit "yaml")
  then inl (join (lit ".") (removelast parts)) else inr EOther.

Definition load (fs : files) (path : str) : res cfgdata :=
  match dget path fs with
  | Some (VDict d) => inl d
  | Some _ => inr EOther
  | None => inr EOther
  end.

(* str(v) inside an f-string *)
Definition py_str (v : value) : str := match v with VStr s => s | VRepr s _ => s | _ => py_repr v end.
Definition dkey_leb0 (a b : str * value) : bool := str_leb (fst a) (fst b).
(* name of a context given as a dict: dict_context(k:v,...) over the sorted items *)
Definition dict_context_name (d : cfgdata) : str :=
  lit "dict_context(" ++ join (lit ",") (map (fun kv => fst kv ++ lit ":" ++ py_str (snd kv)) (isort dkey_leb0 d)) ++ lit ")".

(* Context.prepare_context; `gv` are the global vars (None = not given) *)
Inductive ctxsrc := CxFile (p : str) | CxDict (d : cfgdata) | CxList (l : list ctxsrc).

Definition uses_of (gv : option (list (str * str))) (v : value) : list str :=
  (* placeholders are replaced in place only when `uses` is a list *)
  match gv, v with
  | Some g, VList _ => str_list (sr (of_map g) v)
  | _, _ => str_list v
  end.

Fixpoint sequence {A} (l : list (res A)) : res (list A) :=
  match l with
  | [] => inl []
  | inl x :: r => match sequence r with inl xs => inl (x :: xs) | inr e => inr e end
  | inr e :: _ => inr e
  end.

Fixpoint prep_ctx (fuel : nat) (fs : files) (gv : option (list (str * str))) (src : ctxsrc) (ns : option str)
  : res context :=
  match fuel with
  | O => inr EOutOfFuel
  | S f =>
      let first : res context :=
        match src with
        | CxFile p =>
            match split_hash p with
            | inl (path, part) =>
                match file_name path, load fs path with
                | inl n, inl d => inl (ctx_prepare (match part with Some ((_ :: _) as p0) => n ++ lit "#" ++ p0 | _ => n end) ns d)
                | inr e, _ => inr e
                | _, inr e => inr e
                end
            | inr e => inr e
            end
        | CxDict d => inl (ctx_prepare (dict_context_name d) ns d)
        | CxList l =>
            match sequence (map (fun s => prep_ctx f fs gv s ns) l) with
            | inl cs => inl (merge_contexts cs)
            | inr e => inr e
            end
        end in
      match first with
      | inr e => inr e
      | inl c =>
          let current : cfgdata :=
            match nonempty_ns ns with
            | Some n => match dget n (cx_for c) with Some d => d | None => [] end
            | None => cx_data c
            end in
          match dget (lit "uses") current with
          | None => inl c
          | Some u =>
              let subs := map (fun use =>
                            match split_as use with
                            | Some (path, inner) => prep_ctx f fs gv (CxFile path) (Some (compose_ns (cx_ns c) inner))
                            | None => prep_ctx f fs gv (CxFile use) (nonempty_ns (cx_ns c))
                            end) (uses_of gv u) in
              let c' := match nonempty_ns ns with
                        | Some n => {| cx_name := cx_name c; cx_ns := cx_ns c; cx_data := cx_data c;
                                       cx_for := dset n (ddel (lit "uses") current) (cx_for c) |}
                        | None => {| cx_name := cx_name c; cx_ns := cx_ns c; cx_data := ddel (lit "uses") (cx_data c);
                                     cx_for := cx_for c |}
                        end in
              match sequence subs with
              | inl cs => inl (merge_contexts (c' :: cs))
              | inr e => inr e
              end
          end
      end
  end.

(* ---------- configs ---------- *)
Record config := {
  cf_file : option str;     (* _filepath, without #part *)
  cf_part : option str;
  cf_name : option str;     (* _name *)
  cf_ns : option str;
  cf_data : cfgdata;
  cf_ctx : option context }.

(* Config.name / fullname / repr_name / repr_name_without_namespace *)
Definition config_name (c : config) : res str :=
  match cf_name c with
  | None => inr EOther
  | Some n => inl (match cf_part c with Some ((_ :: _) as p) => n ++ lit "#" ++ p | _ => n end)
  end.
Definition with_ns (ns : option str) (s : str) : str :=
  match ns with Some n => n ++ lit "::" ++ s | None => s end.
Definition repr_name (c : config) : res str :=
  match cf_file c with
  | Some ((_ :: _) as f) =>
      let n := with_ns (cf_ns c) f in
      inl (match cf_part c with Some ((_ :: _) as p) => n ++ lit "#" ++ p | _ => n end)
  | _ => match config_name c with inl n => inl (with_ns (cf_ns c) n) | inr e => inr e end
  end.

(* Config._get_part and _update_uses *)
Definition get_part (part : option str) (data : cfgdata) : res (cfgdata * option str) :=
  match data with
  | [(_, VDict parts)] =>
      match part with
      | Some ((_ :: _) as p) =>
          match dget p parts with Some (VDict d) => inl (d, part) | _ => inr EOther end
      | _ =>
          match find (fun kv => match snd kv with
                                | VDict d => match dget (lit "main_part") d with Some v => truthy v | None => false end
                                | _ => false end) parts with
          | Some (name, VDict d) => inl (d, Some name)
          | _ => inr EOther
          end
      end
  | _ => inr EOther
  end.

Definition update_uses (file : option str) (data : cfgdata) : cfgdata :=
  match file, dget (lit "uses") data with
  | Some f, Some u =>
      dset (lit "uses")
           (VList (map (fun s => VStr (if starts_with (lit "#") s then f ++ s else s)) (str_list u))) data
  | _, _ => data
  end.

(* Config.apply_context *)
Definition apply_context (ns : option str) (data : cfgdata) (c : context) : cfgdata :=
  let d1 := dupdate data (cx_data c) in
  match nonempty_ns ns with
  | Some n => fold_left (fun acc nd => if str_eqb n (fst nd) then dupdate acc (snd nd) else acc) (cx_for c) d1
  | None => d1
  end.

(* find_and_instantiate_clazz for the object kinds the harness provides: a class string is
   either a plain class without repr (-> VInst) or a ParameterObject with its own repr whose text
   is its first argument (-> VUser) *)
Section Objects.
  Variable user_classes : list str.
  Fixpoint instantiate (v : value) : value :=
    match v with
    | VList l => VList (map instantiate l)
    | VDict kvs =>
        let kvs' := map (fun kv => (fst kv, instantiate (snd kv))) kvs in
        match dget (lit "class") kvs' with
        | Some (VStr c) =>
            let args := match dget (lit "args") kvs' with Some (VList a) => a | _ => [] end in
            let kwargs := match dget (lit "kwargs") kvs' with Some (VDict k) => k | _ => [] end in
            if existsb (str_eqb c) user_classes
            then match args with VStr t :: _ => VUser t | VRepr t _ :: _ => VUser t | _ => VUser [] end
            else VInst c args kwargs
        | _ => VDict kvs'
        end
    | _ => v
    end.
End Objects.

(* Config.__init__ + _prepare.  `src` is a file path (possibly with #part) or (name, data). *)
Definition mk_config (fs : files) (user_classes : list str) (gv : option (list (str * str)))
           (ctx : option context) (src : str + (str * cfgdata)) (ns : option str) : res config :=
  let loaded : res (option str * option str * option str * cfgdata) :=
    match src with
    | inl p =>
        match split_hash p with
        | inl (path, part) =>
            match file_name path, load fs path with
            | inl n, inl d => inl (Some path, part, Some n, d)
            | inr e, _ => inr e
            | _, inr e => inr e
            end
        | inr e => inr e
        end
    | inr (name, d) => inl (None, None, Some name, d)
    end in
  match loaded with
  | inr e => inr e
  | inl (file, part, name, d0) =>
      let parted : res (cfgdata * option str) :=
        match d0 with
        | _ :: _ => if dhas (lit "configs") d0
                    then match get_part part d0 with
                         | inl (d, p) => inl (update_uses file d, p)
                         | inr e => inr e end
                    else inl (d0, part)
        | [] => inl (d0, part)
        end in
      match parted with
      | inr e => inr e
      | inl (d1, part') =>
          let d2 := match ctx with Some c => apply_context ns d1 c | None => d1 end in
          let d3 := match gv with
                    | Some g => map (fun kv => (fst kv, sr (of_map g) (snd kv))) d2
                    | None => d2 end in
          let d4 := map (fun kv => (fst kv, instantiate user_classes (snd kv))) d3 in
          inl {| cf_file := file; cf_part := part'; cf_name := name; cf_ns := ns; cf_data := d4; cf_ctx := ctx |}
      end
  end.
