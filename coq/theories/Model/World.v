(* Top-level entry points of the chain model as the harness calls them, and the rendering of a
   constructed chain to a `value` for comparison with what the implementation exposes. *)
From Coq Require Import String Ascii List Bool Arith ZArith.
From TC Require Import PyStr Value Dict Placeholder Repr Param Names Config Key Chain Graph Sha256 Eval.
Import ListNotations.

Definition world_t_note := tt.
Definition world :=
  (files * list tclass * list (str * list nat) * list str * option (list (str * str)) * option ctxsrc)%type.

Definition registry := list (str * str * nat).

Definition prepared_context (w : world) : res (option context) :=
  let '(fs, _, _, _, gv, ctxs) := w in
  match ctxs with
  | None => inl None
  | Some s => match prep_ctx 32 fs gv s None with inl c => inl (Some c) | inr e => inr e end
  end.

Definition base_config (w : world) (base : str + (str * cfgdata)) : res config :=
  let '(fs, _, _, ucls, gv, _) := w in
  match prepared_context w with
  | inr e => inr e
  | inl ctx => mk_config fs ucls gv ctx base None
  end.

(* Config(...).chain() *)
Definition build (H : str -> str) (w : world) (base : str + (str * cfgdata)) (objs : list obj) (reg : registry)
  : res (rchain * list obj * registry) :=
  let '(fs, classes, imports, ucls, gv, _) := w in
  match base_config w base with
  | inr e => inr e
  | inl cfg => build_chain H fs classes imports ucls gv cfg objs reg
  end.

(* MultiChain(configs): one registry for all member chains *)
Fixpoint build_multi (H : str -> str) (w : world) (bases : list (str + (str * cfgdata)))
         (objs : list obj) (reg : registry) : res (list rchain * list obj * registry) :=
  match bases with
  | [] => inl ([], objs, reg)
  | b :: r =>
      match build H w b objs reg with
      | inr e => inr e
      | inl (rc, objs1, reg1) =>
          match build_multi H w r objs1 reg1 with
          | inl (rcs, objs2, reg2) => inl (rc :: rcs, objs2, reg2)
          | inr e => inr e
          end
      end
  end.

(* ---- the dependency graph of a chain: an arc from every input task object to its dependant ---- *)
Definition input_edge (objs : list obj) (a b : nat) : bool :=
  match nth_error objs b with
  | Some o => existsb (fun inp => match snd inp with inl k => Nat.eqb k a | inr _ => false end) (o_inputs o)
  | None => false
  end.
Definition chain_nodes (tasks : list (str * nat)) : list nat := nodup Nat.eq_dec (map snd tasks).

(* Chain.dependent_tasks / required_tasks / is_task_dependent_on on object ids *)
Definition dependent_tasks (objs : list obj) (tasks : list (str * nat)) (x : nat) (include_self : bool) : list nat :=
  (if include_self then [x] else []) ++ descendants (input_edge objs) (chain_nodes tasks) x.
Definition required_tasks (objs : list obj) (tasks : list (str * nat)) (x : nat) (include_self : bool) : list nat :=
  (if include_self then [x] else []) ++ ancestors (input_edge objs) (chain_nodes tasks) x.
Definition is_task_dependent_on (objs : list obj) (tasks : list (str * nat)) (task dependency : nat) : bool :=
  has_path (input_edge objs) (chain_nodes tasks) dependency task.

(* ---- rendering ---- *)
Definition canon_name (tasks : list (str * nat)) (id : nat) : str :=
  match isort str_leb (map fst (filter (fun t => Nat.eqb (snd t) id) tasks)) with
  | n :: _ => n
  | [] => lit "?"
  end.

Definition render_task (tasks : list (str * nat)) (objs : list obj) (t : str * nat) : value :=
  match nth_error objs (snd t) with
  | None => VStr (lit "?")
  | Some o =>
      VDict [ (lit "name", VStr (fst t));
              (lit "key", VStr (o_key o));
              (lit "params", VDict (map (fun pv => (pd_name (fst pv), fst (snd pv))) (o_params o)));
              (lit "inputs", VList (map (fun i => VList [VStr (fst i);
                                                         match snd i with
                                                         | inl j => VStr (canon_name tasks j)
                                                         | inr d => VList [d]
                                                         end]) (o_inputs o)));
              (lit "canon", VStr (canon_name tasks (snd t))) ]
  end.

Definition render_chain (rc : rchain) (objs : list obj) : value :=
  VList (map (render_task (rc_tasks rc) objs) (rc_tasks rc)).

Definition render_build (r : res (rchain * list obj * registry)) : value :=
  match r with
  | inl (rc, objs, _) => render_chain rc objs
  | inr _ => VStr (lit "error")
  end.

Definition sha_key : str -> str := sha256_hex.

(* (task name, result path, run-info path, log path) of every task of a chain, relative to the data dir *)
Definition golden_paths (w : world) (base : str + (str * cfgdata)) : option (list (str * str * str * str)) :=
  let '(_, classes, _, _, _, _) := w in
  match build sha_key w base [] [] with
  | inl (rc, objs, _) =>
      Some (flat_map (fun t => match nth_error objs (snd t) with
                               | Some o => match nth_error classes (o_cls o) with
                                           | Some tc => [(fst t, Eval.result_path tc o, Eval.info_path tc o, Eval.log_path tc o)]
                                           | None => [] end
                               | None => [] end) (rc_tasks rc))
  | inr _ => None
  end.

(* queries on a built chain: (kind, a, b, include_self) with kind 0 = dependent_tasks a, 1 = required_tasks a,
   2 = is_task_dependent_on a b; answers as sorted canonical names *)
Definition render_query (rc : rchain) (objs : list obj) (q : nat * str * str * bool) : value :=
  let '(kind, a, b, inc) := q in
  let names ids := VList (map VStr (isort str_leb (map (canon_name (rc_tasks rc)) ids))) in
  match dget a (rc_tasks rc), dget b (rc_tasks rc) with
  | Some x, Some y =>
      match kind with
      | 0 => names (dependent_tasks objs (rc_tasks rc) x inc)
      | 1 => names (required_tasks objs (rc_tasks rc) x inc)
      | _ => VBool (is_task_dependent_on objs (rc_tasks rc) x y)
      end
  | _, _ => VStr (lit "error")
  end.

Definition render_build_queries (r : res (rchain * list obj * registry)) (qs : list (nat * str * str * bool)) : value :=
  match r with
  | inl (rc, objs, _) => VList [render_chain rc objs; VList (map (render_query rc objs) qs)]
  | inr _ => VStr (lit "error")
  end.
