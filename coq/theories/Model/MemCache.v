(* InMemoryCache (taskchain/cache.py): a mapping per cache object; subcache(name) makes or returns the child cache of that
   name.  The state is the flat mapping (path of sub-cache names, key) -> value; the thread dimension is left out (one
   thread: the cache keeps a separate mapping per thread identity). Definitions only. *)
From Coq Require Import String Ascii List Bool Arith.
From TC Require Import PyStr Value.
Import ListNotations.

Definition mkey := (list str * str)%type.
Definition mkey_eq_dec : forall a b : mkey, {a = b} + {a <> b}.
Proof. decide equality; [apply str_eq_dec | apply (list_eq_dec str_eq_dec)]. Defined.
Definition mstore := list (mkey * value).

Fixpoint mget (k : mkey) (s : mstore) : option value :=
  match s with
  | [] => None
  | (k', v) :: r => if mkey_eq_dec k k' then Some v else mget k r
  end.
Fixpoint mset (k : mkey) (v : value) (s : mstore) : mstore :=
  match s with
  | [] => [(k, v)]
  | (k', v') :: r => if mkey_eq_dec k k' then (k, v) :: r else (k', v') :: mset k v r
  end.
Definition mlen (sub : list str) (s : mstore) : nat :=
  List.length (filter (fun e => if list_eq_dec str_eq_dec (fst (fst e)) sub then true else false) s).

(* comp = None: the computation raises *)
Inductive mop :=
| MGet (sub : list str) (k : str)
| MGoc (sub : list str) (k : str) (comp : option value) (force : bool)
| MLen (sub : list str).
Inductive mout :=
| MVal (v : value) (calls : nat)
| MNoValue
| MExc (calls : nat)
| MCount (n : nat).

Definition mstep (s : mstore) (o : mop) : mstore * mout :=
  match o with
  | MGet sub k => (s, match mget (sub, k) s with Some v => MVal v 0 | None => MNoValue end)
  | MLen sub => (s, MCount (mlen sub s))
  | MGoc sub k comp force =>
      match mget (sub, k) s, force with
      | Some v, false => (s, MVal v 0)
      | _, _ => match comp with
                | Some v => (mset (sub, k) v s, MVal v 1)
                | None => (s, MExc 1)
                end
      end
  end.

Fixpoint mrun (s : mstore) (ops : list mop) : list mout :=
  match ops with
  | [] => []
  | o :: r => let '(s', out) := mstep s o in out :: mrun s' r
  end.
