(* Model of taskchain.cache.FileCache / JsonCache, sequential use: one directory of files, each file
   is as its loader sees it - an intact entry recording its key, or something that does not load. *)
From Coq Require Import String Ascii List Bool Arith ZArith.
From TC Require Import PyStr Value Dict.
Import ListNotations.

Inductive centry :=
| CEntry (k : str) (v : value)    (* {"key": k, "value": v}, complete *)
| CDamaged.                       (* empty, truncated, corrupt or of another shape: load_value raises *)

Definition cfs := list (str * centry).

Record cache := { ca_dir : str; ca_allow_nones : bool; ca_checks_key : bool }.

Inductive cout :=
| CVal (v : value)
| CNoValue            (* NO_VALUE *)
| CExcCache           (* CacheException: key mismatch, or None where Nones are not allowed *)
| CExcCompute.        (* the computer raised *)

Section Cache.
  Variable H : str -> str.     (* sha256(key.encode()).hexdigest() *)

  (* FileCache.filepath *)
  Definition cpath (c : cache) (key : str) : str :=
    ca_dir c ++ lit "/" ++ firstn 5 (H key) ++ lit "/" ++ skipn 5 (H key) ++ lit ".json".

  (* FileCache.subcache(name): a new cache object of the same class, constructed with defaults *)
  Definition subcache (c : cache) (name : str) : cache :=
    {| ca_dir := ca_dir c ++ lit "/" ++ name; ca_allow_nones := true; ca_checks_key := ca_checks_key c |}.

  Definition is_none (v : value) : bool := match v with VNone => true | _ => false end.

  (* load_value on an existing file: Some outcome, or None when it raised an ordinary exception *)
  Definition load (c : cache) (key : str) (e : centry) : option cout :=
    match e with
    | CDamaged => None
    | CEntry k v =>
        if ca_checks_key c && negb (str_eqb key k) then Some CExcCache
        else if is_none v && negb (ca_allow_nones c) && ca_checks_key c then Some CExcCache
        else Some (CVal v)
    end.

  (* FileCache.get *)
  Definition cache_get (c : cache) (fs : cfs) (key : str) : cout :=
    match dget (cpath c key) fs with
    | None => CNoValue
    | Some e => match load c key e with Some o => o | None => CNoValue end
    end.

  (* FileCache.get_or_compute: (files afterwards, outcome, number of calls of the computer);
     comp = None stands for a computer that raises *)
  Definition cache_get_or_compute (c : cache) (fs : cfs) (key : str) (comp : option value) (force : bool)
    : cfs * cout * nat :=
    let compute :=
      match comp with
      | None => (fs, CExcCompute, 1)
      | Some v => if is_none v && negb (ca_allow_nones c) && ca_checks_key c then (fs, CExcCache, 1)
                  else (dset (cpath c key) (CEntry key v) fs, CVal v, 1)
      end in
    if force then compute
    else match dget (cpath c key) fs with
         | None => compute
         | Some e => match load c key e with Some o => (fs, o, 0) | None => compute end
         end.
End Cache.

(* operations of a history, each on the cache reached from the root through a list of sub-cache names *)
Inductive cop :=
| CGet (sub : list str) (key : str)
| CGetOrCompute (sub : list str) (key : str) (comp : option value) (force : bool)
| CDamage (sub : list str) (key : str)                      (* the file of `key` is truncated / corrupted *)
| CPlant (sub : list str) (key other : str) (v : value).    (* the file of `key` holds an entry recorded for `other` *)

Section Run.
  Variable H : str -> str.
  Definition descend (root : cache) (sub : list str) : cache := fold_left subcache sub root.

  Definition cstep (root : cache) (fs : cfs) (o : cop) : cfs * cout * nat :=
    match o with
    | CGet sub key => (fs, cache_get H (descend root sub) fs key, 0)
    | CGetOrCompute sub key comp force => cache_get_or_compute H (descend root sub) fs key comp force
    | CDamage sub key => (dset (cpath H (descend root sub) key) CDamaged fs, CNoValue, 0)
    | CPlant sub key other v => (dset (cpath H (descend root sub) key) (CEntry other v) fs, CNoValue, 0)
    end.

  Fixpoint crun (root : cache) (fs : cfs) (ops : list cop) : list (cout * nat) :=
    match ops with
    | [] => []
    | o :: r => let '(fs', out, n) := cstep root fs o in (out, n) :: crun root fs' r
    end.
End Run.
