(* Model of the persistence key and location: TaskParameterConfig.get_name_for_persistence,
   Task.path, FileData._path, Data.run_info_path / log_path. The hash is a parameter. *)
From Coq Require Import List Ascii String Bool Arith.
From TC Require Import PyStr Value Repr Param.
Import ListNotations.

Definition in_leb (a b : str * str) : bool := str_leb (fst a) (fst b).

(* _name[len(outer_namespace) + 2:] (the assert _name.startswith(outer_namespace) is an error) *)
Definition strip_namespace (ns : option str) (name : str) : res str :=
  match ns with
  | None => inl name
  | Some [] => inl name
  | Some n => if starts_with n name then inl (skipn (List.length n + 2) name) else inr EOther
  end.

Fixpoint sequence {A} (l : list (res A)) : res (list A) :=
  match l with
  | [] => inl []
  | inl x :: r => match sequence r with inl xs => inl (x :: xs) | inr e => inr e end
  | inr e :: _ => inr e
  end.

(* '###'.join(f'{stripped name}={key}' for name, key in sorted(input_tasks.items())) *)
Definition inputs_text (ns : option str) (inputs : list (str * str)) : res str :=
  match sequence (map (fun nk => match strip_namespace ns (fst nk) with
                                 | inl n => inl (n ++ lit "=" ++ snd nk)
                                 | inr e => inr e end) (isort in_leb inputs)) with
  | inl parts => inl (join (lit "###") parts)
  | inr e => inr e
  end.

Definition key_text (ns : option str) (ps : list (pdecl * (value * bool))) (inputs : list (str * str)) : res str :=
  match inputs_text ns inputs with
  | inl it => inl (registry_text ps ++ lit "$$$" ++ it)
  | inr e => inr e
  end.

Section Hash.
  Variable H : str -> str.     (* sha256(text.encode()).hexdigest() *)
  Definition key_of_text (t : str) : str := firstn 32 (H t).
  Definition task_key (ns : option str) (ps : list (pdecl * (value * bool))) (inputs : list (str * str)) : res str :=
    match key_text ns ps inputs with inl t => inl (key_of_text t) | inr e => inr e end.
End Hash.

(* data classes: extension of the result and whether it is a directory *)
Inductive dkind := KJson | KInMemory | KNumpy | KPandas | KFigure | KGenerated | KGeneratedLazy
                 | KListNumpy | KDir | KContinues.
Definition extension (k : dkind) : option str :=
  match k with
  | KJson => Some (lit "json") | KNumpy => Some (lit "npy") | KPandas => Some (lit "pd")
  | KFigure => Some (lit "pickle") | KGenerated | KGeneratedLazy => Some (lit "jsonl")
  | KInMemory | KListNumpy | KDir | KContinues => None
  end.

(* slugname.replace(':', '/') as path components below the data directory *)
Definition task_dir (slug : str) : list str := split_c colon slug.
Definition result_file (k : dkind) (key : str) : str :=
  match extension k with Some e => key ++ lit "." ++ e | None => key end.
(* path.stem: the file name without its last suffix *)
Definition stem (k : dkind) (key : str) : str := key.
Definition run_info_file (key : str) : str := key ++ lit ".run_info.yaml".
Definition log_file (key : str) : str := key ++ lit ".log".
