(* A resumable H5Data task (taskchain/data.py: H5Data.append_data) that appends batches of rows and commits its progress
   after each batch.  append_data(dataset, data, dataset_len): the dataset is resized to dataset_len + len(data) rows and
   the rows from dataset_len on are assigned; dataset_len = None means the current length.  Definitions only. *)
From Coq Require Import List Arith.
Import ListNotations.

Section Resume.
  Context {A : Type}.

  (* for positions up to the current length (beyond it the real dataset is padded; the task never asks for that) *)
  Definition append_at (ds data : list A) (pos : option nat) : list A :=
    match pos with Some n => firstn n ds ++ data | None => ds ++ data end.

  (* one attempt (one call of run): todo = the batches not yet committed, ds = the rows in the file, c = committed rows,
     pos = position handed to the next append, k = Some n: the process dies after the (n+1)-th append of this attempt
     reached the file and before its commit.  `always`: every append names its position (the committed rows); otherwise
     only the first append of the attempt does and later ones go to the end.  Result: the file, and the number of batches
     committed by this attempt. *)
  Fixpoint attempt (always : bool) (todo : list (list A)) (ds : list A) (c : nat) (pos : option nat) (k : option nat)
    : list A * nat :=
    match todo with
    | [] => (ds, 0)
    | b :: rest =>
        let ds' := append_at ds b pos in
        match k with
        | Some 0 => (ds', 0)
        | _ => let c' := c + length b in
               let r := attempt always rest ds' c' (if always then Some c' else None) (option_map pred k) in
               (fst r, S (snd r))
        end
    end.

  (* a history of attempts, each with its crash plan, on the batches of the task *)
  Definition rows_of (batches : list (list A)) (n : nat) : nat := length (concat (firstn n batches)).
  Fixpoint resume (always : bool) (batches : list (list A)) (done : nat) (ds : list A) (plans : list (option nat))
    : nat * list A :=
    match plans with
    | [] => (done, ds)
    | k :: more =>
        let c := rows_of batches done in
        let r := attempt always (skipn done batches) ds c (Some c) k in
        resume always batches (done + snd r) (fst r) more
    end.
End Resume.
