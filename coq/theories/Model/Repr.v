(* Value representations that enter the persistence key:
   - py_repr      : CPython repr() on the value grammar (used by AutoParameterObject.repr,
                    Path parameters and ReprStr)
   - repr_inst    : taskchain.utils.clazz.repr_from_instantiation (strings wrapped in '...'
                    WITHOUT escaping, dict items sorted, objects through their own repr)
*)
From Coq Require Import List Ascii String Bool Arith ZArith DecimalString.
From TC Require Import PyStr Value.
Import ListNotations.

Definition zrepr (z : Z) : str := lit (NilZero.string_of_int (Z.to_int z)).

Definition squote : ascii := "'"%char.
Definition dquote : ascii := ascii_of_nat 34.
Definition backslash : ascii := "\"%char.

Definition hexdigit (n : nat) : ascii :=
  ascii_of_nat (if n <? 10 then 48 + n else 87 + n).

(* one character of CPython's unicode_repr; bytes >= 128 belong to printable code points by the
   domain restriction of the harness and are copied *)
Definition repr_char (q : ascii) (c : ascii) : str :=
  let n := nat_of_ascii c in
  if Ascii.eqb c q || Ascii.eqb c backslash then [backslash; c]
  else if n =? 10 then lit "\n"
  else if n =? 13 then lit "\r"
  else if n =? 9 then lit "\t"
  else if (n <? 32) || (n =? 127) then backslash :: "x"%char :: [hexdigit (n / 16); hexdigit (n mod 16)]
  else [c].

Definition py_repr_str (s : str) : str :=
  let q := if has_char squote s && negb (has_char dquote s) then dquote else squote in
  q :: flat_map (repr_char q) s ++ [q].

Definition kv_leb (a b : str * str) : bool := str_leb (fst a) (fst b).
Definition obj_marker : str := lit "<object at 0x>".

(* repr(v) *)
Fixpoint py_repr (v : value) : str :=
  match v with
  | VNone => lit "None"
  | VBool true => lit "True"
  | VBool false => lit "False"
  | VInt z => zrepr z
  | VFloat r => r
  | VStr s => py_repr_str s
  | VRepr _ src => py_repr_str src
  | VList l => lit "[" ++ join (lit ", ") (map py_repr l) ++ lit "]"
  | VDict kvs =>
      lit "{" ++ join (lit ", ") (map (fun kv => py_repr_str (fst kv) ++ lit ": " ++ py_repr (snd kv)) kvs) ++ lit "}"
  | VAuto c args =>
      c ++ lit "(" ++ join (lit ", ") (map (fun kr => fst kr ++ lit "=" ++ snd kr)
                                          (isort kv_leb (map (fun kv => (fst kv, py_repr (snd kv))) args)))
        ++ lit ")"
  | VInst _ _ _ => obj_marker
  | VUser r => r
  end.

(* repr_from_instantiation(v) *)
Fixpoint repr_inst (v : value) : str :=
  match v with
  | VNone => lit "None"
  | VBool true => lit "True"
  | VBool false => lit "False"
  | VInt z => zrepr z
  | VFloat r => r
  | VStr s => squote :: s ++ [squote]
  | VRepr _ src => py_repr_str src
  | VList l => lit "[" ++ join (lit ", ") (map repr_inst l) ++ lit "]"
  | VDict kvs =>
      lit "{" ++ join (lit ", ") (map (fun kr => squote :: fst kr ++ [squote] ++ lit ": " ++ snd kr)
                                     (isort kv_leb (map (fun kv => (fst kv, repr_inst (snd kv))) kvs)))
        ++ lit "}"
  | VAuto _ _ => py_repr v
  | VInst c args kwargs =>
      let a := join (lit ", ") (map repr_inst args) in
      let k := join (lit ", ") (map (fun kv => fst kv ++ lit "=" ++ repr_inst (snd kv)) kwargs) in
      c ++ lit "(" ++ a ++ (match a, k with _ :: _, _ :: _ => lit ", " | _, _ => [] end) ++ k ++ lit ")"
  | VUser r => r
  end.
