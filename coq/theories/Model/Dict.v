(* Python dicts with string keys as association lists in insertion order. *)
From Coq Require Import List Ascii String Bool.
From TC Require Import PyStr.
Import ListNotations.

Section Dict.
  Context {V : Type}.
  (* d[k] = v : replace in place or append *)
  Fixpoint dset (k : str) (v : V) (d : list (str * V)) : list (str * V) :=
    match d with
    | [] => [(k, v)]
    | (k', v') :: r => if str_eqb k k' then (k, v) :: r else (k', v') :: dset k v r
    end.
  Fixpoint dget (k : str) (d : list (str * V)) : option V :=
    match d with
    | [] => None
    | (k', v) :: r => if str_eqb k k' then Some v else dget k r
    end.
  Definition dhas (k : str) (d : list (str * V)) : bool :=
    match dget k d with Some _ => true | None => false end.
  (* del d[k] *)
  Definition ddel (k : str) (d : list (str * V)) : list (str * V) :=
    filter (fun kv => negb (str_eqb k (fst kv))) d.
  (* d.update(e) *)
  Definition dupdate (d e : list (str * V)) : list (str * V) :=
    fold_left (fun acc kv => dset (fst kv) (snd kv) acc) e d.
End Dict.
