(* C05: the file-system operations by which a result is published, at the granularity at which a process
   can die between them, and what a later chain sees of each prefix.
   Names: Final = <key>[.<ext>], Tmp = <key>_tmp[.<ext>], Old = <key>_old, Err = <key>_error. *)
From Coq Require Import List Bool Arith.
Import ListNotations.

Inductive name := Final | Tmp | Old | Err.
Definition name_eqb (a b : name) : bool :=
  match a, b with Final, Final | Tmp, Tmp | Old, Old | Err, Err => true | _, _ => false end.

(* what is under a name: nothing, something partial (a truncated file, a directory being filled or
   being deleted), or the complete result of run number v *)
Inductive node := Absent | Partial | Complete (v : nat).

Definition fsys := name -> node.
Definition upd (fs : fsys) (n : name) (x : node) : fsys := fun m => if name_eqb m n then x else fs m.

Inductive op :=
| Create (n : name)            (* open(n, 'w') / mkdir: n exists, empty *)
| Fill (n : name) (v : nat)    (* the content of n becomes complete (close of the file, last file of a directory) *)
| Rename (a b : name)          (* os.rename / os.replace / shutil.move within one directory: atomic *)
| StartDelete (n : name)       (* shutil.rmtree has begun: n is half deleted *)
| EndDelete (n : name).        (* ... and is gone *)

Definition apply (fs : fsys) (o : op) : fsys :=
  match o with
  | Create n => upd fs n Partial
  | Fill n v => upd fs n (Complete v)
  | Rename a b => upd (upd fs b (fs a)) a Absent
  | StartDelete n => match fs n with Absent => fs | _ => upd fs n Partial end
  | EndDelete n => upd fs n Absent
  end.

Definition run (fs : fsys) (ops : list op) : fsys := fold_left apply ops fs.

(* a crash keeps a prefix of the operations *)
Definition crash (fs : fsys) (ops : list op) (k : nat) : fsys := run fs (firstn k ops).

(* save() of a file result: write aside, one rename *)
Definition save_file (v : nat) : list op := [Create Tmp; Fill Tmp v; Rename Tmp Final].

(* _replace_dir(tmp, final): an existing result is renamed aside before the new one takes its place *)
Definition replace_dir (fs : fsys) : list op :=
  (match fs Old with Absent => [] | _ => [StartDelete Old; EndDelete Old] end) ++
  (match fs Final with Absent => [] | _ => [Rename Final Old] end) ++
  [Rename Tmp Final] ++
  (match fs Final with Absent => [] | _ => [StartDelete Old; EndDelete Old] end).

(* a directory result: the work directory is (re)created and filled by run, then published *)
Definition save_dir (fs : fsys) (v : nat) : list op :=
  (match fs Tmp with Absent => [] | _ => [StartDelete Tmp; EndDelete Tmp] end) ++
  [Create Tmp; Fill Tmp v] ++
  replace_dir (upd fs Tmp (Complete v)).

(* a failed run of a directory-producing task: the work directory is set aside *)
Definition on_run_error_dir (fs : fsys) : list op :=
  (match fs Err with Absent => [] | _ => [StartDelete Err; EndDelete Err] end) ++ [Rename Tmp Err].

(* what a later chain does: the result is visible iff something is under the final name *)
Definition visible (fs : fsys) : bool := match fs Final with Absent => false | _ => true end.

(* ContinuesData keeps a work directory left by an earlier attempt (that is its purpose) *)
Definition save_cont (fs : fsys) (v : nat) : list op :=
  (match fs Tmp with Absent => [Create Tmp] | _ => [] end) ++ [Fill Tmp v] ++ replace_dir (upd fs Tmp (Complete v)).

Inductive kind := KFile | KDir | KCont.
Definition trace_of (k : kind) (fs : fsys) (v : nat) : list op :=
  match k with KFile => save_file v | KDir => save_dir fs v | KCont => save_cont fs v end.

Definition op_eqb (a b : op) : bool :=
  match a, b with
  | Create n, Create m | StartDelete n, StartDelete m | EndDelete n, EndDelete m => name_eqb n m
  | Fill n v, Fill m w => name_eqb n m && Nat.eqb v w
  | Rename a1 b1, Rename a2 b2 => name_eqb a1 a2 && name_eqb b1 b2
  | _, _ => false
  end.
Fixpoint ops_eqb (a b : list op) : bool :=
  match a, b with
  | [], [] => true
  | x :: a', y :: b' => op_eqb x y && ops_eqb a' b'
  | _, _ => false
  end.

(* the state of the four names before the computation, as the harness sets it up *)
Definition start (final tmp old : bool) : fsys :=
  fun n => match n with
           | Final => if final then Complete 1 else Absent
           | Tmp => if tmp then Partial else Absent
           | Old => if old then Partial else Absent
           | Err => Absent
           end.
Definition observed_trace (x : kind * (bool * (bool * bool))) : list op :=
  let '(k, (f, (t, o))) := x in trace_of k (start f t o) 2.

(* what the code did before the repair recorded as F6: the file is written under its final name *)
Definition save_in_place (v : nat) : list op := [Create Final; Fill Final v].
