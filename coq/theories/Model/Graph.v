(* Reachability over a finite directed graph given by a boolean edge relation on node numbers:
   the model of nx.descendants / nx.ancestors / nx.has_path used by Chain.dependent_tasks,
   required_tasks, is_task_dependent_on and Chain.force. *)
From Coq Require Import List Bool Arith.
Import ListNotations.

Section Reach.
  Variable edge : nat -> nat -> bool.       (* edge a b : there is an arc a -> b *)
  Variable nodes : list nat.

  Definition mem (x : nat) (l : list nat) : bool := existsb (Nat.eqb x) l.

  (* nodes not yet collected that have an arc from a collected node *)
  Definition frontier (acc : list nat) : list nat :=
    filter (fun i => negb (mem i acc) && existsb (fun a => edge a i) acc) nodes.

  Fixpoint reach (fuel : nat) (acc : list nat) : list nat :=
    match fuel with
    | O => acc
    | S f => match frontier acc with
             | [] => acc
             | next => reach f (acc ++ next)
             end
    end.

  (* everything reachable from the roots, roots included *)
  Definition closure_from (roots : list nat) : list nat := reach (S (length nodes)) roots.
End Reach.

(* descendants / ancestors of one node, the node itself excluded (as networkx does) *)
Definition descendants (edge : nat -> nat -> bool) (nodes : list nat) (x : nat) : list nat :=
  filter (fun i => negb (Nat.eqb i x)) (closure_from edge nodes [x]).
Definition ancestors (edge : nat -> nat -> bool) (nodes : list nat) (x : nat) : list nat :=
  descendants (fun a b => edge b a) nodes x.
Definition has_path (edge : nat -> nat -> bool) (nodes : list nat) (a b : nat) : bool :=
  mem b (closure_from edge nodes [a]).
