(* Model of taskchain.cache.cached (the decorator): normalisation of a call to a full keyword
   binding, the cache key, and the control keywords over a dictionary-like cache.
   The key text is json.dumps(binding, sort_keys=True); the model's key is the value that text
   denotes (dict sorted by key at every depth), json.dumps/loads being trusted. *)
From Coq Require Import List Ascii String Bool Arith ZArith.
From TC Require Import PyStr Value Dict.
Import ListNotations.

Inductive pkind := PosOrKw | KwOnly.
Record param := { p_name : str; p_kind : pkind; p_default : option value }.

(* the loop over signature(method).parameters (self already skipped; i counts from 0) *)
Fixpoint bind_go (sig : list param) (i : nat) (args : list value) (kw : list (str * value))
  : list (str * value) :=
  match sig with
  | [] => kw
  | p :: rest =>
      let kw1 := match nth_error args i with Some a => dset (p_name p) a kw | None => kw end in
      let kw2 := match p_default p with
                 | Some d => if dhas (p_name p) kw1 then kw1 else dset (p_name p) d kw1
                 | None => kw1
                 end in
      bind_go rest (S i) args kw2
  end.
Definition bind_cached (sig : list param) (args : list value) (kwargs : list (str * value))
  : list (str * value) := bind_go sig 0 args kwargs.

(* sort_keys=True at every depth *)
Definition key_leb (a b : str * value) : bool := str_leb (fst a) (fst b).
Fixpoint canon (v : value) : value :=
  match v with
  | VList l => VList (map canon l)
  | VDict kvs => VDict (isort key_leb (map (fun kv => (fst kv, canon (snd kv))) kvs))
  | _ => v
  end.

Definition is_ignored (ignore : list str) (k : str) : bool := existsb (str_eqb k) ignore.
Definition cache_key (ignore : list str) (binding : list (str * value)) : value :=
  canon (VDict (filter (fun kv => negb (is_ignored ignore (fst kv))) binding)).

(* the sub-cache an object's own cache uses for a method and version *)
Definition subcache_name (method : str) (version : option str) : str :=
  match version with Some v => method ++ lit "." ++ v | None => method end.

(* the name a method goes by there: its own name, or - when the name is defined more than once in the classes of the
   object (an overriding method and the one it overrides) - the qualified name <class>.<method> *)
Definition method_id (cls name : str) (defined_more_than_once : bool) : str :=
  if defined_more_than_once then cls ++ lit "." ++ name else name.

(* ---- control keywords over a dictionary cache ---- *)
Record call := { c_args : list value; c_kwargs : list (str * value);
                 c_force : bool; c_only : bool; c_store : option value }.

Fixpoint kget (k : value) (m : list (value * value)) : option value :=
  match m with
  | [] => None
  | (k', v) :: r => if value_eqb k k' then Some v else kget k r
  end.
Fixpoint kset (k : value) (v : value) (m : list (value * value)) : list (value * value) :=
  match m with
  | [] => [(k, v)]
  | (k', v') :: r => if value_eqb k k' then (k, v) :: r else (k', v') :: kset k v r
  end.

Record cstate := { entries : list (value * value); executions : nat }.

(* the method body is abstracted to a function of the full binding and of how many times the
   body ran before (so that a recomputation is distinguishable from a cached value) *)
Section Step.
  Variable body : list (str * value) -> nat -> value.
  Variable sig : list param.
  Variable ignore : list str.

  (* result: None stands for NO_VALUE *)
  Definition cached_step (st : cstate) (c : call) : cstate * option value :=
    let binding := bind_cached sig (c_args c) (c_kwargs c) in
    let key := cache_key ignore binding in
    if c_only c then (st, kget key (entries st))
    else
      match kget key (entries st), c_force c with
      | Some v, false => (st, Some v)
      | _, _ =>
          match c_store c with
          | Some v => ({| entries := kset key v (entries st); executions := executions st |}, Some v)
          | None =>
              let v := body binding (executions st) in
              ({| entries := kset key v (entries st); executions := S (executions st) |}, Some v)
          end
      end.

  Fixpoint cached_run (st : cstate) (cs : list call) : cstate * list (option value) :=
    match cs with
    | [] => (st, [])
    | c :: r => let '(st1, o) := cached_step st c in
                let '(st2, os) := cached_run st1 r in (st2, o :: os)
    end.
End Step.

(* ---- several methods / versions over the object's own cache ---- *)
Record method := { m_name : str; m_version : option str; m_sig : list param; m_ignore : list str }.

Fixpoint sget (k : str) (m : list (str * list (value * value))) : list (value * value) :=
  match m with
  | [] => []
  | (k', v) :: r => if str_eqb k k' then v else sget k r
  end.
Fixpoint sset (k : str) (v : list (value * value)) (m : list (str * list (value * value))) :=
  match m with
  | [] => [(k, v)]
  | (k', v') :: r => if str_eqb k k' then (k, v) :: r else (k', v') :: sset k v r
  end.

Section Multi.
  (* body of method number i on a binding *)
  Variable mbody : nat -> list (str * value) -> value.
  Variable methods : list method.

  Definition multi_step (st : list (str * list (value * value))) (c : nat * list value * list (str * value))
    : list (str * list (value * value)) * option value :=
    let '(i, args, kwargs) := c in
    match nth_error methods i with
    | None => (st, None)
    | Some m =>
        let sub := subcache_name (m_name m) (m_version m) in
        let binding := bind_cached (m_sig m) args kwargs in
        let key := cache_key (m_ignore m) binding in
        match kget key (sget sub st) with
        | Some v => (st, Some v)
        | None => let v := mbody i binding in (sset sub (kset key v (sget sub st)) st, Some v)
        end
    end.

  Fixpoint multi_run (st : list (str * list (value * value))) (cs : list (nat * list value * list (str * value)))
    : list (option value) :=
    match cs with
    | [] => []
    | c :: r => let '(st1, o) := multi_step st c in o :: multi_run st1 r
    end.
End Multi.
