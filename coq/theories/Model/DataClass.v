(* taskchain's own logic around the third-party serializers (orjson, numpy, pandas/pickle):
   the json-lines framing of GeneratedData, the `value is None` guard of Data.value, and the numeric
   ordering of the files of ListOfNumpyData. *)
From Coq Require Import String Ascii List Bool Arith ZArith.
From TC Require Import PyStr Value.
Import ListNotations.

Definition nl : ascii := ascii_of_nat 10.

(* utils/io.write_jsons: f.write(dumps(j) + '\n') for every item *)
Definition write_jsonl (items : list str) : str := flat_map (fun s => s ++ [nl]) items.

(* iterating a text file: rows end with '\n' (the last one possibly without) *)
Fixpoint lines_go (cur_rev : str) (s : str) : list str :=
  match s with
  | [] => match cur_rev with [] => [] | _ => [rev cur_rev] end
  | c :: r => if Ascii.eqb c nl then rev (c :: cur_rev) :: lines_go [] r else lines_go (c :: cur_rev) r
  end.
Definition file_rows (text : str) : list str := lines_go [] text.

(* str.strip(): whitespace off both ends *)
Definition is_space (c : ascii) : bool :=
  let n := nat_of_ascii c in (n =? 32) || ((9 <=? n) && (n <=? 13)) || ((28 <=? n) && (n <=? 31)).
Fixpoint lstrip (s : str) : str := match s with c :: r => if is_space c then lstrip r else s | [] => [] end.
Definition strip (s : str) : str := rev (lstrip (rev (lstrip s))).

(* utils/io.iter_json_file: loads(row.strip()) for every row; here: the stripped rows *)
Definition read_jsonl (text : str) : list str := map strip (file_rows text).

(* Data.value: raises only when nothing is set, i.e. when _value is None *)
Definition data_value (v : value) : res value := match v with VNone => inr EOther | _ => inl v end.

(* ListOfNumpyData.load: sorted(glob('*.npy'), key=lambda f: int(f.name.split('.')[0])) *)
Section Numbered.
  Variable num : str -> nat.     (* int(name.split('.')[0]) *)
  Definition by_number (a b : str) : bool := num a <=? num b.
  Definition load_order (listing : list str) : list str := isort by_number listing.
End Numbered.
