(* Model of taskchain.task._find_task_full_name (after the C10 repair: priority is decided on
   name components, not by textual endswith). Full names are kept as text because the code
   works on text; the component view used by the specification is in Proofs/NamesProofs.v. *)
From Coq Require Import List Ascii String Bool Arith.
From TC Require Import PyStr.
Import ListNotations.

Definition dcolon : str := lit "::".

(* '::'.join(name.split('::')[:-1]) *)
Definition ns_text (f : str) : str := join dcolon (removelast (split_dc f)).
(* name.split('::')[-1] *)
Definition local_part (f : str) : str := last_str (split_dc f).

Definition is_empty (s : str) : bool := match s with [] => true | _ => false end.

Definition task_name_match (determine_namespace : bool) (name fullname : str) : bool :=
  let namespace := ns_text name in
  let fullnamespace := ns_text fullname in
  if (negb (is_empty namespace) || negb determine_namespace) && negb (str_eqb fullnamespace namespace)
  then false
  else
    let n := local_part name in
    let fn := local_part fullname in
    if str_eqb fn n then true
    else if has_char colon fn && negb (has_char colon n)
         then str_eqb (last_str (split_c colon fn)) n
         else false.

(* other[len(other) - len(cand):] == cand *)
Fixpoint list_str_eqb (a b : list str) : bool :=
  match a, b with
  | [], [] => true
  | x :: a', y :: b' => str_eqb x y && list_str_eqb a' b'
  | _, _ => false
  end.
Definition py_tail_eq (cand other : list str) : bool :=
  list_str_eqb (skipn (List.length other - List.length cand) other) cand.

(* _is_less_nested(cand, other) *)
Definition is_less_nested (cand other : str) : bool :=
  py_tail_eq (removelast (split_dc cand)) (removelast (split_dc other))
  && py_tail_eq (split_c colon (local_part cand)) (split_c colon (local_part other)).

Definition find_task_full_name (determine_namespace : bool) (task_name : str) (tasks : list str) : res str :=
  let matching := filter (task_name_match determine_namespace task_name) tasks in
  match matching with
  | [] => inr ENotFound
  | [m] => inl m
  | _ => match find (fun cand => forallb (is_less_nested cand) matching) matching with
         | Some cand => inl cand
         | None => inr EAmbiguous
         end
  end.
