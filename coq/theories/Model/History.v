(* Histories over one data directory: chain constructions, value requests, forcing, inspection,
   process restarts and fault injection.  One `step` per public operation. *)
From Coq Require Import String Ascii List Bool Arith ZArith.
From TC Require Import PyStr Value Dict Repr Param Names Config Key Chain Graph World Eval.
Import ListNotations.

Inductive op :=
| OBuild (base : str + (str * cfgdata))
| OBuildMulti (bases : list (str + (str * cfgdata)))
| OValue (chain : nat) (name : str)
| OForceTask (chain : nat) (name : str) (delete : bool)
| OForceChain (chain : nat) (names : list str) (recompute delete : bool)
| OHasData (chain : nat) (name : str)
| OForceMulti (chains : list nat) (names : list str) (recompute delete : bool)   (* MultiChain.force *)
| OInfo (chain : nat) (name : str)              (* task.run_info and task.log *)
| OFlags (chain : nat)                          (* is_forced and has_data of every task of a chain *)
| ORestart
| OSetFail (slugs : list str)
| OReset (chain : nat) (name : str).          (* task.reset_data(): the value held in memory is dropped *)

Record hstate := {
  h_world : Eval.world;
  h_chains : list (list (str * nat)) }.     (* chains of the current process: full name -> object id *)

Definition empty_world : Eval.world :=
  {| w_store := []; w_objs := []; w_states := []; w_runlog := []; w_fail := [] |}.
Definition init : hstate := {| h_world := empty_world; h_chains := [] |}.

Section History.
  Variable H : str -> str.
  Variable wd : World.world.
  Variable run : nat -> list (str * str) -> list (str * value) -> value.

  Definition classes_of_world : list tclass := let '(_, classes, _, _, _, _) := wd in classes.

  Definition fresh_states (n : nat) : list ostate := repeat {| os_mem := None; os_forced := false |} n.

  Definition with_objs (objs : list obj) (w : Eval.world) : Eval.world :=
    {| w_store := w_store w; w_objs := objs;
       w_states := w_states w ++ fresh_states (List.length objs - List.length (w_states w));
       w_runlog := w_runlog w; w_fail := w_fail w |}.

  Definition oid_of (h : hstate) (chain : nat) (name : str) : option nat :=
    match nth_error (h_chains h) chain with Some c => dget name c | None => None end.

  Definition depth (h : hstate) : nat := S (List.length (w_objs (h_world h))).

  Definition chain_ids (c : list (str * nat)) : list nat := nodup Nat.eq_dec (map snd c).

  Definition force_obj (delete : bool) (w : Eval.world) (id : nat) : Eval.world :=
    match nth_error (w_objs w) id with
    | None => w
    | Some o =>
        match cls_of classes_of_world o with
        | None => w
        | Some tc =>
            let s := state_of w id in
            let w1 :=
              if delete then
                (* _data_without_value: a data object is created (task directory) unless one is held *)
                let st0 := match os_mem s with Some _ => w_store w | None => mkdirs (dir_of_slug (c_slug tc)) (w_store w) end in
                let final := result_path tc o in
                with_store (if persisting (c_data tc) && dhas final st0 then ddel final st0 else st0) w
              else w in
            set_state id {| os_mem := None; os_forced := true |} w1
        end
    end.

  (* Chain.force(names, recompute, delete_data) on the chain c *)
  Definition force_chain (h : hstate) (w : Eval.world) (c : list (str * nat)) (names : list str) (recompute delete : bool)
    : Eval.world :=
    let roots := flat_map (fun n => match dget n c with Some i => [i] | None => [] end) names in
    let forced := closure_from (input_edge (w_objs w)) (chain_ids c) (nodup Nat.eq_dec roots) in
    let w1 := fold_left (force_obj delete) forced w in
    if recompute
    then fold_left (fun wa i => fst (eval classes_of_world run (depth h) wa i)) forced w1
    else w1.

  Definition listing (st : store) : value :=
    VList (map (fun e => VStr (fst e ++ match snd e with FDir => lit "/" | _ => [] end))
               (isort (fun a b => str_leb (fst a) (fst b)) st)).

  Definition ok (v : value) : value := VList [VStr (lit "ok"); v].
  Definition err : value := VStr (lit "error").

  Definition step (h : hstate) (o : op) : hstate * value :=
    let w := h_world h in
    match o with
    | OBuild base =>
        match build H wd base (w_objs w) [] with
        | inl (rc, objs, _) =>
            ({| h_world := with_objs objs w; h_chains := h_chains h ++ [rc_tasks rc] |}, ok (render_chain rc objs))
        | inr _ => ({| h_world := w; h_chains := h_chains h ++ [[]] |}, err)   (* the slot of a failed construction *)
        end
    | OBuildMulti bases =>
        match build_multi H wd bases (w_objs w) [] with
        | inl (rcs, objs, _) =>
            ({| h_world := with_objs objs w; h_chains := h_chains h ++ map rc_tasks rcs |},
             ok (VList (map (fun rc => render_chain rc objs) rcs)))
        | inr _ => ({| h_world := w; h_chains := h_chains h ++ map (fun _ => []) bases |}, err)
        end
    | OValue chain name =>
        match oid_of h chain name with
        | None => (h, err)
        | Some id =>
            match eval classes_of_world run (depth h) w id with
            | (w', inl v) => ({| h_world := w'; h_chains := h_chains h |}, ok v)
            | (w', inr _) => ({| h_world := w'; h_chains := h_chains h |}, err)
            end
        end
    | OForceTask chain name delete =>
        match oid_of h chain name with
        | None => (h, err)
        | Some id => ({| h_world := force_obj delete w id; h_chains := h_chains h |}, ok VNone)
        end
    | OForceChain chain names recompute delete =>
        match nth_error (h_chains h) chain with
        | None => (h, err)
        | Some c => ({| h_world := force_chain h w c names recompute delete; h_chains := h_chains h |}, ok VNone)
        end
    | OForceMulti chains names recompute delete =>
        (* chain after chain; a member that does not know a named task raises and stops the fan-out *)
        let '(w', good) :=
          fold_left (fun (acc : Eval.world * bool) ci =>
                       let '(wa, good) := acc in
                       if good then
                         match nth_error (h_chains h) ci with
                         | Some c => if forallb (fun n => dhas n c) names
                                     then (force_chain h wa c names recompute delete, true)
                                     else (wa, false)
                         | None => (wa, false)
                         end
                       else (wa, false)) chains (w, true) in
        ({| h_world := w'; h_chains := h_chains h |}, if good then ok VNone else err)
    | OHasData chain name =>
        match oid_of h chain name with
        | None => (h, err)
        | Some id =>
            match nth_error (w_objs w) id with
            | None => (h, err)
            | Some ob =>
                match cls_of classes_of_world ob with
                | None => (h, err)
                | Some tc =>
                    if persisting (c_data tc) then
                      let st0 := match os_mem (state_of w id) with
                                 | Some _ => w_store w
                                 | None => mkdirs (dir_of_slug (c_slug tc)) (w_store w) end in
                      ({| h_world := with_store st0 w; h_chains := h_chains h |},
                       ok (VBool (dhas (result_path tc ob) st0)))
                    else (h, ok (VBool false))
                end
            end
        end
    | OInfo chain name =>
        match oid_of h chain name with
        | None => (h, err)
        | Some id =>
            match nth_error (w_objs w) id with
            | None => (h, err)
            | Some ob =>
                match cls_of classes_of_world ob with
                | None => (h, err)
                | Some tc =>
                    let st0 := match os_mem (state_of w id) with
                               | Some _ => w_store w
                               | None => mkdirs (dir_of_slug (c_slug tc)) (w_store w) end in
                    ({| h_world := with_store st0 w; h_chains := h_chains h |},
                     ok (VList [ match dget (info_path tc ob) st0 with Some (FInfo v) => v | _ => VNone end;
                                 match dget (log_path tc ob) st0 with Some (FLog l) => VList (map VStr l) | _ => VNone end ]))
                end
            end
        end
    | OFlags chain =>
        match nth_error (h_chains h) chain with
        | None => (h, err)
        | Some c =>
            let visit (acc : Eval.world * list value) (t : str * nat) :=
              let '(wa, out) := acc in
              match nth_error (w_objs wa) (snd t) with
              | None => (wa, out)
              | Some ob =>
                  match cls_of classes_of_world ob with
                  | None => (wa, out)
                  | Some tc =>
                      let forced := os_forced (state_of wa (snd t)) in
                      if persisting (c_data tc) then
                        let st0 := match os_mem (state_of wa (snd t)) with
                                   | Some _ => w_store wa
                                   | None => mkdirs (dir_of_slug (c_slug tc)) (w_store wa) end in
                        (with_store st0 wa,
                         out ++ [VList [VStr (fst t); VBool forced; VBool (dhas (result_path tc ob) st0)]])
                      else (wa, out ++ [VList [VStr (fst t); VBool forced; VBool false]])
                  end
              end in
            let '(w', out) := fold_left visit c (w, []) in
            ({| h_world := w'; h_chains := h_chains h |}, ok (VList out))
        end
    | ORestart =>
        ({| h_world := {| w_store := w_store w; w_objs := []; w_states := []; w_runlog := w_runlog w;
                          w_fail := w_fail w |}; h_chains := [] |}, ok VNone)
    | OSetFail slugs =>
        ({| h_world := {| w_store := w_store w; w_objs := w_objs w; w_states := w_states w;
                          w_runlog := w_runlog w; w_fail := slugs |}; h_chains := h_chains h |}, ok VNone)
    | OReset chain name =>
        match oid_of h chain name with
        | None => (h, err)
        | Some id =>
            ({| h_world := set_state id {| os_mem := None; os_forced := os_forced (state_of w id) |} w;
                h_chains := h_chains h |}, ok VNone)
        end
    end.

  (* per operation: the outcome, the runs it started, the listing of the data directory after it *)
  Fixpoint run_history (h : hstate) (ops : list op) : list value :=
    match ops with
    | [] => []
    | o :: r =>
        let '(h', out) := step h o in
        let before := List.length (w_runlog (h_world h)) in
        let delta := skipn before (w_runlog (h_world h')) in
        VDict [ (lit "out", out);
                (lit "runs", VList (map VStr
                   (let rs := map (fun sk => fst sk ++ lit "#" ++ snd sk) delta in
                    match o with OForceChain _ _ _ _ | OForceMulti _ _ _ _ => isort str_leb rs | _ => rs end)));
                (lit "files", listing (w_store (h_world h'))) ] :: run_history h' r
    end.
End History.

(* the provenance term returned by the generated run() methods *)
Definition provenance_run (classes : list tclass) (i : nat) (ps : list (str * str)) (ins : list (str * value))
  : value :=
  VDict [ (lit "i", VList (map (fun iv => VList [VStr (local_part (fst iv)); snd iv]) ins));
          (lit "p", VDict (map (fun p => (fst p, VStr (snd p))) ps));
          (lit "t", VStr (match nth_error classes i with Some c => c_slug c | None => [] end)) ].
