(* Model of taskchain.utils.migration.migrate_to_parameter_mode: the name-mode chain of a config (results
   stored under the config name), the parameter-mode chain of the same config on the target directory
   (results stored under the key), and the copy loop between the two data directories. *)
From Coq Require Import String Ascii List Bool Arith ZArith.
From TC Require Import PyStr Value Dict Repr Param Names Config Key Chain World Eval.
Import ListNotations.

(* Config.repr_name_without_namespace: repr_name.split('::')[-1] *)
Definition repr_name_wo_ns (c : config) : res str :=
  match repr_name c with inl rn => inl (last_str (split_dc rn)) | inr e => inr e end.

Record old_task := { ot_fullname : str; ot_slug : str; ot_cfgname : str; ot_kind : dkind }.

Section NameMode.
  Variable classes : list tclass.
  Variable imports : list (str * list nat).

  (* Chain(config, parameter_mode=False): tasks are configured by the plain configs; one task object per
     (task name, config file) - the registry of _create_task - whatever the namespace *)
  Definition name_mode_tasks (cfgs : list (str * config)) : res (list old_task) :=
    let folded :=
    fold_left
      (fun (racc : res (list (str * str * old_task))) (rc : str * config) =>
         match racc with
         | inr e => inr e
         | inl acc =>
             let c := snd rc in
             match collect_classes imports (lit "excluded_tasks") (cf_data c),
                   collect_classes imports (lit "tasks") (cf_data c), repr_name_wo_ns c, config_name c with
             | inl excluded, inl listed, inl rnw, inl cname =>
                 fold_left
                   (fun (racc2 : res (list (str * str * old_task))) k =>
                      match racc2 with
                      | inr e => inr e
                      | inl acc2 =>
                          match cls classes k with
                          | inr e => inr e
                          | inl tc =>
                              if c_abstract tc || existsb (Nat.eqb k) excluded then inl acc2
                              else
                                match set_values (c_params tc) (cf_data c) with
                                | inr e => inr e
                                | inl _ =>
                                    if existsb (fun e => str_eqb (fst (fst e)) (c_slug tc) && str_eqb (snd (fst e)) rnw) acc2
                                    then inl acc2      (* the registered object is reused *)
                                    else inl (acc2 ++ [(c_slug tc, rnw,
                                                        {| ot_fullname := full_name (c_slug tc) (cf_ns c); ot_slug := c_slug tc;
                                                           ot_cfgname := cname; ot_kind := c_data tc |})])
                                end
                          end
                      end) listed (inl acc)
             | inr e, _, _, _ => inr e
             | _, inr e, _, _ => inr e
             | _, _, inr e, _ => inr e
             | _, _, _, inr e => inr e
             end
         end) cfgs (inl []) in
    match folded with inl l => inl (map snd l) | inr e => inr e end.
End NameMode.

(* ---------- the copy loop ---------- *)
Record mig_task := { m_persisting : bool; m_dir : str; m_src : str; m_dst : str }.

Definition exists_in (p : str) (st : store) : bool := dhas p st.

(* one iteration of the loop over old_chain: old_task.has_data and new_task.has_data instantiate data
   objects (which creates the task directory), the copy goes to the new location unless it exists *)
Definition migrate_one (dry : bool) (acc : store * store) (t : mig_task) : store * store :=
  let '(src, dst) := acc in
  if negb (m_persisting t) then (src, dst)
  else
    let src1 := mkdirs (m_dir t) src in
    match dget (m_src t) src1 with
    | None => (src1, dst)
    | Some content =>
        let dst1 := mkdirs (m_dir t) dst in
        if dhas (m_dst t) dst1 then (src1, dst1)
        else if dry then (src1, dst1)
        else (src1, dset (m_dst t) content dst1)
    end.

Definition migrate (dry : bool) (src dst : store) (ts : list mig_task) : store * store :=
  fold_left (migrate_one dry) ts (src, dst).

(* pairing of the two chains: the name-mode task and the task the parameter-mode chain knows under the same
   name (new_chain.tasks[name] - a task object shared by several namespaces is found under each of its names);
   a name without counterpart is an error *)
Definition pair_tasks (olds : list old_task) (rc : rchain) (objs : list obj) (classes : list tclass)
  : res (list mig_task) :=
  sequence (map (fun ot =>
    match find (fun t => str_eqb (fst t) (ot_fullname ot)) (rc_tasks rc) with
    | None => inr ENotFound
    | Some t =>
        match nth_error objs (snd t) with
        | None => inr EOther
        | Some o =>
            match nth_error classes (o_cls o) with
            | None => inr EOther
            | Some tc =>
                inl {| m_persisting := persisting (ot_kind ot); m_dir := dir_of_slug (ot_slug ot);
                       m_src := dir_of_slug (ot_slug ot) ++ lit "/" ++ result_file (ot_kind ot) (ot_cfgname ot);
                       m_dst := result_path tc o |}
            end
        end
    end) olds).

(* migrate_to_parameter_mode(config, target_dir, dry): (source store, target store) afterwards *)
Definition migrate_config (H : str -> str) (w : World.world) (base : str + (str * cfgdata)) (dry : bool)
           (src dst : store) : res (store * store) :=
  let '(fs, classes, imports, ucls, gv, _) := w in
  match base_config w base with
  | inr e => inr e
  | inl cfg =>
      match process_config fs ucls gv 64 cfg [] with
      | inr e => inr e
      | inl cfgs =>
          match name_mode_tasks classes imports cfgs, build H w base [] [] with
          | inl olds, inl (rc, objs, _) =>
              match pair_tasks olds rc objs classes with
              | inl ts => inl (migrate dry src dst ts)
              | inr e => inr e
              end
          | inr e, _ => inr e
          | _, inr e => inr e
          end
      end
  end.
