(* Model of taskchain.utils.iter.chunked and of both parallel_map functions
   (utils/threading.py with chunks, utils/iter.py without).
   The scheduler is abstracted to what the code can observe of it: the order in which
   the futures of one chunk complete. *)
From Coq Require Import List Arith Bool.
From TC Require Import PyStr.
Import ListNotations.

Section Par.
  Context {A B E : Type}.

  (* chunked(iterable, chunksize): mirrors the loop, including chunksize = 0 (never flushes) *)
  Fixpoint chunked_go (n : nat) (cur_rev : list A) (size : nat) (xs : list A) : list (list A) :=
    match xs with
    | [] => if size =? 0 then [] else [rev cur_rev]
    | x :: r =>
        if S size =? n then rev (x :: cur_rev) :: chunked_go n [] 0 r
        else chunked_go n (x :: cur_rev) (S size) r
    end.
  Definition chunked (n : nat) (xs : list A) : list (list A) := chunked_go n [] 0 xs.

  (* sorted(result, key=lambda ires: ires[0]) *)
  Definition by_index (a b : nat * B) : bool := fst a <=? fst b.
  Definition collect (sort : bool) (done : list (nat * B)) : list B :=
    map snd (if sort then isort by_index done else done).

  (* enumerate(chunk) run through _fun: (i, fun(arg)) *)
  Definition tagged (f : A -> B) (chunk : list A) : list (nat * B) :=
    combine (seq 0 (length chunk)) (map f chunk).

  (* a completion order given as a list of positions *)
  Definition reorder {X} (order : list nat) (l : list X) : list X :=
    flat_map (fun i => match nth_error l i with Some x => [x] | None => [] end) order.

  Fixpoint zip_with {X Y Z} (g : X -> Y -> Z) (xs : list X) (ys : list Y) : list Z :=
    match xs, ys with
    | x :: xs', y :: ys' => g x y :: zip_with g xs' ys'
    | _, _ => []
    end.

  (* utils/threading.parallel_map, f total *)
  Definition parallel_map (f : A -> B) (threads : nat) (sort : bool) (chunksize : nat)
             (orders : list (list nat)) (xs : list A) : list B :=
    if threads =? 1 then map f xs
    else concat (zip_with (fun order chunk => collect sort (reorder order (tagged f chunk)))
                          orders (chunked chunksize xs)).

  (* utils/iter.parallel_map: one batch, always sorted *)
  Definition parallel_map_iter (f : A -> B) (threads : nat) (order : list nat) (xs : list A) : list B :=
    if threads =? 1 then map f xs else collect true (reorder order (tagged f xs)).

  (* f may raise: the first failure in the order in which results are awaited ends the call *)
  Fixpoint first_error (rs : list (nat * (B + E))) : option E :=
    match rs with
    | [] => None
    | (_, inr e) :: _ => Some e
    | (_, inl _) :: r => first_error r
    end.
  Fixpoint oks (rs : list (nat * (B + E))) : list (nat * B) :=
    match rs with
    | [] => []
    | (i, inl b) :: r => (i, b) :: oks r
    | (_, inr _) :: r => oks r
    end.
  Fixpoint map_seq (f : A -> B + E) (xs : list A) : list B + E :=
    match xs with
    | [] => inl []
    | x :: r => match f x with
                | inr e => inr e
                | inl b => match map_seq f r with inl bs => inl (b :: bs) | inr e => inr e end
                end
    end.
  Fixpoint run_chunks (f : A -> B + E) (sort : bool) (orders : list (list nat)) (chunks : list (list A))
    : list B + E :=
    match orders, chunks with
    | order :: orders', chunk :: chunks' =>
        let done := reorder order (combine (seq 0 (length chunk)) (map f chunk)) in
        match first_error done with
        | Some e => inr e
        | None =>
            match run_chunks f sort orders' chunks' with
            | inl rest => inl (map snd (if sort then isort by_index (oks done) else oks done) ++ rest)
            | inr e => inr e
            end
        end
    | _, _ => inl []
    end.
  Definition parallel_map_exc (f : A -> B + E) (threads : nat) (sort : bool) (chunksize : nat)
             (orders : list (list nat)) (xs : list A) : list B + E :=
    if threads =? 1 then map_seq f xs else run_chunks f sort orders (chunked chunksize xs).
End Par.
