(* The evaluation machine: one data directory shared by all chains and processes, task objects with
   an in-memory result and a forced flag, and the operations of Task.data / value / force and
   Chain.force.  `run` of a task class is a parameter of the model (a deterministic function of the
   persisted parameter representations and of the input values, or a failure); the executable
   instance used by the correspondence check returns a provenance term.
   JSON-like results are stored as the value they denote (serializer round trip: C06). *)
From Coq Require Import String Ascii List Bool Arith ZArith.
From TC Require Import PyStr Value Dict Repr Param Names Config Key Chain.
Import ListNotations.

Inductive fent :=
| FDir
| FValue (v : value)            (* a complete result file *)
| FInfo (v : value)             (* <key>.run_info.yaml, volatile fields dropped *)
| FLog (lines : list str).      (* <key>.log: tokens written by run, framing lines abstracted *)

Definition store := list (str * fent).

Definition slash : str := lit "/".
Definition dir_of_slug (slug : str) : str := join slash (split_c colon slug).

(* mkdir(parents=True, exist_ok=True) *)
Fixpoint mkdirs_go (prefix : str) (comps : list str) (st : store) : store :=
  match comps with
  | [] => st
  | c :: r => let p := match prefix with [] => c | _ => prefix ++ slash ++ c end in
              mkdirs_go p r (if dhas p st then st else dset p FDir st)
  end.
Definition mkdirs (path : str) (st : store) : store := mkdirs_go [] (split_c "/"%char path) st.

Record ostate := { os_mem : option value; os_forced : bool }.

Record world := {
  w_store : store;
  w_objs : list obj;                  (* task objects of the current process *)
  w_states : list ostate;             (* parallel to w_objs *)
  w_runlog : list (str * str);        (* ghost: (slug, key) of every run started, oldest first *)
  w_fail : list str }.                (* slugs whose run raises (fault injection) *)

Definition persisting (k : dkind) : bool := match k with KInMemory => false | _ => true end.

Section Eval.
  Variable classes : list tclass.
  (* run of class number i, a function of the persisted parameter reprs and of the input values *)
  Variable run : nat -> list (str * str) -> list (str * value) -> value.

  Definition cls_of (o : obj) : option tclass := nth_error classes (o_cls o).

  Definition result_path (tc : tclass) (o : obj) : str :=
    dir_of_slug (c_slug tc) ++ slash ++ result_file (c_data tc) (o_key o).
  Definition info_path (tc : tclass) (o : obj) : str :=
    dir_of_slug (c_slug tc) ++ slash ++ run_info_file (o_key o).
  Definition log_path (tc : tclass) (o : obj) : str :=
    dir_of_slug (c_slug tc) ++ slash ++ log_file (o_key o).

  Definition persisted_reprs (o : obj) : list (str * str) :=
    flat_map (fun pv => match param_repr (fst pv) (snd pv) with
                        | Some _ => [(pd_name (fst pv), value_repr (fst pv) (fst (snd pv)))]
                        | None => [] end)
             (isort pv_leb (o_params o)).

  Definition set_state (id : nat) (s : ostate) (w : world) : world :=
    {| w_store := w_store w; w_objs := w_objs w; w_states := set_nth id s (w_states w);
       w_runlog := w_runlog w; w_fail := w_fail w |}.
  Definition with_store (st : store) (w : world) : world :=
    {| w_store := st; w_objs := w_objs w; w_states := w_states w; w_runlog := w_runlog w; w_fail := w_fail w |}.
  Definition state_of (w : world) (id : nat) : ostate :=
    match nth_error (w_states w) id with Some s => s | None => {| os_mem := None; os_forced := false |} end.

  (* what the generated run() records and logs (harness convention): two records, one log token *)
  (* n: the ordinal of this run among all runs started on the data directory so far (harness convention: the
     generated run records it, so that the records of different runs of one task differ) *)
  Definition run_records (n : nat) (ins : list (str * value)) : list value :=
    [VDict [(lit "inputs", VInt (Z.of_nat (List.length ins))); (lit "run", VInt (Z.of_nat n))]; VStr (lit "second")].
  Definition run_token (tc : tclass) : str := lit "token:" ++ c_slug tc.

  Definition skv_leb (a b : str * value) : bool := str_leb (fst a) (fst b).

  (* the record written by _finish_run_info, minus user name, class/module names, version and times;
     mapping keys in sorted order *)
  Definition run_info (tc : tclass) (o : obj) (n : nat) (ins : list (str * value)) : value :=
    VDict [ (lit "config", VDict [ (lit "context", match o_ctxname o with Some n => VStr n | None => VNone end);
                                   (lit "name", VStr (o_cfgname o ++ lit "/" ++ o_fullname o));
                                   (lit "namespace", match o_ns o with Some n => VStr n | None => VNone end) ]);
            (lit "input_tasks", VDict (isort skv_leb (map (fun nk => (fst nk, VStr (snd nk))) (o_inkeys o))));
            (lit "log", VList (run_records n ins));
            (lit "parameters", VDict (isort skv_leb (map (fun pv => (pd_name (fst pv), VStr (value_repr (fst pv) (fst (snd pv))))) (o_params o))));
            (lit "task", VStr (c_slug tc)) ].

  (* self.input_tasks[arg] for an argument of run: the input whose task name is arg (the harness names
     only inputs whose task names are unambiguous among the inputs) *)
  Definition find_input (o : obj) (arg : str) : option (str * (nat + value)) :=
    find (fun inp => str_eqb (last_str (split_c colon (fst inp))) arg) (o_inputs o).

  (* Task.data / Task.value.  Errors: ERun (run raised, here or upstream). *)
  Fixpoint eval (fuel : nat) (w : world) (id : nat) : world * res value :=
    match fuel with
    | O => (w, inr EOutOfFuel)
    | S f =>
        match nth_error (w_objs w) id with
        | None => (w, inr EOther)
        | Some o =>
            match cls_of o with
            | None => (w, inr EOther)
            | Some tc =>
                let s := state_of w id in
                match os_mem s with
                | Some v => (w, inl v)
                | None =>
                    (* data object created, init_persistence: task directory *)
                    let w1 := with_store (mkdirs (dir_of_slug (c_slug tc)) (w_store w)) w in
                    let final := result_path tc o in
                    match (if persisting (c_data tc) && negb (os_forced s) then dget final (w_store w1) else None) with
                    | Some (FValue v) => (set_state id {| os_mem := Some v; os_forced := os_forced s |} w1, inl v)
                    | Some _ => (w1, inr EOther)
                    | None =>
                        (* run: log handler opens (truncates) the log, run started *)
                        let w2 := with_store (dset (log_path tc o) (FLog []) (w_store w1)) w1 in
                        (* _get_run_arguments: the inputs named in the signature of run are requested, in that order,
                           before the body of run starts *)
                        let pre (acc : world * bool) (k : str) :=
                          match acc with
                          | (wa, false) => (wa, false)
                          | (wa, true) =>
                              match find_input o k with
                              | Some (_, inl j) => match eval f wa j with
                                                   | (wb, inl _) => (wb, true)
                                                   | (wb, inr _) => (wb, false)
                                                   end
                              | _ => (wa, true)
                              end
                          end in
                        match fold_left pre (c_runargs tc) (w2, true) with
                        | (w2', false) => (w2', inr ERun)
                        | (w2', true) =>
                        let w3 := {| w_store := w_store w2'; w_objs := w_objs w2'; w_states := w_states w2';
                                     w_runlog := w_runlog w2' ++ [(c_slug tc, o_key o)]; w_fail := w_fail w2' |} in
                        if existsb (str_eqb (c_slug tc)) (w_fail w3) then (w3, inr ERun)
                        else
                          (* the generated run reads its inputs in declaration order *)
                          let step (acc : world * res (list (str * value))) (inp : str * (nat + value)) :=
                            match acc with
                            | (wa, inr e) => (wa, inr e)
                            | (wa, inl vs) =>
                                match snd inp with
                                | inr d => (wa, inl (vs ++ [(fst inp, VDict [(lit "__default__", d)])]))
                                | inl j =>
                                    match eval f wa j with
                                    | (wb, inl v) => (wb, inl (vs ++ [(fst inp, v)]))
                                    | (wb, inr e) => (wb, inr e)
                                    end
                                end
                            end in
                          match fold_left step (o_inputs o) (w3, inl []) with
                          | (w4, inr e) => (w4, inr ERun)
                          | (w4, inl ins) =>
                              let v := run (o_cls o) (persisted_reprs o) ins in
                              let st1 := dset (log_path tc o) (FLog [run_token tc]) (w_store w4) in
                              let st2 := if persisting (c_data tc) then dset final (FValue v) st1 else st1 in
                              let st3 := dset (info_path tc o) (FInfo (run_info tc o (List.length (w_runlog w3)) ins)) st2 in
                              (* the forced recomputation has happened: the mark is consumed *)
                              (set_state id {| os_mem := Some v; os_forced := false |} (with_store st3 w4), inl v)
                          end
                        end
                    end
                end
            end
        end
    end.
End Eval.
