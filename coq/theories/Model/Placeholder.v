(* Model of taskchain.utils.data.search_and_replace_placeholders / search_and_apply / ReprStr.
   The regex is r'{(.*?)}' used with re.subn: leftmost matches, the group is lazy and '.' does
   not match a newline, so a '{' opens a placeholder iff a '}' follows before any newline,
   and the name runs to the first such '}'.  Every match counts, defined or not. *)
From Coq Require Import List Ascii String Bool Arith.
From TC Require Import PyStr Value.
Import ListNotations.

Definition lbrace : ascii := "{"%char.
Definition rbrace : ascii := "}"%char.
Definition newline : ascii := ascii_of_nat 10.

(* just after a '{': the name and the text after the closing brace, if the regex matches here *)
Fixpoint scan_close (s : str) : option (str * str) :=
  match s with
  | [] => None
  | c :: r =>
      if Ascii.eqb c rbrace then Some ([], r)
      else if Ascii.eqb c newline then None
      else match scan_close r with
           | Some (name, rest) => Some (c :: name, rest)
           | None => None
           end
  end.

(* _replace(match): str(replacements[name]) when defined, the text itself otherwise *)
Definition replacement (g : str -> option str) (name : str) : str :=
  match g name with
  | Some v => v
  | None => lbrace :: name ++ [rbrace]
  end.

(* re.subn: (new_string, replacement_count); `skip` characters belong to the match just replaced *)
Fixpoint subst_go (g : str -> option str) (s : str) (skip : nat) : str * nat :=
  match s with
  | [] => ([], 0)
  | c :: r =>
      match skip with
      | S k => subst_go g r k
      | O =>
          if Ascii.eqb c lbrace then
            match scan_close r with
            | Some (name, _) =>
                let '(out, n) := subst_go g r (S (List.length name)) in (replacement g name ++ out, S n)
            | None => let '(out, n) := subst_go g r 0 in (c :: out, n)
            end
          else let '(out, n) := subst_go g r 0 in (c :: out, n)
      end
  end.
Definition subst (g : str -> option str) (s : str) : str * nat := subst_go g s 0.

(* _apply on one string leaf *)
Definition apply_str (g : str -> option str) (s : str) : value :=
  let '(out, n) := subst g s in if n =? 0 then VStr s else VRepr out s.

(* search_and_apply with fce=_apply, allowed_types=(str,): lists and dict values, any depth;
   ReprStr leaves are returned as they are; objects are leaves *)
Fixpoint sr (g : str -> option str) (v : value) : value :=
  match v with
  | VStr s => apply_str g s
  | VList l => VList (map (sr g) l)
  | VDict kvs => VDict (map (fun kv => (fst kv, sr g (snd kv))) kvs)
  | _ => v
  end.

(* replacements given as a mapping *)
Fixpoint lookup {V} (k : str) (m : list (str * V)) : option V :=
  match m with
  | [] => None
  | (k', v) :: r => if str_eqb k k' then Some v else lookup k r
  end.
Definition of_map (m : list (str * str)) : str -> option str := fun k => lookup k m.
