(* Model of taskchain.parameter: Parameter.set_value (lookup, default, required, dtype check),
   AbstractParameter.repr / value_repr and ParameterRegistry.repr. *)
From Coq Require Import List Ascii String Bool Arith ZArith.
From TC Require Import PyStr Value Repr.
Import ListNotations.

Inductive dtype := DAny | DInt | DFloat | DBool | DStr | DList | DDict | DPath.

Record pdecl := {
  pd_name : str;                 (* name for referencing from the task *)
  pd_cfg : str;                  (* name_in_config *)
  pd_default : option value;     (* None = NO_DEFAULT: required *)
  pd_ignore : bool;              (* ignore_persistence *)
  pd_dropdef : bool;             (* dont_persist_default_value *)
  pd_dtype : dtype }.

(* isinstance(value, dtype); None passes every dtype; Path accepts str *)
Definition dtype_ok (t : dtype) (v : value) : bool :=
  match v with
  | VNone => true
  | _ =>
    match t, v with
    | DAny, _ => true
    | DInt, (VInt _ | VBool _) => true
    | DFloat, VFloat _ => true
    | DBool, VBool _ => true
    | (DStr | DPath), (VStr _ | VRepr _ _) => true
    | DList, VList _ => true
    | DDict, VDict _ => true
    | _, _ => false
    end
  end.

Fixpoint cfg_get (k : str) (cfg : list (str * value)) : option value :=
  match cfg with
  | [] => None
  | (k', v) :: r => if str_eqb k k' then Some v else cfg_get k r
  end.

(* Parameter.set_value(config); the flag records that the value IS the default object
   (value = self.default), which makes `value == default` true by identity even for objects *)
Definition set_value (p : pdecl) (cfg : list (str * value)) : res (value * bool) :=
  let found := match cfg_get (pd_cfg p) cfg with
               | Some v => inl (v, false)
               | None => match pd_default p with Some d => inl (d, true) | None => inr EMissingParam end
               end in
  match found with
  | inl (v, fd) => if dtype_ok (pd_dtype p) v then inl (v, fd) else inr EType
  | inr e => inr e
  end.

(* Python's == on the value grammar: numeric tower at the leaves, dicts as mappings,
   ReprStr compares by its shown text, objects only by identity (never equal here) *)
Definition float_of_int_repr (z : Z) : str := zrepr z ++ lit ".0".
Definition num_eq (a b : value) : option bool :=
  let as_int v := match v with VBool true => Some 1%Z | VBool false => Some 0%Z | VInt z => Some z | _ => None end in
  match a, b with
  | VFloat r, VFloat s => Some (str_eqb r s)
  | VFloat r, _ => match as_int b with Some z => Some (str_eqb r (float_of_int_repr z)) | None => None end
  | _, VFloat s => match as_int a with Some z => Some (str_eqb s (float_of_int_repr z)) | None => None end
  | _, _ => match as_int a, as_int b with Some x, Some y => Some (Z.eqb x y) | _, _ => None end
  end.
Definition shown (v : value) : option str :=
  match v with VStr s => Some s | VRepr s _ => Some s | _ => None end.

Fixpoint py_eq (a b : value) : bool :=
  match num_eq a b with
  | Some r => r
  | None =>
    match shown a, shown b with
    | Some s, Some t => str_eqb s t
    | _, _ =>
      match a, b with
      | VNone, VNone => true
      | VList x, VList y =>
          (fix leq (x y : list value) : bool :=
             match x, y with
             | [], [] => true
             | p :: x', q :: y' => py_eq p q && leq x' y'
             | _, _ => false
             end) x y
      | VDict x, VDict y =>
          Nat.eqb (List.length x) (List.length y) &&
          (fix sub (x : list (str * value)) : bool :=
             match x with
             | [] => true
             | (k, p) :: x' => match cfg_get k y with Some q => py_eq p q | None => false end && sub x'
             end) x
      | _, _ => false
      end
    end
  end.

(* AbstractParameter.value_repr, for a Parameter holding value v *)
Definition value_repr (p : pdecl) (v : value) : str :=
  match v with
  | VAuto _ _ | VUser _ => repr_inst v                 (* ParameterObject: value.repr() *)
  | VStr s => if match pd_dtype p with DPath => true | _ => false end then py_repr_str s
              else repr_inst v                        (* Path: repr(self._value) *)
  | VRepr _ src => py_repr_str src
  | _ => repr_inst v
  end.

(* AbstractParameter.repr : None when not persisted *)
Definition param_repr (p : pdecl) (vf : value * bool) : option str :=
  let '(v, from_default) := vf in
  if pd_ignore p then None
  else if pd_dropdef p && match pd_default p with
                          | Some d => match pd_dtype p, v with
                                      | DPath, VNone => from_default || py_eq v d
                                      | DPath, _ => false      (* Path(value) == default is False for a str default *)
                                      | _, _ => from_default || py_eq v d
                                      end
                          | None => false end then None
  else Some (pd_name p ++ lit "=" ++ value_repr p v).

Definition pv_leb (a b : pdecl * (value * bool)) : bool := str_leb (pd_name (fst a)) (pd_name (fst b)).

Fixpoint somes {A} (l : list (option A)) : list A :=
  match l with [] => [] | Some x :: r => x :: somes r | None :: r => somes r end.

(* ParameterRegistry.repr : None when nothing is persisted *)
Definition registry_repr (ps : list (pdecl * (value * bool))) : option str :=
  match somes (map (fun pv => param_repr (fst pv) (snd pv)) (isort pv_leb ps)) with
  | [] => None
  | reprs => Some (join (lit "###") reprs)
  end.

(* formatting of the (possibly None) registry repr inside the key text *)
Definition registry_text (ps : list (pdecl * (value * bool))) : str :=
  match registry_repr ps with Some r => r | None => lit "None" end.
