(* Concurrent use of one cache key: any number of callers of FileCache.get / get_or_compute
   (forced or not) interleaved at the granularity of the steps
     lock-acquire, existence check, lock-release, load, compute, truncate, write, rename, lock-release.
   The lock is held around the existence check and around compute+save, not around the load.
   The entry is written to a temporary sibling file (truncate, write: invisible to the other callers)
   and published by one atomic rename. *)
From Coq Require Import List Bool Arith.
Import ListNotations.

Inductive fstate := FAbsent | FEmpty | FFull (v : nat).    (* FEmpty: a truncated cache file (never produced by the code itself) *)

Inductive kind := KGet | KCompute (force : bool).

(* program counter of one caller *)
Inductive pc :=
| PStart                      (* about to acquire the lock for the existence check *)
| PCheck                      (* holds the lock, about to test filepath.exists() *)
| PRelease1 (ex : bool)       (* holds the lock, about to release it *)
| PLoad (ex : bool)           (* lock released; decides between load and compute *)
| PAcquire2                   (* about to acquire the lock for compute + save *)
| PCompute                    (* holds the lock, about to call the computer *)
| PTruncate (v : nat)         (* holds the lock, about to open the temporary file for writing *)
| PWrite (v : nat)            (* holds the lock, about to write and close the temporary file *)
| PReplace (v : nat)          (* holds the lock, about to rename the temporary file over the cache file *)
| PRelease2 (v : nat)         (* holds the lock, about to release *)
| PDone (r : option nat).     (* returned: Some v, or None for NO_VALUE *)

Record caller := { c_kind : kind; c_val : nat; c_pc : pc }.   (* c_val: what this caller's computer returns *)

Record gstate := { g_file : fstate; g_lock : option nat; g_callers : list caller; g_computed : list nat }.

Fixpoint set_nth {A} (n : nat) (x : A) (l : list A) : list A :=
  match l, n with
  | [], _ => []
  | _ :: r, O => x :: r
  | y :: r, S k => y :: set_nth k x r
  end.

Definition with_pc (c : caller) (p : pc) : caller := {| c_kind := c_kind c; c_val := c_val c; c_pc := p |}.

(* one step of caller number t; None when the step is not enabled (waiting for the lock, or finished) *)
Definition step (g : gstate) (t : nat) : option gstate :=
  match nth_error (g_callers g) t with
  | None => None
  | Some c =>
      let upd f l p comp :=
        Some {| g_file := f; g_lock := l; g_callers := set_nth t (with_pc c p) (g_callers g); g_computed := comp |} in
      match c_pc c with
      | PStart => match g_lock g with
                  | None => upd (g_file g) (Some t) PCheck (g_computed g)
                  | Some _ => None
                  end
      | PCheck => upd (g_file g) (g_lock g)
                      (PRelease1 (match g_file g with FAbsent => false | _ => true end)) (g_computed g)
      | PRelease1 ex => upd (g_file g) None (PLoad ex) (g_computed g)
      | PLoad ex =>
          match c_kind c with
          | KGet =>
              if ex then
                match g_file g with
                | FFull v => upd (g_file g) (g_lock g) (PDone (Some v)) (g_computed g)
                | _ => upd (g_file g) (g_lock g) (PDone None) (g_computed g)      (* load failed: NO_VALUE *)
                end
              else upd (g_file g) (g_lock g) (PDone None) (g_computed g)
          | KCompute force =>
              if ex && negb force then
                match g_file g with
                | FFull v => upd (g_file g) (g_lock g) (PDone (Some v)) (g_computed g)
                | _ => upd (g_file g) (g_lock g) PAcquire2 (g_computed g)        (* load failed: recompute *)
                end
              else upd (g_file g) (g_lock g) PAcquire2 (g_computed g)
          end
      | PAcquire2 => match g_lock g with
                     | None => upd (g_file g) (Some t) PCompute (g_computed g)
                     | Some _ => None
                     end
      | PCompute => upd (g_file g) (g_lock g) (PTruncate (c_val c)) (c_val c :: g_computed g)
      | PTruncate v => upd (g_file g) (g_lock g) (PWrite v) (g_computed g)
      | PWrite v => upd (g_file g) (g_lock g) (PReplace v) (g_computed g)
      | PReplace v => upd (FFull v) (g_lock g) (PRelease2 v) (g_computed g)
      | PRelease2 v => upd (g_file g) None (PDone (Some v)) (g_computed g)
      | PDone _ => None
      end
  end.

(* a schedule is a list of caller numbers; disabled choices are skipped *)
Fixpoint run (g : gstate) (schedule : list nat) : gstate :=
  match schedule with
  | [] => g
  | t :: r => match step g t with Some g' => run g' r | None => run g r end
  end.

Definition init (file : fstate) (cs : list (kind * nat)) : gstate :=
  {| g_file := file; g_lock := None;
     g_callers := map (fun kv => {| c_kind := fst kv; c_val := snd kv; c_pc := PStart |}) cs;
     g_computed := match file with FFull v => [v] | _ => [] end |}.

Definition results (g : gstate) : list (option (option nat)) :=
  map (fun c => match c_pc c with PDone r => Some r | _ => None end) (g_callers g).

(* the file state after every enabled step of a schedule (disabled choices are skipped and leave no entry) *)
Fixpoint run_trace (g : gstate) (schedule : list nat) : list fstate * gstate :=
  match schedule with
  | [] => ([], g)
  | t :: r => match step g t with
              | Some g' => let '(tr, gz) := run_trace g' r in (g_file g' :: tr, gz)
              | None => run_trace g r
              end
  end.
