(* JSON-like parameter values as taskchain sees them, plus parameter objects.
   VFloat carries the CPython repr of a finite float as an atom (validated by the harness).
   VRepr is taskchain.utils.data.ReprStr: the shown (substituted) text and the source text
   whose Python repr is used for persistence.  Dicts keep insertion order. *)
From Coq Require Import List Ascii String Bool ZArith.
From TC Require Import PyStr.
Import ListNotations.

Inductive value :=
| VNone
| VBool (b : bool)
| VInt (z : Z)
| VFloat (r : str)
| VStr (s : str)
| VRepr (shown src : str)
| VList (l : list value)
| VDict (kvs : list (str * value))
| VAuto (cls : str) (args : list (str * value))                       (* AutoParameterObject, filtered args *)
| VInst (cls : str) (args : list value) (kwargs : list (str * value)) (* instantiated from a config definition *)
| VUser (r : str).                                                    (* object with its own repr(): an atom *)

Section ValueInd.
  Variable P : value -> Prop.
  Hypothesis HNone : P VNone.
  Hypothesis HBool : forall b, P (VBool b).
  Hypothesis HInt : forall z, P (VInt z).
  Hypothesis HFloat : forall r, P (VFloat r).
  Hypothesis HStr : forall s, P (VStr s).
  Hypothesis HRepr : forall a b, P (VRepr a b).
  Hypothesis HList : forall l, Forall P l -> P (VList l).
  Hypothesis HDict : forall kvs, Forall (fun kv => P (snd kv)) kvs -> P (VDict kvs).
  Hypothesis HAuto : forall c args, Forall (fun kv => P (snd kv)) args -> P (VAuto c args).
  Hypothesis HInst : forall c args kw, Forall P args -> Forall (fun kv => P (snd kv)) kw -> P (VInst c args kw).
  Hypothesis HUser : forall r, P (VUser r).

  Fixpoint value_ind' (v : value) : P v :=
    let fix go (l : list value) : Forall P l :=
      match l with [] => Forall_nil _ | x :: r => Forall_cons _ (value_ind' x) (go r) end in
    let fix gokv (l : list (str * value)) : Forall (fun kv => P (snd kv)) l :=
      match l with [] => Forall_nil _ | x :: r => Forall_cons _ (value_ind' (snd x)) (gokv r) end in
    match v with
    | VNone => HNone
    | VBool b => HBool b
    | VInt z => HInt z
    | VFloat r => HFloat r
    | VStr s => HStr s
    | VRepr a b => HRepr a b
    | VList l => HList l (go l)
    | VDict kvs => HDict kvs (gokv kvs)
    | VAuto c a => HAuto c a (gokv a)
    | VInst c a k => HInst c a k (go a) (gokv k)
    | VUser r => HUser r
    end.
End ValueInd.

Fixpoint value_eqb (a b : value) : bool :=
  let fix leq (x y : list value) : bool :=
    match x, y with
    | [], [] => true
    | p :: x', q :: y' => value_eqb p q && leq x' y'
    | _, _ => false
    end in
  let fix kveq (x y : list (str * value)) : bool :=
    match x, y with
    | [], [] => true
    | (k, p) :: x', (k', q) :: y' => str_eqb k k' && value_eqb p q && kveq x' y'
    | _, _ => false
    end in
  match a, b with
  | VNone, VNone => true
  | VBool x, VBool y => Bool.eqb x y
  | VInt x, VInt y => Z.eqb x y
  | VFloat x, VFloat y => str_eqb x y
  | VStr x, VStr y => str_eqb x y
  | VRepr x s, VRepr y t => str_eqb x y && str_eqb s t
  | VList x, VList y => leq x y
  | VDict x, VDict y => kveq x y
  | VAuto c x, VAuto d y => str_eqb c d && kveq x y
  | VInst c x k, VInst d y l => str_eqb c d && leq x y && kveq k l
  | VUser x, VUser y => str_eqb x y
  | _, _ => false
  end.
