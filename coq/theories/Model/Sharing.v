(* The registry of task objects a chain (and a MultiChain: one registry for all members) keeps in parameter
   mode: Chain._create_task looks the task up under (slug name, persistence hash, data directory of its config)
   and creates an object only when the key is new.  This file models any sequence of such registrations. *)
From Coq Require Import List Bool Arith.
From TC Require Import PyStr.
Import ListNotations.

Section Reg.
  Variable K : Type.
  Variable keqb : K -> K -> bool.

  Fixpoint kfind (k : K) (reg : list (K * nat)) : option nat :=
    match reg with
    | [] => None
    | (k', id) :: r => if keqb k' k then Some id else kfind k r
    end.

  (* state: the registry and the number of objects created so far *)
  Definition kstep (st : list (K * nat) * nat) (k : K) : (list (K * nat) * nat) * nat :=
    match kfind k (fst st) with
    | Some id => (st, id)
    | None => ((fst st ++ [(k, snd st)], S (snd st)), snd st)
    end.

  Fixpoint krun (st : list (K * nat) * nat) (ks : list K) : (list (K * nat) * nat) * list nat :=
    match ks with
    | [] => (st, [])
    | k :: ks' => let '(st1, id) := kstep st k in
                  let '(st2, ids) := krun st1 ks' in (st2, id :: ids)
    end.
End Reg.
Arguments kfind {K}. Arguments kstep {K}. Arguments krun {K}.

(* the key of the code: data directory, slug name, hash *)
Definition location := (str * str * str)%type.
Definition loc_eqb (a b : location) : bool :=
  str_eqb (fst (fst a)) (fst (fst b)) && str_eqb (snd (fst a)) (snd (fst b)) && str_eqb (snd a) (snd b).

(* object numbers handed out for a sequence of registrations, starting from nothing *)
Definition share (ls : list location) : list nat := snd (krun loc_eqb ([], 0) ls).
