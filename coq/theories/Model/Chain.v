(* Model of taskchain.chain.Chain construction in parameter mode (after the repairs recorded in
   known_findings.json): recursive processing of `uses`, first-pass task creation with exclusion
   and conflict check, input resolution inside the declaring namespace, re-creation with
   TaskParameterConfig (keys, sharing by (slug, key) through the registry), final dependency
   processing.  The hash is a parameter; recursion over configs and over the task DAG is fuelled. *)
From Coq Require Import String Ascii List Bool Arith.
From TC Require Import PyStr Value Dict Placeholder Repr Param Names Config Key.
Import ListNotations.

Record idecl := { i_ref : str + nat; i_required : bool; i_default : value }.

Record tclass := {
  c_slug : str;                       (* group:name *)
  c_abstract : bool;
  c_params : list pdecl;              (* the Parameter entries of Meta.parameters *)
  c_meta_inputs : list (str + nat);   (* Meta.input_tasks: names / patterns / classes *)
  c_param_inputs : list idecl;        (* the InputTaskParameter entries of Meta.parameters *)
  c_data : dkind;
  c_runargs : list str }.   (* the inputs named (by task name) in the signature of run, in that order *)

Section Chain.
  Variable H : str -> str.
  Variable fs : files.
  Variable classes : list tclass.
  Variable imports : list (str * list nat).   (* import string -> classes it denotes *)
  Variable user_classes : list str.
  Variable gv : option (list (str * str)).

  Definition cls (i : nat) : res tclass :=
    match nth_error classes i with Some c => inl c | None => inr EOther end.

  (* ---- Chain._process_config ---- *)
  Fixpoint process_config (fuel : nat) (c : config) (acc : list (str * config)) : res (list (str * config)) :=
    match fuel with
    | O => inr EOutOfFuel
    | S f =>
        match repr_name c with
        | inr e => inr e
        | inl rn =>
            if dhas rn acc then inl acc
            else
              let uses := match dget (lit "uses") (cf_data c) with Some u => str_list u | None => [] end in
              fold_left (fun (racc : res (list (str * config))) use =>
                           match racc with
                           | inr e => inr e
                           | inl a =>
                               let used :=
                                 match split_as use with
                                 | Some (path, inner) =>
                                     mk_config fs user_classes gv (cf_ctx c) (inl path)
                                               (Some (compose_ns (cf_ns c) inner))
                                 | None =>
                                     mk_config fs user_classes gv (cf_ctx c) (inl use) (nonempty_ns (cf_ns c))
                                 end in
                               match used with
                               | inl u => process_config f u a
                               | inr e => inr e
                               end
                           end) uses (inl (acc ++ [(rn, c)]))
        end
    end.

  (* ---- first pass ---- *)
  Record node := {
    n_cls : nat;
    n_cfg : nat;                                        (* which config instance declared it *)
    n_ns : option str;
    n_cfgname : str;                                    (* name of the declaring config *)
    n_ctxname : option str;                             (* name of its context *)
    n_params : list (pdecl * (value * bool));
    n_inputs : list (str * (str + value)) }.            (* name -> task (by full name) | default value *)

  Definition classes_of (desc : str) : res (list nat) :=
    match dget desc imports with Some l => inl l | None => inr EOther end.

  Fixpoint set_values (ps : list pdecl) (data : cfgdata) : res (list (pdecl * (value * bool))) :=
    match ps with
    | [] => inl []
    | p :: r =>
        match set_value p data with
        | inr e => inr e
        | inl v => match set_values r data with inl rest => inl ((p, v) :: rest) | inr e => inr e end
        end
    end.

  Definition full_name (slug : str) (ns : option str) : str := with_ns ns slug.

  Definition collect_classes (field : str) (data : cfgdata) : res (list nat) :=
    match dget field data with
    | None => inl []
    | Some v =>
        match sequence (map classes_of (str_list v)) with
        | inl ls => inl (concat ls)
        | inr e => inr e
        end
    end.

  (* one entry of `tasks`: _create_task + _register_task for class k declared by config number ci *)
  Definition add_task (ci : nat) (c : config) (excluded : list nat) (acc : list (str * node)) (k : nat)
    : res (list (str * node)) :=
    match cls k with
    | inr e => inr e
    | inl tc =>
        if c_abstract tc || existsb (Nat.eqb k) excluded then inl acc
        else
          match set_values (c_params tc) (cf_data c) with
          | inr e => inr e
          | inl ps =>
              let name := full_name (c_slug tc) (cf_ns c) in
              let nd := {| n_cls := k; n_cfg := ci; n_ns := cf_ns c;
                          n_cfgname := match config_name c with inl n => n | inr _ => [] end;
                          n_ctxname := match cf_ctx c with Some x => Some (cx_name x) | None => None end;
                          n_params := ps; n_inputs := [] |} in
              match dget name acc with
              | Some old => if Nat.eqb (n_cfg old) ci then inl (dset name nd acc) else inr EConflict
              | None => inl (dset name nd acc)
              end
          end
    end.

  Definition create_tasks_of_config (ci : nat) (c : config) (tasks : list (str * node)) : res (list (str * node)) :=
    match collect_classes (lit "excluded_tasks") (cf_data c), collect_classes (lit "tasks") (cf_data c) with
    | inr e, _ => inr e
    | _, inr e => inr e
    | inl excluded, inl listed =>
        fold_left (fun (racc : res (list (str * node))) k =>
                     match racc with
                     | inr e => inr e
                     | inl acc => add_task ci c excluded acc k
                     end) listed (inl tasks)
    end.

  Fixpoint create_tasks (ci : nat) (cs : list (str * config)) (tasks : list (str * node)) : res (list (str * node)) :=
    match cs with
    | [] => inl tasks
    | (_, c) :: r =>
        match create_tasks_of_config ci c tasks with
        | inl t => create_tasks (S ci) r t
        | inr e => inr e
        end
    end.

  (* ---- input resolution (Chain._expand_tasks, _process_dependencies) ---- *)
  Definition tilde : ascii := "~"%char.
  Fixpoint lstrip_tilde (s : str) : str :=
    match s with c :: r => if Ascii.eqb c tilde then lstrip_tilde r else s | [] => [] end.
  (* patterns are restricted to literals and `prefix.*` *)
  Definition pattern_match (pat s : str) : bool :=
    if ends_with (lit ".*") pat then starts_with (firstn (List.length pat - 2) pat) s else str_eqb pat s.

  Definition expand_tasks (metas : list (str + nat)) (names : list str) (current : str) : list (str + nat) :=
    let cur_ns := removelast (split_dc current) in
    flat_map (fun m =>
                match m with
                | inl s =>
                    if starts_with [tilde] s then
                      map inl (filter (fun tn =>
                                 (list_str_eqb cur_ns (removelast (split_dc tn)) || starts_with [tilde; tilde] s)
                                 && pattern_match (lstrip_tilde s) (local_part tn)) names)
                    else [m]
                | inr _ => [m]
                end) metas.

  Definition prefixed (ns : option str) (name : str) : str :=
    match nonempty_ns ns with
    | Some n => if starts_with (n ++ lit "::") name then name else n ++ lit "::" ++ name
    | None => name
    end.

  (* '::'.join(task_name.split('::')[:-1]) : the namespace under which the task is known in this chain *)
  Definition ns_of_name (name : str) : option str := nonempty_ns (Some (ns_text name)).

  (* one declared input: by-class or by-name reference, required or optional with a default *)
  Definition resolve_one (ns : option str) (names : list str) (acc : list (str * (str + value))) (d : idecl)
    : res (list (str * (str + value))) :=
    let name0 : res str :=
      match i_ref d with
      | inl s => inl s
      | inr k => match cls k with inl c => inl (c_slug c) | inr e => inr e end
      end in
    match name0 with
    | inr e => inr e
    | inl n0 =>
        let n1 := prefixed ns n0 in
        if dhas n1 acc then inr EDupInput
        else
          match find_task_full_name false n1 names with
          | inl found =>
              let n2 := match i_ref d with inl _ => found | inr _ => n1 end in
              (* a reference by class names exactly the task of that class: a task of a similar name does not stand in *)
              if existsb (str_eqb n2) names then inl (dset n2 (inl n2) acc)
              else if i_required d then inr EMissingInput else inl (dset n1 (inr (i_default d)) acc)
          | inr EAmbiguous => inr EAmbiguous      (* several matches, none with priority: never "absent" *)
          | inr _ =>
              if i_required d then inr EMissingInput else inl (dset n1 (inr (i_default d)) acc)
          end
    end.

  Definition declared_inputs (tc : tclass) (current : str) (names : list str) : list idecl :=
    map (fun m => {| i_ref := m; i_required := true; i_default := VNone |})
        (expand_tasks (c_meta_inputs tc) names current) ++ c_param_inputs tc.

  Definition resolve_inputs (tc : tclass) (current : str) (names : list str)
    : res (list (str * (str + value))) :=
    fold_left (fun (racc : res (list (str * (str + value)))) d =>
                 match racc with
                 | inr e => inr e
                 | inl acc => resolve_one (ns_of_name current) names acc d
                 end) (declared_inputs tc current names) (inl []).

  Fixpoint process_dependencies1 (todo : list (str * node)) (names : list str) : res (list (str * node)) :=
    match todo with
    | [] => inl []
    | (name, nd) :: r =>
        match cls (n_cls nd) with
        | inr e => inr e
        | inl tc =>
            match resolve_inputs tc name names, process_dependencies1 r names with
            | inl ins, inl rest =>
                inl ((name, {| n_cls := n_cls nd; n_cfg := n_cfg nd; n_ns := n_ns nd; n_cfgname := n_cfgname nd;
                               n_ctxname := n_ctxname nd; n_params := n_params nd; n_inputs := ins |}) :: rest)
            | inr e, _ => inr e
            | _, inr e => inr e
            end
        end
    end.

  (* ---- second pass: objects with keys, shared through the registry ---- *)
  Record obj := {
    o_cls : nat;
    o_cfg : nat;
    o_ns : option str;
    o_cfgname : str;
    o_ctxname : option str;
    o_fullname : str;
    o_params : list (pdecl * (value * bool));
    o_inkeys : list (str * str);                 (* input full name -> key *)
    o_key : str;
    o_inputs : list (str * (nat + value)) }.     (* after the final dependency processing *)

  Record pstate := {
    ps_objs : list obj;
    ps_registry : list (str * str * nat);        (* (slug, key) -> object id *)
    ps_new : list (str * nat) }.                 (* new_tasks: full name -> object id *)

  Definition reg_find (slug key : str) (reg : list (str * str * nat)) : option nat :=
    match find (fun e => str_eqb (fst (fst e)) slug && str_eqb (snd (fst e)) key) reg with
    | Some e => Some (snd e)
    | None => None
    end.

  Definition obj_key (st : pstate) (id : nat) : str :=
    match nth_error (ps_objs st) id with Some o => o_key o | None => [] end.

  (* Chain._create_task in the second pass: an object with this (slug, key) already in the registry is
     returned as it is, otherwise the new object is registered *)
  Definition register (st : pstate) (slug key name : str) (o : obj) : pstate * nat :=
    match reg_find slug key (ps_registry st) with
    | Some id =>
        ({| ps_objs := ps_objs st; ps_registry := ps_registry st; ps_new := dset name id (ps_new st) |}, id)
    | None =>
        let id := List.length (ps_objs st) in
        ({| ps_objs := ps_objs st ++ [o]; ps_registry := ps_registry st ++ [(slug, key, id)];
            ps_new := dset name id (ps_new st) |}, id)
    end.

  Fixpoint get_task (fuel : nat) (tasks1 : list (str * node)) (name : str) (st : pstate) : res (pstate * nat) :=
    match fuel with
    | O => inr ECycle
    | S f =>
        match dget name tasks1 with
        | None => inr EOther
        | Some nd =>
            match dget name (ps_new st) with
            | Some id => inl (st, id)
            | None =>
                let step (racc : res (pstate * list (str * str))) (inp : str * (str + value)) :=
                  match racc with
                  | inr e => inr e
                  | inl (s, keys) =>
                      match snd inp with
                      | inr _ => inl (s, keys)
                      | inl tname =>
                          match get_task f tasks1 tname s with
                          | inl (s', id) => inl (s', keys ++ [(fst inp, obj_key s' id)])
                          | inr e => inr e
                          end
                      end
                  end in
                match fold_left step (n_inputs nd) (inl (st, [])) with
                | inr e => inr e
                | inl (st1, inkeys) =>
                    match cls (n_cls nd) with
                    | inr e => inr e
                    | inl tc =>
                        match task_key H (n_ns nd) (n_params nd) inkeys with
                        | inr e => inr e
                        | inl key =>
                            inl (register st1 (c_slug tc) key name
                                           {| o_cls := n_cls nd; o_cfg := n_cfg nd; o_ns := n_ns nd; o_cfgname := n_cfgname nd;
                                              o_ctxname := n_ctxname nd; o_fullname := name;
                                              o_params := n_params nd; o_inkeys := inkeys; o_key := key; o_inputs := [] |})
                        end
                    end
                end
            end
        end
    end.

  Fixpoint recreate (fuel : nat) (tasks1 : list (str * node)) (todo : list (str * node)) (st : pstate) : res pstate :=
    match todo with
    | [] => inl st
    | (name, _) :: r =>
        match get_task fuel tasks1 name st with
        | inl (st', _) => recreate fuel tasks1 r st'
        | inr e => inr e
        end
    end.

  Fixpoint set_nth {A} (n : nat) (x : A) (l : list A) : list A :=
    match l, n with
    | [], _ => []
    | _ :: r, O => x :: r
    | y :: r, S k => y :: set_nth k x r
    end.

  (* final _process_dependencies over the new tasks: each name re-resolves the inputs of its (possibly
     shared) object in the namespace of that name; for a shared object the last name processed wins *)
  Fixpoint process_dependencies2 (todo : list (str * nat)) (new : list (str * nat)) (objs : list obj) : res (list obj) :=
    match todo with
    | [] => inl objs
    | (name, id) :: r =>
        match nth_error objs id with
        | None => inr EOther
        | Some o =>
            match cls (o_cls o) with
            | inr e => inr e
            | inl tc =>
                match resolve_inputs tc name (map fst new) with
                | inr e => inr e
                | inl ins =>
                    let ins' := map (fun i => (fst i, match snd i with
                                                      | inl tn => match dget tn new with Some j => inl j | None => inl 0 end
                                                      | inr d => inr d end)) ins in
                    process_dependencies2 r new
                      (set_nth id {| o_cls := o_cls o; o_cfg := o_cfg o; o_ns := o_ns o; o_cfgname := o_cfgname o;
                                     o_ctxname := o_ctxname o; o_fullname := o_fullname o;
                                     o_params := o_params o; o_inkeys := o_inkeys o; o_key := o_key o;
                                     o_inputs := ins' |} objs)
                end
            end
        end
    end.

  Record rchain := { rc_tasks : list (str * nat); rc_configs : list (str * config) }.

  (* Chain(config, shared_tasks) in parameter mode; objects and registry are threaded so that a
     MultiChain is a fold of this function *)
  Definition build_chain (base : config) (objs : list obj) (reg : list (str * str * nat))
    : res (rchain * list obj * list (str * str * nat)) :=
    match process_config 64 base [] with
    | inr e => inr e
    | inl cfgs =>
        match create_tasks 0 cfgs [] with
        | inr e => inr e
        | inl t0 =>
            match process_dependencies1 t0 (map fst t0) with
            | inr e => inr e
            | inl t1 =>
                match recreate (S (List.length t1)) t1 t1 {| ps_objs := objs; ps_registry := reg; ps_new := [] |} with
                | inr e => inr e
                | inl st =>
                    match process_dependencies2 (ps_new st) (ps_new st) (ps_objs st) with
                    | inr e => inr e
                    | inl objs' => inl ({| rc_tasks := ps_new st; rc_configs := cfgs |}, objs', ps_registry st)
                    end
                end
            end
        end
    end.
End Chain.
