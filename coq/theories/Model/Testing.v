(* Model of taskchain.utils.testing: TestChain / create_test_task.  One config named `test` whose data are
   the given parameters, the given task classes, and mocked tasks that simply hold a value.
   There is no second pass: tasks are configured by the plain config. *)
From Coq Require Import String Ascii List Bool Arith ZArith.
From TC Require Import PyStr Value Dict Repr Param Names Config Key Chain Eval.
Import ListNotations.

Record tnode := {
  t_cls : nat;
  t_params : list (pdecl * (value * bool));
  t_inputs : list (str * (str + value)) }.

Section Testing.
  Variable classes : list tclass.
  Variable run : nat -> list (str * str) -> list (str * value) -> value.

  Definition reprs_of (ps : list (pdecl * (value * bool))) : list (str * str) :=
    flat_map (fun pv => match param_repr (fst pv) (snd pv) with
                        | Some _ => [(pd_name (fst pv), value_repr (fst pv) (fst (snd pv)))]
                        | None => [] end)
             (isort pv_leb ps).

  (* TestChain._create_tasks + _process_dependencies *)
  Definition test_chain (tasks : list nat) (mocks : list (str * value)) (params : cfgdata)
    : res (list (str * tnode)) :=
    let created :=
      fold_left (fun (racc : res (list (str * tnode))) k =>
                   match racc with
                   | inr e => inr e
                   | inl acc =>
                       match cls classes k with
                       | inr e => inr e
                       | inl tc =>
                           match set_values (c_params tc) params with
                           | inr e => inr e
                           | inl ps => inl (dset (c_slug tc) {| t_cls := k; t_params := ps; t_inputs := [] |} acc)
                           end
                       end
                   end) tasks (inl []) in
    match created with
    | inr e => inr e
    | inl real =>
        (* mocked names are added after the real tasks; a mock with the name of a real task replaces it *)
        let names := map fst (fold_left (fun acc m => dset (fst m) tt acc) mocks (map (fun t => (fst t, tt)) real)) in
        fold_left (fun (racc : res (list (str * tnode))) t =>
                     match racc with
                     | inr e => inr e
                     | inl acc =>
                         if dhas (fst t) mocks then inl acc
                         else
                           match cls classes (t_cls (snd t)) with
                           | inr e => inr e
                           | inl tc =>
                               match resolve_inputs classes tc (fst t) names with
                               | inr e => inr e
                               | inl ins => inl (acc ++ [(fst t, {| t_cls := t_cls (snd t); t_params := t_params (snd t);
                                                                     t_inputs := ins |})])
                               end
                           end
                     end) real (inl [])
    end.

  (* Chain._build_graph: the chain must be acyclic (fuelled traversal; running out of fuel means a cycle) *)
  Fixpoint reaches_end (fuel : nat) (chain : list (str * tnode)) (name : str) : bool :=
    match fuel with
    | O => false
    | S f =>
        match dget name chain with
        | None => true
        | Some nd => forallb (fun inp => match snd inp with inl tn => reaches_end f chain tn | inr _ => true end) (t_inputs nd)
        end
    end.
  Definition acyclic (chain : list (str * tnode)) : bool :=
    forallb (fun t => reaches_end (S (List.length chain)) chain (fst t)) chain.

  Definition test_chain_checked (tasks : list nat) (mocks : list (str * value)) (params : cfgdata)
    : res (list (str * tnode)) :=
    match test_chain tasks mocks params with
    | inl ch => if acyclic ch then inl ch else inr ECycle
    | inr e => inr e
    end.

  (* value of a task of the test chain: mocks return the supplied value *)
  Fixpoint test_value (fuel : nat) (chain : list (str * tnode)) (mocks : list (str * value)) (name : str) : res value :=
    match fuel with
    | O => inr EOutOfFuel
    | S f =>
        match dget name mocks with
        | Some v => inl v
        | None =>
            match dget name chain with
            | None => inr ENotFound
            | Some nd =>
                let ins := sequence (map (fun inp => match snd inp with
                                                     | inr d => inl (fst inp, VDict [(lit "__default__", d)])
                                                     | inl tn => match test_value f chain mocks tn with
                                                                 | inl v => inl (fst inp, v)
                                                                 | inr e => inr e end
                                                     end) (t_inputs nd)) in
                match ins with
                | inl vs => inl (run (t_cls nd) (reprs_of (t_params nd)) vs)
                | inr e => inr e
                end
            end
        end
    end.

  (* create_test_task(task, input_tasks, parameters).value *)
  Definition create_test_task_value (k : nat) (mocks : list (str * value)) (params : cfgdata) : res value :=
    match test_chain_checked [k] mocks params, cls classes k with
    | inl ch, inl tc => test_value (S (S (List.length ch))) ch mocks (c_slug tc)
    | inr e, _ => inr e
    | _, inr e => inr e
    end.
End Testing.

(* values of all the real tasks of a TestChain, by name *)
Definition test_chain_values (classes : list tclass) (run : nat -> list (str * str) -> list (str * value) -> value)
           (tasks : list nat) (mocks : list (str * value)) (params : cfgdata) : res (list (str * res value)) :=
  match test_chain_checked classes tasks mocks params with
  | inl ch => inl (map (fun t => (fst t, test_value run (S (S (List.length ch))) ch mocks (fst t))) ch)
  | inr e => inr e
  end.
