(* C12 - the storage scheme is stable.  The scheme of release 1.4.0 written out as theorems about
   the model, FIPS vectors for the Gallina SHA-256, and golden paths (produced by the pinned
   implementation) that the kernel re-computes from the model with that SHA-256. *)
From Coq Require Import String Ascii List Bool Arith ZArith.
From TC Require Import PyStr Value Dict Repr Param Config Key Chain World Eval Sha256 KeyProofs Naming NamingProofs.
Import ListNotations.

(* key = first 32 hex digits of the hash of  <parameters>$$$<inputs> *)
Theorem C12_key_scheme : forall H ns ps inputs k,
  task_key H ns ps inputs = inl k ->
  exists itext, inputs_text ns inputs = inl itext /\
                k = firstn 32 (H (registry_text ps ++ lit "$$$" ++ itext)).
Proof. exact key_scheme. Qed.
Print Assumptions C12_key_scheme.

(* <parameters> = "None", or name=repr of the persisted parameters joined by ### in name order *)
Theorem C12_registry_scheme : forall ps,
  registry_text ps =
  match somes (map (fun pv => param_repr (fst pv) (snd pv)) (isort pv_leb ps)) with
  | [] => lit "None"
  | reprs => join (lit "###") reprs
  end.
Proof. exact registry_scheme. Qed.
Print Assumptions C12_registry_scheme.

(* <inputs> = relative-name=key joined by ###, in the order of the full input names *)
Theorem C12_inputs_scheme_no_namespace : forall inputs,
  inputs_text None inputs =
  inl (join (lit "###") (map (fun nk => fst nk ++ lit "=" ++ snd nk) (isort in_leb inputs))).
Proof. exact inputs_scheme_none. Qed.
Print Assumptions C12_inputs_scheme_no_namespace.

(* <data dir>/<group levels>/<task name>/<key>.<extension>, side files beside it *)
Theorem C12_layout : forall tc o,
  result_path tc o = join (lit "/") (split_c colon (c_slug tc)) ++ lit "/" ++
                     match extension (c_data tc) with Some e => o_key o ++ lit "." ++ e | None => o_key o end /\
  info_path tc o = join (lit "/") (split_c colon (c_slug tc)) ++ lit "/" ++ o_key o ++ lit ".run_info.yaml" /\
  log_path tc o = join (lit "/") (split_c colon (c_slug tc)) ++ lit "/" ++ o_key o ++ lit ".log".
Proof. exact layout. Qed.
Print Assumptions C12_layout.

Theorem C12_extensions :
  map extension [KJson; KNumpy; KPandas; KFigure; KGenerated; KGeneratedLazy; KInMemory; KListNumpy; KDir; KContinues]
  = [Some (lit "json"); Some (lit "npy"); Some (lit "pd"); Some (lit "pickle"); Some (lit "jsonl"); Some (lit "jsonl");
     None; None; None; None].
Proof. reflexivity. Qed.
Print Assumptions C12_extensions.

(* FIPS 180-4 test vectors for the SHA-256 used to instantiate the hash *)
Example C12_sha256_vectors :
  sha256_hex (lit "abc") = lit "ba7816bf8f01cfea414140de5dae2223b00361a396177a9cb410ff61f20015ad" /\
  sha256_hex (lit "") = lit "e3b0c44298fc1c149afbf4c8996fb92427ae41e4649b934ca495991b7852b855" /\
  sha256_hex (lit "abcdbcdecdefdefgefghfghighijhijkijkljklmklmnlmnomnopnopq")
    = lit "248d6a61d20638b8e5c026930c3e6039a33ce45964ff2167f6ecedd419db06c1" /\
  firstn 32 (sha256_hex (lit "None$$$")) = lit "9ef6d5a3271cc36c46b92abb4d3889e0".
Proof. vm_compute. repeat split. Qed.

(* golden locations: produced by taskchain at the pinned commit, recomputed here from the model *)
Example C12_golden_no_params :
  golden_paths (([], [{| c_slug := (lit "abc"); c_abstract := false; c_params := []; c_meta_inputs := []; c_param_inputs := []; c_data := KJson; c_runargs := [] |}], [((lit "M.Abc"), [0%nat]); ((lit "M.*"), [0%nat])], [(lit "tcv_dyn_objects.User")], None, None))
    ((inr ((lit "m"), [((lit "tasks"), (VList [(VStr (lit "M.Abc"))]))])))
  = Some [((lit "abc"), (lit "abc/9ef6d5a3271cc36c46b92abb4d3889e0.json"), (lit "abc/9ef6d5a3271cc36c46b92abb4d3889e0.run_info.yaml"), (lit "abc/9ef6d5a3271cc36c46b92abb4d3889e0.log"))].
Proof. vm_compute. reflexivity. Qed.

Example C12_golden_values :
  golden_paths (([], [{| c_slug := (lit "g:train"); c_abstract := false; c_params := [{| pd_name := (lit "lr"); pd_cfg := (lit "lr"); pd_default := None; pd_ignore := false; pd_dropdef := false; pd_dtype := DAny |}; {| pd_name := (lit "names"); pd_cfg := (lit "names"); pd_default := None; pd_ignore := false; pd_dropdef := false; pd_dtype := DAny |}; {| pd_name := (lit "opts"); pd_cfg := (lit "opts"); pd_default := None; pd_ignore := false; pd_dropdef := false; pd_dtype := DAny |}; {| pd_name := (lit "flag"); pd_cfg := (lit "flag"); pd_default := None; pd_ignore := false; pd_dropdef := false; pd_dtype := DAny |}; {| pd_name := (lit "none"); pd_cfg := (lit "none"); pd_default := None; pd_ignore := false; pd_dropdef := false; pd_dtype := DAny |}; {| pd_name := (lit "big"); pd_cfg := (lit "big"); pd_default := None; pd_ignore := false; pd_dropdef := false; pd_dtype := DAny |}; {| pd_name := (lit "skip"); pd_cfg := (lit "skip"); pd_default := None; pd_ignore := true; pd_dropdef := false; pd_dtype := DAny |}; {| pd_name := (lit "dflt"); pd_cfg := (lit "dflt"); pd_default := (Some (VInt (3)%Z)); pd_ignore := false; pd_dropdef := true; pd_dtype := DAny |}]; c_meta_inputs := []; c_param_inputs := []; c_data := KJson; c_runargs := [] |}], [((lit "M.Train"), [0%nat]); ((lit "M.*"), [0%nat])], [(lit "tcv_dyn_objects.User")], None, None))
    ((inr ((lit "m"), [((lit "tasks"), (VList [(VStr (lit "M.Train"))])); ((lit "lr"), (VFloat (lit "0.001"))); ((lit "names"), (VList [(VStr (lit "a")); (VStr (lit "b")); (VList [(VStr (lit "c")); (VInt (1)%Z); VNone])])); ((lit "opts"), (VDict [((lit "z"), (VFloat (lit "1.5"))); ((lit "a"), (VDict [((lit "k"), (VList [(VBool true); (VBool false)]))]))])); ((lit "flag"), (VBool true)); ((lit "none"), VNone); ((lit "big"), (VInt (123456789012345678901234567890)%Z)); ((lit "skip"), (VStr (lit "whatever"))); ((lit "dflt"), (VInt (3)%Z))])))
  = Some [((lit "g:train"), (lit "g/train/ced06b3f1aabe92e650deb04fcacc9d8.json"), (lit "g/train/ced06b3f1aabe92e650deb04fcacc9d8.run_info.yaml"), (lit "g/train/ced06b3f1aabe92e650deb04fcacc9d8.log"))].
Proof. vm_compute. reflexivity. Qed.

Example C12_golden_groups_and_inputs :
  golden_paths (([], [{| c_slug := (lit "data:raw:load"); c_abstract := false; c_params := [{| pd_name := (lit "path"); pd_cfg := (lit "path"); pd_default := None; pd_ignore := false; pd_dropdef := false; pd_dtype := DPath |}]; c_meta_inputs := []; c_param_inputs := []; c_data := KJson; c_runargs := [] |}; {| c_slug := (lit "data:clean"); c_abstract := false; c_params := [{| pd_name := (lit "mode"); pd_cfg := (lit "mode"); pd_default := (Some (VStr (lit "strict"))); pd_ignore := false; pd_dropdef := false; pd_dtype := DAny |}]; c_meta_inputs := [(inr 0%nat)]; c_param_inputs := []; c_data := KJson; c_runargs := [] |}; {| c_slug := (lit "fit"); c_abstract := false; c_params := [{| pd_name := (lit "k"); pd_cfg := (lit "k"); pd_default := None; pd_ignore := false; pd_dropdef := false; pd_dtype := DAny |}]; c_meta_inputs := [(inl (lit "clean")); (inl (lit "data:raw:load"))]; c_param_inputs := []; c_data := KJson; c_runargs := [] |}], [((lit "M.Load"), [0%nat]); ((lit "M.Clean"), [1%nat]); ((lit "M.Fit"), [2%nat]); ((lit "M.*"), [0%nat; 1%nat; 2%nat])], [(lit "tcv_dyn_objects.User")], None, None))
    ((inr ((lit "m"), [((lit "tasks"), (VList [(VStr (lit "M.*"))])); ((lit "path"), (VStr (lit "/d/it's here"))); ((lit "k"), (VInt (5)%Z))])))
  = Some [((lit "data:raw:load"), (lit "data/raw/load/2a48fcb6620a94b10f2bef81b13d06b3.json"), (lit "data/raw/load/2a48fcb6620a94b10f2bef81b13d06b3.run_info.yaml"), (lit "data/raw/load/2a48fcb6620a94b10f2bef81b13d06b3.log")); ((lit "data:clean"), (lit "data/clean/169541bbb90da992a585c44212780415.json"), (lit "data/clean/169541bbb90da992a585c44212780415.run_info.yaml"), (lit "data/clean/169541bbb90da992a585c44212780415.log")); ((lit "fit"), (lit "fit/0b87c089d932472cdf96139791d7a908.json"), (lit "fit/0b87c089d932472cdf96139791d7a908.run_info.yaml"), (lit "fit/0b87c089d932472cdf96139791d7a908.log"))].
Proof. vm_compute. reflexivity. Qed.

Example C12_golden_namespaces :
  golden_paths (([((lit "pipe.json"), (VDict [((lit "tasks"), (VList [(VStr (lit "M.*"))])); ((lit "src"), (VStr (lit "s1"))); ((lit "k"), (VInt (1)%Z))])); ((lit "main.yaml"), (VDict [((lit "uses"), (VList [(VStr (lit "pipe.json as train")); (VStr (lit "pipe.json as test::inner"))]))]))], [{| c_slug := (lit "data:load"); c_abstract := false; c_params := [{| pd_name := (lit "src"); pd_cfg := (lit "src"); pd_default := None; pd_ignore := false; pd_dropdef := false; pd_dtype := DAny |}]; c_meta_inputs := []; c_param_inputs := []; c_data := KJson; c_runargs := [] |}; {| c_slug := (lit "fit"); c_abstract := false; c_params := [{| pd_name := (lit "k"); pd_cfg := (lit "k"); pd_default := None; pd_ignore := false; pd_dropdef := false; pd_dtype := DAny |}]; c_meta_inputs := [(inr 0%nat)]; c_param_inputs := []; c_data := KJson; c_runargs := [] |}], [((lit "M.Load"), [0%nat]); ((lit "M.Fit"), [1%nat]); ((lit "M.*"), [0%nat; 1%nat])], [(lit "tcv_dyn_objects.User")], None, (Some (CxDict [((lit "for_namespaces"), (VDict [((lit "test::inner"), (VDict [((lit "src"), (VStr (lit "s2")))]))])); ((lit "k"), (VInt (2)%Z))]))))
    ((inl (lit "main.yaml")))
  = Some [((lit "train::data:load"), (lit "data/load/7c8ebadcc140d879106f0f93ccacc684.json"), (lit "data/load/7c8ebadcc140d879106f0f93ccacc684.run_info.yaml"), (lit "data/load/7c8ebadcc140d879106f0f93ccacc684.log")); ((lit "train::fit"), (lit "fit/b7642e13dd9ab7f61594125e6231e0ff.json"), (lit "fit/b7642e13dd9ab7f61594125e6231e0ff.run_info.yaml"), (lit "fit/b7642e13dd9ab7f61594125e6231e0ff.log")); ((lit "test::inner::data:load"), (lit "data/load/c1c44532082a28e1c860ceb849339b4a.json"), (lit "data/load/c1c44532082a28e1c860ceb849339b4a.run_info.yaml"), (lit "data/load/c1c44532082a28e1c860ceb849339b4a.log")); ((lit "test::inner::fit"), (lit "fit/882c07848f3175abb083da90f1736f39.json"), (lit "fit/882c07848f3175abb083da90f1736f39.run_info.yaml"), (lit "fit/882c07848f3175abb083da90f1736f39.log"))].
Proof. vm_compute. reflexivity. Qed.

Example C12_golden_data_classes :
  golden_paths (([], [{| c_slug := (lit "j"); c_abstract := false; c_params := []; c_meta_inputs := []; c_param_inputs := []; c_data := KJson; c_runargs := [] |}; {| c_slug := (lit "m"); c_abstract := false; c_params := []; c_meta_inputs := []; c_param_inputs := []; c_data := KInMemory; c_runargs := [] |}; {| c_slug := (lit "n"); c_abstract := false; c_params := []; c_meta_inputs := []; c_param_inputs := []; c_data := KNumpy; c_runargs := [] |}; {| c_slug := (lit "pd"); c_abstract := false; c_params := []; c_meta_inputs := []; c_param_inputs := []; c_data := KPandas; c_runargs := [] |}; {| c_slug := (lit "g"); c_abstract := false; c_params := []; c_meta_inputs := []; c_param_inputs := []; c_data := KGenerated; c_runargs := [] |}; {| c_slug := (lit "d"); c_abstract := false; c_params := []; c_meta_inputs := []; c_param_inputs := []; c_data := KDir; c_runargs := [] |}; {| c_slug := (lit "c"); c_abstract := false; c_params := []; c_meta_inputs := []; c_param_inputs := []; c_data := KContinues; c_runargs := [] |}; {| c_slug := (lit "arrays:l"); c_abstract := false; c_params := []; c_meta_inputs := []; c_param_inputs := []; c_data := KListNumpy; c_runargs := [] |}], [((lit "M.J"), [0%nat]); ((lit "M.M"), [1%nat]); ((lit "M.N"), [2%nat]); ((lit "M.Pd"), [3%nat]); ((lit "M.G"), [4%nat]); ((lit "M.D"), [5%nat]); ((lit "M.C"), [6%nat]); ((lit "M.L"), [7%nat]); ((lit "M.*"), [0%nat; 1%nat; 2%nat; 3%nat; 4%nat; 5%nat; 6%nat; 7%nat])], [(lit "tcv_dyn_objects.User")], None, None))
    ((inr ((lit "m"), [((lit "tasks"), (VList [(VStr (lit "M.*"))]))])))
  = Some [((lit "j"), (lit "j/9ef6d5a3271cc36c46b92abb4d3889e0.json"), (lit "j/9ef6d5a3271cc36c46b92abb4d3889e0.run_info.yaml"), (lit "j/9ef6d5a3271cc36c46b92abb4d3889e0.log")); ((lit "m"), (lit "m/9ef6d5a3271cc36c46b92abb4d3889e0"), (lit "m/9ef6d5a3271cc36c46b92abb4d3889e0.run_info.yaml"), (lit "m/9ef6d5a3271cc36c46b92abb4d3889e0.log")); ((lit "n"), (lit "n/9ef6d5a3271cc36c46b92abb4d3889e0.npy"), (lit "n/9ef6d5a3271cc36c46b92abb4d3889e0.run_info.yaml"), (lit "n/9ef6d5a3271cc36c46b92abb4d3889e0.log")); ((lit "pd"), (lit "pd/9ef6d5a3271cc36c46b92abb4d3889e0.pd"), (lit "pd/9ef6d5a3271cc36c46b92abb4d3889e0.run_info.yaml"), (lit "pd/9ef6d5a3271cc36c46b92abb4d3889e0.log")); ((lit "g"), (lit "g/9ef6d5a3271cc36c46b92abb4d3889e0.jsonl"), (lit "g/9ef6d5a3271cc36c46b92abb4d3889e0.run_info.yaml"), (lit "g/9ef6d5a3271cc36c46b92abb4d3889e0.log")); ((lit "d"), (lit "d/9ef6d5a3271cc36c46b92abb4d3889e0"), (lit "d/9ef6d5a3271cc36c46b92abb4d3889e0.run_info.yaml"), (lit "d/9ef6d5a3271cc36c46b92abb4d3889e0.log")); ((lit "c"), (lit "c/9ef6d5a3271cc36c46b92abb4d3889e0"), (lit "c/9ef6d5a3271cc36c46b92abb4d3889e0.run_info.yaml"), (lit "c/9ef6d5a3271cc36c46b92abb4d3889e0.log")); ((lit "arrays:l"), (lit "arrays/l/9ef6d5a3271cc36c46b92abb4d3889e0"), (lit "arrays/l/9ef6d5a3271cc36c46b92abb4d3889e0.run_info.yaml"), (lit "arrays/l/9ef6d5a3271cc36c46b92abb4d3889e0.log"))].
Proof. vm_compute. reflexivity. Qed.

Example C12_golden_placeholders_and_objects :
  golden_paths (([], [{| c_slug := (lit "abc"); c_abstract := false; c_params := [{| pd_name := (lit "dir"); pd_cfg := (lit "dir"); pd_default := None; pd_ignore := false; pd_dropdef := false; pd_dtype := DAny |}; {| pd_name := (lit "obj"); pd_cfg := (lit "obj"); pd_default := None; pd_ignore := false; pd_dropdef := false; pd_dtype := DAny |}; {| pd_name := (lit "user"); pd_cfg := (lit "user"); pd_default := None; pd_ignore := false; pd_dropdef := false; pd_dtype := DAny |}; {| pd_name := (lit "uni"); pd_cfg := (lit "uni"); pd_default := None; pd_ignore := false; pd_dropdef := false; pd_dtype := DAny |}]; c_meta_inputs := []; c_param_inputs := []; c_data := KJson; c_runargs := [] |}], [((lit "M.Abc"), [0%nat]); ((lit "M.*"), [0%nat])], [(lit "tcv_dyn_objects.User")], (Some [((lit "ROOT"), (lit "/mnt/x"))]), None))
    ((inr ((lit "m"), [((lit "tasks"), (VList [(VStr (lit "M.Abc"))])); ((lit "dir"), (VStr (lit "{ROOT}/models"))); ((lit "uni"), (VStr (bytes [197;190;108;117;197;165;111;117;196;141;107;195;189;32;228;184;173;32;240;159;152;128]))); ((lit "obj"), (VDict [((lit "class"), (VStr (lit "tcv_dyn_objects.Plain"))); ((lit "args"), (VList [(VStr (lit "s")); (VInt (1)%Z)])); ((lit "kwargs"), (VDict [((lit "z"), (VList [(VInt (1)%Z)])); ((lit "a"), (VStr (lit "x")))]))])); ((lit "user"), (VDict [((lit "class"), (VStr (lit "tcv_dyn_objects.User"))); ((lit "args"), (VList [(VStr (lit "Tokenizer(lower=True)"))]))]))])))
  = Some [((lit "abc"), (lit "abc/255ac493fe9057fa3a5f91b6547de506.json"), (lit "abc/255ac493fe9057fa3a5f91b6547de506.run_info.yaml"), (lit "abc/255ac493fe9057fa3a5f91b6547de506.log"))].
Proof. vm_compute. reflexivity. Qed.

Example C12_golden_multi_config :
  golden_paths (([((lit "config.json"), (VDict [((lit "configs"), (VDict [((lit "c1"), (VDict [((lit "tasks"), (VList [(VStr (lit "M.Abc"))])); ((lit "x"), (VInt (1)%Z)); ((lit "y"), (VInt (1)%Z))])); ((lit "c2"), (VDict [((lit "tasks"), (VList [(VStr (lit "M.Abc")); (VStr (lit "M.Dfg"))])); ((lit "x"), (VInt (2)%Z)); ((lit "y"), (VInt (2)%Z))])); ((lit "c"), (VDict [((lit "main_part"), (VBool true)); ((lit "uses"), (VList [(VStr (lit "#c1 as ns")); (VStr (lit "#c2 as ns2"))])); ((lit "z"), (VInt (2)%Z))]))]))]))], [{| c_slug := (lit "abc"); c_abstract := false; c_params := [{| pd_name := (lit "x"); pd_cfg := (lit "x"); pd_default := None; pd_ignore := false; pd_dropdef := false; pd_dtype := DAny |}; {| pd_name := (lit "y"); pd_cfg := (lit "y"); pd_default := (Some (VInt (5)%Z)); pd_ignore := false; pd_dropdef := false; pd_dtype := DAny |}]; c_meta_inputs := []; c_param_inputs := []; c_data := KJson; c_runargs := [] |}; {| c_slug := (lit "g:dfg"); c_abstract := false; c_params := [{| pd_name := (lit "z"); pd_cfg := (lit "z"); pd_default := (Some (VInt (0)%Z)); pd_ignore := false; pd_dropdef := true; pd_dtype := DAny |}]; c_meta_inputs := [(inr 0%nat)]; c_param_inputs := []; c_data := KJson; c_runargs := [] |}], [((lit "M.Abc"), [0%nat]); ((lit "M.Dfg"), [1%nat]); ((lit "M.*"), [0%nat; 1%nat])], [(lit "tcv_dyn_objects.User")], None, (Some (CxDict [((lit "for_namespaces"), (VDict [((lit "ns"), (VDict [((lit "x"), (VInt (11)%Z))])); ((lit "ns2"), (VDict [((lit "x"), (VInt (21)%Z))])); ((lit "nsX"), (VDict [((lit "x"), (VInt (77)%Z))]))])); ((lit "x"), (VInt (666)%Z)); ((lit "y"), (VInt (33)%Z))]))))
    ((inl (lit "config.json")))
  = Some [((lit "ns::abc"), (lit "abc/cda196bce859bdd5ef59064790f5f180.json"), (lit "abc/cda196bce859bdd5ef59064790f5f180.run_info.yaml"), (lit "abc/cda196bce859bdd5ef59064790f5f180.log")); ((lit "ns2::abc"), (lit "abc/db3035311063cb80455243d79db1752f.json"), (lit "abc/db3035311063cb80455243d79db1752f.run_info.yaml"), (lit "abc/db3035311063cb80455243d79db1752f.log")); ((lit "ns2::g:dfg"), (lit "g/dfg/22a1b57d9830d0ee7f27e3001169e902.json"), (lit "g/dfg/22a1b57d9830d0ee7f27e3001169e902.run_info.yaml"), (lit "g/dfg/22a1b57d9830d0ee7f27e3001169e902.log"))].
Proof. vm_compute. reflexivity. Qed.


(* ---- the names of tasks (the directory of a task's results and part of the key text of its dependants) ---- *)

(* an explicit Meta.name is used verbatim: no case change, no suffix stripped *)
Theorem C12_explicit_name_verbatim : forall group n cname,
  slug_name group (Some n) cname = match group with [] => n | _ => group ++ [colon] ++ n end.
Proof. exact explicit_name_verbatim. Qed.
Print Assumptions C12_explicit_name_verbatim.

(* without Meta.name: the class name in snake case, without a trailing _task, behind the group *)
Theorem C12_derived_name : forall group cname,
  slug_name group None cname =
  match group with [] => default_name cname | _ => group ++ [colon] ++ default_name cname end.
Proof. exact derived_name. Qed.
Print Assumptions C12_derived_name.

Theorem C12_derived_name_has_no_capitals : forall cname c, In c (default_name cname) -> is_upper c = false.
Proof. exact default_name_lower. Qed.
Print Assumptions C12_derived_name_has_no_capitals.

Theorem C12_full_name : forall ns slug,
  full_name None slug = slug /\ full_name (Some ns) slug = ns ++ lit "::" ++ slug.
Proof. intros ns slug. split; [apply full_name_none|apply full_name_some]. Qed.
Print Assumptions C12_full_name.
