(* C16 - `cached` keys identify the call, not how it was written.  Statements only. *)
From Coq Require Import List Ascii String Bool Arith ZArith.
From TC Require Import PyStr Value Dict Cached CachedProofs.
Import ListNotations.

(* The normalisation performed by the decorator binds every parameter exactly as Python does:
   positional argument, else keyword argument, else default - for every signature (positional,
   defaulted, keyword-only parameters), every positional prefix and every keyword order. *)
Theorem C16_bind_is_python : forall sig args kwargs j p,
  NoDup (map p_name sig) -> nth_error sig j = Some p ->
  dget (p_name p) (bind_cached sig args kwargs) = py_value args kwargs j p.
Proof. exact bind_is_python. Qed.
Print Assumptions C16_bind_is_python.

Theorem C16_bind_nothing_else : forall sig args kwargs k,
  ~ In k (map p_name sig) -> dget k (bind_cached sig args kwargs) = dget k kwargs.
Proof. exact bind_nothing_else. Qed.
Print Assumptions C16_bind_nothing_else.

Theorem C16_binding_is_a_mapping : forall sig args kwargs,
  NoDup (map fst kwargs) -> NoDup (map fst (bind_cached sig args kwargs)).
Proof. exact bind_nodup. Qed.
Print Assumptions C16_binding_is_a_mapping.

(* Two bindings get the same key iff they agree, as mappings, on every non-ignored parameter
   (values compared up to the order of dict keys, which sort_keys erases): spellings of one
   binding share an entry, any difference in a non-ignored argument separates them. *)
Theorem C16_key_canonical : forall ignore d1 d2,
  NoDup (map fst d1) -> NoDup (map fst d2) ->
  (cache_key ignore d1 = cache_key ignore d2 <->
   forall k, is_ignored ignore k = false -> option_map canon (dget k d1) = option_map canon (dget k d2)).
Proof. exact key_canonical. Qed.
Print Assumptions C16_key_canonical.

Theorem C16_ignored_irrelevant : forall ignore d k v,
  NoDup (map fst d) -> is_ignored ignore k = true -> cache_key ignore (dset k v d) = cache_key ignore d.
Proof. exact ignored_irrelevant. Qed.
Print Assumptions C16_ignored_irrelevant.

(* with the object's own cache, different (method, version) pairs use different sub-caches *)
Theorem C16_methods_versions_disjoint : forall m1 v1 m2 v2,
  ~ In dot m1 -> ~ In dot m2 -> subcache_name m1 v1 = subcache_name m2 v2 -> m1 = m2 /\ v1 = v2.
Proof. exact subcache_name_injective. Qed.
Print Assumptions C16_methods_versions_disjoint.

(* F28: a method whose name is defined more than once in the classes of the object goes by its qualified name; one that
   is not overridden keeps the sub-cache it always had, an overriding method and the one it overrides are apart *)
Theorem C16_plain_method_keeps_its_subcache : forall cls name v,
  subcache_name (method_id cls name false) v = subcache_name name v.
Proof. exact plain_method_keeps_its_name. Qed.
Print Assumptions C16_plain_method_keeps_its_subcache.

Theorem C16_overriding_methods_apart : forall cls1 cls2 name v,
  cls1 <> cls2 -> subcache_name (method_id cls1 name true) v <> subcache_name (method_id cls2 name true) v.
Proof. exact overriding_methods_apart. Qed.
Print Assumptions C16_overriding_methods_apart.

Theorem C16_overridden_apart_from_plain : forall cls name other,
  ~ In "."%char other -> subcache_name (method_id cls name true) None <> subcache_name (method_id cls other false) None.
Proof. exact overridden_apart_from_plain. Qed.
Print Assumptions C16_overridden_apart_from_plain.

(* control keywords *)
Theorem C16_only_cache_only_looks_up : forall body sig ignore st c,
  c_only c = true ->
  cached_step body sig ignore st c =
  (st, kget (cache_key ignore (bind_cached sig (c_args c) (c_kwargs c))) (entries st)).
Proof. exact only_cache_never_executes. Qed.
Print Assumptions C16_only_cache_only_looks_up.

Theorem C16_stored_entry_served_without_execution : forall body sig ignore st c v,
  c_only c = false -> c_force c = false ->
  kget (cache_key ignore (bind_cached sig (c_args c) (c_kwargs c))) (entries st) = Some v ->
  cached_step body sig ignore st c = (st, Some v).
Proof. exact stored_entry_served. Qed.
Print Assumptions C16_stored_entry_served_without_execution.

Theorem C16_executes_once_when_absent_or_forced : forall body sig ignore st c,
  c_only c = false -> c_store c = None ->
  (kget (cache_key ignore (bind_cached sig (c_args c) (c_kwargs c))) (entries st) = None \/ c_force c = true) ->
  let v := body (bind_cached sig (c_args c) (c_kwargs c)) (executions st) in
  cached_step body sig ignore st c =
    ({| entries := kset (cache_key ignore (bind_cached sig (c_args c) (c_kwargs c))) v (entries st);
        executions := S (executions st) |}, Some v).
Proof. exact computes_exactly_once_when_needed. Qed.
Print Assumptions C16_executes_once_when_absent_or_forced.

Theorem C16_store_cache_value_never_executes : forall body sig ignore st c v,
  c_only c = false -> c_store c = Some v ->
  executions (fst (cached_step body sig ignore st c)) = executions st.
Proof. exact store_value_never_executes. Qed.
Print Assumptions C16_store_cache_value_never_executes.

Theorem C16_other_entries_untouched : forall body sig ignore st c k,
  k <> cache_key ignore (bind_cached sig (c_args c) (c_kwargs c)) ->
  kget k (entries (fst (cached_step body sig ignore st c))) = kget k (entries st).
Proof. exact other_entries_untouched. Qed.
Print Assumptions C16_other_entries_untouched.

Theorem C16_result_is_the_entry : forall body sig ignore st c,
  c_only c = false ->
  kget (cache_key ignore (bind_cached sig (c_args c) (c_kwargs c))) (entries (fst (cached_step body sig ignore st c)))
  = snd (cached_step body sig ignore st c).
Proof. exact result_is_stored. Qed.
Print Assumptions C16_result_is_the_entry.

(* five spellings of one binding of  def m(self, a, b=1, *, c=True), and a JSON-distinguishable neighbour *)
Example C16_spellings :
  let sig := [ {| p_name := lit "a"; p_kind := PosOrKw; p_default := None |};
               {| p_name := lit "b"; p_kind := PosOrKw; p_default := Some (VInt 1) |};
               {| p_name := lit "c"; p_kind := KwOnly; p_default := Some (VBool true) |} ] in
  let key args kwargs := cache_key [] (bind_cached sig args kwargs) in
  key [VInt 5] [] = key [VInt 5; VInt 1] [] /\
  key [VInt 5] [] = key [] [(lit "c", VBool true); (lit "b", VInt 1); (lit "a", VInt 5)] /\
  key [VInt 5] [] = key [VInt 5] [(lit "c", VBool true)] /\
  key [VInt 5] [] <> key [VInt 5] [(lit "b", VFloat (lit "1.0"))] /\
  key [VInt 5] [] <> key [VInt 5] [(lit "c", VInt 1)].
Proof. vm_compute. repeat split; discriminate. Qed.
