(* C01 - a chain never returns a stale or foreign result.  Statements only.
   Den run objs id v : v is the reference evaluation of task object id in the current configuration
   (run applied to its persisted parameters and to the denotations of its inputs).
   The two hypotheses of the main theorems are the interface to C03 and C08:
     location_determines_denotation - objects with one storage location denote one value (C03: the key
       text is uniquely readable and the hash has no collision on the texts that occur);
     well_founded_inputs - the input relation is well founded and closed (C08: construction rejects
       cycles and missing inputs). *)
From Coq Require Import String Ascii List Bool Arith ZArith.
From TC Require Import PyStr Value Dict Repr Param Config Key Chain World Eval History EvalProofs HistoryProofs.
Import ListNotations.

(* Whatever Task.value returns - just computed, held in memory, or loaded from storage written by
   anyone - is the denotation, and the data directory stays sound for every later request. *)
Theorem C01_value_is_denotation :
  forall classes run objs ideal,
  (forall id o tc v, nth_error objs id = Some o -> cls_of classes o = Some tc ->
                     Den run objs id v -> ideal (result_path tc o) = Some v) ->
  (forall id o, nth_error objs id = Some o -> exists v, Den run objs id v) ->
  forall fuel w id w' r,
  Inv run objs ideal w -> eval classes run fuel w id = (w', r) ->
  Inv run objs ideal w' /\ (forall v, r = inl v -> Den run objs id v).
Proof. exact eval_sound. Qed.
Print Assumptions C01_value_is_denotation.

(* every operation of a process lifetime - value requests in any order, forcing with or without
   deletion and recomputation, inspection, failing runs - preserves that invariant *)
Theorem C01_history_step_sound :
  forall H wd run objs ideal,
  (forall id o tc v, nth_error objs id = Some o -> cls_of (classes_of_world wd) o = Some tc ->
                     Den run objs id v -> ideal (result_path tc o) = Some v) ->
  (forall id o, nth_error objs id = Some o -> exists v, Den run objs id v) ->
  forall h o h' out,
  (match o with OBuild _ | OBuildMulti _ | ORestart => False | _ => True end) ->
  Inv run objs ideal (h_world h) -> step H wd run h o = (h', out) ->
  Inv run objs ideal (h_world h') /\
  (forall c n v id, o = OValue c n -> oid_of h c n = Some id -> out = ok v -> Den run objs id v).
Proof. exact step_preserves_soundness. Qed.
Print Assumptions C01_history_step_sound.

(* a process restart keeps the data directory and drops every task object: the store half of the
   invariant, which does not mention objects, carries over to whatever chains are built next *)
Theorem C01_restart_keeps_store_sound : forall H wd run ideal h h' out,
  StoreSound ideal (h_world h) -> step H wd run h ORestart = (h', out) -> StoreSound ideal (h_world h').
Proof. intros H wd run ideal h h' out Hs E. injection E as <- _. exact Hs. Qed.
Print Assumptions C01_restart_keeps_store_sound.

(* building chains does not touch the data directory *)
Theorem C01_build_keeps_store : forall H wd run h b h' out,
  step H wd run h (OBuild b) = (h', out) -> w_store (h_world h') = w_store (h_world h).
Proof.
  intros H wd run h b h' out E. unfold step in E.
  destruct (build H wd b (w_objs (h_world h)) []) as [[[rc objs] reg]|e]; injection E as <- _; reflexivity.
Qed.
Print Assumptions C01_build_keeps_store.
