(* C04 - each computation runs at most once, and only on demand.  Statements only. *)
From Coq Require Import String Ascii List Bool Arith ZArith.
From TC Require Import OnceProofs ApartProofs Sha256 PyStr Value Dict Repr Param Config Key Chain World Eval History EvalProofs HistoryProofs.
Import ListNotations.

(* a result held by the task object is served: nothing runs, nothing changes *)
Theorem C04_memory_hit : forall classes run f w id o tc v,
  nth_error (w_objs w) id = Some o -> cls_of classes o = Some tc -> os_mem (state_of w id) = Some v ->
  eval classes run (S f) w id = (w, inl v).
Proof. exact eval_memory_hit. Qed.
Print Assumptions C04_memory_hit.

(* a stored result is loaded without running anything and without touching its upstream: the run
   log, every other task object and every existing file are as before; only the task directory is
   (idempotently) created *)
Theorem C04_load_touches_nothing : forall classes run f w id o tc v,
  nth_error (w_objs w) id = Some o -> cls_of classes o = Some tc ->
  os_mem (state_of w id) = None -> os_forced (state_of w id) = false -> persisting (c_data tc) = true ->
  dget (result_path tc o) (w_store w) = Some (FValue v) ->
  exists w', eval classes run (S f) w id = (w', inl v) /\
             w_runlog w' = w_runlog w /\ w_objs w' = w_objs w /\
             w_store w' = mkdirs (dir_of_slug (c_slug tc)) (w_store w) /\
             (forall j, j <> id -> state_of w' j = state_of w j) /\
             (forall p e, dget p (w_store w) = Some e -> dget p (w_store w') = Some e).
Proof. exact eval_load_touches_nothing. Qed.
Print Assumptions C04_load_touches_nothing.

(* after a successful request the value is in memory, so every later request on the object is a
   memory hit (C04_memory_hit): the run executes at most once per task object *)
Theorem C04_success_stays_in_memory : forall classes run f w id w' v,
  id < List.length (w_states w) -> eval classes run f w id = (w', inl v) -> os_mem (state_of w' id) = Some v.
Proof. exact eval_success_in_memory. Qed.
Print Assumptions C04_success_stays_in_memory.

(* the run log is only ever extended *)
Theorem C04_runs_only_appended : forall classes run f w id w' r,
  eval classes run f w id = (w', r) -> exists d, w_runlog w' = w_runlog w ++ d.
Proof. exact eval_runlog_grows. Qed.
Print Assumptions C04_runs_only_appended.

(* building chains and inspecting them (has_data, forcing without recomputation, fault toggles,
   restarts) runs nothing *)
Theorem C04_inspection_runs_nothing : forall H wd run h o h' out,
  (match o with OValue _ _ => False | OForceChain _ _ true _ => False | OForceMulti _ _ true _ => False | _ => True end) ->
  step H wd run h o = (h', out) -> w_runlog (h_world h') = w_runlog (h_world h).
Proof. exact inspection_runs_nothing. Qed.
Print Assumptions C04_inspection_runs_nothing.

(* ... and has_data changes no existing file (it creates the task directory: known finding K3) *)
Theorem C04_has_data_keeps_files : forall H wd run h c n h' out p e,
  step H wd run h (OHasData c n) = (h', out) ->
  dget p (w_store (h_world h)) = Some e -> dget p (w_store (h_world h')) = Some e.
Proof. exact has_data_keeps_files. Qed.
Print Assumptions C04_has_data_keeps_files.

(* Over a whole history: value requests on arbitrary task objects in any order, with restarts (everything in
   memory forgotten) in between, starting from ANY content of the data directory and an empty run log, all
   requests succeeding, nothing forced: the run of a persisted task has executed at most once per storage
   location, and a location that was computed is stored (so that every later request for it is a load,
   C04_stored_is_loaded).  The hypotheses describe the shape of a built chain: inputs are strictly lower
   (mu: e.g. the depth of the computation - C08 gives acyclicity, C03 that one location is one computation,
   hence one depth), one location has one data class, and log/record files are nobody's result file.
   The object table is fixed (all chains built before the requests). *)
Theorem C04_at_most_once_per_location : forall classes run objs mu,
  (forall id o k j, nth_error objs id = Some o -> In (k, inl j) (o_inputs o) -> mu j < mu id) ->
  (forall i oi ti j oj tj, IsObj classes objs i oi ti -> IsObj classes objs j oj tj ->
                           entry_of ti oi = entry_of tj oj -> mu i = mu j) ->
  (forall i oi ti j oj tj, IsObj classes objs i oi ti -> IsObj classes objs j oj tj ->
                           entry_of ti oi = entry_of tj oj -> c_data ti = c_data tj) ->
  (forall i oi ti j oj tj, IsObj classes objs i oi ti -> IsObj classes objs j oj tj ->
                           log_path ti oi <> result_path tj oj /\ info_path ti oi <> result_path tj oj) ->
  forall f ops w w',
  Quiet objs w -> w_runlog w = [] -> run_hist classes run f w ops = Some w' ->
  forall id o tc, IsObj classes objs id o tc -> persisting (c_data tc) = true ->
                  cnt (entry_of tc o) (w_runlog w') <= 1.
Proof. exact at_most_once_per_location. Qed.
Print Assumptions C04_at_most_once_per_location.

Theorem C04_computed_is_stored : forall classes run objs mu,
  (forall id o k j, nth_error objs id = Some o -> In (k, inl j) (o_inputs o) -> mu j < mu id) ->
  (forall i oi ti j oj tj, IsObj classes objs i oi ti -> IsObj classes objs j oj tj ->
                           entry_of ti oi = entry_of tj oj -> mu i = mu j) ->
  (forall i oi ti j oj tj, IsObj classes objs i oi ti -> IsObj classes objs j oj tj ->
                           entry_of ti oi = entry_of tj oj -> c_data ti = c_data tj) ->
  (forall i oi ti j oj tj, IsObj classes objs i oi ti -> IsObj classes objs j oj tj ->
                           log_path ti oi <> result_path tj oj /\ info_path ti oi <> result_path tj oj) ->
  forall f ops w w',
  Quiet objs w -> w_runlog w = [] -> run_hist classes run f w ops = Some w' ->
  forall id o tc, IsObj classes objs id o tc -> persisting (c_data tc) = true ->
                  cnt (entry_of tc o) (w_runlog w') = 1 -> Stored (w_store w') tc o.
Proof. exact computed_is_stored. Qed.
Print Assumptions C04_computed_is_stored.

(* the premises are satisfiable: a two-task chain, the input named in the signature of run; six requests and
   two restarts run each location once *)
Example C04_history_nonvacuous :
  exists w', run_hist OnceExample.classes OnceExample.run0 5 OnceExample.w0
                      [HReq 1; HForget; HReq 1; HReq 0; HForget; HReq 0] = Some w' /\
             w_runlog w' = [(lit "a", lit "k0"); (lit "b", lit "k1")].
Proof. exact OnceExample.history_runs_each_location_once. Qed.

(* the last premise of the history theorem holds for parameter-mode chains: their keys are 32 hex digits of a
   SHA-256 digest, and a result file named by such a key is no task's log or record file *)
Theorem C04_side_files_apart_for_hex_keys : forall classes objs,
  (forall id o, nth_error objs id = Some o -> hexkey (o_key o)) ->
  forall i oi ti j oj tj, IsObj classes objs i oi ti -> IsObj classes objs j oj tj ->
  log_path ti oi <> result_path tj oj /\ info_path ti oi <> result_path tj oj.
Proof. exact apart_for_hex_keys. Qed.
Print Assumptions C04_side_files_apart_for_hex_keys.

Theorem C04_sha256_key_is_hex : forall t, hexkey (key_of_text sha256_hex t).
Proof. exact sha256_key_hex. Qed.
Print Assumptions C04_sha256_key_is_hex.
