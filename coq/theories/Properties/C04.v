(* C04 - each computation runs at most once, and only on demand.  Statements only. *)
From Coq Require Import String Ascii List Bool Arith ZArith.
From TC Require Import PyStr Value Dict Repr Param Config Key Chain World Eval History EvalProofs HistoryProofs.
Import ListNotations.

(* a result held by the task object is served: nothing runs, nothing changes *)
Theorem C04_memory_hit : forall classes run f w id o tc v,
  nth_error (w_objs w) id = Some o -> cls_of classes o = Some tc -> os_mem (state_of w id) = Some v ->
  eval classes run (S f) w id = (w, inl v).
Proof. exact eval_memory_hit. Qed.
Print Assumptions C04_memory_hit.

(* a stored result is loaded without running anything and without touching its upstream: the run
   log, every other task object and every existing file are as before; only the task directory is
   (idempotently) created *)
Theorem C04_load_touches_nothing : forall classes run f w id o tc v,
  nth_error (w_objs w) id = Some o -> cls_of classes o = Some tc ->
  os_mem (state_of w id) = None -> os_forced (state_of w id) = false -> persisting (c_data tc) = true ->
  dget (result_path tc o) (w_store w) = Some (FValue v) ->
  exists w', eval classes run (S f) w id = (w', inl v) /\
             w_runlog w' = w_runlog w /\ w_objs w' = w_objs w /\
             w_store w' = mkdirs (dir_of_slug (c_slug tc)) (w_store w) /\
             (forall j, j <> id -> state_of w' j = state_of w j) /\
             (forall p e, dget p (w_store w) = Some e -> dget p (w_store w') = Some e).
Proof. exact eval_load_touches_nothing. Qed.
Print Assumptions C04_load_touches_nothing.

(* after a successful request the value is in memory, so every later request on the object is a
   memory hit (C04_memory_hit): the run executes at most once per task object *)
Theorem C04_success_stays_in_memory : forall classes run f w id w' v,
  id < List.length (w_states w) -> eval classes run f w id = (w', inl v) -> os_mem (state_of w' id) = Some v.
Proof. exact eval_success_in_memory. Qed.
Print Assumptions C04_success_stays_in_memory.

(* the run log is only ever extended *)
Theorem C04_runs_only_appended : forall classes run f w id w' r,
  eval classes run f w id = (w', r) -> exists d, w_runlog w' = w_runlog w ++ d.
Proof. exact eval_runlog_grows. Qed.
Print Assumptions C04_runs_only_appended.

(* building chains and inspecting them (has_data, forcing without recomputation, fault toggles,
   restarts) runs nothing *)
Theorem C04_inspection_runs_nothing : forall H wd run h o h' out,
  (match o with OValue _ _ => False | OForceChain _ _ true _ => False | OForceMulti _ _ true _ => False | _ => True end) ->
  step H wd run h o = (h', out) -> w_runlog (h_world h') = w_runlog (h_world h).
Proof. exact inspection_runs_nothing. Qed.
Print Assumptions C04_inspection_runs_nothing.

(* ... and has_data changes no existing file (it creates the task directory: known finding K3) *)
Theorem C04_has_data_keeps_files : forall H wd run h c n h' out p e,
  step H wd run h (OHasData c n) = (h', out) ->
  dget p (w_store (h_world h)) = Some e -> dget p (w_store (h_world h')) = Some e.
Proof. exact has_data_keeps_files. Qed.
Print Assumptions C04_has_data_keeps_files.
