(* C19 - test helpers compute what the real chain computes.  Statements only. *)
From Coq Require Import String Ascii List Bool Arith ZArith.
From TC Require Import PyStr Value Dict Repr Param Config Key Chain Eval Testing EvalProofs TestingProofs.
Import ListNotations.

(* given the same parameter values and the same upstream values (each mock holds, or each real upstream
   of the TestChain computes, the denotation of the real upstream), the task yields in the helper exactly
   what it yields in the real chain *)
Theorem C19_same_value : forall run objs f chain mocks name nd id o,
  nth_error objs id = Some o -> dget name mocks = None -> dget name chain = Some nd ->
  t_cls nd = o_cls o -> t_params nd = o_params o ->
  InputsAgree run objs f chain mocks (t_inputs nd) (o_inputs o) ->
  exists v, test_value run (S f) chain mocks name = inl v /\ Den run objs id v.
Proof. exact helper_yields_real_value. Qed.
Print Assumptions C19_same_value.

(* a mocked task returns the supplied value; nothing is run for it *)
Theorem C19_mock_returns_supplied : forall run f chain mocks name v,
  dget name mocks = Some v -> test_value run (S f) chain mocks name = inl v.
Proof. exact mock_returns_supplied. Qed.
Print Assumptions C19_mock_returns_supplied.

(* a missing or ill-typed parameter, and a missing input task, are reported by the constructor *)
Theorem C19_bad_parameter_reported : forall classes k tc mocks params p,
  cls classes k = inl tc -> In p (c_params tc) -> (exists e, set_value p params = inr e) ->
  exists e, test_chain classes [k] mocks params = inr e.
Proof. exact helper_reports_bad_parameter. Qed.
Print Assumptions C19_bad_parameter_reported.

Theorem C19_missing_input_reported : forall classes k tc mocks params ps,
  cls classes k = inl tc -> set_values (c_params tc) params = inl ps -> dhas (c_slug tc) mocks = false ->
  (exists e, resolve_inputs classes tc (c_slug tc)
               (map fst (fold_left (fun acc m => dset (fst m) tt acc) mocks [(c_slug tc, tt)])) = inr e) ->
  exists e, test_chain classes [k] mocks params = inr e.
Proof. exact helper_reports_missing_input. Qed.
Print Assumptions C19_missing_input_reported.
