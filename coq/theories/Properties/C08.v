(* C08 - the dependency graph is exactly the declared one, and acyclic.  Statements only. *)
From Coq Require Import String Ascii List Bool Arith ZArith.
From TC Require Import PyStr Value Dict Repr Param Names Config Key Chain Graph World GraphProofs ChainProofs ChainTasksProofs.
Import ListNotations.

(* a config contributes exactly its listed, non-abstract, non-excluded classes, under its namespace *)
Theorem C08_tasks_exact : forall classes imports ci c tasks tasks' excluded listed x,
  collect_classes imports (lit "excluded_tasks") (cf_data c) = inl excluded ->
  collect_classes imports (lit "tasks") (cf_data c) = inl listed ->
  create_tasks_of_config classes imports ci c tasks = inl tasks' ->
  (In x (map fst tasks') <->
   In x (map fst tasks) \/
   exists k tc, In k listed /\ eligible classes excluded k tc /\ x = full_name (c_slug tc) (cf_ns c)).
Proof. exact config_tasks_exact. Qed.
Print Assumptions C08_tasks_exact.

(* the whole chain: a task is in it exactly when some config of the chain contributes it - lists its class, which is
   not abstract and not excluded *by that config*; what one config excludes has no bearing on the others *)
Theorem C08_chain_tasks_exact : forall classes imports cs ci tasks tasks' x,
  create_tasks classes imports ci cs tasks = inl tasks' ->
  (In x (map fst tasks') <-> In x (map fst tasks) \/ exists n c, In (n, c) cs /\ contributes classes imports c x).
Proof. exact chain_tasks_exact. Qed.
Print Assumptions C08_chain_tasks_exact.

(* every input is resolved inside the declaring task's own namespace *)
Theorem C08_resolved_in_own_namespace : forall q names f,
  find_task_full_name false q names = inl f -> In f names /\ ns_text f = ns_text q.
Proof. exact resolved_in_namespace. Qed.
Print Assumptions C08_resolved_in_own_namespace.

Theorem C08_input_by_name : forall classes ns names acc d q found,
  i_ref d = inl q -> dhas (prefixed ns q) acc = false ->
  find_task_full_name false (prefixed ns q) names = inl found ->
  resolve_one classes ns names acc d = inl (dset found (inl found) acc) /\
  In found names /\ ns_text found = ns_text (prefixed ns q).
Proof. exact resolve_one_by_name. Qed.
Print Assumptions C08_input_by_name.

Theorem C08_input_by_class : forall classes ns names acc d k tc found,
  i_ref d = inr k -> cls classes k = inl tc -> dhas (prefixed ns (c_slug tc)) acc = false ->
  find_task_full_name false (prefixed ns (c_slug tc)) names = inl found ->
  In (prefixed ns (c_slug tc)) names ->
  resolve_one classes ns names acc d
  = inl (dset (prefixed ns (c_slug tc)) (inl (prefixed ns (c_slug tc))) acc).
Proof. exact resolve_one_by_class. Qed.
Print Assumptions C08_input_by_class.

(* a reference by class is exact: when the task of that class is not in the chain, a task of another class whose name
   matches the short form (found) does not stand in - the optional input is absent, the required one is missing *)
Theorem C08_input_by_class_absent : forall classes ns names acc d k tc found,
  i_ref d = inr k -> cls classes k = inl tc -> dhas (prefixed ns (c_slug tc)) acc = false ->
  find_task_full_name false (prefixed ns (c_slug tc)) names = inl found ->
  existsb (str_eqb (prefixed ns (c_slug tc))) names = false ->
  resolve_one classes ns names acc d =
  if i_required d then inr EMissingInput else inl (dset (prefixed ns (c_slug tc)) (inr (i_default d)) acc).
Proof. exact resolve_one_by_class_absent. Qed.
Print Assumptions C08_input_by_class_absent.

(* an absent optional input is bound to its default (no edge); an absent required one is an error *)
Theorem C08_absent_input : forall classes ns names acc d n0 e,
  (match i_ref d with inl s => inl s | inr k => match cls classes k with inl c => inl (c_slug c) | inr e => inr e end end) = inl n0 ->
  dhas (prefixed ns n0) acc = false ->
  find_task_full_name false (prefixed ns n0) names = inr e -> e <> EAmbiguous ->
  resolve_one classes ns names acc d =
  if i_required d then inr EMissingInput else inl (dset (prefixed ns n0) (inr (i_default d)) acc).
Proof. exact resolve_one_missing. Qed.
Print Assumptions C08_absent_input.

(* an input, required or optional, whose name matches several tasks without a less-nested one is an error *)
Theorem C08_ambiguous_input : forall classes ns names acc d n0,
  (match i_ref d with inl s => inl s | inr k => match cls classes k with inl c => inl (c_slug c) | inr e => inr e end end) = inl n0 ->
  dhas (prefixed ns n0) acc = false ->
  find_task_full_name false (prefixed ns n0) names = inr EAmbiguous ->
  resolve_one classes ns names acc d = inr EAmbiguous.
Proof. exact resolve_one_ambiguous. Qed.
Print Assumptions C08_ambiguous_input.

Theorem C08_missing_input_rejected : forall classes tc current names d e l1 l2,
  declared_inputs tc current names = l1 ++ d :: l2 ->
  (forall acc, resolve_one classes (ns_of_name current) names acc d = inr e) ->
  exists e', resolve_inputs classes tc current names = inr e'.
Proof. exact missing_required_input_fails. Qed.
Print Assumptions C08_missing_input_rejected.

(* required_tasks, dependent_tasks and is_task_dependent_on are the transitive closures of the
   input -> dependant relation over the tasks of the chain *)
Theorem C08_dependent_tasks : forall objs tasks x y,
  In y (dependent_tasks objs tasks x false) <-> y <> x /\ Upstream objs tasks x y.
Proof. exact dependent_tasks_spec. Qed.
Print Assumptions C08_dependent_tasks.

Theorem C08_dependent_tasks_include_self : forall objs tasks x y,
  In y (dependent_tasks objs tasks x true) <-> y = x \/ (y <> x /\ Upstream objs tasks x y).
Proof. exact dependent_tasks_self. Qed.
Print Assumptions C08_dependent_tasks_include_self.

Theorem C08_required_tasks : forall objs tasks x y,
  In y (required_tasks objs tasks x false) <->
  y <> x /\ Path (fun a b => input_edge objs b a) (chain_nodes tasks) x y.
Proof. exact required_tasks_spec. Qed.
Print Assumptions C08_required_tasks.

Theorem C08_is_task_dependent_on : forall objs tasks task dependency,
  is_task_dependent_on objs tasks task dependency = true <->
  task = dependency \/ Upstream objs tasks dependency task.
Proof. exact is_task_dependent_on_spec. Qed.
Print Assumptions C08_is_task_dependent_on.

(* a dependency cycle (more generally any set of tasks each of which has an input in the set)
   makes construction fail, for every cycle length and whatever the fuel *)
Theorem C08_cycle_rejected : forall H classes tasks1 (B : str -> Prop),
  (forall n, B n -> forall nd, dget n tasks1 = Some nd -> exists k i, In (k, inl i) (n_inputs nd) /\ B i) ->
  forall fuel todo st name,
  (forall n, B n -> dget n (ps_new st) = None) -> In name (map fst todo) -> B name ->
  exists e, recreate H classes fuel tasks1 todo st = inr e.
Proof. exact cycle_rejected. Qed.
Print Assumptions C08_cycle_rejected.
