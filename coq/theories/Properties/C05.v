(* C05 - a result is visible to later chains only when complete.  Statements only.
   The model (Crash.v) is the sequence of file-system operations by which each data class publishes a
   result, at the granularity at which the process can die or a fault can interrupt it; the operations
   themselves (rename within a directory is atomic, a file being written is partial until closed) are
   the trusted description of the operating system. *)
From Coq Require Import List Bool Arith.
From TC Require Import Crash CrashProofs Resume ResumeProofs.
Import ListNotations.

(* for every data class, every state of the work and aside names left by earlier attempts, and every
   point k at which the computing process dies or the save raises: the final name holds nothing, the
   complete new result, or the complete previous result *)
Theorem C05_crash_atomic : forall kd fs vold v k,
  clean_start fs vold -> ok_final (crash fs (trace_of kd fs v) k) vold v.
Proof. exact crash_atomic. Qed.
Print Assumptions C05_crash_atomic.

(* in the words of the property: a visible result is complete *)
Theorem C05_visible_means_complete : forall kd fs vold v k,
  clean_start fs vold -> visible (crash fs (trace_of kd fs v) k) = true ->
  crash fs (trace_of kd fs v) k Final = Complete v \/
  exists v0, vold = Some v0 /\ crash fs (trace_of kd fs v) k Final = Complete v0.
Proof. exact visible_means_complete. Qed.
Print Assumptions C05_visible_means_complete.

(* an uninterrupted save publishes the complete new result *)
Theorem C05_save_completes : forall kd fs vold v,
  clean_start fs vold -> run fs (trace_of kd fs v) Final = Complete v.
Proof. exact save_completes. Qed.
Print Assumptions C05_save_completes.

(* a later chain that finds nothing visible computes and publishes the complete result, whatever the
   crashed attempt left behind *)
Theorem C05_recovery : forall kd fs vold v k v',
  clean_start fs vold ->
  let fs' := crash fs (trace_of kd fs v) k in
  visible fs' = false -> run fs' (trace_of kd fs' v') Final = Complete v'.
Proof. exact crash_then_recover. Qed.
Print Assumptions C05_recovery.

(* the work directory of a failed directory-producing run is set aside; the final name is untouched at
   every point of that *)
Theorem C05_failed_run_leaves_final : forall fs k, crash fs (on_run_error_dir fs) k Final = fs Final.
Proof. exact failed_dir_run_set_aside. Qed.
Print Assumptions C05_failed_run_leaves_final.

(* why the discipline is needed: writing under the final name (the code before the repair F6) shows a
   truncated file to later chains *)
Theorem C05_in_place_refuted : exists k,
  visible (crash (fun _ => Absent) (save_in_place 2) k) = true /\
  crash (fun _ => Absent) (save_in_place 2) k Final = Partial.
Proof. exact in_place_refuted. Qed.
Print Assumptions C05_in_place_refuted.

Example C05_nonvacuous :
  map (fun k => crash (start true true true) (trace_of KDir (start true true true) 2) k Final) (seq 0 11) =
  [Complete 1; Complete 1; Complete 1; Complete 1; Complete 1; Complete 1; Complete 1; Absent;
   Complete 2; Complete 2; Complete 2].
Proof. exact crash_states_dir. Qed.

(* ---------- a resumable task that appends batches of rows (H5Data.append_data, Model/Resume.v) ---------- *)
(* whatever attempts were killed after the rows of a batch reached the file and before their commit - any number of them,
   at any batch, also the first - the attempt that runs to the end leaves exactly the batches, once, all committed *)
Theorem C05_resumed_rows_exact : forall (A : Type) always (batches : list (list A)) plans,
  resume always batches 0 [] (plans ++ [None]) = (length batches, concat batches).
Proof. exact @resumed_rows_exact. Qed.
Print Assumptions C05_resumed_rows_exact.

(* between attempts the file holds the committed batches and at most the one that was being stored *)
Theorem C05_resumed_rows_between_attempts : forall (A : Type) always (batches : list (list A)) plans,
  exists m, fst (resume always batches 0 [] plans) <= m <= S (fst (resume always batches 0 [] plans)) /\
            m <= length batches /\ snd (resume always batches 0 [] plans) = concat (firstn m batches).
Proof. exact @resumed_rows_prefix. Qed.
Print Assumptions C05_resumed_rows_between_attempts.
