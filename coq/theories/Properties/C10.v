(* C10 - task names resolve uniquely or not at all.  Statements only.
   The model find_task_full_name is total on arbitrary text; the component views
   ns_parts / local_parts are the splits the code itself performs. *)
From Coq Require Import List Ascii String Bool Permutation.
From TC Require Import PyStr Dict Value Param Names NamesProofs NamesWfProofs Naming NamingWfProofs Chain ChainProofs.
Import ListNotations.

(* resolution never depends on the order in which tasks were declared *)
Theorem C10_order_independent : forall det q ts ts',
  Permutation ts ts' -> find_task_full_name det q ts = find_task_full_name det q ts'.
Proof. exact find_order_independent. Qed.
Print Assumptions C10_order_independent.

(* a resolved name is a declared task that matches the query and is the less nested form of
   every other match *)
Theorem C10_resolved_is_least_nested_match : forall det q ts c,
  find_task_full_name det q ts = inl c ->
  In c ts /\ task_name_match det q c = true /\
  forall t, In t ts -> task_name_match det q t = true -> is_less_nested c t = true.
Proof. exact find_sound. Qed.
Print Assumptions C10_resolved_is_least_nested_match.

(* conversely such a match is what is returned: so several matches without a least nested one
   never resolve *)
Theorem C10_least_nested_match_resolves : forall det q ts c,
  In c ts -> task_name_match det q c = true ->
  (forall t, In t ts -> task_name_match det q t = true -> is_less_nested c t = true) ->
  find_task_full_name det q ts = inl c.
Proof. exact find_complete. Qed.
Print Assumptions C10_least_nested_match_resolves.

Theorem C10_unique_match_resolves : forall det q ts t,
  In t ts -> task_name_match det q t = true ->
  (forall t', In t' ts -> task_name_match det q t' = true -> t' = t) ->
  find_task_full_name det q ts = inl t.
Proof. exact find_unique_resolves. Qed.
Print Assumptions C10_unique_match_resolves.

Theorem C10_not_found_iff_no_match : forall det q ts,
  find_task_full_name det q ts = inr ENotFound <-> forall t, In t ts -> task_name_match det q t = false.
Proof. exact find_not_found_iff. Qed.
Print Assumptions C10_not_found_iff_no_match.

Theorem C10_only_two_errors : forall det q ts e,
  find_task_full_name det q ts = inr e -> e = ENotFound \/ e = EAmbiguous.
Proof. exact find_error_cases. Qed.
Print Assumptions C10_only_two_errors.

(* "less nested form" is decided on components: the candidate's namespaces and its groups+name
   are suffixes of the other's *)
Theorem C10_less_nested_by_components : forall cand other,
  is_less_nested cand other = true <->
  (exists extra_ns, ns_parts other = extra_ns ++ ns_parts cand) /\
  (exists extra_groups, local_parts other = extra_groups ++ local_parts cand).
Proof. exact is_less_nested_spec. Qed.
Print Assumptions C10_less_nested_by_components.

(* two names that are each the less nested form of the other are the same name, so at most one
   match can have priority *)
Theorem C10_priority_unique : forall ms c1 c2,
  In c1 ms -> In c2 ms -> has_priority ms c1 = true -> has_priority ms c2 = true -> c1 = c2.
Proof. exact priority_unique. Qed.
Print Assumptions C10_priority_unique.

(* concrete name sets, including the textual prefix/suffix traps *)
Example C10_examples :
  find_task_full_name true (lit "a") [lit "n::a"; lit "xn::a"] = inr EAmbiguous /\
  find_task_full_name true (lit "a") [lit "g:a"; lit "xg:a"] = inr EAmbiguous /\
  find_task_full_name true (lit "a") [lit "m::n::a"; lit "n::a"; lit "n::g:a"] = inl (lit "n::a") /\
  find_task_full_name true (lit "ns::a") [lit "ns::g:a"; lit "ns::a"] = inl (lit "ns::a") /\
  find_task_full_name false (lit "a") [lit "ns::a"] = inr ENotFound /\
  find_task_full_name true (lit "g:a") [lit "ns::g:a"; lit "ns::h:a"] = inl (lit "ns::g:a") /\
  find_task_full_name true (lit "a") [lit "aa"; lit "n::aa"] = inr ENotFound.
Proof. vm_compute. repeat split. Qed.

(* from a dependant's inputs: an ambiguous reference is an error for optional inputs as well - the default
   of an optional input stands for an absent task, never for a choice that could not be made *)
Theorem C10_ambiguous_input_is_an_error : forall classes ns names acc d n0,
  (match i_ref d with inl s => inl s | inr k => match cls classes k with inl c => inl (c_slug c) | inr e => inr e end end) = inl n0 ->
  dhas (prefixed ns n0) acc = false ->
  find_task_full_name false (prefixed ns n0) names = inr EAmbiguous ->
  resolve_one classes ns names acc d = inr EAmbiguous.
Proof. exact resolve_one_ambiguous. Qed.
Print Assumptions C10_ambiguous_input_is_an_error.

(* ---- well-formed names: namespaces, group levels and the task name are non-empty texts without ':' ---- *)

(* the splits the code performs recover exactly the components a name was built from *)
Theorem C10_components_of_a_name : forall ns gs n,
  wf ns gs n -> ns_parts (render ns gs n) = ns /\ local_parts (render ns gs n) = gs ++ [n].
Proof. intros ns gs n W. split; [now apply ns_parts_render|now apply local_parts_render]. Qed.
Print Assumptions C10_components_of_a_name.

(* a query addresses a task iff the task name is the same, the groups are the same or the query names none, and
   the namespaces are the same or the query names none (the latter only for lookups from a chain) *)
Theorem C10_match_by_components : forall det qns qgs qn tns tgs tn,
  wf qns qgs qn -> wf tns tgs tn ->
  task_name_match det (render qns qgs qn) (render tns tgs tn) = true <->
  ((qns <> [] \/ det = false) -> tns = qns) /\ tn = qn /\ (qgs = [] \/ tgs = qgs).
Proof. exact match_by_components. Qed.
Print Assumptions C10_match_by_components.

(* every task is addressed by its full name, whatever else is in the chain *)
Theorem C10_full_name_resolves : forall det ts t,
  In t ts -> (forall u, In u ts -> wf_name u) -> find_task_full_name det t ts = inl t.
Proof. exact full_name_resolves. Qed.
Print Assumptions C10_full_name_resolves.

(* the full name and the three shorter forms match the task (without namespace: from a chain); together with
   C10_unique_match_resolves a shorter form that matches nothing else resolves to it *)
Theorem C10_short_forms_match : forall det tns tgs tn,
  wf tns tgs tn ->
  task_name_match det (render tns tgs tn) (render tns tgs tn) = true /\
  task_name_match det (render tns [] tn) (render tns tgs tn) = true /\
  (det = true -> task_name_match det (render [] tgs tn) (render tns tgs tn) = true /\
                 task_name_match det (render [] [] tn) (render tns tgs tn) = true).
Proof. exact short_forms_match. Qed.
Print Assumptions C10_short_forms_match.

Example C10_wf_example :
  wf [lit "outer"; lit "n"] [lit "pkg"; lit "mod"] (lit "deep") /\
  render [lit "outer"; lit "n"] [lit "pkg"; lit "mod"] (lit "deep") = lit "outer::n::pkg:mod:deep".
Proof.
  split; [|reflexivity].
  constructor; [intros p [<-|[<-|[]]]|intros p [<-|[<-|[]]]|]; (split; [discriminate|]);
    unfold colon; simpl; intuition discriminate.
Qed.

(* the names a chain registers - MetaTask.fullname: the namespaces joined by '::' in front of the slug, the slug being
   the group levels and the task name joined by ':' (C12) - are well-formed names, so the theorems above apply to them *)
Theorem C10_registered_names_are_wellformed : forall ns gs n cname,
  wf ns gs n ->
  Naming.full_name (match ns with [] => None | _ => Some (join dcolon ns) end) (Naming.slug_name (join [colon] gs) (Some n) cname)
  = render ns gs n /\
  wf_name (Naming.full_name (match ns with [] => None | _ => Some (join dcolon ns) end) (Naming.slug_name (join [colon] gs) (Some n) cname)).
Proof.
  intros ns gs n cname W. split; [|now apply registered_name_wf].
  apply full_name_is_rendered. intros p Hp. now destruct (wf_gs _ _ _ W p Hp).
Qed.
Print Assumptions C10_registered_names_are_wellformed.
