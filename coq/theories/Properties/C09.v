(* C09 - configs compose by declared precedence, without leaking or silent override. Statements only. *)
From Coq Require Import String Ascii List Bool Arith ZArith.
From TC Require Import PyStr Value Dict Repr Param Config Chain ConfigProofs.
Import ListNotations.

(* d.update(e): the later mapping wins key by key *)
Theorem C09_update_later_wins : forall (V : Type) k (d e : list (str * V)),
  NoDup (map fst e) -> dget k (dupdate d e) = match dget k e with Some v => Some v | None => dget k d end.
Proof. exact @dget_dupdate. Qed.
Print Assumptions C09_update_later_wins.

(* exact-namespace context entry, then global context entry, then the declaring config *)
Theorem C09_context_precedence : forall ns data c k,
  wf_context c -> dget k (apply_context ns data c) = effective ns data c k.
Proof. exact apply_context_precedence. Qed.
Print Assumptions C09_context_precedence.

Theorem C09_exact_namespace_only : forall ns data c c',
  cx_data c = cx_data c' ->
  (forall n, nonempty_ns ns = Some n ->
     filter (fun nd => str_eqb n (fst nd)) (cx_for c) = filter (fun nd => str_eqb n (fst nd)) (cx_for c')) ->
  apply_context ns data c = apply_context ns data c'.
Proof. exact other_namespaces_irrelevant. Qed.
Print Assumptions C09_exact_namespace_only.

(* ... falling back to the default, failing when a required value is missing or has the wrong type *)
Theorem C09_effective_value : forall p ns data c,
  wf_context c ->
  set_value p (apply_context ns data c) =
  match effective ns data c (pd_cfg p) with
  | Some v => if dtype_ok (pd_dtype p) v then inl (v, false) else inr EType
  | None => match pd_default p with
            | Some d => if dtype_ok (pd_dtype p) d then inl (d, true) else inr EType
            | None => inr EMissingParam
            end
  end.
Proof. exact effective_value. Qed.
Print Assumptions C09_effective_value.

Theorem C09_bad_parameter_fails_construction : forall ps data p,
  In p ps -> (exists e, set_value p data = inr e) -> exists e, set_values ps data = inr e.
Proof. exact set_values_error. Qed.
Print Assumptions C09_bad_parameter_fails_construction.

(* later contexts over earlier ones *)
Theorem C09_merge_later_wins : forall k cs,
  k <> lit "for_namespaces" ->
  Forall (fun c => NoDup (map fst (cx_data c))) cs ->
  dget k (cx_data (merge_contexts cs)) = last_defined k cs.
Proof. exact merge_later_wins. Qed.
Print Assumptions C09_merge_later_wins.

(* `uses ... as ns`: the used config gets the composed namespace and the same context *)
Theorem C09_mount : forall fs ucls gv ctx src ns c,
  mk_config fs ucls gv ctx src ns = inl c -> cf_ns c = ns /\ cf_ctx c = ctx.
Proof. exact mk_config_keeps_namespace_and_context. Qed.
Print Assumptions C09_mount.

Theorem C09_namespace_composition : forall outer inner,
  compose_ns outer inner = match outer with
                           | Some (c :: o) => (c :: o) ++ lit "::" ++ inner
                           | _ => inner
                           end.
Proof. exact compose_ns_spec. Qed.
Print Assumptions C09_namespace_composition.

(* a task gets the parameters of the config that declares it, and only of that config *)
Theorem C09_params_from_declaring_config : forall classes ci c excluded acc k tc acc',
  cls classes k = inl tc -> c_abstract tc = false -> existsb (Nat.eqb k) excluded = false ->
  add_task classes ci c excluded acc k = inl acc' ->
  exists ps, set_values (c_params tc) (cf_data c) = inl ps /\
             dget (full_name (c_slug tc) (cf_ns c)) acc'
             = Some {| n_cls := k; n_cfg := ci; n_ns := cf_ns c;
                       n_cfgname := match config_name c with inl n => n | inr _ => [] end;
                       n_ctxname := match cf_ctx c with Some x => Some (cx_name x) | None => None end;
                       n_params := ps; n_inputs := [] |}.
Proof. exact add_task_params. Qed.
Print Assumptions C09_params_from_declaring_config.

Theorem C09_no_leak_to_other_tasks : forall classes ci c excluded acc k acc' name,
  add_task classes ci c excluded acc k = inl acc' ->
  (forall tc, cls classes k = inl tc -> name <> full_name (c_slug tc) (cf_ns c)) ->
  dget name acc' = dget name acc.
Proof. exact add_task_others. Qed.
Print Assumptions C09_no_leak_to_other_tasks.

(* two different configs declaring the same task in the same namespace: reported, whatever the order *)
Theorem C09_conflict_reported : forall classes ci c excluded acc k tc ps old,
  cls classes k = inl tc -> c_abstract tc = false -> existsb (Nat.eqb k) excluded = false ->
  set_values (c_params tc) (cf_data c) = inl ps ->
  dget (full_name (c_slug tc) (cf_ns c)) acc = Some old -> n_cfg old <> ci ->
  add_task classes ci c excluded acc k = inr EConflict.
Proof. exact add_task_conflict. Qed.
Print Assumptions C09_conflict_reported.

Example C09_precedence_example :
  let c := {| cx_name := lit "ctx"; cx_ns := None; cx_data := [(lit "x", VInt 666); (lit "y", VInt 33)];
              cx_for := [(lit "ns", [(lit "x", VInt 11)]); (lit "ns2", [(lit "x", VInt 21)]); (lit "n", [(lit "y", VInt 0)])] |} in
  let data := [(lit "x", VInt 1); (lit "y", VInt 1); (lit "z", VInt 5)] in
  wf_context c /\
  map (fun k => dget (lit k) (apply_context (Some (lit "ns")) data c)) ["x"; "y"; "z"]%string
    = [Some (VInt 11); Some (VInt 33); Some (VInt 5)] /\
  map (fun k => dget (lit k) (apply_context (Some (lit "ns::sub")) data c)) ["x"; "y"]%string
    = [Some (VInt 666); Some (VInt 33)].
Proof.
  vm_compute. repeat split; repeat constructor; simpl; intuition discriminate.
Qed.
