(* C02 - storage location depends only on what goes into the computation.  Statements only.
   The location of a task is  <task directory>/<key>  with
   key = first 32 hex digits of H(registry_text ps ++ "$$$" ++ inputs_text ns inputs)   (C12);
   the theorems below list what that text does not depend on. *)
From Coq Require Import String Ascii List Bool Arith ZArith Permutation.
From TC Require Import PyStr Value Dict Placeholder Repr Param Key Names Config Chain ReprProofs ChainProofs MountProofs.
Import ListNotations.

(* the order in which parameters are declared *)
Theorem C02_param_declaration_order : forall ps ps',
  NoDup (map pname ps) -> Permutation ps ps' -> registry_repr ps = registry_repr ps'.
Proof. exact registry_repr_perm. Qed.
Print Assumptions C02_param_declaration_order.

(* parameters excluded from persistence, wherever they are declared and whatever their value *)
Theorem C02_unpersisted_param : forall p v ps,
  param_repr p v = None -> registry_repr ((p, v) :: ps) = registry_repr ps.
Proof. exact registry_repr_unpersisted. Qed.
Print Assumptions C02_unpersisted_param.

Theorem C02_ignored_param : forall p v, pd_ignore p = true -> param_repr p v = None.
Proof. exact ignored_not_persisted. Qed.
Print Assumptions C02_ignored_param.

Theorem C02_default_valued_param : forall p d v fd,
  pd_ignore p = false -> pd_dropdef p = true -> pd_default p = Some d -> pd_dtype p <> DPath ->
  (fd = true \/ py_eq v d = true) -> param_repr p (v, fd) = None.
Proof. exact default_not_persisted. Qed.
Print Assumptions C02_default_valued_param.

(* the order of mapping keys, at any depth of a value *)
Theorem C02_mapping_key_order_any_depth : forall v w, norm v = norm w -> repr_inst v = repr_inst w.
Proof. exact repr_inst_dict_order. Qed.
Print Assumptions C02_mapping_key_order_any_depth.

Theorem C02_mapping_key_permutation : forall kvs kvs',
  NoDup (map fst kvs) -> Permutation kvs kvs' -> norm (VDict kvs) = norm (VDict kvs').
Proof. exact norm_dict_perm. Qed.
Print Assumptions C02_mapping_key_permutation.

(* the order in which input tasks are declared or discovered *)
Theorem C02_input_order : forall ns ins ins',
  NoDup (map fst ins) -> Permutation ins ins' -> inputs_text ns ins = inputs_text ns ins'.
Proof. exact inputs_text_perm. Qed.
Print Assumptions C02_input_order.

(* the namespace under which the pipeline is mounted: input names gain the prefix, and sorting the
   prefixed names equals sorting the plain ones, so the key text is the same *)
Theorem C02_namespace_mount : forall n ps ins,
  n <> [] -> key_text (Some n) ps (mount n ins) = key_text None ps ins.
Proof. exact key_text_mount. Qed.
Print Assumptions C02_namespace_mount.

(* whether a value came from the config or from a context: only the effective value is looked at *)
Theorem C02_config_vs_context : forall p d1 d2,
  cfg_get (pd_cfg p) d1 = cfg_get (pd_cfg p) d2 -> set_value p d1 = set_value p d2.
Proof. exact set_value_effective. Qed.
Print Assumptions C02_config_vs_context.

(* the values substituted for placeholders *)
Theorem C02_global_vars_values : forall p g g' s,
  value_repr p (apply_str g s) = value_repr p (apply_str g' s).
Proof. exact value_repr_independent_of_global_vars. Qed.
Print Assumptions C02_global_vars_values.

(* config names, file paths and part names do not occur: the key is a function of exactly these
   three arguments (C12_key_scheme); stated here as the functional dependency *)
Theorem C02_key_is_function_of_text : forall H ns ps ins ns' ps' ins',
  key_text ns ps ins = key_text ns' ps' ins' -> task_key H ns ps ins = task_key H ns' ps' ins'.
Proof. intros H ns ps ins ns' ps' ins' E. unfold task_key. now rewrite E. Qed.
Print Assumptions C02_key_is_function_of_text.

(* object arguments: the guard is necessary.  An AutoParameterObject argument that is a mapping is
   rendered by Python's repr in insertion order (known finding K2) *)
Example C02_object_args_refuted :
  let o1 := VAuto (lit "Obj") [(lit "a", VDict [(lit "x", VInt 1); (lit "y", VInt 2)])] in
  let o2 := VAuto (lit "Obj") [(lit "a", VDict [(lit "y", VInt 2); (lit "x", VInt 1)])] in
  repr_inst o1 <> repr_inst o2 /\
  repr_inst (VInst (lit "m.C") [] [(lit "a", VInt 1); (lit "b", VInt 2)])
    <> repr_inst (VInst (lit "m.C") [] [(lit "b", VInt 2); (lit "a", VInt 1)]).
Proof. vm_compute. split; discriminate. Qed.

Example C02_examples :
  registry_repr [ ({| pd_name := lit "b"; pd_cfg := lit "b"; pd_default := None; pd_ignore := false; pd_dropdef := false; pd_dtype := DAny |},
                   (VDict [(lit "z", VInt 1); (lit "a", VList [VStr (lit "x"); VNone])], false));
                  ({| pd_name := lit "a"; pd_cfg := lit "a"; pd_default := Some (VInt 1); pd_ignore := false; pd_dropdef := true; pd_dtype := DAny |},
                   (VBool true, false)) ]
  = Some (lit "b={'a': ['x', None], 'z': 1}").
Proof. vm_compute. reflexivity. Qed.

(* K2a (open known finding): the invariance under the order of mapping keys stops at parameter objects - an
   instantiated object without repr is rendered with its keyword arguments as written, and an
   AutoParameterObject renders a mapping-valued argument with repr(), i.e. in insertion order.  The theorem
   C02_mapping_key_order_any_depth above is about values whose mappings are outside object arguments (norm does not
   descend into them); these two witnesses are replayed on the implementation on every run. *)
Theorem C02_instantiated_kwargs_order_refuted :
  repr_inst (VInst (lit "Plain") [VInt 1] [(lit "k", VInt 1); (lit "a", VInt 2)]) <>
  repr_inst (VInst (lit "Plain") [VInt 1] [(lit "a", VInt 2); (lit "k", VInt 1)]).
Proof. exact inst_kwargs_order_matters. Qed.
Print Assumptions C02_instantiated_kwargs_order_refuted.

Theorem C02_auto_mapping_argument_order_refuted :
  repr_inst (VAuto (lit "AutoA") [(lit "a", VDict [(lit "z", VInt 1); (lit "b", VStr (lit "q"))])]) <>
  repr_inst (VAuto (lit "AutoA") [(lit "a", VDict [(lit "b", VStr (lit "q")); (lit "z", VInt 1)])]).
Proof. exact auto_mapping_argument_order_matters. Qed.
Print Assumptions C02_auto_mapping_argument_order_refuted.

(* K2c (open known finding): "the values substituted for placeholders" do enter the key in one corner - a parameter
   declared dont_persist_default_value whose configured value is a placeholder string: it is dropped from the key text
   exactly when the substituted text equals the default.  Replayed on the implementation on every run. *)
Theorem C02_placeholder_equal_to_default_refuted :
  param_repr k2c_param (sr (of_map [(lit "D", lit "/mnt")]) (VStr (lit "{D}/x")), false) <>
  param_repr k2c_param (sr (of_map [(lit "D", lit "/srv")]) (VStr (lit "{D}/x")), false).
Proof. exact placeholder_default_matters. Qed.
Print Assumptions C02_placeholder_equal_to_default_refuted.

(* global_vars given or not (an unresolved placeholder stays in the string both ways): the same text, as long as repr()
   of the string is the string between single quotes - no quote, backslash or unprintable character in it *)
Theorem C02_global_vars_given_or_not : forall p g s,
  py_repr_str s = squote :: s ++ [squote] -> value_repr p (apply_str g s) = value_repr p (VStr s).
Proof. exact no_global_vars_same_text. Qed.
Print Assumptions C02_global_vars_given_or_not.

(* K2e (open known finding): with such a character the guard is necessary - a ReprStr is rendered by repr() of its
   source, a plain string between single quotes without escaping.  Replayed on the implementation on every run. *)
Theorem C02_quoted_placeholder_text_refuted :
  value_repr k2e_param (apply_str (of_map []) (lit "it's {Y}")) <> value_repr k2e_param (VStr (lit "it's {Y}")).
Proof. exact quoted_placeholder_text_matters. Qed.
Print Assumptions C02_quoted_placeholder_text_refuted.

(* K4 (open known finding): the name an input declaration is looked up under depends on the mounting namespace in one
   more way than by the prefix the key text strips again: the name `n::n`, declared by a task, is looked up as `n::n`
   at the top level and as `w::n::n` under the namespace `w` - the same task relative to the declaring one - but under
   the namespace `n` it is looked up as `n::n`, the sibling, not as `n::n::n`.  Replayed on the implementation on every
   run (rewritings, moves mount:n:reference-names-mount-namespace). *)
Theorem C02_reference_names_mount_namespace_refuted :
  prefixed (Some (lit "n")) (lit "n::n") = lit "n::n" /\ prefixed None (lit "n::n") = lit "n::n" /\
  prefixed (Some (lit "w")) (lit "n::n") = lit "w::n::n".
Proof. exact declared_name_taken_for_full. Qed.
Print Assumptions C02_reference_names_mount_namespace_refuted.

(* ... and K4 is the whole exception on the side of name qualification: for a declared name that does not start with the
   namespace it is qualified under, the name it is looked up under in the pipeline mounted as `w` is `w::` followed by
   the name it is looked up under in the pipeline built directly (at the top level, and inside a namespace P) *)
Theorem C02_mount_commutes_with_qualification : forall w q,
  w <> [] -> starts_with (w ++ lit "::") q = false ->
  prefixed (Some w) q = w ++ lit "::" ++ prefixed None q.
Proof. exact mount_commutes_at_top. Qed.
Print Assumptions C02_mount_commutes_with_qualification.

Theorem C02_mount_commutes_with_qualification_nested : forall w P q,
  w <> [] -> P <> [] ->
  starts_with (P ++ lit "::") q = false -> starts_with ((w ++ lit "::" ++ P) ++ lit "::") q = false ->
  prefixed (Some (w ++ lit "::" ++ P)) q = w ++ lit "::" ++ prefixed (Some P) q.
Proof. exact mount_commutes_nested. Qed.
Print Assumptions C02_mount_commutes_with_qualification_nested.
