(* C13 - a MultiChain is its chains, sharing identical tasks.  Statements only. *)
From Coq Require Import String Ascii List Bool Arith ZArith.
From TC Require Import PyStr Value Dict Repr Param Config Key Chain World Eval History EvalProofs HistoryProofs MultiProofs Sharing SharingProofs RegRefineProofs.
Import ListNotations.

(* a MultiChain is the fold of chain constructions over one set of task objects and one registry *)
Theorem C13_multichain_is_fold : forall H w b bases objs reg,
  build_multi H w (b :: bases) objs reg =
  match build H w b objs reg with
  | inr e => inr e
  | inl (rc, objs1, reg1) =>
      match build_multi H w bases objs1 reg1 with
      | inl (rcs, objs2, reg2) => inl (rc :: rcs, objs2, reg2)
      | inr e => inr e
      end
  end.
Proof. exact build_multi_cons. Qed.
Print Assumptions C13_multichain_is_fold.

(* every member chain gives every task the key the standalone chain of the same config gives it:
   the key does not depend on what the shared registry already holds *)
Theorem C13_member_key_equals_standalone :
  forall H classes tasks1 fuel1 fuel2 todo1 todo2 objs reg st1 st2 name i1 i2,
  Good H classes tasks1 {| ps_objs := objs; ps_registry := reg; ps_new := [] |} ->
  recreate H classes fuel1 tasks1 todo1 {| ps_objs := objs; ps_registry := reg; ps_new := [] |} = inl st1 ->
  recreate H classes fuel2 tasks1 todo2 {| ps_objs := []; ps_registry := []; ps_new := [] |} = inl st2 ->
  dget name (ps_new st1) = Some i1 -> dget name (ps_new st2) = Some i2 ->
  obj_key st1 i1 = obj_key st2 i2.
Proof. exact member_key_equals_standalone. Qed.
Print Assumptions C13_member_key_equals_standalone.

(* ... and a successful re-creation leaves the registry well formed for the next member *)
Theorem C13_registry_stays_well_formed : forall H classes tasks1 fuel todo st st',
  Good H classes tasks1 st -> recreate H classes fuel tasks1 todo st = inl st' ->
  Good H classes tasks1 st' /\ Ext st st'.
Proof. exact recreate_keys. Qed.
Print Assumptions C13_registry_stays_well_formed.

(* tasks are one shared object exactly when they are the same computation (class slug and key):
   no over-sharing, no duplication *)
Theorem C13_shared_iff_same_computation :
  forall classes st s1 k1 n1 o1 st1 id1 s2 k2 n2 o2 st2 id2,
  RegOK classes st -> well_announced classes s1 k1 o1 -> well_announced classes s2 k2 o2 ->
  register st s1 k1 n1 o1 = (st1, id1) -> register st1 s2 k2 n2 o2 = (st2, id2) ->
  (id1 = id2 <-> s1 = s2 /\ k1 = k2).
Proof. exact shared_iff_same_computation. Qed.
Print Assumptions C13_shared_iff_same_computation.

(* a value computed through one member is in memory for the others *)
Theorem C13_memory_shared : forall classes run f f' w id o tc w' v,
  nth_error (w_objs w) id = Some o -> cls_of classes o = Some tc -> id < List.length (w_states w) ->
  eval classes run f w id = (w', inl v) -> eval classes run (S f') w' id = (w', inl v).
Proof. exact shared_object_memory. Qed.
Print Assumptions C13_memory_shared.

(* MultiChain.force is Chain.force on every member in turn (it stops at a member that does not know
   a named task, as get_task raises there) *)
Theorem C13_force_fans_out : forall H wd run h cs names rc d h' out,
  step H wd run h (OForceMulti cs names rc d) = (h', out) ->
  h_chains h' = h_chains h /\
  (out = ok VNone <-> forallb (fun ci => match nth_error (h_chains h) ci with
                                        | Some c => forallb (fun n => dhas n c) names
                                        | None => false end) cs = true).
Proof.
  intros H wd run h cs names rc d h' out Hs. unfold step in Hs.
  match type of Hs with (let '(_, _) := fold_left ?F cs ?init in _) = _ =>
    assert (G : forall l wa g, snd (fold_left F l (wa, g)) =
                g && forallb (fun ci => match nth_error (h_chains h) ci with
                                        | Some c => forallb (fun n => dhas n c) names
                                        | None => false end) l) end.
  { induction l as [|ci r IH]; intros wa g; cbn [fold_left forallb]; [now rewrite andb_true_r|].
    destruct g; [|rewrite IH; reflexivity].
    destruct (nth_error (h_chains h) ci) as [c0|]; [|rewrite IH; reflexivity].
    destruct (forallb (fun n => dhas n c0) names); rewrite IH; reflexivity. }
  match type of Hs with (let '(_, _) := ?F in _) = _ => destruct F as [w' g'] eqn:Ef end.
  injection Hs as <- <-. split; [reflexivity|].
  specialize (G cs (h_world h) true). rewrite Ef in G. simpl in G. rewrite <- G.
  destruct g'; split; intros E; try reflexivity; try discriminate.
Qed.
Print Assumptions C13_force_fans_out.

(* The registry key of the code also names the data directory of the config.  For every sequence of registrations
   through one registry - the tasks of all members of a MultiChain, in the order they are created: two of them are one
   object exactly when data directory, slug name and hash agree, that is when they are stored at one location *)
Theorem C13_shared_iff_same_location : forall ls i j d1 s1 k1 d2 s2 k2 a b,
  nth_error ls i = Some (d1, s1, k1) -> nth_error ls j = Some (d2, s2, k2) ->
  nth_error (share ls) i = Some a -> nth_error (share ls) j = Some b ->
  (a = b <-> d1 = d2 /\ s1 = s2 /\ k1 = k2).
Proof. exact share_iff_same_location. Qed.
Print Assumptions C13_shared_iff_same_location.

(* ... in particular members with equal parameters and inputs but different data directories share nothing *)
Theorem C13_other_directory_other_object : forall ls i j d1 d2 s k a b,
  nth_error ls i = Some (d1, s, k) -> nth_error ls j = Some (d2, s, k) ->
  nth_error (share ls) i = Some a -> nth_error (share ls) j = Some b -> d1 <> d2 -> a <> b.
Proof. exact other_directory_other_object. Qed.
Print Assumptions C13_other_directory_other_object.

(* the same for a registry that already holds objects (a chain built later over the same shared registry): what is
   registered is served, and any two registrations share exactly on equal keys *)
Theorem C13_registry_histories : forall (K : Type) (keqb : K -> K -> bool),
  (forall a b, keqb a b = true <-> a = b) ->
  forall st ks st' ids i j ki kj a b,
  RegInv K st -> krun keqb st ks = (st', ids) ->
  nth_error ks i = Some ki -> nth_error ks j = Some kj -> nth_error ids i = Some a -> nth_error ids j = Some b ->
  (a = b <-> ki = kj).
Proof. exact krun_shared_iff_same_key. Qed.
Print Assumptions C13_registry_histories.

Example C13_share_example :
  share [(lit "d0", lit "src", lit "h1"); (lit "d0", lit "dst", lit "h2"); (lit "d1", lit "src", lit "h1");
         (lit "d0", lit "src", lit "h1"); (lit "d0", lit "dst", lit "h3")] = [0; 1; 2; 0; 3].
Proof. vm_compute. reflexivity. Qed.

(* Chain.register of the chain model is an instance of that registry (keyed by slug and hash; the model of `build` has
   one data directory): for any sequence of registrations, within a chain or across the members of a MultiChain, two of
   them get one object exactly when slug and hash agree - C13_shared_iff_same_computation for whole histories *)
Theorem C13_registrations_share_iff_same_computation : forall st rs st' ids i j si ki ni oi sj kj nj oj a b,
  RegInv (str * str) (abs_reg st) -> registers st rs = (st', ids) ->
  nth_error rs i = Some (si, ki, ni, oi) -> nth_error rs j = Some (sj, kj, nj, oj) ->
  nth_error ids i = Some a -> nth_error ids j = Some b ->
  (a = b <-> si = sj /\ ki = kj).
Proof. exact registers_shared_iff. Qed.
Print Assumptions C13_registrations_share_iff_same_computation.

Theorem C13_fresh_registry_satisfies_the_invariant :
  RegInv (str * str) (abs_reg {| ps_objs := []; ps_registry := []; ps_new := [] |}).
Proof. exact fresh_registry_ok. Qed.
Print Assumptions C13_fresh_registry_satisfies_the_invariant.
