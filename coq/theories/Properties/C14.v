(* C14 - file caches return the value for the key, or recompute.  Statements only.
   H is the hash of the key; the two facts used about it are explicit hypotheses:
   its shape (64 characters, none of them "/": a hex digest) and, where stated, no collision on the
   two keys involved. *)
From Coq Require Import String Ascii List Bool Arith ZArith.
From TC Require Import PyStr Value Dict Cache CacheProofs MemCache MemCacheProofs.
Import ListNotations.

Theorem C14_hit_returns_stored : forall H c fs key v comp,
  stored H c fs key v -> acceptable c v = true ->
  cache_get_or_compute H c fs key comp false = (fs, CVal v, 0) /\ cache_get H c fs key = CVal v.
Proof. exact hit_returns_stored. Qed.
Print Assumptions C14_hit_returns_stored.

Theorem C14_miss_or_damaged_computes_once : forall H c fs key v,
  (dget (cpath H c key) fs = None \/ dget (cpath H c key) fs = Some CDamaged) -> acceptable c v = true ->
  cache_get_or_compute H c fs key (Some v) false = (dset (cpath H c key) (CEntry key v) fs, CVal v, 1) /\
  stored H c (dset (cpath H c key) (CEntry key v) fs) key v.
Proof. exact miss_computes_once. Qed.
Print Assumptions C14_miss_or_damaged_computes_once.

Theorem C14_force_recomputes_and_replaces : forall H c fs key v,
  acceptable c v = true ->
  cache_get_or_compute H c fs key (Some v) true = (dset (cpath H c key) (CEntry key v) fs, CVal v, 1).
Proof. exact force_recomputes. Qed.
Print Assumptions C14_force_recomputes_and_replaces.

Theorem C14_raise_stores_nothing : forall H c fs key force fs' out n,
  cache_get_or_compute H c fs key None force = (fs', out, n) -> fs' = fs.
Proof. exact raising_computer_stores_nothing. Qed.
Print Assumptions C14_raise_stores_nothing.

Theorem C14_damaged_never_returned : forall H c fs key,
  dget (cpath H c key) fs = Some CDamaged -> cache_get H c fs key = CNoValue.
Proof. exact damaged_never_returned. Qed.
Print Assumptions C14_damaged_never_returned.

Theorem C14_key_mismatch_reported : forall H c fs key k v comp,
  ca_checks_key c = true -> dget (cpath H c key) fs = Some (CEntry k v) -> k <> key ->
  cache_get H c fs key = CExcCache /\ cache_get_or_compute H c fs key comp false = (fs, CExcCache, 0).
Proof. exact foreign_key_reported. Qed.
Print Assumptions C14_key_mismatch_reported.

Theorem C14_other_files_untouched : forall H c fs key comp force fs' out n p,
  cache_get_or_compute H c fs key comp force = (fs', out, n) -> p <> cpath H c key -> dget p fs' = dget p fs.
Proof. exact other_paths_untouched. Qed.
Print Assumptions C14_other_files_untouched.

Theorem C14_distinct_keys_distinct_files : forall H,
  (forall s, List.length (H s) = 64 /\ ~ In "/"%char (H s)) ->
  forall c k1 k2, (H k1 = H k2 -> k1 = k2) -> cpath H c k1 = cpath H c k2 -> k1 = k2.
Proof. exact distinct_keys_distinct_files. Qed.
Print Assumptions C14_distinct_keys_distinct_files.

Theorem C14_distinct_keys_never_share : forall H,
  (forall s, List.length (H s) = 64 /\ ~ In "/"%char (H s)) ->
  forall c fs k1 k2 comp force fs' out n,
  (H k1 = H k2 -> k1 = k2) -> k1 <> k2 ->
  cache_get_or_compute H c fs k2 comp force = (fs', out, n) -> cache_get H c fs' k1 = cache_get H c fs k1.
Proof. exact distinct_keys_never_share. Qed.
Print Assumptions C14_distinct_keys_never_share.

(* Paths are compared as texts: sub-cache names whose components are empty, `.` or `..` (which a file system
   resolves to the parent's own directory or outside it) are outside the domain of these statements. *)
Theorem C14_subcache_files_disjoint : forall H,
  (forall s, List.length (H s) = 64 /\ ~ In "/"%char (H s)) ->
  forall c name k1 k2, cpath H c k1 <> cpath H (subcache c name) k2.
Proof. exact subcache_files_disjoint. Qed.
Print Assumptions C14_subcache_files_disjoint.

Theorem C14_subcache_never_shares : forall H,
  (forall s, List.length (H s) = 64 /\ ~ In "/"%char (H s)) ->
  forall c name fs k1 k2 comp force fs' out n,
  cache_get_or_compute H (subcache c name) fs k2 comp force = (fs', out, n) ->
  cache_get H c fs' k1 = cache_get H c fs k1.
Proof. exact subcache_never_shares. Qed.
Print Assumptions C14_subcache_never_shares.

(* two sub-caches of one cache whose names differ - single names, names of several components ('models/v1' and
   'features/v1'), names that look like a bucket - use different files and never see each other's entries *)
Theorem C14_sibling_subcaches_disjoint : forall H,
  (forall s, List.length (H s) = 64 /\ ~ In "/"%char (H s)) ->
  forall c n1 n2 k1 k2, n1 <> n2 -> cpath H (subcache c n1) k1 <> cpath H (subcache c n2) k2.
Proof. exact sibling_subcaches_disjoint. Qed.
Print Assumptions C14_sibling_subcaches_disjoint.

Theorem C14_sibling_subcaches_never_share : forall H,
  (forall s, List.length (H s) = 64 /\ ~ In "/"%char (H s)) ->
  forall c n1 n2 fs k1 k2 comp force fs' out n,
  n1 <> n2 ->
  cache_get_or_compute H (subcache c n2) fs k2 comp force = (fs', out, n) ->
  cache_get H (subcache c n1) fs' k1 = cache_get H (subcache c n1) fs k1.
Proof. exact sibling_subcaches_never_share. Qed.
Print Assumptions C14_sibling_subcaches_never_share.

(* ---------- the in-memory cache (Model/MemCache.v): the same statements on the mapping it keeps ---------- *)
Theorem C14_memory_get_never_computes_or_stores : forall s sub k,
  mstep s (MGet sub k) = (s, match mget (sub, k) s with Some v => MVal v 0 | None => MNoValue end).
Proof. exact get_changes_nothing. Qed.
Print Assumptions C14_memory_get_never_computes_or_stores.

Theorem C14_memory_hit_returns_stored : forall s sub k v comp,
  mget (sub, k) s = Some v -> mstep s (MGoc sub k comp false) = (s, MVal v 0).
Proof. exact goc_hit. Qed.
Print Assumptions C14_memory_hit_returns_stored.

Theorem C14_memory_miss_or_force_computes_once : forall s sub k comp force v,
  mget (sub, k) s = None \/ force = true -> comp = Some v ->
  let s' := fst (mstep s (MGoc sub k comp force)) in
  snd (mstep s (MGoc sub k comp force)) = MVal v 1 /\
  mget (sub, k) s' = Some v /\
  (forall k', k' <> (sub, k) -> mget k' s' = mget k' s).
Proof. exact goc_computes. Qed.
Print Assumptions C14_memory_miss_or_force_computes_once.

Theorem C14_memory_raise_stores_nothing : forall s sub k force,
  fst (mstep s (MGoc sub k None force)) = s /\
  (mget (sub, k) s = None \/ force = true -> snd (mstep s (MGoc sub k None force)) = MExc 1).
Proof. exact raising_stores_nothing. Qed.
Print Assumptions C14_memory_raise_stores_nothing.

(* a look-up that misses leaves no entry behind *)
Theorem C14_memory_missed_lookup_then_compute : forall s sub k v,
  mget (sub, k) s = None ->
  mstep (fst (mstep s (MGet sub k))) (MGoc sub k (Some v) false) = (mset (sub, k) v s, MVal v 1).
Proof. exact missed_lookup_then_compute. Qed.
Print Assumptions C14_memory_missed_lookup_then_compute.

(* sub-caches and distinct keys never share entries *)
Theorem C14_memory_other_entries_untouched : forall s o k',
  target o <> Some k' -> mget k' (fst (mstep s o)) = mget k' s.
Proof. exact other_entries_untouched. Qed.
Print Assumptions C14_memory_other_entries_untouched.

Theorem C14_memory_one_entry_per_key : forall ops, NoDup (map fst (mstate [] ops)).
Proof. exact reachable_nodup. Qed.
Print Assumptions C14_memory_one_entry_per_key.
