(* C20 - migration to parameter mode carries every result over unchanged.  Statements only.
   migrate dry src dst ts is the copy loop over the paired tasks of the name-mode and the parameter-mode
   chain (m_src: <task dir>/<config name>.<ext>, m_dst: <task dir>/<key>.<ext>). *)
From Coq Require Import String Ascii List Bool Arith ZArith.
From TC Require Import PyStr Value Dict Repr Param Config Key Chain World Eval Migration MigrationProofs MigTwiceProofs MigDotsProofs.
Import ListNotations.

(* every result that exists in name mode has a result at its key location afterwards ... *)
Theorem C20_results_carried : forall ts src dst t content,
  In t ts -> m_persisting t = true -> dget (m_src t) src = Some content ->
  exists c', dget (m_dst t) (snd (migrate false src dst ts)) = Some c'.
Proof. exact results_carried. Qed.
Print Assumptions C20_results_carried.

(* ... with identical content when the location was free ... *)
Theorem C20_carried_content_is_source : forall t src dst content,
  m_persisting t = true -> dget (m_src t) src = Some content -> dhas (m_dst t) (mkdirs (m_dir t) dst) = false ->
  dget (m_dst t) (snd (migrate_one false (src, dst) t)) = Some content.
Proof. exact carried_content_is_source. Qed.
Print Assumptions C20_carried_content_is_source.

(* ... and a task without a name-mode result gets nothing *)
Theorem C20_nothing_for_missing_results : forall dry t src dst,
  dget (m_src t) (mkdirs (m_dir t) src) = None -> snd (migrate_one dry (src, dst) t) = dst.
Proof. exact nothing_for_missing_results. Qed.
Print Assumptions C20_nothing_for_missing_results.

(* every file and directory of the source exists afterwards with identical content *)
Theorem C20_source_files_untouched : forall dry ts src dst p e,
  dget p src = Some e -> dget p (fst (migrate dry src dst ts)) = Some e.
Proof. exact source_entries_untouched. Qed.
Print Assumptions C20_source_files_untouched.

(* "the source directory is never modified" holds up to added empty directories only (known finding K3:
   has_data instantiates a data object, whose init_persistence creates the task directory) *)
Theorem C20_source_additions_are_directories : forall dry ts src dst p e,
  dget p (fst (migrate dry src dst ts)) = Some e -> dget p src = Some e \/ e = FDir.
Proof. exact source_additions_are_directories. Qed.
Print Assumptions C20_source_additions_are_directories.

Example C20_source_unchanged_refuted :
  let t := {| m_persisting := true; m_dir := lit "b"; m_src := lit "b/cfg.json"; m_dst := lit "b/0123.json" |} in
  fst (migrate true [] [] [t]) <> [].
Proof. vm_compute. discriminate. Qed.

(* dry=True writes no result files *)
Theorem C20_dry_writes_no_results : forall ts src dst p e,
  dget p (snd (migrate true src dst ts)) = Some e -> dget p dst = Some e \/ e = FDir.
Proof. exact dry_writes_no_results. Qed.
Print Assumptions C20_dry_writes_no_results.

(* a migration never changes or removes what the target already holds; a repeated migration finds every
   key location occupied and copies nothing (the single step here; the composition over the whole loop is
   C20_second_migration_changes_nothing below, under one explicit side condition on the source names) *)
Theorem C20_target_entries_kept : forall dry ts src dst p e,
  dget p dst = Some e -> dget p (snd (migrate dry src dst ts)) = Some e.
Proof. exact target_entries_kept. Qed.
Print Assumptions C20_target_entries_kept.

Theorem C20_idempotent_partial : forall dry t src dst p e,
  dhas (m_dst t) (mkdirs (m_dir t) dst) = true ->
  dget p (snd (migrate_one dry (src, dst) t)) = Some e -> dget p dst = Some e \/ e = FDir.
Proof. exact occupied_target_is_skipped. Qed.
Print Assumptions C20_idempotent_partial.

(* The composition over the whole loop: migrating again - really or as a dry run - leaves the target exactly as the
   first migration left it.  The side condition: no result name of the source is one of the task directories or their
   parents (with it, whether a task has a source result is the same question at every point of both runs; the target
   side needs no condition). *)
Theorem C20_second_migration_changes_nothing : forall dry ts src dst,
  (forall t t', In t ts -> In t' ts -> ~ In (m_src t) (dir_paths (m_dir t'))) ->
  snd (migrate dry (fst (migrate false src dst ts)) (snd (migrate false src dst ts)) ts) = snd (migrate false src dst ts).
Proof. exact second_migration_changes_nothing. Qed.
Print Assumptions C20_second_migration_changes_nothing.

(* migrate_to_parameter_mode is that loop over a list of task pairs which depends on the configuration only, not on
   what the two directories hold - so the list is the same for the second call *)
Theorem C20_migration_is_a_loop : forall H w base,
  (exists e, forall dry src dst, migrate_config H w base dry src dst = inr e) \/
  (exists ts, forall dry src dst, migrate_config H w base dry src dst = inl (migrate dry src dst ts)).
Proof. exact migrate_config_is_a_loop. Qed.
Print Assumptions C20_migration_is_a_loop.

Example C20_second_migration_hypothesis_satisfiable :
  let t1 := {| m_persisting := true; m_dir := lit "g/b"; m_src := lit "g/b/cfg.json"; m_dst := lit "g/b/0123.json" |} in
  let t2 := {| m_persisting := true; m_dir := lit "a"; m_src := lit "a/cfg.pickle"; m_dst := lit "a/4567.pickle" |} in
  let src := [(lit "g", FDir); (lit "g/b", FDir); (lit "g/b/cfg.json", FValue (VInt 1%Z))] in
  (forall t t', In t [t1; t2] -> In t' [t1; t2] -> ~ In (m_src t) (dir_paths (m_dir t'))) /\
  dget (lit "g/b/0123.json") (snd (migrate false src [] [t1; t2])) = Some (FValue (VInt 1%Z)).
Proof. exact second_migration_example. Qed.

(* the side condition holds for the task pairs migrate_to_parameter_mode builds when no task slug holds a dot and every
   result is a file with an extension (JSON, pickle, ...): a source name then holds a dot, and no directory mkdirs
   visits does.  For directory results (no extension) it stays a premise of the theorem above. *)
Theorem C20_second_migration_of_a_config : forall olds rc objs classes ts dry src dst,
  pair_tasks olds rc objs classes = inl ts ->
  (forall ot, In ot olds -> ~ In dot (ot_slug ot) /\ extension (ot_kind ot) <> None) ->
  snd (migrate dry (fst (migrate false src dst ts)) (snd (migrate false src dst ts)) ts) = snd (migrate false src dst ts).
Proof. exact second_migration_of_a_config. Qed.
Print Assumptions C20_second_migration_of_a_config.

Theorem C20_file_results_are_not_directories : forall ts,
  (forall t, In t ts -> ~ In dot (m_dir t)) -> (forall t, In t ts -> In dot (m_src t)) ->
  forall t t', In t ts -> In t' ts -> ~ In (m_src t) (dir_paths (m_dir t')).
Proof. exact file_results_are_not_dirs. Qed.
Print Assumptions C20_file_results_are_not_directories.
