(* C15 - file caches stay consistent under concurrent use.  Statements only.
   Any number of callers of get / get_or_compute (forced or not) on one key, any schedule of the steps
   lock-acquire, existence check, lock-release, load, compute, truncate, write, lock-release. *)
From Coq Require Import List Bool Arith.
From TC Require Import CacheConc CacheConcProofs.
Import ListNotations.

(* one inductive invariant, preserved by every step of every caller *)
Theorem C15_invariant_initial : forall file cs, file <> FEmpty -> Inv (init file cs).
Proof. exact init_inv. Qed.
Print Assumptions C15_invariant_initial.

Theorem C15_invariant_step : forall g t g', Inv g -> step g t = Some g' -> Inv g'.
Proof. exact step_inv. Qed.
Print Assumptions C15_invariant_step.

(* every call returns a value produced by a complete computation for the key, never a partial one *)
Theorem C15_only_complete_values : forall file cs schedule t c v,
  file <> FEmpty ->
  nth_error (g_callers (run (init file cs) schedule)) t = Some c -> c_pc c = PDone (Some v) ->
  In v (g_computed (run (init file cs) schedule)).
Proof. exact only_complete_values. Qed.
Print Assumptions C15_only_complete_values.

(* no call fails because of another's write, and nobody is stuck: until all have returned a step is enabled
   (every exception raised by a load is caught by the model's fall-through, as in the code) *)
Theorem C15_progress : forall g,
  Inv g -> (exists t c, nth_error (g_callers g) t = Some c /\ forall r, c_pc c <> PDone r) ->
  exists t g', step g t = Some g'.
Proof. exact progress. Qed.
Print Assumptions C15_progress.

(* at quiescence the stored entry is complete *)
Theorem C15_quiescent_complete : forall g,
  Inv g -> (forall t c, nth_error (g_callers g) t = Some c -> exists r, c_pc c = PDone r) ->
  (exists t c f, nth_error (g_callers g) t = Some c /\ c_kind c = KCompute f) ->
  exists v, g_file g = FFull v /\ In v (g_computed g).
Proof. exact quiescent_complete. Qed.
Print Assumptions C15_quiescent_complete.

(* the cache file is never seen truncated or partially written *)
Theorem C15_file_always_complete : forall file cs schedule,
  file <> FEmpty -> g_file (run (init file cs) schedule) <> FEmpty.
Proof. exact file_always_complete. Qed.
Print Assumptions C15_file_always_complete.

(* a call that starts after another call for the key has returned finds the entry at its existence check ... *)
Theorem C15_check_sees_stored : forall g t c g',
  nth_error (g_callers g) t = Some c -> c_pc c = PCheck -> g_file g <> FAbsent -> step g t = Some g' ->
  exists c', nth_error (g_callers g') t = Some c' /\ c_pc c' = PRelease1 true.
Proof. exact check_sees_stored. Qed.
Print Assumptions C15_check_sees_stored.

(* ... and then returns a stored complete value without computing (get: never NO_VALUE), whatever other
   callers - forced writers included - did in between *)
Theorem C15_no_recompute_after_return : forall g t c g',
  Inv g -> nth_error (g_callers g) t = Some c -> c_pc c = PLoad true ->
  (c_kind c = KGet \/ c_kind c = KCompute false) -> step g t = Some g' ->
  exists v c', g_file g = FFull v /\ nth_error (g_callers g') t = Some c' /\ c_pc c' = PDone (Some v) /\
               g_computed g' = g_computed g /\ g_file g' = g_file g.
Proof. exact no_recompute_after_return. Qed.
Print Assumptions C15_no_recompute_after_return.

(* the interleaving that broke this before the repair (forced writer between the existence check and the
   unlocked load of an unforced caller) now ends with the unforced caller served from the cache *)
Example C15_former_window_schedule :
  let g0 := init (FFull 10) [(KCompute false, 20); (KCompute true, 30); (KGet, 0)] in
  let g := run g0 [0; 0; 0;  2; 2; 2;  1; 1; 1; 1; 1; 1; 1;  0;  2;  1; 1; 1] in
  results g = [Some (Some 10); Some (Some 30); Some (Some 10)] /\ g_computed g = [30; 10] /\ g_file g = FFull 30.
Proof. vm_compute. repeat split. Qed.
