(* C11 - placeholders are substituted everywhere, once, and nothing else changes. Statements only. *)
From Coq Require Import List Ascii String Bool Arith ZArith.
From TC Require Import PyStr Value Placeholder PlaceholderProofs.
Import ListNotations.

(* The scanner meets an independent description of "occurrence": a '{', a name without '}' and
   newline, a '}' -> replaced by the defined value or by the very same text; every other
   character (unmatched braces, text across newlines) is copied. *)
Theorem C11_subst_spec : forall g s, Subst g s (fst (subst g s)) (snd (subst g s)).
Proof. exact subst_meets_spec. Qed.
Print Assumptions C11_subst_spec.

(* and that description admits exactly one result *)
Theorem C11_subst_spec_functional : forall g s o1 n1 o2 n2,
  Subst g s o1 n1 -> Subst g s o2 n2 -> o1 = o2 /\ n1 = n2.
Proof. exact Subst_functional. Qed.
Print Assumptions C11_subst_spec_functional.

(* undefined placeholders, and strings without any brace, are left untouched *)
Theorem C11_undefined_untouched : forall g s, (forall name, g name = None) -> fst (subst g s) = s.
Proof. exact undefined_identity. Qed.
Print Assumptions C11_undefined_untouched.

Theorem C11_no_brace_untouched : forall g s, ~ In lbrace s -> subst g s = (s, 0).
Proof. exact no_brace_identity. Qed.
Print Assumptions C11_no_brace_untouched.

(* every string leaf at any depth of lists and dict values is substituted; keys, non-string
   leaves (numbers, None, objects, already substituted strings) and the shape are unchanged *)
Theorem C11_everywhere_and_nothing_else : forall g v, Sr g v (sr g v).
Proof. exact sr_meets_spec. Qed.
Print Assumptions C11_everywhere_and_nothing_else.

(* once: applying the substitution again, with the same or any other global_vars, changes nothing *)
Theorem C11_idempotent : forall g g' v, sr g' (sr g v) = sr g v.
Proof. exact sr_idempotent. Qed.
Print Assumptions C11_idempotent.

(* the persistence representation of a substituted leaf is the source text with its placeholders,
   whatever global_vars were; the task sees the substituted text *)
Theorem C11_repr_keeps_placeholder : forall g s,
  (snd (subst g s) = 0 /\ apply_str g s = VStr s) \/
  (snd (subst g s) <> 0 /\ apply_str g s = VRepr (fst (subst g s)) s).
Proof. exact apply_str_cases. Qed.
Print Assumptions C11_repr_keeps_placeholder.

Theorem C11_match_count_independent_of_values : forall g g' s, snd (subst g s) = snd (subst g' s).
Proof. exact count_independent. Qed.
Print Assumptions C11_match_count_independent_of_values.

Example C11_examples :
  let g := of_map [(lit "X", lit "v"); (lit "Y", lit "{X}")] in
  sr g (VList [VStr (lit "{X}{X}/a{Y}b{Z}{"); VDict [(lit "{X}", VList [VStr (lit "}{X"); VInt 1%Z])]])
  = VList [VRepr (lit "vv/a{X}b{Z}{") (lit "{X}{X}/a{Y}b{Z}{"); VDict [(lit "{X}", VList [VStr (lit "}{X"); VInt 1%Z])]]
  /\ subst g (lit "{{X}}") = (lit "{{X}}", 1)
  /\ fst (subst g (bytes [123; 97; 10; 125; 123; 88; 125])) = bytes [123; 97; 10; 125; 118].
Proof. vm_compute. repeat split. Qed.
