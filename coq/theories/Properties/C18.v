(* C18 - run records describe the run that produced the stored result.  Statements only.
   run_info tc o n ins is the record (task, value repr of every parameter, key of every input task, config
   name, namespace, context name, records added during run in order); the messages a run logs are the
   harness tokens (framing lines, timestamps, user and version fields are abstracted away). *)
From Coq Require Import String Ascii List Bool Arith ZArith.
From TC Require Import PyStr Value Dict Repr Param Config Key Chain Eval EvalProofs RunInfoProofs.
Import ListNotations.

(* after a successful run - first computation, retry after a failure, forced recomputation - record and
   log are those of this run only: the record carries the ordinal n of the run among all runs ever started on
   the data directory (the generated run records it), and n is larger than the number of runs started before
   this request - the record is not the one of any earlier run *)
Theorem C18_record_of_latest_run : forall classes run f w id o tc w' v,
  nth_error (w_objs w) id = Some o -> cls_of classes o = Some tc ->
  os_mem (state_of w id) = None ->
  (os_forced (state_of w id) = true \/ persisting (c_data tc) = false \/
   dget (result_path tc o) (mkdirs (dir_of_slug (c_slug tc)) (w_store w)) = None) ->
  eval classes run (S f) w id = (w', inl v) ->
  exists n ins, List.length (w_runlog w) < n <= List.length (w_runlog w') /\
              v = run (o_cls o) (persisted_reprs o) ins /\
              dget (info_path tc o) (w_store w') = Some (FInfo (run_info tc o n ins)) /\
              dget (log_path tc o) (w_store w') = Some (FLog [run_token tc]) /\
              (persisting (c_data tc) = true -> dget (result_path tc o) (w_store w') = Some (FValue v)).
Proof. exact successful_run_writes_its_record. Qed.
Print Assumptions C18_record_of_latest_run.

(* the record names every parameter (also the ones excluded from persistence) and every input key *)
Theorem C18_record_contents : forall tc o n ins,
  run_info tc o n ins =
  VDict [ (lit "config", VDict [ (lit "context", match o_ctxname o with Some n => VStr n | None => VNone end);
                                 (lit "name", VStr (o_cfgname o ++ lit "/" ++ o_fullname o));
                                 (lit "namespace", match o_ns o with Some n => VStr n | None => VNone end) ]);
          (lit "input_tasks", VDict (isort skv_leb (map (fun nk => (fst nk, VStr (snd nk))) (o_inkeys o))));
          (lit "log", VList (run_records n ins));
          (lit "parameters", VDict (isort skv_leb (map (fun pv => (pd_name (fst pv), VStr (value_repr (fst pv) (fst (snd pv))))) (o_params o))));
          (lit "task", VStr (c_slug tc)) ].
Proof. reflexivity. Qed.
Print Assumptions C18_record_contents.

(* a failing run: a log without messages, no new record, nothing kept in memory (for a task that names no
   input in the signature of run; with run arguments the inputs are requested between the opening of the
   log and the body of run - that those requests leave foreign files alone is C18_no_cross_talk) *)
Theorem C18_failed_run : forall classes run f w id o tc w' e,
  nth_error (w_objs w) id = Some o -> cls_of classes o = Some tc -> os_mem (state_of w id) = None ->
  c_runargs tc = [] ->
  existsb (str_eqb (c_slug tc)) (w_fail w) = true ->
  (os_forced (state_of w id) = true \/ persisting (c_data tc) = false \/
   dget (result_path tc o) (mkdirs (dir_of_slug (c_slug tc)) (w_store w)) = None) ->
  eval classes run (S f) w id = (w', inr e) ->
  dget (log_path tc o) (w_store w') = Some (FLog []) /\
  dget (info_path tc o) (w_store w') = dget (info_path tc o) (mkdirs (dir_of_slug (c_slug tc)) (w_store w)) /\
  os_mem (state_of w' id) = None.
Proof. exact failing_run_writes_no_record. Qed.
Print Assumptions C18_failed_run.

(* no cross-talk: a request changes no file other than result / record / log files of the task objects
   of the process; so a log or a record never receives anything from the run of another location *)
Theorem C18_no_cross_talk : forall classes run f w id w' r,
  eval classes run f w id = (w', r) -> Keeps classes w w'.
Proof. exact eval_writes_only_its_objects_files. Qed.
Print Assumptions C18_no_cross_talk.

(* result, record and log of one task are three different files *)
Theorem C18_side_files_distinct : forall tc o,
  result_path tc o <> log_path tc o /\ result_path tc o <> info_path tc o /\ log_path tc o <> info_path tc o.
Proof. intros tc o. repeat split; [apply result_ne_log|apply result_ne_info|apply log_ne_info]. Qed.
Print Assumptions C18_side_files_distinct.
