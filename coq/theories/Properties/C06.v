(* C06 - stored values round-trip exactly.  Statements only (the logic taskchain itself adds around the
   third-party serializers; the serializers are validated by the round-trip correspondence). *)
From Coq Require Import String Ascii List Bool Arith ZArith Permutation.
From TC Require Import PyStr Value Dict Key Chain Eval DataClass DataClassProofs EvalProofs.
Import ListNotations.

(* json-lines framing of generated sequences: every list of items - empty, one, many - is read back
   item by item in order; an item is any text without newline that neither starts nor ends with
   whitespace (what orjson.dumps produces) *)
Theorem C06_jsonl_roundtrip : forall items, Forall clean items -> read_jsonl (write_jsonl items) = items.
Proof. exact jsonl_roundtrip. Qed.
Print Assumptions C06_jsonl_roundtrip.

(* Data.value refuses only "nothing set" (None); every other value, the falsy ones included, is returned *)
Theorem C06_value_guard : forall v, (exists e, data_value v = inr e) <-> v = VNone.
Proof. exact value_guard_is_none_only. Qed.
Print Assumptions C06_value_guard.

Theorem C06_falsy_values_returned :
  Forall (fun v => data_value v = inl v) [VBool false; VInt 0; VFloat (lit "0.0"); VStr []; VList []; VDict []].
Proof. exact falsy_values_returned. Qed.
Print Assumptions C06_falsy_values_returned.

(* lists of arrays: files i.npy are read back in numeric order whatever order the directory lists them in *)
Theorem C06_list_of_arrays_order : forall (num : str -> nat) (name : nat -> str),
  (forall i, num (name i) = i) ->
  forall listing n, Permutation listing (map name (seq 0 n)) -> load_order num listing = map name (seq 0 n).
Proof. exact list_of_arrays_order. Qed.
Print Assumptions C06_list_of_arrays_order.

(* loading never changes the stored files (and returns exactly the stored value) *)
Theorem C06_load_changes_no_file : forall classes run f w id o tc v,
  nth_error (w_objs w) id = Some o -> cls_of classes o = Some tc ->
  os_mem (state_of w id) = None -> os_forced (state_of w id) = false -> persisting (c_data tc) = true ->
  dget (result_path tc o) (w_store w) = Some (FValue v) ->
  exists w', eval classes run (S f) w id = (w', inl v) /\
             w_runlog w' = w_runlog w /\ w_objs w' = w_objs w /\
             w_store w' = mkdirs (dir_of_slug (c_slug tc)) (w_store w) /\
             (forall j, j <> id -> state_of w' j = state_of w j) /\
             (forall p e, dget p (w_store w) = Some e -> dget p (w_store w') = Some e).
Proof. exact eval_load_touches_nothing. Qed.
Print Assumptions C06_load_changes_no_file.
