(* C17 - parallel_map equals map, whatever the scheduling.  Statements only. *)
From Coq Require Import List Arith Bool ZArith Permutation.
From TC Require Import PyStr Par ParProofs.
Import ListNotations.

(* chunked: consecutive chunks of exactly the requested size except a shorter non-empty last one *)
Theorem C17_chunked_concat : forall (A : Type) (n : nat) (xs : list A), concat (chunked n xs) = xs.
Proof. exact @chunked_concat. Qed.
Print Assumptions C17_chunked_concat.

Theorem C17_chunked_sizes : forall (A : Type) (n : nat) (xs : list A), 1 <= n -> chunks_ok n (chunked n xs).
Proof. exact @chunked_sizes. Qed.
Print Assumptions C17_chunked_sizes.

Theorem C17_chunked_empty : forall (A : Type) (n : nat), chunked n (@nil A) = [].
Proof. exact @chunked_nil. Qed.
Print Assumptions C17_chunked_empty.

(* whatever order the workers of a chunk complete in, sorting by index restores map f *)
Theorem C17_collect_sorted : forall (A B : Type) (f : A -> B) (c : list A) (done : list (nat * B)),
  Permutation done (tagged f c) -> collect true done = map f c.
Proof. exact @collect_sorted. Qed.
Print Assumptions C17_collect_sorted.

(* every chunk size and every family of per-chunk completion orders *)
Theorem C17_parallel_map_any_schedule :
  forall (A B : Type) (f : A -> B) (n : nat) (xs : list A) (dones : list (list (nat * B))),
  Forall2 (fun done chunk => Permutation done (tagged f chunk)) dones (chunked n xs) ->
  concat (map (collect true) dones) = map f xs.
Proof. exact @parallel_map_any_schedule. Qed.
Print Assumptions C17_parallel_map_any_schedule.

(* the executable model of utils/threading.parallel_map, every thread count, chunk size, order family *)
Theorem C17_parallel_map : forall (A B : Type) (f : A -> B) threads n orders (xs : list A),
  valid_orders orders (chunked n xs) -> parallel_map f threads true n orders xs = map f xs.
Proof. exact @parallel_map_spec. Qed.
Print Assumptions C17_parallel_map.

(* utils/iter.parallel_map *)
Theorem C17_parallel_map_iter : forall (A B : Type) (f : A -> B) threads order (xs : list A),
  Permutation order (seq 0 (length xs)) -> parallel_map_iter f threads order xs = map f xs.
Proof. exact @parallel_map_iter_spec. Qed.
Print Assumptions C17_parallel_map_iter.

(* sort=False: a permutation of the outputs within each chunk *)
Theorem C17_unsorted_perm : forall (A B : Type) (f : A -> B) threads n orders (xs : list A),
  valid_orders orders (chunked n xs) ->
  exists rs, parallel_map f threads false n orders xs = concat rs /\
             Forall2 (fun r chunk => Permutation r (map f chunk)) rs (chunked n xs).
Proof. exact @parallel_map_unsorted_spec. Qed.
Print Assumptions C17_unsorted_perm.

(* f is applied exactly once per element *)
Theorem C17_calls_once :
  forall (A B : Type) (f : A -> B) (n : nat) (xs : list A) (dones : list (list (nat * B))),
  Forall2 (fun done chunk => Permutation done (tagged f chunk)) dones (chunked n xs) ->
  Permutation (concat (map (map snd) dones)) (map f xs).
Proof. exact @parallel_map_calls_once. Qed.
Print Assumptions C17_calls_once.

(* exceptions: a raising element makes the call raise, and what is raised was raised by f *)
Theorem C17_exception_propagates :
  forall (A B E : Type) (f : A -> B + E) threads sort n orders (xs : list A) x e0,
  Forall2 (fun order chunk => Permutation order (seq 0 (length chunk))) orders (chunked n xs) ->
  In x xs -> f x = inr e0 -> exists e, parallel_map_exc f threads sort n orders xs = inr e.
Proof. exact @parallel_map_exc_raises. Qed.
Print Assumptions C17_exception_propagates.

Theorem C17_exception_is_fs :
  forall (A B E : Type) (f : A -> B + E) threads sort n orders (xs : list A) e,
  parallel_map_exc f threads sort n orders xs = inr e -> exists x, In x xs /\ f x = inr e.
Proof. exact @parallel_map_exc_error. Qed.
Print Assumptions C17_exception_is_fs.

Theorem C17_exc_model_is_plain_when_total :
  forall (A B E : Type) (g : A -> B) threads sort n orders (xs : list A),
  parallel_map_exc (E := E) (fun x => inl (g x)) threads sort n orders xs
  = inl (parallel_map g threads sort n orders xs).
Proof. exact @parallel_map_exc_total. Qed.
Print Assumptions C17_exc_model_is_plain_when_total.

(* non-vacuity: a schedule that is not the submission order meets the hypotheses *)
Example C17_hypotheses_satisfiable :
  valid_orders [[2; 0; 1]; [1; 0]] (chunked 3 [10; 20; 30; 40; 50]%Z) /\
  parallel_map (fun x => (2 * x)%Z) 4 false 3 [[2; 0; 1]; [1; 0]] [10; 20; 30; 40; 50]%Z
    = [60; 20; 40; 100; 80]%Z.
Proof.
  split; [|reflexivity]. vm_compute.
  constructor; [apply (Permutation_cons_app [0; 1] [] 2); reflexivity|].
  constructor; [apply perm_swap|constructor].
Qed.
