(* C03 - different computations get different storage locations.  Statements only.

   The full statement (any two unequal JSON-like values or parameter objects, at any depth, in any
   parameter at any distance upstream, give different locations) is FALSE of the code:
   C03_refuted below exhibits two unequal values with one text (strings are wrapped in quotes without
   escaping; known finding K1).  What is proved is the statement on the fragment where it holds -
   theorems named _partial - with the fragment a computable predicate:
     jsonlike v : None, booleans, integers, floats, strings and mapping keys WITHOUT the quote character,
                  lists and mappings nested to any depth;
     pok        : the parameter name is an identifier, its value is jsonlike, its dtype is not Path.
   Missing from the proved part: strings containing a quote (refuted).  Path parameters and
   AutoParameterObjects are rendered with CPython's repr, which escapes: their texts are proved uniquely
   readable / injective on their own (last three theorems before C03_refuted), for ALL strings, but they are
   not yet composed into the registry/key-text theorems (pok excludes them); objects with a user-defined
   repr are outside any theorem. *)
From Coq Require Import String Ascii List Bool Arith ZArith.
From TC Require Import PyStr Value Dict Repr Param Key Chain Eval Sha256 ReprProofs MultiProofs ReadProofs InjProofs PyReprProofs.
Import ListNotations.

(* the text of a value can be read back in one way only: equal texts (followed by anything that cannot
   continue an atom) come from values equal up to the order of mapping keys *)
Theorem C03_value_text_uniquely_readable_partial : forall v1 v2 r1 r2,
  jsonlike v1 = true -> jsonlike v2 = true -> follow_ok r1 -> follow_ok r2 ->
  repr_inst v1 ++ r1 = repr_inst v2 ++ r2 -> norm v1 = norm v2 /\ r1 = r2.
Proof. exact repr_inst_unique_readable. Qed.
Print Assumptions C03_value_text_uniquely_readable_partial.

(* the parameter part of the key text determines the persisted names and values *)
Theorem C03_registry_text_injective_partial : forall ps1 ps2 r1 r2,
  Forall pok ps1 -> Forall pok ps2 -> Term r1 -> Term r2 ->
  registry_text ps1 ++ r1 = registry_text ps2 ++ r2 -> persisted ps1 = persisted ps2 /\ r1 = r2.
Proof. exact registry_text_injective. Qed.
Print Assumptions C03_registry_text_injective_partial.

(* the whole key text determines the persisted parameters and the (input name, input key) pairs *)
Theorem C03_key_text_injective_partial : forall ns1 ps1 in1 ns2 ps2 in2 t l1 l2,
  Forall pok ps1 -> Forall pok ps2 ->
  stripped ns1 in1 = inl l1 -> stripped ns2 in2 = inl l2 -> Forall igood l1 -> Forall igood l2 ->
  key_text ns1 ps1 in1 = inl t -> key_text ns2 ps2 in2 = inl t ->
  persisted ps1 = persisted ps2 /\ l1 = l2.
Proof. exact key_text_injective. Qed.
Print Assumptions C03_key_text_injective_partial.

(* the hash chain: in two chains (two configurations) whose key texts the hash does not collide on, tasks
   with one key compute one thing - the same persisted parameter values, and under every input name a task
   that again computes one thing, to any depth.  Contrapositive: a difference in any persisted parameter
   value at any distance upstream gives a different key. *)
Theorem C03_same_key_same_computation_partial : forall H tasksA tasksB,
  NodesOk tasksA -> NodesOk tasksB ->
  (forall t, ident (key_of_text H t)) ->
  (forall t1 t2, Texts H tasksA t1 -> Texts H tasksB t2 -> key_of_text H t1 = key_of_text H t2 -> t1 = t2) ->
  forall nameA key sa, KS H tasksA nameA key sa -> forall nameB sb, KS H tasksB nameB key sb -> sa = sb.
Proof. exact same_key_same_computation. Qed.
Print Assumptions C03_same_key_same_computation_partial.

Theorem C03_different_computation_different_key_partial : forall H tasksA tasksB,
  NodesOk tasksA -> NodesOk tasksB ->
  (forall t, ident (key_of_text H t)) ->
  (forall t1 t2, Texts H tasksA t1 -> Texts H tasksB t2 -> key_of_text H t1 = key_of_text H t2 -> t1 = t2) ->
  forall nameA keyA sa nameB keyB sb,
  KS H tasksA nameA keyA sa -> KS H tasksB nameB keyB sb -> sa <> sb -> keyA <> keyB.
Proof.
  intros H tasksA tasksB okA okB kc nc nameA keyA sa nameB keyB sb HA HB Hne E. subst keyB.
  apply Hne. exact (same_key_same_computation H tasksA tasksB okA okB kc nc nameA keyA sa HA nameB sb HB).
Qed.
Print Assumptions C03_different_computation_different_key_partial.

(* the keys this speaks about are the keys construction assigns (KeyOf is what build_chain is proved to
   produce, C13), and the real hash writes identifier characters *)
Theorem C03_every_key_has_a_signature : forall H tasks1 name key,
  KeyOf H tasks1 name key -> exists s, KS H tasks1 name key s.
Proof. exact KeyOf_KS. Qed.
Print Assumptions C03_every_key_has_a_signature.

Theorem C03_sha256_key_chars : forall t, ident (key_of_text sha256_hex t).
Proof. exact sha256_key_chars. Qed.
Print Assumptions C03_sha256_key_chars.

(* different keys of one task class are different locations *)
Theorem C03_different_key_different_location : forall tc o1 o2,
  o_key o1 <> o_key o2 -> result_path tc o1 <> result_path tc o2.
Proof. exact different_key_different_location. Qed.
Print Assumptions C03_different_key_different_location.

(* ---- parameter objects and Path parameters: CPython's repr, which escapes ---- *)
(* repr of a string (the text of a Path parameter and of a string inside an object's arguments) is
   self-delimiting and injective for ALL strings: quotes, backslashes, control characters included *)
Theorem C03_python_string_repr_uniquely_readable : forall s1 s2 r1 r2,
  py_repr_str s1 ++ r1 = py_repr_str s2 ++ r2 -> s1 = s2 /\ r1 = r2.
Proof. exact py_repr_str_unique. Qed.
Print Assumptions C03_python_string_repr_uniquely_readable.

(* repr of a JSON-like value built from any strings (pyjson) is uniquely readable *)
Theorem C03_python_repr_uniquely_readable : forall v1 v2 r1 r2,
  pyjson v1 = true -> pyjson v2 = true -> follow_ok r1 -> follow_ok r2 ->
  py_repr v1 ++ r1 = py_repr v2 ++ r2 -> v1 = v2 /\ r1 = r2.
Proof. exact py_repr_unique_readable. Qed.
Print Assumptions C03_python_repr_uniquely_readable.

(* the text of an AutoParameterObject - ClassName(arg=repr(value), ...) over its persisted arguments, sorted
   by name - determines the class name and the arguments: objects that differ in a persisted argument, at
   any depth of the argument's value, have different texts *)
Theorem C03_auto_object_text_injective_partial : forall c1 a1 c2 a2 r1 r2,
  ident c1 -> ident c2 -> Forall agood a1 -> Forall agood a2 ->
  py_repr (VAuto c1 a1) ++ r1 = py_repr (VAuto c2 a2) ++ r2 ->
  c1 = c2 /\ isort dkey_leb a1 = isort dkey_leb a2 /\ r1 = r2.
Proof. exact auto_text_injective. Qed.
Print Assumptions C03_auto_object_text_injective_partial.

(* the full statement fails: two unequal lists of strings with one text (K1) *)
Theorem C03_refuted : exists v1 v2, norm v1 <> norm v2 /\ repr_inst v1 = repr_inst v2.
Proof.
  exists (VList [VStr (lit "a"); VStr (lit "b")]), (VList [VStr (lit "a', 'b")]).
  split; [discriminate|exact quote_collision].
Qed.
Print Assumptions C03_refuted.

Example C03_nonvacuous :
  jsonlike (VDict [(lit "b", VList [VInt 1; VFloat (lit "1.5e-07"); VNone; VBool true; VStr (lit "x, y]")]);
                   (lit "a", VDict [(lit "k", VFloat (lit "-inf"))])]) = true.
Proof. exact jsonlike_example. Qed.
