(* C07 - forcing recomputes exactly what was asked.  Statements only. *)
From Coq Require Import String Ascii List Bool Arith ZArith.
From TC Require Import PyStr Value Dict Repr Param Config Key Chain Graph World Eval History
     GraphProofs GraphMoreProofs EvalProofs HistoryProofs.
Import ListNotations.

(* Task.force: the object loses its in-memory result and is marked; every other object is untouched *)
Theorem C07_force_task_state : forall wd delete w id j,
  (exists o tc, nth_error (w_objs w) id = Some o /\ cls_of (classes_of_world wd) o = Some tc) ->
  id < List.length (w_states w) ->
  state_of (force_obj wd delete w id) j =
  if Nat.eqb j id then {| os_mem := None; os_forced := true |} else state_of w j.
Proof. exact force_obj_state. Qed.
Print Assumptions C07_force_task_state.

(* delete_data removes nothing but the stored result of the forced object itself *)
Theorem C07_delete_only_own_result : forall wd delete w id p e,
  dget p (w_store w) = Some e ->
  dget p (w_store (force_obj wd delete w id)) = Some e \/
  (delete = true /\ exists o tc, nth_error (w_objs w) id = Some o /\
                                 cls_of (classes_of_world wd) o = Some tc /\ p = result_path tc o).
Proof. exact force_obj_files. Qed.
Print Assumptions C07_delete_only_own_result.

(* Chain.force: exactly the objects of the closure are marked and emptied, all others keep their state *)
Theorem C07_closure_exact : forall H wd run h chain names delete c h' out j,
  nth_error (h_chains h) chain = Some c ->
  let roots := nodup Nat.eq_dec (flat_map (fun n => match dget n c with Some i => [i] | None => [] end) names) in
  let forced := closure_from (input_edge (w_objs (h_world h))) (chain_ids c) roots in
  valid_ids wd (h_world h) forced ->
  step H wd run h (OForceChain chain names false delete) = (h', out) ->
  state_of (h_world h') j =
  if existsb (Nat.eqb j) forced then {| os_mem := None; os_forced := true |} else state_of (h_world h) j.
Proof. exact force_chain_marks_exactly_closure. Qed.
Print Assumptions C07_closure_exact.

(* the closure: the named tasks and everything downstream of them, nothing upstream or unrelated *)
Theorem C07_closure_is_downstream : forall objs c roots x,
  In x (closure_from (input_edge objs) (chain_ids c) roots) <->
  In x roots \/ exists r, In r roots /\ Path (input_edge objs) (chain_ids c) r x.
Proof. exact forced_closure_is_downstream. Qed.
Print Assumptions C07_closure_is_downstream.

(* a forced object runs again although a result is stored: the inputs named in the signature of run are
   requested first (d0 is what they run), then - unless one of those fails - its own run starts ... *)
Theorem C07_forced_runs_again : forall classes run f w id o tc w' r,
  nth_error (w_objs w) id = Some o -> cls_of classes o = Some tc ->
  os_mem (state_of w id) = None -> os_forced (state_of w id) = true ->
  eval classes run (S f) w id = (w', r) ->
  (exists d0 d, w_runlog w' = w_runlog w ++ d0 ++ (c_slug tc, o_key o) :: d) \/
  (r = inr ERun /\ c_runargs tc <> []).
Proof. exact eval_forced_runs. Qed.
Print Assumptions C07_forced_runs_again.

(* for a task that names no input in the signature of run, its own run is the first thing that happens *)
Theorem C07_forced_runs_again_plain : forall classes run f w id o tc w' r,
  nth_error (w_objs w) id = Some o -> cls_of classes o = Some tc -> c_runargs tc = [] ->
  os_mem (state_of w id) = None -> os_forced (state_of w id) = true ->
  eval classes run (S f) w id = (w', r) ->
  exists d, w_runlog w' = w_runlog w ++ (c_slug tc, o_key o) :: d.
Proof. exact eval_forced_runs_plain. Qed.
Print Assumptions C07_forced_runs_again_plain.

(* ... exactly once: the new value stays in memory and later requests are memory hits *)
Theorem C07_then_served_from_memory : forall classes run f w id w' v,
  id < List.length (w_states w) -> eval classes run f w id = (w', inl v) -> os_mem (state_of w' id) = Some v.
Proof. exact eval_success_in_memory. Qed.
Print Assumptions C07_then_served_from_memory.

Theorem C07_memory_hit_runs_nothing : forall classes run f w id o tc v,
  nth_error (w_objs w) id = Some o -> cls_of classes o = Some tc -> os_mem (state_of w id) = Some v ->
  eval classes run (S f) w id = (w, inl v).
Proof. exact eval_memory_hit. Qed.
Print Assumptions C07_memory_hit_runs_nothing.

(* unforced tasks keep being served from storage *)
Theorem C07_unforced_served_from_storage : forall classes run f w id o tc v,
  nth_error (w_objs w) id = Some o -> cls_of classes o = Some tc ->
  os_mem (state_of w id) = None -> os_forced (state_of w id) = false -> persisting (c_data tc) = true ->
  dget (result_path tc o) (w_store w) = Some (FValue v) ->
  exists w', eval classes run (S f) w id = (w', inl v) /\ w_runlog w' = w_runlog w /\ w_objs w' = w_objs w /\
             w_store w' = mkdirs (dir_of_slug (c_slug tc)) (w_store w) /\
             (forall j, j <> id -> state_of w' j = state_of w j) /\
             (forall p e, dget p (w_store w) = Some e -> dget p (w_store w') = Some e).
Proof. exact eval_load_touches_nothing. Qed.
Print Assumptions C07_unforced_served_from_storage.

(* reset_data between forcing and the next request does not un-force: the object keeps its mark (and holds no
   value), so by C07_forced_runs_again the request executes run; store and run log are untouched *)
Theorem C07_reset_keeps_forced : forall H wd run h c n id h' out j,
  oid_of h c n = Some id -> id < List.length (w_states (h_world h)) ->
  step H wd run h (OReset c n) = (h', out) ->
  out = ok VNone /\
  w_store (h_world h') = w_store (h_world h) /\ w_runlog (h_world h') = w_runlog (h_world h) /\
  state_of (h_world h') j =
  (if Nat.eqb j id then {| os_mem := None; os_forced := os_forced (state_of (h_world h) id) |}
   else state_of (h_world h) j).
Proof. exact reset_keeps_forced. Qed.
Print Assumptions C07_reset_keeps_forced.

(* exactly once: the forced recomputation consumes the mark - after a successful request that was not served from
   memory the object is unmarked, so when its value is later dropped from memory (reset_data) or asked for by the
   object again, the stored result is loaded (C07_unforced_served_from_storage) instead of running once more *)
Theorem C07_forced_mark_consumed : forall classes run f w id w' v,
  id < List.length (w_states w) -> os_mem (state_of w id) = None ->
  eval classes run f w id = (w', inl v) -> os_forced (state_of w' id) = false.
Proof. exact eval_success_unmarks. Qed.
Print Assumptions C07_forced_mark_consumed.

(* the closure does not depend on the order (or multiplicity) in which the chain lists its tasks: two chains with the
   same tasks, registered in any order, mark the same objects *)
Theorem C07_closure_order_independent : forall objs c c' roots x,
  (forall i, In i (chain_ids c) <-> In i (chain_ids c')) ->
  (In x (closure_from (input_edge objs) (chain_ids c) roots) <-> In x (closure_from (input_edge objs) (chain_ids c') roots)).
Proof. intros objs c c' roots x. exact (closure_order_independent (input_edge objs) (chain_ids c) (chain_ids c') roots x). Qed.
Print Assumptions C07_closure_order_independent.

(* the closure is closed under dependence: a task of the chain that reads a marked task is marked *)
Theorem C07_closure_closed : forall objs c roots a x,
  In a (closure_from (input_edge objs) (chain_ids c) roots) -> input_edge objs a x = true -> In x (chain_ids c) ->
  In x (closure_from (input_edge objs) (chain_ids c) roots).
Proof. intros objs c. exact (closure_closed (input_edge objs) (chain_ids c)). Qed.
Print Assumptions C07_closure_closed.

(* forcing what a force has marked marks nothing more; forcing several names is forcing each *)
Theorem C07_closure_idempotent : forall objs c roots x,
  In x (closure_from (input_edge objs) (chain_ids c) (closure_from (input_edge objs) (chain_ids c) roots)) <->
  In x (closure_from (input_edge objs) (chain_ids c) roots).
Proof. intros objs c. exact (closure_idempotent (input_edge objs) (chain_ids c)). Qed.
Print Assumptions C07_closure_idempotent.

Theorem C07_closure_of_several : forall objs c r1 r2 x,
  In x (closure_from (input_edge objs) (chain_ids c) (r1 ++ r2)) <->
  In x (closure_from (input_edge objs) (chain_ids c) r1) \/ In x (closure_from (input_edge objs) (chain_ids c) r2).
Proof. intros objs c. exact (closure_union (input_edge objs) (chain_ids c)). Qed.
Print Assumptions C07_closure_of_several.

(* a single pass over the tasks in their order of registration is not the closure: a dependant listed before the task
   it reads is lost (the witness: report <- clean <- load, listed dependants first, load forced) *)
Theorem C07_single_pass_refuted :
  exists edge nodes roots x, In x (closure_from edge nodes roots) /\ ~ In x (single_pass edge nodes roots).
Proof. exact single_pass_refuted. Qed.
Print Assumptions C07_single_pass_refuted.
