#!/usr/bin/env python3
"""Regenerate the table of DESIGN.md 12.9 from a results file of tools/run_seed.sh and seeded/*/meta.json.
usage: tools/seed_table.py replays/seed_results_all.txt [extra result files ...]  (later files override)"""
import json
import re
import sys
from pathlib import Path

ROOT = Path(__file__).resolve().parent.parent
NOTES = {   # changes that the check of another property reports (with a concrete input), and why
    'C01/4': 'C05 (a partial revert of F6: the failed save of a generated sequence leaves a truncated file; C01 sees it only '
             'through the value a later chain loads, which the C05 fault enumeration produces)',
    'C10/2': 'C08, C01 (F2 reverted: the input is wired to a foreign task; the name resolver itself is unchanged)',
}


def main():
    res = {}
    for f in sys.argv[1:]:
        for line in Path(f).read_text().splitlines():
            m = re.match(r"SEED (C\d\d)-(\d+) demo_clean=(\d+) demo_mutated=(\d+) tests='([^']*)' checks:(.*)", line)
            if not m:
                continue
            p, n, dc, dm, tests, checks = m.groups()
            for c in checks.split():
                cp, r = c.split(':')
                kv = dict(x.split('=') for x in r.split(','))
                res.setdefault(f'{p}/{n}', {})[cp] = dict(rc=int(kv['rc']), viol=int(kv['viol']), nofail=int(kv['nofail']),
                                                          demo=(dc, dm), tests=tests.strip())
    rows, own, other, nofail, missed, bad = [], 0, 0, 0, 0, []
    for p in sorted(x.name for x in (ROOT / 'seeded').iterdir() if x.is_dir()):
        for e in sorted(json.load(open(ROOT / 'seeded' / p / 'meta.json')), key=lambda e: e['n']):
            key = f"{p}/{e['n']}"
            r = res.get(key, {})
            mine = r.get(p)
            if mine and (mine['demo'] != ('0', '1') or '128 passed' not in mine['tests']):
                bad.append(key)
            if mine and mine['rc'] == 1 and mine['viol'] > mine['nofail']:
                by = 'own'
                own += 1
            elif key in NOTES:
                by = NOTES[key]
                other += 1
            elif mine and mine['rc'] == 1:
                by = 'own, as a broken correspondence without a failing input (no-failing-input-found)'
                nofail += 1
            else:
                by = '**not reported**' if mine else '(not run)'
                missed += 1
            summ = e['summary'].replace('|', '\\|').replace('\n', ' ')
            summ = summ if len(summ) <= 150 else summ[:147] + '...'
            rows.append(f"| {key} | {e['file'].replace('src/taskchain/', '')} | {summ} | {by} |")
    print('| change | file | what it does (sub-agent\'s summary, shortened) | reported by |')
    print('|---|---|---|---|')
    print('\n'.join(rows))
    print()
    print(f'{own} of {len(rows)} are reported by the quick check of their own property with a concrete failing input, {other} by the '
          f'check of the property whose clause they break, {nofail} only as a broken correspondence, {missed} not at all.'
          + (f' Unconfirmed patches: {bad}.' if bad else ' Every patch was re-confirmed by `tools/run_seed.sh`: the 128 tests pass '
             'with it, its demonstration exits 1 with it and 0 without.'))


if __name__ == '__main__':
    main()
