#!/usr/bin/env python3
"""update_design_table.py <results files...>: replace the table of DESIGN.md 12.9 (and the sentence under it) by the one
tools/seed_table.py makes from the given results files (later files override earlier ones)."""
import re
import subprocess
import sys
from pathlib import Path

root = Path(__file__).resolve().parent.parent
out = subprocess.run([sys.executable, str(root / 'tools' / 'seed_table.py')] + sys.argv[1:], capture_output=True, text=True, check=True).stdout
s = (root / 'DESIGN.md').read_text()
h = s.index('### 12.9 Final table')
a = s.index('| change | file |', h)
m = re.search(r'^\d+ of \d+ are reported by .*$', s[a:], re.M)
b = a + m.end()
s = s[:a] + out.rstrip('\n') + s[b:]
(root / 'DESIGN.md').write_text(s)
print(out.rstrip('\n').splitlines()[-1])
