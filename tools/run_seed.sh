#!/bin/bash
# run_seed.sh <dir with patch_N.diff/demo_N.py> <N> <tier> <property ids...>
# Confirms a seeded change (tests still pass, its demonstration shows the violation only with the change) and
# runs the given checks against it.  Works on a scratch worktree of /repo (TCV_REPO), so that several
# seeds can be tried at once; the equivalent by hand is: git -C /repo apply patch; ./check ...; git -C /repo checkout -- .
set -u
dir=$1; n=$2; tier=$3; shift 3
tag=$(basename $dir)-$n
wt=/tmp/wtseed-$tag-$$; out=/tmp/seedout-$tag-$$
git -C /repo worktree add -q --detach $wt HEAD || exit 2
cleanup() { git -C /repo worktree remove --force $wt; rm -rf $out; }
trap cleanup EXIT
export PYTHONHASHSEED=0 PYTHONWARNINGS=ignore
mkdir -p $out/tmp; export TMPDIR=$out/tmp
cd /tmp
PYTHONPATH=$wt/src timeout 600 /venv/bin/python $dir/demo_$n.py > /dev/null 2>&1; clean_rc=$?
git -C $wt apply $dir/patch_$n.diff || { echo "SEED $tag patch does not apply"; exit 2; }
PYTHONPATH=$wt/src timeout 600 /venv/bin/python $dir/demo_$n.py > /dev/null 2>&1; mut_rc=$?
tests=$(cd $wt && PYTHONPATH=$wt/src timeout 900 /venv/bin/python -m pytest -q -p no:cacheprovider --timeout=900 2>&1 | tail -1 | sed 's/=//g')
results=""
for p in "$@"; do
  o=$(cd /verif && TCV_REPO=$wt TCV_OUT=$out timeout 3000 ./check $p --tier $tier 2>&1); rc=$?
  nviol=$(echo "$o" | grep -c '^VIOLATION')
  nf=$(echo "$o" | grep -c 'no-failing-input-found')
  results="$results $p:rc=$rc,viol=$nviol,nofail=$nf"
done
echo "SEED $tag demo_clean=$clean_rc demo_mutated=$mut_rc tests='$tests' checks:$results"
