#!/usr/bin/env python3
"""ingest_round.py <round dir> <first n> <last n>: copy patch_N.diff / demo_N.py of the sub-agents' output directories
<round dir>/out-Cxx into seeded/Cxx and merge their meta.json entries (entries below <first n> are kept)."""
import json, os, shutil, sys
src_root, lo, hi = sys.argv[1], int(sys.argv[2]), int(sys.argv[3])
for i in range(1, 21):
    c = f'C{i:02d}'
    src, dst = f'{src_root}/out-{c}', f'/verif/seeded/{c}'
    for n in range(lo, hi + 1):
        for f in (f'patch_{n}.diff', f'demo_{n}.py'):
            if os.path.exists(f'{src}/{f}'):
                shutil.copy(f'{src}/{f}', f'{dst}/{f}')
            else:
                print('MISSING', c, f)
    old = json.load(open(f'{dst}/meta.json'))
    try:
        new = json.load(open(f'{src}/meta.json'))
    except Exception as e:
        print('meta', c, e)
        continue
    if isinstance(new, dict):
        new = new.get('changes') or new.get('seeds') or list(new.values())
    keep = [e for e in old if int(e['n']) < lo] + [e for e in new if lo <= int(e['n']) <= hi]
    json.dump(keep, open(f'{dst}/meta.json', 'w'), indent=1)
    print(c, len(keep))
