"""L0 suites: parameter registry representation, shared by C02 / C03 / C12."""
from .core import Suite
from .coqlit import cbool, clist, copt, cpair, cstr
from .values import cspec, materialize, rand_value, rand_str, has_object

DTYPES = {'any': 'DAny', 'int': 'DInt', 'float': 'DFloat', 'bool': 'DBool', 'str': 'DStr', 'list': 'DList',
          'dict': 'DDict', 'path': 'DPath'}
PNAMES = ['a', 'b', 'lr', 'model', 'x1', '_p', 'B', 'aa']


def py_dtype(name):
    from pathlib import Path
    return {'any': None, 'int': int, 'float': float, 'bool': bool, 'str': str, 'list': list, 'dict': dict,
            'path': Path}[name]


def value_for_dtype(rng, dt, rich=True, objects=True):
    if dt == 'int':
        return rng.choice([0, 1, -5, 7, True, 10 ** 12])
    if dt == 'float':
        return rng.choice([1.0, 2.5, -0.5, 1e16, 0.1])
    if dt == 'bool':
        return rng.choice([True, False])
    if dt in ('str', 'path'):
        return rand_str(rng, rich)
    if dt == 'list':
        return [rand_value(rng, 2, rich, objects) for _ in range(rng.choice([0, 1, 2]))]
    if dt == 'dict':
        return {k: rand_value(rng, 2, rich, objects) for k in rng.sample(['k', 'a', 'z'], rng.choice([0, 1, 2]))}
    return rand_value(rng, 3, rich, objects)


def gen_decl(rng, name, rich=True, objects=True):
    dt = rng.choice(['any', 'any', 'any', 'int', 'float', 'bool', 'str', 'list', 'dict', 'path'])
    default = None
    if rng.random() < 0.5:
        default = [None] if rng.random() < 0.25 else [value_for_dtype(rng, dt, rich, objects)]
    return dict(name=name, cfg=name if rng.random() < 0.8 else name + '_cfg', default=default,
                ignore=rng.random() < 0.15, dropdef=rng.random() < 0.4, dtype=dt)


def make_parameter(d):
    from taskchain.parameter import Parameter
    kw = {}
    if d['default'] is not None:
        kw['default'] = materialize(d['default'][0])
    return Parameter(d['name'], dtype=py_dtype(d['dtype']), name_in_config=d['cfg'], ignore_persistence=d['ignore'],
                     dont_persist_default_value=d['dropdef'], **kw)


def cdecl(d):
    return ('{| pd_name := %s; pd_cfg := %s; pd_default := %s; pd_ignore := %s; pd_dropdef := %s; pd_dtype := %s |}'
            % (cstr(d['name']), cstr(d['cfg']), copt(d['default'], lambda x: cspec(x[0])), cbool(d['ignore']),
               cbool(d['dropdef']), DTYPES[d['dtype']]))


class Registry(Suite):
    """ParameterRegistry(params).set_values(config); .repr"""
    name = 'registry_repr'
    imports = 'Value Repr Param'
    shard = 150
    in_type = '(list pdecl * list (str * value))'
    out_type = 'option (option str)'
    eq_dec = '(option_eq_dec (option_eq_dec str_eq_dec))'
    prelude = '''
Fixpoint set_all (ps : list pdecl) (cfg : list (str * value)) : option (list (pdecl * (value * bool))) :=
  match ps with
  | [] => Some []
  | p :: r => match set_value p cfg, set_all r cfg with
              | inl v, Some rest => Some ((p, v) :: rest)
              | _, _ => None end
  end.
Definition reg_model (c : list pdecl * list (str * value)) : option (option str) :=
  match set_all (fst c) (snd c) with Some pvs => Some (registry_repr pvs) | None => None end.
'''
    model = 'reg_model'
    rich = True

    def corpus(self):
        d = lambda **k: dict(dict(name='a', cfg='a', default=None, ignore=False, dropdef=False, dtype='any'), **k)
        return [
            dict(decls=[d(name='b'), d(name='a')], config={'a': ['a', 'b'], 'b': "x'###a='y"}),
            dict(decls=[d(name='a', default=[1], dropdef=True)], config={'a': True}),
            dict(decls=[d(name='a', default=[1], dropdef=True)], config={'a': 1.0}),
            dict(decls=[d(name='a', default=[[1]], dropdef=True)], config={'a': [1.0]}),
            dict(decls=[d(name='a', dtype='path')], config={'a': "it's"}),
            dict(decls=[d(name='a', dtype='float')], config={'a': 1}),
            dict(decls=[d(name='a', dtype='int')], config={'a': True}),
            dict(decls=[d(name='a')], config={}),
            dict(decls=[d(name='a', default=[None])], config={}),
            dict(decls=[], config={'zzz': 1}),
            dict(decls=[d(name='a')], config={'a': {'__auto__': 'AutoA', 'args': {'a': {'z': 1, 'b': "q'"}, 'b': 1, 'verbose': True}}}),
            dict(decls=[d(name='a')], config={'a': {'__inst__': 'Plain', 'args': ['s', 1], 'kwargs': {'z': [1], 'a': 'x'}}}),
            # parameter objects: collected ** and * arguments, a raw argument kept privately beside a processed public
            # form, arguments dropped at their default when given in another spelling of the same value
            dict(decls=[d(name='a')], config={'a': {'__auto__': 'AutoK', 'args': {'a': 1, 'offset': 5, 'name': "q'"}}}),
            dict(decls=[d(name='a')], config={'a': {'__auto__': 'AutoK', 'args': {'a': 1}}}),
            dict(decls=[d(name='a')], config={'a': {'__auto__': 'AutoV', 'args': {'steps': ['scale', 'clip', 1], 'mode': 'y'}}}),
            dict(decls=[d(name='a')], config={'a': {'__auto__': 'AutoP', 'args': {'path': 'raw/vocab.txt', 'scale': 3}}}),
            dict(decls=[d(name='a')], config={'a': [{'__auto__': 'AutoP', 'args': {'path': 'p'}}]}),
            dict(decls=[d(name='a')], config={'a': {'__auto__': 'AutoD', 'args': {'x': 1, 'rate': 1, 'flag': True, 'opts': {'b': [2], 'a': 1}}}}),
            dict(decls=[d(name='a')], config={'a': {'__auto__': 'AutoD', 'args': {'x': 1, 'rate': 1.0, 'flag': 1.0, 'opts': {'a': 1.0, 'b': [2]}}}}),
            dict(decls=[d(name='a')], config={'a': {'__auto__': 'AutoD', 'args': {'x': 1, 'rate': 2, 'flag': 0, 'opts': {'a': 1}}}}),
            dict(decls=[d(name='a')], config={'a': {'k': {'__user__': 'U(1)'}, 'b': [1e16, 'é']}}),
            dict(decls=[d(name='a'), d(name='b')], config={'a': {'__auto__': 'AutoRidge', 'args': {'alpha': 0.5}},
                                                         'b': [{'__auto__': 'AutoLasso', 'args': {'alpha': 0.5, 'max_iter': 7}}]}),
            dict(decls=[d(name='a')], config={'a': {'__auto__': 'AutoL', 'args': {'columns': ['b', 'a', 'b'], 'limit': 20}}}),
            # a class that extends the inherited list of ignored arguments in place, rendered before a class that persists
            # arguments of those names (what was rendered earlier in the process must not matter)
            dict(decls=[d(name='a'), d(name='b')], config={'a': {'__auto__': 'AutoX', 'args': {'source': 's', 'workers': 4}},
                                                         'b': {'__auto__': 'AutoW', 'args': {'lr': 0.1, 'workers': 4, 'batch_size': 64}}}),
            dict(decls=[d(name='a')], config={'a': [{'__auto__': 'AutoX', 'args': {'source': 's'}}, {'__auto__': 'AutoW', 'args': {'lr': 1, 'workers': 8}},
                                                    {'__auto__': 'AutoA', 'args': {'a': 1, 'verbose': True}}]}),
        ]

    def gen(self, rng, tier):
        out = []
        for _ in range(400 if tier == 'quick' else 10000):
            names = rng.sample(PNAMES, rng.choice([0, 1, 2, 3, 4]))
            decls = [gen_decl(rng, n, self.rich) for n in names]
            config = {}
            for d in decls:
                r = rng.random()
                if r < 0.12 and d['default'] is not None:
                    continue  # take the default
                if r < 0.04:
                    continue  # missing required
                if r < 0.10:
                    config[d['cfg']] = rand_value(rng, 2, self.rich)  # possibly ill-typed
                elif d['default'] is not None and r < 0.3:
                    config[d['cfg']] = d['default'][0]  # explicitly the default
                else:
                    config[d['cfg']] = value_for_dtype(rng, d['dtype'], self.rich)
            if rng.random() < 0.3:
                config['unused'] = rand_value(rng, 1, self.rich)
            out.append(dict(decls=decls, config=config))
        return out

    def run_impl(self, case):
        from taskchain.parameter import ParameterRegistry
        reg = ParameterRegistry([make_parameter(d) for d in case['decls']])
        cfg = {k: materialize(v) for k, v in case['config'].items()}
        try:
            reg.set_values(cfg)
        except ValueError as e:
            return dict(error='ValueError', text=str(e)[:120])
        return dict(repr=reg.repr, value_reprs={p.name: p.value_repr() for p in reg.values()})

    def encode(self, case, obs):
        i = cpair(clist([cdecl(d) for d in case['decls']]),
                  clist([cpair(cstr(k), cspec(v)) for k, v in case['config'].items()]))
        if 'error' in obs:
            return i, 'None'
        if 'repr' not in obs:
            return i, '(Some (Some (lit "<unexpected exception>")))'
        return i, '(Some %s)' % copt(obs['repr'], cstr)

    def oracle(self, case, obs):
        """required, persisted, untyped parameters that the configuration sets: the text by the frozen renderer"""
        from . import oracle_frozen as fz
        ds = case['decls']
        if 'repr' not in obs or not ds or any(d['default'] is not None or d['ignore'] or d['dropdef'] or d['dtype'] != 'any'
                                              or d['cfg'] not in case['config'] for d in ds):
            return None
        try:
            want = fz.registry_text([(d, case['config'][d['cfg']], False) for d in ds])
        except NotImplementedError:
            return None
        if obs['repr'] != want:
            return f'the text of {case["config"]} is {obs["repr"]!r}; by the scheme of the release it is {want!r}'
        return None

    def nontrivial(self, case, obs):
        return len(case['decls']) >= 2 or has_object(case['config'])

    def key(self, case):
        return repr(case)

    def distribution(self, cases, obs):
        d = dict(errors=0, empty_repr=0, with_objects=0, n_params={}, dropped_default=0)
        for c, o in zip(cases, obs):
            d['errors'] += 'error' in o
            d['empty_repr'] += o.get('repr', 1) is None
            d['with_objects'] += has_object(c['config'])
            k = str(len(c['decls']))
            d['n_params'][k] = d['n_params'].get(k, 0) + 1
            if 'repr' in o:
                persisted = (o['repr'] or '').count('###') + (1 if o['repr'] else 0)
                d['dropped_default'] += persisted < sum(1 for x in c['decls'] if not x['ignore'])
        return d
