"""Pipelines for the chain-level suites: case description -> real task classes, config files and
chains on /repo; observation of a constructed chain; encoding of the case for the Coq model."""
import contextlib
import itertools
import json
import os
import shutil
import sys
import tempfile
import types
from pathlib import Path

from .coqlit import cbool, clist, cnat, copt, cpair, cstr, cinl, cinr
from .suites_l0 import cdecl, py_dtype
from .values import cspec, materialize, definition_of

_uid = itertools.count()
DKINDS = {'json': 'KJson', 'memory': 'KInMemory', 'numpy': 'KNumpy', 'pandas': 'KPandas', 'generated': 'KGenerated',
          'dir': 'KDir', 'continues': 'KContinues', 'listnumpy': 'KListNumpy'}

RUNLOG = []          # (full name, key) appended by every generated run()
FAIL = set()         # slugs whose run() raises


def slug_of(c):
    name = c.get('name') or default_name(c['cname'])
    return f"{c['group']}:{name}" if c['group'] else name


def default_name(cname):
    import re
    name = re.sub(r'(?<!^)(?=[A-Z])', '_', cname).lower()
    return name[:-5] if name.endswith('_task') else name


def class_source(c, classes):
    """Python source of one generated task class."""
    # meta_base: the Meta class derives from the Meta of another generated class and inherits input_tasks and parameters
    # from it (the case spells them out for the model and the reference; the source leaves them to inheritance)
    inherits = c.get('meta_base') is not None
    # task_base: the task class derives from another generated task class (and has a Meta of its own)
    parent = classes[c['task_base']]['cname'] if c.get('task_base') is not None else 'Task'
    lines = [f"class {c['cname']}({parent}):", f"    class Meta({classes[c['meta_base']]['cname']}.Meta):" if inherits else '    class Meta:']
    if c['group']:
        lines.append(f"        task_group = {c['group']!r}")
    if c.get('name'):
        lines.append(f"        name = {c['name']!r}")
    if c.get('abstract'):
        lines.append('        abstract = True')
    elif 'abstract' in c:
        lines.append('        abstract = False')      # a Meta that says so explicitly (inherited from an abstract base, switched off)
    metas = []
    for r in c['meta_inputs']:
        metas.append(repr(r['name']) if 'name' in r else classes[r['cls']]['cname'])
    if not inherits:
        lines.append(f"        input_tasks = [{', '.join(metas)}]")
    params = []
    for d in c['params']:
        kw = [repr(d['name'])]
        if d['dtype'] != 'any':
            kw.append(f"dtype={ {'int':'int','float':'float','bool':'bool','str':'str','list':'list','dict':'dict','path':'Path'}[d['dtype']] }")
        if d['default'] is not None:
            kw.append(f"default=_mat({d['default'][0]!r})")
        if d['cfg'] != d['name']:
            kw.append(f"name_in_config={d['cfg']!r}")
        if d['ignore']:
            kw.append('ignore_persistence=True')
        if d['dropdef']:
            kw.append('dont_persist_default_value=True')
        params.append(f"Parameter({', '.join(kw)})")
    for i in c['param_inputs']:
        ref = repr(i['ref']['name']) if 'name' in i['ref'] else classes[i['ref']['cls']]['cname']
        if i['default'] is not None:
            params.append(f"InputTaskParameter({ref}, default=_mat({i['default'][0]!r}))")
        else:
            params.append(f"InputTaskParameter({ref})")
    if not inherits:
        lines.append(f"        parameters = [{', '.join(params)}]")
    ret = {'json': 'dict', 'memory': 'dict', 'dir': 'DirData', 'continues': 'ContinuesData', 'numpy': 'np.ndarray',
           'pandas': 'pd.DataFrame', 'generated': 'Generator', 'listnumpy': 'list'}.get(c['data'], 'dict')
    if c['data'] == 'memory':
        lines.append('        data_class = InMemoryData')
    if c['data'] == 'listnumpy':
        lines.append('        data_class = ListOfNumpyData')
    sig = ''.join(f', {a}' for a in c.get('runargs', []))
    lines.append(f"    def run(self{sig}) -> {ret}:")
    if c['data'] == 'dir':
        # a directory result with nested content: the provenance term in a file, and a subdirectory
        lines.append("        d = self.get_data_object()")
        lines.append(f"        v = _run(self, {c['id']})")
        lines.append("        import json as _json")
        lines.append("        (d.dir / 'value.json').write_text(_json.dumps(v, sort_keys=True, default=str))")
        lines.append("        (d.dir / 'sub' / 'deeper').mkdir(parents=True)")
        lines.append("        (d.dir / 'sub' / 'inner.txt').write_text('nested ' + self.slugname)")
        lines.append("        (d.dir / 'sub' / 'deeper' / 'leaf.txt').write_text('leaf')")
        lines.append("        return d")
    else:
        lines.append(f"        return _run(self, {c['id']})")
    return '\n'.join(lines) + '\n'


def next_run_number():
    """ordinal of a run among all runs ever started in the workspace (survives the forked 'process restarts'):
    kept in a file beside - not inside - the data directory"""
    p = Path('tcv_run_counter')
    n = (int(p.read_text()) if p.exists() else 0) + 1
    p.write_text(str(n))
    return n


def runs_started():
    """number of runs started so far in the workspace"""
    p = Path('tcv_run_counter')
    return int(p.read_text()) if p.exists() else 0


def provenance(task, cid):
    """What a generated run() returns: a JSON term naming the class, the parameters that enter the
    persistence key (by their value repr) and the values of the inputs in declaration order."""
    from taskchain.task import Task
    from . import pipeline as me
    me.RUNLOG.append((str(task.get_config().namespace), task.slugname, task.name_for_persistence))
    run_no = next_run_number()
    if task.slugname in me.FAIL:
        raise RuntimeError(f'run of {task.slugname} fails on purpose')
    ps = {}
    for name, p in sorted(task.parameters.items()):
        if p.repr is not None:
            ps[name] = p.value_repr()
    ins = []
    for name, t in task.input_tasks.items():
        if isinstance(t, Task):
            val = t.value
            if isinstance(val, Path):      # a directory result: described by what it contains
                val = {'__dir__': sorted(str(p.relative_to(val)) for p in val.rglob('*'))}
        else:
            val = {'__default__': json_safe(t)}
        ins.append([name.split('::')[-1], val])
    # access by position (self.input_tasks[i], "order is given by order in Meta") names the same inputs as access by name
    by_name = list(task.input_tasks.values())
    for idx, t in enumerate(by_name):
        try:
            same = task.input_tasks[idx] is t
        except IndexError:
            same = False
        if not same:
            ins.append(['__position__', f'input {idx} by position is not input {idx} by name'])
            break
    task.logger.info(f'token:{task.slugname}')
    task.save_to_run_info({'inputs': len(ins), 'run': run_no})
    task.save_to_run_info('second')
    res = {'i': ins, 'p': ps, 't': task.slugname}
    # parameter objects that asked to be told about the chain (ChainObject): were they?
    hooks = {name: p.value._tcv_chain is not None for name, p in sorted(task.parameters.items())
             if hasattr(p.value, '_tcv_chain')}
    if hooks:
        res['h'] = hooks
    return res


def json_safe(v):
    try:
        json.dumps(v)
        return v
    except TypeError:
        return repr(v)


def make_module(classes):
    """Create (and register) a module with the generated classes; returns its name."""
    name = f'tcv_dyn_tasks_{next(_uid)}'
    m = types.ModuleType(name)
    src = ('from pathlib import Path\n'
           'from taskchain import Task, Parameter, InMemoryData\n'
           'from taskchain.parameter import InputTaskParameter\n'
           'from taskchain.data import DirData, ContinuesData, ListOfNumpyData\n'
           'from typing import Generator\n'
           'import numpy as np\n'
           'import pandas as pd\n'
           'from tcv.values import materialize as _mat\n'
           'from tcv.pipeline import provenance as _run\n\n')
    order = sorted(classes, key=lambda c: c['id'])
    src += '\n'.join(class_source(c, classes) for c in order)
    m.__dict__['__name__'] = name
    sys.modules[name] = m
    exec(compile(src, name, 'exec'), m.__dict__)
    for c in order:
        getattr(m, c['cname']).__module__ = name
    return name


def drop_module(name):
    sys.modules.pop(name, None)


def subst_mod(doc, mod):
    """Replace the module placeholder '@M' inside import strings of a document."""
    if isinstance(doc, str):
        return doc.replace('@M', mod)
    if isinstance(doc, list):
        return [subst_mod(x, mod) for x in doc]
    if isinstance(doc, dict):
        return {k: subst_mod(v, mod) for k, v in doc.items()}
    return doc


def spec_to_doc(spec):
    """Config documents hold definitions, not live objects."""
    return definition_of(spec)


@contextlib.contextmanager
def workspace(case):
    """Temp directory with the config files of the case; cwd is switched into it."""
    d = tempfile.mkdtemp(prefix='tcverif-ws-')
    old = os.getcwd()
    from .values import _module
    _module()      # the parameter-object classes that configuration documents refer to
    mod = make_module(case['classes'])
    try:
        os.chdir(d)
        os.mkdir('data')
        for path, doc in case['files'].items():
            p = Path(path)
            p.parent.mkdir(parents=True, exist_ok=True)
            doc = subst_mod(spec_to_doc(doc), mod)
            if path.endswith('.yaml'):
                import yaml
                p.write_text(yaml.safe_dump(doc, sort_keys=False, allow_unicode=True))
            else:
                p.write_text(json.dumps(doc, ensure_ascii=False))
        yield d, mod
    finally:
        os.chdir(old)
        drop_module(mod)
        shutil.rmtree(d, ignore_errors=True)


def ctx_arg(ctx, mod):
    if ctx is None:
        return None
    if 'dict' in ctx:
        return subst_mod(spec_to_doc(ctx['dict']), mod)
    if 'file' in ctx:
        return ctx['file']
    return [ctx_arg(c, mod) for c in ctx['list']]


def gv_arg(case):
    gv = case.get('global_vars')
    if gv is None:
        return None
    if case.get('gv_mode') == 'attrs':
        return types.SimpleNamespace(**gv)
    return dict(gv)


class AttrDict(dict):
    """attribute-access mapping (the addict / munch / easydict kind) as programmatically built data holds them"""
    def __getattr__(self, name):
        if name.startswith('_') or name not in self:
            raise AttributeError(name)
        return self[name]


STRUCTURAL_KEYS = ('for_namespaces', 'uses', 'tasks', 'excluded_tasks', 'configs')


def has_definition(doc):
    if isinstance(doc, dict):
        return 'class' in doc or any(has_definition(v) for v in doc.values())
    if isinstance(doc, list):
        return any(has_definition(v) for v in doc)
    return False


def with_mapping_class(doc, kind, top=True):
    """the same document with the mappings / sequences inside parameter values built from subclasses of dict / list
    (data= and dict contexts only; definitions of objects and the structural fields stay plain)"""
    if not kind:
        return doc
    import collections
    mk = {'ordered': collections.OrderedDict, 'attr': AttrDict,
          'default': lambda items: collections.defaultdict(list, items)}[kind]
    if isinstance(doc, dict):
        if top:
            return {k: (v if k in STRUCTURAL_KEYS else with_mapping_class(v, kind, False)) for k, v in doc.items()}
        if has_definition(doc):
            return doc      # definitions of objects are looked for in plain dicts / lists only
        return mk([(k, with_mapping_class(v, kind, False)) for k, v in doc.items()])
    if isinstance(doc, list):
        return [with_mapping_class(v, kind, False) for v in doc]   # sequences stay lists (the library tests type(o) is list)
    return doc


def ctx_arg_mc(ctx, mod, kind):
    if ctx is None or not kind:
        return ctx_arg(ctx, mod)
    if 'dict' in ctx:
        # the name of a dict context is made of str() of its values, and the name is recorded in run info: only a
        # subclass that prints like a dict keeps the records those of the plain context
        kind = 'attr'
        d = subst_mod(spec_to_doc(ctx['dict']), mod)
        out = with_mapping_class(d, kind)
        if 'for_namespaces' in d:
            out['for_namespaces'] = {ns: with_mapping_class(v, kind) for ns, v in d['for_namespaces'].items()}
        return out
    if 'file' in ctx:
        return ctx['file']
    return [ctx_arg_mc(c, mod, kind) for c in ctx['list']]


def build_config(case, mod, base=None, data_dir='data'):
    from taskchain import Config
    base = base or case['base']
    kind = case.get('mapping_class')
    kw = dict(global_vars=gv_arg(case), context=ctx_arg_mc(case.get('context'), mod, kind))
    if 'file' in base:
        return Config(Path(data_dir), base['file'], **kw)
    return Config(Path(data_dir), name=base['name'],
                  data=with_mapping_class(subst_mod(spec_to_doc(base['data']), mod), kind), **kw)


def to_spec(v):
    """Python parameter value -> spec (inverse of materialize as far as observable)."""
    from taskchain.utils.data import ReprStr
    import ast
    if isinstance(v, ReprStr):
        return {'__reprstr__': [str(v), ast.literal_eval(repr(v))]}
    if isinstance(v, (str, int, float, bool)) or v is None:
        return v
    if isinstance(v, Path):
        return str(v)
    if isinstance(v, (list, tuple)):
        return [to_spec(x) for x in v]
    if isinstance(v, dict):
        return {k: to_spec(x) for k, x in v.items()}
    if type(v).__name__ == 'User':
        return {'__user__': v.text}
    if hasattr(v, '_taskchain_instantiate_def'):
        return definition_to_spec(v._taskchain_instantiate_def)
    return {'__user__': f'<unknown {type(v).__name__}>'}


def definition_to_spec(d):
    """A config definition ({'class': .., 'args': .., 'kwargs': ..}, possibly nested in lists and mappings) -> spec
    (inverse of values.definition_of)."""
    from .values import AUTO_SIGS
    if isinstance(d, (list, tuple)):
        return [definition_to_spec(x) for x in d]
    if not isinstance(d, dict):
        return to_spec(d)
    if 'class' not in d:
        return {k: definition_to_spec(x) for k, x in d.items()}
    cls = str(d['class']).split('.')[-1]
    args = [definition_to_spec(x) for x in d.get('args', [])]
    kwargs = {k: definition_to_spec(x) for k, x in d.get('kwargs', {}).items()}
    if cls in AUTO_SIGS:
        varpos = AUTO_SIGS[cls].get('varpos')
        return {'__auto__': cls, 'args': dict(kwargs, **({varpos: args} if varpos and args else {}))}
    if cls == 'User':
        return {'__user__': args[0] if args else kwargs.get('text')}
    return {'__inst__': cls, 'args': args, 'kwargs': kwargs}


def rel_path(p):
    if p is None:
        return None
    s = str(p)
    return s[len('data/'):] if s.startswith('data/') else s


def observe_chain(chain, with_paths=False):
    """Names, keys, parameter values, inputs and object identity of a constructed chain."""
    from taskchain.task import Task
    canon = {}
    for name in sorted(chain.tasks):
        canon.setdefault(id(chain.tasks[name]), name)
    out = {}
    for name, t in chain.tasks.items():
        ins = []
        for n, it in t.input_tasks.items():
            if isinstance(it, Task):
                ins.append([n, {'task': canon.get(id(it), '?')}])
            else:
                ins.append([n, {'default': to_spec(it)}])
        out[name] = dict(
            key=t.name_for_persistence,
            slug=t.slugname,
            params={p.name: to_spec(p._value) for p in t.parameters.values()},
            inputs=ins,
            canon=canon[id(t)],
            path=rel_path(t.data_path) if with_paths else None,
            objid=id(t),
            # the name of the config the task came from (in parameter mode the task holds a config of its own made from it)
            cfg=str(getattr(t.get_config(), 'original_config', t.get_config()).name),
        )
    edges = sorted({(canon[id(u)], canon[id(v)]) for u, v in chain.graph.edges})
    return dict(tasks=out, edges=[list(e) for e in edges])


# ---------- encoding for the Coq model ----------
def cref(r, by_id):
    return cinl(cstr(r['name'])) if 'name' in r else cinr(cnat(by_id[r['cls']]))


def cclass(c, by_id):
    pins = clist(['{| i_ref := %s; i_required := %s; i_default := %s |}' % (
        cref(i['ref'], by_id), cbool(i['default'] is None), cspec(i['default'][0]) if i['default'] is not None else 'VNone')
        for i in c['param_inputs']])
    return ('{| c_slug := %s; c_abstract := %s; c_params := %s; c_meta_inputs := %s; c_param_inputs := %s; '
            'c_data := %s; c_runargs := %s |}' % (
                cstr(slug_of(c)), cbool(bool(c.get('abstract'))), clist([cdecl(d) for d in c['params']]),
                clist([cref(r, by_id) for r in c['meta_inputs']]), pins, DKINDS[c['data']],
                clist([cstr(a) for a in c.get('runargs', [])])))


def cdoc(doc, mod):
    """A document (dict spec) as cfgdata; object specs are written as their definitions."""
    return clist([cpair(cstr(k), cspec_def(subst_mod(v, mod))) for k, v in doc.items()])


def cspec_def(spec):
    return cspec(no_objects(definitions_keep_auto(spec)))


def definitions_keep_auto(spec):
    """Like definition_of, but an AutoParameterObject stays a VAuto value (class and the arguments its repr() keeps, as
    values.cspec filters them): the model's `instantiate` knows plain classes and classes with a repr of their own, and
    passes such a value through, also inside lists and mappings."""
    if isinstance(spec, list):
        return [definitions_keep_auto(x) for x in spec]
    if isinstance(spec, dict):
        if '__auto__' in spec:
            return {'__auto__': spec['__auto__'], 'args': {k: definitions_keep_auto(v) for k, v in spec['args'].items()}}
        if any(k in spec for k in ('__inst__', '__user__', '__reprstr__')):
            return definition_of(spec)
        return {k: definitions_keep_auto(v) for k, v in spec.items()}
    return spec


def no_objects(x):
    return x


def cctx(ctx, mod):
    if 'dict' in ctx:
        return f'(CxDict {cdoc(ctx["dict"], mod)})'
    if 'file' in ctx:
        return f'(CxFile {cstr(ctx["file"])})'
    return '(CxList ' + clist([cctx(c, mod) for c in ctx['list']]) + ')'


def import_table(case, mod):
    order = sorted(case['classes'], key=lambda c: c['id'])
    by_id = {c['id']: i for i, c in enumerate(order)}
    tab = [cpair(cstr(f'{mod}.{c["cname"]}'), clist([cnat(by_id[c['id']])])) for c in order]
    tab.append(cpair(cstr(f'{mod}.*'), clist([cnat(by_id[c['id']]) for c in order])))
    return order, by_id, clist(tab)


def cgv(case):
    gv = case.get('global_vars')
    if gv is None:
        return 'None'
    return '(Some ' + clist([cpair(cstr(k), cstr(str(v))) for k, v in gv.items()]) + ')'


def cbase(base, mod):
    if 'file' in base:
        return cinl(cstr(base['file']))
    return cinr(cpair(cstr(base['name']), cdoc(base['data'], mod)))


def cworld(case, mod):
    """(files, classes, imports, user_classes, gv, ctx source) shared by all chain-level models."""
    order, by_id, imports = import_table(case, mod)
    files = clist([cpair(cstr(p), '(VDict ' + cdoc(doc, mod) + ')') for p, doc in case['files'].items()])
    classes = clist([cclass(c, by_id) for c in order])
    ctx = 'None' if case.get('context') is None else f'(Some {cctx(case["context"], mod)})'
    return cpair(files, classes, imports, clist([cstr('tcv_dyn_objects.User')]), cgv(case), ctx)


# ---------- histories ----------
def sort_keys(v):
    if isinstance(v, dict):
        return {k: sort_keys(v[k]) for k in sorted(v)}
    if isinstance(v, list):
        return [sort_keys(x) for x in v]
    return v


def list_store(root='data'):
    out = []
    base = Path(root)
    for p in sorted(base.rglob('*'), key=lambda q: str(q.relative_to(base))):
        rel = str(p.relative_to(base))
        out.append(rel + '/' if p.is_dir() and not p.is_symlink() else rel)
    return out


def exec_segment(case, mod, ops, fail):
    """Execute the operations of one process lifetime; returns one observation per op."""
    from taskchain import MultiChain
    from . import pipeline as me
    me.FAIL.clear()
    me.FAIL.update(fail)
    chains, obs, multis = [], [], []
    for op in ops:
        before = len(me.RUNLOG)
        resolved = dict(op)
        try:
            kind = op['op']
            if kind == 'build':
                try:
                    chain = build_config(case, mod, base=op['base']).chain()
                    chains.append(chain)
                    out = ['ok', {'chain': observe_chain(chain)}]
                except Exception as e:
                    chains.append(None)
                    out = 'error'
                    resolved['err'] = f'{type(e).__name__}: {e}'[:200]
            elif kind == 'multi':
                try:
                    mc = MultiChain([build_config(case, mod, base=b) for b in op['bases']])
                    members = list(mc.chains.values())
                    multis.append((mc, list(range(len(chains), len(chains) + len(members)))))
                    chains.extend(members)
                    out = ['ok', {'chains': [observe_chain(c) for c in members]}]
                except Exception as e:
                    multis.append((None, list(range(len(chains), len(chains) + len(op['bases'])))))
                    chains.extend([None] * len(op['bases']))
                    out = 'error'
                    resolved['err'] = f'{type(e).__name__}: {e}'[:200]
            elif kind == 'force_multi':
                mc, idxs = multis[op['multi'] % len(multis)] if multis else (None, [])
                resolved['chains'] = idxs
                first = chains[idxs[0]] if idxs else None
                if mc is None or first is None or not first.tasks:
                    resolved['names'] = []
                    resolved['chains'] = []
                    out = ['ok', None]
                else:
                    names = list(first.tasks)
                    resolved['names'] = list(dict.fromkeys(names[k % len(names)] for k in op['picks']))
                    try:
                        mc.force(resolved['names'], recompute=op['recompute'], delete_data=op['delete'])
                        out = ['ok', None]
                    except ValueError:
                        out = 'error'
            elif kind == 'fail':
                me.FAIL.clear()
                me.FAIL.update(op['slugs'])
                out = ['ok', None]
            else:
                chain = chains[op['chain']] if op['chain'] < len(chains) else None
                if chain is None and kind in ('force_chain', 'flags'):
                    # the slot of a failed construction behaves as an empty chain (harness convention)
                    resolved['names'] = []
                    out = ['ok', {'flags': []}] if kind == 'flags' else ['ok', None]
                elif chain is not None and kind == 'flags':
                    out = ['ok', {'flags': [[n, bool(t.is_forced), bool(t.has_data)] for n, t in chain.tasks.items()]}]
                elif chain is None or (not chain.tasks and kind != 'force_chain'):
                    resolved['name'] = '?'
                    resolved['names'] = []
                    out = 'error'
                elif not chain.tasks:
                    resolved['names'] = []
                    chain.force([], recompute=op['recompute'], delete_data=op['delete'])
                    out = ['ok', None]
                else:
                    names = list(chain.tasks)
                    if 'pick' in op:
                        resolved['name'] = names[op['pick'] % len(names)]
                    if 'picks' in op:
                        resolved['names'] = list(dict.fromkeys(names[k % len(names)] for k in op['picks']))
                    if kind == 'value':
                        try:
                            out = ['ok', {'value': chain.tasks[resolved['name']].value}]
                        except RuntimeError as e:
                            out = 'error'
                    elif kind == 'force_task':
                        chain.tasks[resolved['name']].force(delete_data=op['delete'])
                        out = ['ok', None]
                    elif kind == 'reset':
                        chain.tasks[resolved['name']].reset_data()
                        out = ['ok', None]
                    elif kind == 'force_chain':
                        chain.force(resolved['names'], recompute=op['recompute'], delete_data=op['delete'])
                        out = ['ok', None]
                    elif kind == 'records':
                        t = chain.tasks[resolved['name']]
                        ri, lg = t.run_info, t.log
                        if ri is not None:
                            ri = {'config': ri.get('config'), 'input_tasks': ri.get('input_tasks', {}), 'log': ri.get('log'),
                                  'parameters': ri.get('parameters'), 'task': ri.get('task', {}).get('name')}
                        out = ['ok', {'records': [sort_keys(ri), None if lg is None else [l for l in lg if l.startswith('token:')]],
                                      'raw_log': lg}]
                    elif kind == 'flags':
                        out = ['ok', {'flags': [[n, bool(t.is_forced), bool(t.has_data)] for n, t in chain.tasks.items()]}]
                    elif kind == 'has_data':
                        out = ['ok', {'bool': bool(chain.tasks[resolved['name']].has_data)}]
                    else:
                        raise ValueError(kind)
        except Exception as e:   # anything else is an observation too
            out = {'unexpected_exception': type(e).__name__, 'text': str(e)[:300]}
        runs = [f'{s}#{k}' for _, s, k in me.RUNLOG[before:]]
        if op['op'] in ('force_chain', 'force_multi'):
            runs = sorted(runs)
        obs.append(dict(out=out, runs=runs, files=list_store(), op=resolved))
    return obs, sorted(me.FAIL)


def run_history(case):
    """Run the history of a case; every 'restart' starts a new (forked) process on the same data dir."""
    segments, cur = [], []
    for op in case['ops']:
        if op['op'] == 'restart':
            segments.append(cur)
            cur = []
        else:
            cur.append(op)
    segments.append(cur)
    all_obs, fail = [], []
    with workspace(case) as (d, mod):
        for si, seg in enumerate(segments):
            r, w = os.pipe()
            pid = os.fork()
            if pid == 0:
                code = 0
                try:
                    os.close(r)
                    res = exec_segment(case, mod, seg, fail)
                    with os.fdopen(w, 'w') as f:
                        json.dump(res, f, default=repr)
                except BaseException as e:  # noqa
                    try:
                        os.write(w, json.dumps({'child_error': repr(e)}).encode())
                    except Exception:
                        pass
                    code = 1
                finally:
                    os._exit(code)
            os.close(w)
            with os.fdopen(r) as f:
                data = f.read()
            os.waitpid(pid, 0)
            res = json.loads(data) if data else {'child_error': 'no output'}
            if isinstance(res, dict):
                all_obs.append(dict(out={'unexpected_exception': 'child', 'text': res['child_error']}, runs=[], files=[],
                                    op={'op': 'crash'}))
                break
            obs, fail = res
            all_obs.extend(obs)
            if si < len(segments) - 1:
                all_obs.append(dict(out=['ok', None], runs=[], files=list_store(), op={'op': 'restart'}))
    return all_obs
