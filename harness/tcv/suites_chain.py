"""Chain-construction suite shared by C08 / C09 / C13 / C01 / C02 / C03 / C12."""
from .core import Suite
from .coqlit import clist, cpair, cstr
from . import pipeline as pl
from .values import cspec

CONSTRUCTION_ERRORS = (ValueError, KeyError, RecursionError, FileNotFoundError, AssertionError, ImportError,
                       AttributeError, TypeError)


def P(name, **k):
    return dict(dict(name=name, cfg=name, default=None, ignore=False, dropdef=False, dtype='any'), **k)


def K(i, cname, group='', params=(), meta_inputs=(), param_inputs=(), data='json', **k):
    return dict(dict(id=i, cname=cname, group=group, params=list(params), meta_inputs=list(meta_inputs),
                     param_inputs=list(param_inputs), data=data), **k)


def cobs(obs):
    """The observation of a chain as the `value` the model renders."""
    if 'error' in obs:
        return '(VStr (lit "error"))'
    if 'tasks' not in obs:
        return '(VStr (lit "unexpected"))'
    items = []
    for name, t in obs['tasks'].items():
        ins = []
        for n, tgt in t['inputs']:
            if 'task' in tgt:
                ins.append(f'(VList [VStr {cstr(n)}; VStr {cstr(tgt["task"])}])')
            else:
                ins.append(f'(VList [VStr {cstr(n)}; VList [{cspec(tgt["default"])}]])')
        items.append('(VDict ' + clist([
            cpair(cstr('name'), f'(VStr {cstr(name)})'),
            cpair(cstr('key'), f'(VStr {cstr(t["key"])})'),
            cpair(cstr('params'), '(VDict ' + clist([cpair(cstr(k), cspec(v)) for k, v in t['params'].items()]) + ')'),
            cpair(cstr('inputs'), '(VList ' + clist(ins) + ')'),
            cpair(cstr('canon'), f'(VStr {cstr(t["canon"])})'),
        ]) + ')')
    return '(VList ' + clist(items) + ')'


def chain_oracle(case, obs, aspects):
    """Compare an observed chain with the component-wise reference of gen_pipeline.ref_chain."""
    from .gen_pipeline import ref_chain, Unsure
    from .values import canon_spec
    if 'unexpected_exception' in obs:
        return f'unexpected exception {obs["unexpected_exception"]}: {obs["text"]}'
    try:
        exp = ref_chain(case)
    except Unsure:
        return None
    except (KeyError, IndexError, ValueError, AttributeError, TypeError):
        return None      # malformed tree (missing file/part): outside what the reference describes
    if isinstance(exp, tuple):
        reason = exp[1]
        aspect = ('conflict' if reason.startswith('conflict') else
                  'params' if 'parameter' in reason else 'edges')
        if 'error' not in obs and aspect in aspects:
            return f'chain construction succeeded although the configuration is invalid: {reason}'
        return None
    if 'error' in obs:
        if 'RecursionError' == obs['error']:
            return 'construction ran into unbounded recursion on an acyclic configuration' if 'edges' in aspects else None
        return (f'chain construction failed ({obs["error"]}: {obs.get("text", "")}) on a valid configuration'
                if ('tasks' in aspects or 'edges' in aspects) else None)
    got = obs['tasks']
    if 'tasks' in aspects and set(got) != set(exp):
        return f'tasks {sorted(got)} differ from the declared ones {sorted(exp)}'
    if 'keys' in aspects and set(got) != set(exp):
        # the name of a task is the directory of its results and part of the key text of its dependants
        return f'the tasks are named {sorted(got)}; by the naming rule of the pinned release they are {sorted(exp)}'
    if 'params' in aspects and set(got) != set(exp):
        # `uses ... as ns` mounts a config under the namespace written there, composed with the namespaces around it
        return f'the tasks are mounted as {sorted(got)}; the configuration mounts them as {sorted(exp)}'
    if set(got) != set(exp):
        return None
    by_id = {c['id']: c for c in case['classes']}
    shared = {}
    for n, t in got.items():
        shared[t['canon']] = shared.get(t['canon'], 0) + 1
    if 'keys' in aspects:
        from .gen_pipeline import ref_keys
        from . import oracle_frozen as fz
        keys = ref_keys(exp)
        for n, e in exp.items():
            if got[n]['key'] != keys[n]:
                return f'task {n}: key {got[n]["key"]} differs from the frozen 1.4.0 scheme {keys[n]}'
            if e['data'] != 'memory' and got[n]['path'] != fz.location(e['slug'], keys[n], e['data']):
                return f'task {n}: location {got[n]["path"]} differs from the frozen layout {fz.location(e["slug"], keys[n], e["data"])}'
    for n, e in exp.items():
        g = got[n]
        if 'params' in aspects:
            for pd in by_id[e['cls']]['params']:
                if shared[g['canon']] > 1 and (pd['ignore'] or pd['dropdef']):
                    continue
                want, have = e['params'][pd['name']], g['params'].get(pd['name'])
                if canon_spec(want) != canon_spec(have):
                    return f'task {n}: parameter {pd["name"]} is {have!r}, declared precedence gives {want!r}'
        if 'edges' in aspects:
            have = {k: (v if 'default' in v else {'task': v['task']}) for k, v in g['inputs']}
            want = e['inputs']
            if shared[g['canon']] > 1:
                continue   # inputs of a shared object are those of one of its names; identity is checked by C13
            if set(have) != set(want):
                return f'task {n}: inputs {sorted(have)} differ from the declared ones {sorted(want)}'
            for k in want:
                if 'task' in want[k]:
                    tgt = have[k].get('task')
                    if tgt is None or got[want[k]['task']]['canon'] != tgt:
                        return f'task {n}: input {k} is bound to {have[k]}, declared: {want[k]}'
                elif canon_spec(have[k].get('default')) != canon_spec(want[k]['default']):
                    return f'task {n}: absent optional input {k} is bound to {have[k]}, declared default {want[k]}'
    if 'edges' in aspects and 'edges' in obs:
        declared = sorted({(v['task'], got[n]['canon']) for n in got for k, v in got[n]['inputs'] if 'task' in v})
        graph = sorted(tuple(e) for e in obs['edges'])
        if declared != graph:
            return (f'the dependency graph has edges {graph}, the inputs of the tasks are {declared} '
                    f'(missing: {sorted(set(declared) - set(graph))}, extra: {sorted(set(graph) - set(declared))})')
    return None


class ChainBuild(Suite):
    name = 'chain_build'
    imports = 'Value Dict Repr Param Config Key Chain World'
    shard = 12
    in_type = '(world * (str + (str * cfgdata)))'
    out_type = 'value'
    eqb = 'value_eqb'
    model = '(fun c : world * (str + (str * cfgdata)) => render_build (build sha_key (fst c) (snd c) [] []))'

    def corpus(self):
        abc = K(0, 'Abc', params=[P('x'), P('y', default=[5])])
        dfg = K(1, 'Dfg', group='g', meta_inputs=[{'cls': 0}], params=[P('z', default=[0], dropdef=True)])
        multi = {'configs': {
            'c1': {'tasks': ['@M.Abc'], 'x': 1, 'y': 1},
            'c2': {'tasks': ['@M.Abc', '@M.Dfg'], 'x': 2, 'y': 2},
            'c': {'main_part': True, 'uses': ['#c1 as ns', '#c2 as ns2'], 'z': 2}}}
        ctx = {'dict': {'for_namespaces': {'ns': {'x': 11}, 'ns2': {'x': 21}, 'nsX': {'x': 77}}, 'x': 666, 'y': 33}}
        one = {'tasks': ['@M.*'], 'x': 1}
        return [
            dict(classes=[abc, dfg], files={'config.json': multi}, base={'file': 'config.json'}, context=ctx),
            # F1: one file mounted under two namespaces with per-namespace context values
            dict(classes=[abc, dfg], files={'one.json': one, 'main.yaml': {'uses': ['one.json as ns', 'one.json as ns2']}},
                 base={'file': 'main.yaml'}, context={'dict': {'for_namespaces': {'ns': {'x': 10}, 'ns2': {'x': 20}}}}),
            # F3: two configs declare the same task in the same namespace
            dict(classes=[abc], files={'a.json': {'tasks': ['@M.Abc'], 'x': 1}, 'b.json': {'tasks': ['@M.Abc'], 'x': 2}},
                 base={'name': 'main', 'data': {'uses': ['a.json', 'b.json']}}, context=None),
            # F2: namespace that is a textual prefix of the referenced task name
            dict(classes=[K(0, 'TrainX'), K(1, 'User', meta_inputs=[{'cls': 0}])],
                 files={'t.json': {'tasks': ['@M.*']}}, base={'name': 'main', 'data': {'uses': 't.json as train'}},
                 context=None),
            # an input that exists only inside a namespace is not visible from the root (and not from a sibling)
            dict(classes=[K(0, 'Features'), K(1, 'User', meta_inputs=[{'name': 'features'}])],
                 files={'t.json': {'tasks': ['@M.Features']}},
                 base={'name': 'main', 'data': {'tasks': ['@M.User'], 'uses': 't.json as ns'}}, context=None),
            dict(classes=[K(0, 'Features'), K(1, 'User', meta_inputs=[{'name': 'features'}])],
                 files={'t.json': {'tasks': ['@M.Features']}, 'u.json': {'tasks': ['@M.User']}},
                 base={'name': 'main', 'data': {'uses': ['t.json as pretrain', 'u.json as train']}}, context=None),
            # an optional input whose short name matches several tasks is an ambiguity, not an absent input
            dict(classes=[dict(K(0, 'Xa', group='x'), name='a'), dict(K(1, 'Ya', group='y'), name='a'),
                          dict(K(2, 'Dep', param_inputs=[dict(ref={'name': 'a'}, default=[99])]), name='dep')],
                 files={}, base={'name': 'm', 'data': {'tasks': ['@M.*']}}, context=None),
            dict(classes=[dict(K(0, 'Xa', group='x'), name='a'),
                          dict(K(2, 'Dep', param_inputs=[dict(ref={'name': 'b'}, default=[99])]), name='dep')],
                 files={}, base={'name': 'm', 'data': {'tasks': ['@M.*']}}, context=None),
            # a dependant that lists a more nested and a less nested reference, in both orders: `a` is the task a
            dict(classes=[dict(K(0, 'Ga', group='g'), name='a'), dict(K(1, 'Pa'), name='a'),
                          dict(K(2, 'Dep', meta_inputs=[{'name': 'g:a'}, {'name': 'a'}]), name='dep')],
                 files={}, base={'name': 'm', 'data': {'tasks': ['@M.*']}}, context=None),
            dict(classes=[dict(K(0, 'Ga', group='g'), name='a'), dict(K(1, 'Pa'), name='a'),
                          dict(K(2, 'Dep', meta_inputs=[{'name': 'a'}, {'name': 'g:a'}]), name='dep')],
                 files={}, base={'name': 'm', 'data': {'tasks': ['@M.*']}}, context=None),
            dict(classes=[dict(K(0, 'Ga', group='g'), name='a'), dict(K(1, 'Pa'), name='a'),
                          dict(K(2, 'Dep', meta_inputs=[{'name': 'g:a'}, {'name': 'a'}]), name='dep')],
                 files={'p.json': {'tasks': ['@M.*']}}, base={'name': 'm', 'data': {'uses': 'p.json as n'}}, context=None),
            # names: an explicit Meta.name is used verbatim (also when it ends in _task), a class name loses the suffix
            dict(classes=[dict(K(0, 'Prep'), name='prepare_task'), K(1, 'CleanTask'), dict(K(2, 'Other', group='g'), name='_task'),
                          dict(K(3, 'Dep', meta_inputs=[{'cls': 0}, {'cls': 1}, {'cls': 2}]), name='dep')],
                 files={}, base={'name': 'm', 'data': {'tasks': ['@M.*']}}, context=None),
            # per-namespace context entries reach the namespace they name, not namespaces that begin with its text
            dict(classes=[dict(K(0, 'Abc', params=[P('x'), P('y', default=[5])]), name='abc')],
                 files={'first.json': {'tasks': ['@M.*'], 'x': 1}, 'second.json': {'tasks': ['@M.*'], 'x': 2, 'y': 7}},
                 base={'name': 'm', 'data': {'uses': ['first.json as ns', 'second.json as ns2']}},
                 context={'dict': {'for_namespaces': {'ns': {'y': 99}}}}),
            dict(classes=[dict(K(0, 'Abc', params=[P('x'), P('y', default=[5])]), name='abc')],
                 files={'inner.json': {'tasks': ['@M.*'], 'x': 2, 'y': 7}, 'first.json': {'tasks': ['@M.*'], 'x': 1, 'uses': 'inner.json as deep'}},
                 base={'name': 'm', 'data': {'uses': ['first.json as ns']}},
                 context={'dict': {'for_namespaces': {'ns': {'y': 99}, 'n': {'y': 98}}}}),
            # two parameters whose config keys sort the other way round than their names
            dict(classes=[dict(K(0, 'Abc', params=[P('alpha', cfg='z_alpha'), P('beta'), P('gamma', cfg='a_gamma')]), name='abc'),
                          dict(K(1, 'Dep', meta_inputs=[{'cls': 0}]), name='dep')],
                 files={}, base={'name': 'm', 'data': {'tasks': ['@M.*'], 'z_alpha': 1, 'beta': 2, 'a_gamma': 3}}, context=None),
            # a parameter with a default that the config sets explicitly to None
            dict(classes=[dict(K(0, 'Abc', params=[P('x'), P('y', default=[5])]), name='abc'),
                          dict(K(1, 'Dep', meta_inputs=[{'cls': 0}]), name='dep')],
                 files={}, base={'name': 'm', 'data': {'tasks': ['@M.*'], 'x': 1, 'y': None}}, context=None),
            # a context mounted under a namespace that itself uses another context without `as`: the used one inherits
            # the namespace
            dict(classes=[dict(K(0, 'Abc', params=[P('x', default=[0]), P('y', default=[0])]), name='abc')],
                 files={'first.json': {'tasks': ['@M.*']}, 'second.json': {'tasks': ['@M.*'], 'x': 2},
                        'ctx/top.json': {'uses': 'ctx/a.json as ns'}, 'ctx/a.json': {'x': 9, 'uses': 'ctx/b.json'},
                        'ctx/b.json': {'y': 9}},
                 base={'name': 'm', 'data': {'tasks': ['@M.*'], 'uses': ['first.json as ns', 'second.json as ns2']}},
                 context={'file': 'ctx/top.json'}, hist=True),
            # a Meta that carries `abstract = False`: the task is declared, not abstract
            dict(classes=[dict(K(0, 'Base', abstract=True), name='base'), dict(K(1, 'Concrete', abstract=False), name='concrete'),
                          dict(K(2, 'Dep', meta_inputs=[{'cls': 1}]), name='dep')],
                 files={}, base={'name': 'm', 'data': {'tasks': ['@M.*']}}, context=None),
            # a dependant inside a namespace names an input of a nested namespace by its full name
            dict(classes=[dict(K(0, 'A'), name='a'), dict(K(1, 'Dep', meta_inputs=[{'name': 'n::m::a'}]), name='dep')],
                 files={'inner.json': {'tasks': ['@M.A']}, 'outer.json': {'tasks': ['@M.Dep'], 'uses': 'inner.json as m'}},
                 base={'name': 'top', 'data': {'uses': 'outer.json as n'}}, context=None),
            # one part of a multi-config file mounted under two namespaces, a per-namespace context entry for one of them
            dict(classes=[dict(K(0, 'Scale', params=[P('factor'), P('nested')]), name='scale')],
                 files={'multi.json': {'configs': {'main': {'uses': ['#model as a', '#model as b'], 'main_part': True},
                                                   'model': {'tasks': ['@M.*'], 'factor': 1, 'nested': {'k': [1]}}}}},
                 base={'file': 'multi.json'}, context={'dict': {'for_namespaces': {'a': {'factor': 5, 'nested': {'k': [9]}}}}}),
            # two different parts of one multi-config file under the same namespace; a mounted part that uses a sibling part
            dict(classes=[dict(K(0, 'X1', params=[P('v')]), name='x1'), dict(K(1, 'X2', params=[P('v')]), name='x2')],
                 files={'multi.json': {'configs': {'main': {'uses': ['#left as shared', '#right as shared'], 'main_part': True},
                                                   'left': {'tasks': ['@M.X1'], 'v': 1}, 'right': {'tasks': ['@M.X2'], 'v': 2}}}},
                 base={'file': 'multi.json'}, context=None),
            dict(classes=[dict(K(0, 'A', params=[P('v')]), name='a'), dict(K(1, 'Dep', meta_inputs=[{'cls': 0}]), name='dep')],
                 files={'multi.json': {'configs': {'main': {'uses': ['#model as m'], 'main_part': True},
                                                   'model': {'tasks': ['@M.Dep'], 'uses': '#data'}, 'data': {'tasks': ['@M.A'], 'v': 3}}}},
                 base={'file': 'multi.json'}, context=None),
            # values that compare equal to the default of the parameter without being it (1.0 and True for 1, False for 0)
            *[dict(classes=[dict(K(0, 'Abc', params=[P('x'), P('y', default=[dflt])]), name='abc'),
                            dict(K(1, 'Dep', meta_inputs=[{'cls': 0}]), name='dep')],
                   files={}, base={'name': 'm', 'data': dict({'tasks': ['@M.*'], 'x': 1}, **({} if where == 'ctx' else {'y': val}))},
                   context=({'dict': {'y': val}} if where == 'ctx' else None))
              for dflt, val in ((1, 1.0), (1, True), (0, False), (0, 0.0), (1.0, 1)) for where in ('cfg', 'ctx')],
            # the main config excludes a class that a mounted config declares; its consumers there reach it through an
            # optional input and through a pattern
            dict(classes=[dict(K(0, 'T'), name='t'), dict(K(1, 'Consumer', param_inputs=[dict(ref={'name': 't'}, default=[99])]), name='consumer'),
                          dict(K(2, 'Coll', meta_inputs=[{'name': '~t.*'}]), name='coll')],
                 files={'variant.json': {'tasks': ['@M.*']}},
                 base={'name': 'main', 'data': {'tasks': ['@M.*'], 'excluded_tasks': ['@M.T'], 'uses': 'variant.json as v'}},
                 context=None, hist=True),
            # the same pattern input in two namespaces whose matching tasks differ
            dict(classes=[dict(K(0, 'X1'), name='x1'), dict(K(1, 'X2'), name='x2'), dict(K(2, 'X3'), name='x3'),
                          dict(K(3, 'Collect', meta_inputs=[{'name': '~x.*'}]), name='collect')],
                 files={'more.json': {'tasks': ['@M.*']}},
                 base={'name': 'm', 'data': {'tasks': ['@M.X1', '@M.X2', '@M.Collect'], 'uses': 'more.json as a'}}, context=None),
            dict(classes=[dict(K(0, 'X1'), name='x1'), dict(K(1, 'X2'), name='x2'), dict(K(2, 'X3'), name='x3'),
                          dict(K(3, 'Collect', meta_inputs=[{'name': '~x.*'}]), name='collect')],
                 files={'less.json': {'tasks': ['@M.X1', '@M.Collect']}},
                 base={'name': 'm', 'data': {'tasks': ['@M.*'], 'uses': 'less.json as a'}}, context=None),
            # an import string names exactly one class, also when another class of the module has that name as a prefix
            dict(classes=[K(0, 'Ab'), K(1, 'A'), K(2, 'Abc')], files={}, base={'name': 'm', 'data': {'tasks': ['@M.A']}}, context=None),
            dict(classes=[K(0, 'Ab'), K(1, 'A'), K(2, 'Abc')], files={},
                 base={'name': 'm', 'data': {'tasks': ['@M.*'], 'excluded_tasks': ['@M.A']}}, context=None),
            # a pattern input matches whole names only: ~x takes x, not xn (the model knows literal names and `prefix.*`)
            dict(classes=[dict(K(0, 'X'), name='x'), dict(K(1, 'Xn'), name='xn'), dict(K(2, 'Xnn'), name='xnn'),
                          dict(K(4, 'Merge', meta_inputs=[{'name': '~x'}, {'name': '~~xn'}]), name='merge')],
                 files={}, base={'name': 'm', 'data': {'tasks': ['@M.*']}}, context=None),
            # a declared shortcut beside a longer path: raw -> clean -> report and raw -> report are both edges
            dict(classes=[dict(K(0, 'Raw'), name='raw'), dict(K(1, 'Clean', meta_inputs=[{'cls': 0}]), name='clean'),
                          dict(K(2, 'Report', meta_inputs=[{'cls': 1}, {'cls': 0}]), name='report')],
                 files={}, base={'name': 'm', 'data': {'tasks': ['@M.*']}}, context=None),
            # per-namespace context entries of several contexts are merged key by key
            dict(classes=[K(0, 'Abc', params=[P('x'), P('y', default=[5])])],
                 files={'one.json': {'tasks': ['@M.Abc'], 'x': 1, 'y': 2}}, base={'name': 'main', 'data': {'uses': 'one.json as ns'}},
                 context={'list': [{'dict': {'for_namespaces': {'ns': {'x': 11}}}}, {'dict': {'for_namespaces': {'ns': {'y': 12}}}}]}),
            # two different config files with one file name, declaring the same task in the same namespace: a conflict
            dict(classes=[K(0, 'Abc', params=[P('x')])],
                 files={'run_a/model.json': {'tasks': ['@M.Abc'], 'x': 1}, 'run_b/model.json': {'tasks': ['@M.Abc'], 'x': 2}},
                 base={'name': 'main', 'data': {'uses': ['run_a/model.json', 'run_b/model.json']}}, context=None),
            dict(classes=[K(0, 'Abc', params=[P('x')])],
                 files={'run_a/model.json': {'tasks': ['@M.Abc'], 'x': 1}, 'run_b/model.json': {'tasks': ['@M.Abc'], 'x': 2}},
                 base={'name': 'main', 'data': {'uses': ['run_b/model.json as ns', 'run_a/model.json as ns']}}, context=None),
            # two config files with one file name in different directories, declaring different tasks, without a namespace,
            # under one namespace, and reached through another config
            dict(classes=[dict(K(0, 'A', params=[P('x')]), name='part_a'), dict(K(1, 'B', params=[P('x')]), name='part_b'),
                          dict(K(2, 'Dep', meta_inputs=[{'cls': 0}, {'cls': 1}]), name='dep'),
                          dict(K(3, 'Coll', meta_inputs=[{'name': '~part_.*'}]), name='coll')],
                 files={'images/config.json': {'tasks': ['@M.A'], 'x': 1}, 'texts/config.json': {'tasks': ['@M.B'], 'x': 2}},
                 base={'name': 'main', 'data': {'tasks': ['@M.Dep', '@M.Coll'], 'uses': ['images/config.json', 'texts/config.json']}}, context=None),
            dict(classes=[dict(K(0, 'A', params=[P('x')]), name='part_a'), dict(K(1, 'B', params=[P('x')]), name='part_b'),
                          dict(K(2, 'Coll', meta_inputs=[{'name': '~part_.*'}]), name='coll')],
                 files={'images/config.json': {'tasks': ['@M.A'], 'x': 1}, 'texts/config.json': {'tasks': ['@M.B', '@M.Coll'], 'x': 2},
                        'both.json': {'uses': ['texts/config.json', 'images/config.json']}},
                 base={'name': 'main', 'data': {'uses': ['both.json as ns']}}, context=None),
            # a task whose Meta derives from the Meta of its base task and inherits the inputs and parameters from it
            dict(classes=[dict(K(0, 'Src', params=[P('x')]), name='src'),
                          dict(K(1, 'Base', meta_inputs=[{'cls': 0}], params=[P('y', default=[1])]), name='base'),
                          dict(K(2, 'Derived', meta_inputs=[{'cls': 0}], params=[P('y', default=[1])]), name='derived', meta_base=1),
                          dict(K(3, 'Top', meta_inputs=[{'cls': 2}]), name='top')],
                 files={}, base={'name': 'm', 'data': {'tasks': ['@M.*'], 'x': 1, 'y': 2}}, context=None, hist=True),
            # the same with an inherited required input that is not declared anywhere: construction fails
            # the same without explicit names (the name of a task then comes from its class, not from its Meta)
            dict(classes=[K(0, 'Src', params=[P('x')]), K(1, 'Other', params=[P('x')]), K(2, 'Base', meta_inputs=[{'cls': 0}], params=[P('y', default=[1])]),
                          dict(K(3, 'Derived', meta_inputs=[{'cls': 1}], params=[P('y', default=[3])]), task_base=2),
                          K(4, 'Top', meta_inputs=[{'cls': 3}])],
                 files={'p.json': {'tasks': ['@M.Src', '@M.Other', '@M.Base', '@M.Derived', '@M.Top'], 'x': 2}},
                 base={'name': 'm', 'data': {'tasks': ['@M.Src', '@M.Other', '@M.Base', '@M.Derived', '@M.Top'], 'x': 1, 'uses': 'p.json as n'}},
                 context=None, hist=True, records=True),
            dict(classes=[dict(K(0, 'Src', params=[P('x')]), name='src'),
                          dict(K(1, 'Base', meta_inputs=[{'cls': 0}], abstract=True), name='base'),
                          dict(K(2, 'Derived', meta_inputs=[{'cls': 0}], abstract=False), name='derived', meta_base=1)],
                 files={}, base={'name': 'm', 'data': {'tasks': ['@M.Derived'], 'x': 1}}, context=None),
            # a short form that also matches the dependant itself: `dataset` listed by clean:dataset while raw:dataset exists
            # is ambiguous - as a required input, as an optional one, inside a namespace, in both declaration orders
            dict(classes=[dict(K(0, 'RawDs', group='raw'), name='dataset'),
                          dict(K(1, 'CleanDs', group='clean', meta_inputs=[{'name': 'dataset'}]), name='dataset')],
                 files={}, base={'name': 'm', 'data': {'tasks': ['@M.*']}}, context=None),
            dict(classes=[dict(K(0, 'CleanDs', group='clean', param_inputs=[dict(ref={'name': 'dataset'}, default=[99])]), name='dataset'),
                          dict(K(1, 'RawDs', group='raw'), name='dataset')],
                 files={}, base={'name': 'm', 'data': {'tasks': ['@M.*']}}, context=None),
            dict(classes=[dict(K(0, 'RawDs', group='raw'), name='dataset'),
                          dict(K(1, 'CleanDs', group='clean', meta_inputs=[{'name': 'dataset'}]), name='dataset')],
                 files={'p.json': {'tasks': ['@M.*']}}, base={'name': 'm', 'data': {'uses': 'p.json as n'}}, context=None),
            # the unambiguous spellings of the same wiring
            dict(classes=[dict(K(0, 'RawDs', group='raw'), name='dataset'),
                          dict(K(1, 'CleanDs', group='clean', meta_inputs=[{'name': 'raw:dataset'}]), name='dataset'),
                          dict(K(2, 'Top', meta_inputs=[{'name': 'clean:dataset'}]), name='top')],
                 files={}, base={'name': 'm', 'data': {'tasks': ['@M.*']}}, context=None),
            # inputs whose full names are prefixes of one another, the longer one going on with a character below `=`
            # (a digit, `:`, `-` is not a name character): the inputs part of the key text is sorted by name
            dict(classes=[dict(K(0, 'M1', params=[P('x')]), name='model'), dict(K(1, 'M2', params=[P('x')]), name='model2'),
                          dict(K(2, 'M3', group='model', params=[P('x')]), name='sub'), dict(K(3, 'M4', params=[P('x')]), name='model_b'),
                          dict(K(4, 'Dep', meta_inputs=[{'cls': 1}, {'cls': 3}, {'cls': 2}, {'cls': 0}]), name='dep'),
                          dict(K(5, 'Top', meta_inputs=[{'cls': 4}]), name='top')],
                 files={}, base={'name': 'm', 'data': {'tasks': ['@M.*'], 'x': 1}}, context=None),
            dict(classes=[dict(K(0, 'M1', params=[P('x')]), name='x'), dict(K(1, 'M2', params=[P('x')]), name='x1'),
                          dict(K(2, 'Dep', meta_inputs=[{'name': 'n::x1'}, {'name': 'n::x'}, {'name': 'n2::x'}]), name='dep')],
                 files={'p.json': {'tasks': ['@M.M1', '@M.M2'], 'x': 2}},
                 base={'name': 'm', 'data': {'tasks': ['@M.Dep'], 'uses': ['p.json as n', 'p.json as n2']}}, context=None),
            # an absent optional input declared before inputs that are present: positions and names stay in step
            dict(classes=[dict(K(0, 'A', params=[P('x')]), name='a'), dict(K(1, 'B', params=[P('x')]), name='b'),
                          dict(K(2, 'Dep', meta_inputs=[{'cls': 0}],
                                 param_inputs=[dict(ref={'name': 'ghost'}, default=[7]), dict(ref={'name': 'b'}, default=[9]),
                                               dict(ref={'name': 'phantom'}, default=[None])]), name='dep'),
                          dict(K(3, 'Top', meta_inputs=[{'cls': 2}]), name='top')],
                 files={}, base={'name': 'm', 'data': {'tasks': ['@M.*'], 'x': 1}}, context=None, hist=True),
            # task classes derived from other task classes, each with a Meta of its own (the base declared first): other
            # inputs than the base, a concrete class derived from an abstract base, a base that is excluded while the
            # derived class stays
            dict(classes=[dict(K(0, 'Src', params=[P('x')]), name='src'), dict(K(1, 'Other', params=[P('x')]), name='other'),
                          dict(K(2, 'Base', meta_inputs=[{'cls': 0}]), name='base'),
                          dict(K(3, 'Derived', meta_inputs=[{'cls': 1}], params=[P('y', default=[3])]), name='derived', task_base=2),
                          dict(K(4, 'Top', meta_inputs=[{'cls': 3}, {'cls': 2}]), name='top')],
                 files={}, base={'name': 'm', 'data': {'tasks': ['@M.*'], 'x': 1}}, context=None, hist=True, records=True),
            dict(classes=[dict(K(0, 'Src', params=[P('x')]), name='src'),
                          dict(K(1, 'Base', meta_inputs=[{'cls': 0}], abstract=True), name='base'),
                          dict(K(2, 'Concrete', meta_inputs=[{'cls': 0}], abstract=False), name='concrete', task_base=1),
                          dict(K(3, 'Top', meta_inputs=[{'cls': 2}]), name='top')],
                 files={}, base={'name': 'm', 'data': {'tasks': ['@M.*'], 'x': 1}}, context=None),
            dict(classes=[dict(K(0, 'Src', params=[P('x')]), name='src'),
                          dict(K(1, 'Base', meta_inputs=[{'cls': 0}]), name='base'),
                          dict(K(2, 'Derived', meta_inputs=[{'name': 'ghost'}]), name='derived', task_base=1)],
                 files={}, base={'name': 'm', 'data': {'tasks': ['@M.*'], 'x': 1}}, context=None),
            dict(classes=[dict(K(0, 'Model', params=[P('x')]), name='model'),
                          dict(K(1, 'TunedModel', params=[P('x')]), name='tuned_model', task_base=0),
                          dict(K(2, 'Report', param_inputs=[dict(ref={'name': 'tuned_model'}, default=[0])]), name='report'),
                          dict(K(3, 'Coll', meta_inputs=[{'name': '~tuned_.*'}]), name='coll')],
                 files={}, base={'name': 'm', 'data': {'tasks': ['@M.*'], 'excluded_tasks': ['@M.Model'], 'x': 1}}, context=None),
            dict(classes=[dict(K(0, 'Model', params=[P('x')]), name='model'),
                          dict(K(1, 'TunedModel', params=[P('x')]), name='tuned_model', task_base=0),
                          dict(K(2, 'Report', meta_inputs=[{'cls': 1}]), name='report')],
                 files={'p.json': {'tasks': ['@M.*'], 'excluded_tasks': ['@M.Model'], 'x': 2}},
                 base={'name': 'm', 'data': {'uses': 'p.json as n'}}, context=None),
            # namespaces written with characters that are not letters, digits or underscores, and a composed one written out
            dict(classes=[dict(K(0, 'Abc', params=[P('x'), P('y', default=[5])]), name='abc')],
                 files={'d.json': {'tasks': ['@M.*'], 'x': 1}},
                 base={'name': 'm', 'data': {'uses': ['d.json as train-set', 'd.json as set.2', 'd.json as outer::inner', 'd.json as train']}},
                 context={'dict': {'for_namespaces': {'train-set': {'y': 99}, 'train': {'y': 98}, 'set.2': {'y': 97}, 'outer': {'y': 96},
                                                      'outer::inner': {'y': 95}}}}, hist=True),
            # a namespace that is a textual suffix of another (`train` / `pretrain`, `inner` / `outer::inner`): a per-namespace
            # context entry is for exactly the namespace it names
            dict(classes=[dict(K(0, 'Abc', params=[P('x'), P('y', default=[5])]), name='abc'), dict(K(1, 'Dep', meta_inputs=[{'cls': 0}]), name='dep')],
                 files={'d.json': {'tasks': ['@M.*'], 'x': 1}},
                 base={'name': 'm', 'data': {'uses': ['d.json as pretrain', 'd.json as train', 'd.json as outer::inner', 'd.json as inner']}},
                 context={'dict': {'for_namespaces': {'train': {'y': 98}, 'inner': {'y': 94}}}}, hist=True),
            # a stored task whose class derives from a task class that is kept in memory only (and the other way round), the
            # parent listed first: each class has the data class its own Meta and return type say
            dict(classes=[dict(K(0, 'Preview', params=[P('x')], data='memory'), name='preview'),
                          dict(K(1, 'FullReport', params=[P('x')]), name='full_report', task_base=0),
                          dict(K(2, 'Top', meta_inputs=[{'cls': 1}]), name='top')],
                 files={}, base={'name': 'm', 'data': {'tasks': ['@M.*'], 'x': 2}}, context=None, hist=True),
            dict(classes=[dict(K(0, 'Stored', params=[P('x')]), name='stored'),
                          dict(K(1, 'Quick', params=[P('x')], data='memory'), name='quick', task_base=0),
                          dict(K(2, 'Top', meta_inputs=[{'cls': 1}, {'cls': 0}]), name='top')],
                 files={}, base={'name': 'm', 'data': {'tasks': ['@M.*'], 'x': 2}}, context=None, hist=True),
            # a parameter read under another config key than its name (`name_in_config`), that key absent, while the config holds
            # an entry called like the parameter's own name - the key of another parameter of the task, or of another task
            dict(classes=[dict(K(0, 'Model', params=[P('lr', cfg='model_lr', default=[5]), P('rate', cfg='lr')]), name='model'),
                          dict(K(1, 'Report', meta_inputs=[{'cls': 0}], params=[P('depth', cfg='report_depth', default=[1])]), name='report'),
                          dict(K(2, 'Other', params=[P('depth')]), name='other')],
                 files={}, base={'name': 'm', 'data': {'tasks': ['@M.*'], 'lr': 3, 'depth': 9}}, context=None, hist=True),
            dict(classes=[dict(K(0, 'Model', params=[P('lr', cfg='model_lr'), P('rate', cfg='lr')]), name='model')],
                 files={}, base={'name': 'm', 'data': {'tasks': ['@M.*'], 'lr': 3}}, context=None),
            # a pattern without wildcard names whole task names: ~stat_a takes stat_a, not stat_a_report
            dict(classes=[dict(K(0, 'StatA', params=[P('x')]), name='stat_a'), dict(K(1, 'StatB', params=[P('x')]), name='stat_b'),
                          dict(K(2, 'StatAReport', meta_inputs=[{'cls': 0}]), name='stat_a_report'),
                          dict(K(3, 'Summary', meta_inputs=[{'name': '~stat_a'}, {'cls': 1}]), name='summary'),
                          dict(K(4, 'Total', meta_inputs=[{'cls': 3}]), name='total')],
                 files={}, base={'name': 'm', 'data': {'tasks': ['@M.*'], 'x': 3}}, context=None, hist=True),
            # a string with braces that are no placeholder and a backslash or quote, in a config built with global_vars
            dict(classes=[dict(K(0, 'Abc', params=[P('pattern'), P('tpl')]), name='abc'), dict(K(1, 'Dep', meta_inputs=[{'cls': 0}]), name='dep')],
                 files={}, base={'name': 'm', 'data': {'tasks': ['@M.*'], 'pattern': '\\d{4}-{X}', 'tpl': ["it's {}", 'part_{}.json', '\\w{2,3}']}},
                 context=None, global_vars={'X': 'v', 'Y': 7}),
            # an input named by class whose class is not declared, while a grouped task of another class has the same short
            # name: the optional one falls back to its default, the required one is reported as missing
            dict(classes=[dict(K(0, 'Features'), name='features'), dict(K(1, 'LegacyFeatures', group='legacy'), name='features'),
                          dict(K(2, 'Model', param_inputs=[dict(ref={'cls': 0}, default=[7])]), name='model')],
                 files={}, base={'name': 'm', 'data': {'tasks': ['@M.LegacyFeatures', '@M.Model']}}, context=None),
            dict(classes=[dict(K(0, 'Features'), name='features'), dict(K(1, 'LegacyFeatures', group='legacy'), name='features'),
                          dict(K(2, 'Model', meta_inputs=[{'cls': 0}]), name='model')],
                 files={}, base={'name': 'm', 'data': {'tasks': ['@M.LegacyFeatures', '@M.Model']}}, context=None),
            dict(classes=[dict(K(0, 'Features'), name='features'), dict(K(1, 'LegacyFeatures', group='legacy'), name='features'),
                          dict(K(2, 'Model', param_inputs=[dict(ref={'cls': 0}, default=[7])]), name='model')],
                 files={'p.json': {'tasks': ['@M.LegacyFeatures', '@M.Model']}}, base={'name': 'm', 'data': {'uses': 'p.json as n'}}, context=None),
            # a multi-config file opened without `#part`: parts that say `main_part: false` come before the main part
            dict(classes=[dict(K(0, 'Abc', params=[P('x')]), name='abc'), dict(K(1, 'Dep', meta_inputs=[{'cls': 0}]), name='dep')],
                 files={'multi.json': {'configs': {'small': {'tasks': ['@M.*'], 'x': 3, 'main_part': False},
                                                   'mid': {'tasks': ['@M.*'], 'x': 5, 'main_part': False},
                                                   'large': {'tasks': ['@M.*'], 'x': 10, 'main_part': True}}}},
                 base={'file': 'multi.json'}, context=None, hist=True),
            dict(classes=[dict(K(0, 'Abc', params=[P('x')]), name='abc'), dict(K(1, 'Dep', meta_inputs=[{'cls': 0}]), name='dep')],
                 files={'multi.json': {'configs': {'small': {'tasks': ['@M.*'], 'x': 3, 'main_part': False},
                                                   'large': {'tasks': ['@M.*'], 'x': 10, 'main_part': True}}}},
                 base={'name': 'm', 'data': {'uses': ['multi.json as exp', 'multi.json#small as s']}}, context=None, hist=True),
            # several contexts give a mapping for one global key: the later mapping replaces the earlier one as a whole
            dict(classes=[dict(K(0, 'Abc', params=[P('opt'), P('other', default=[0])]), name='abc')],
                 files={'ctx/a.json': {'opt': {'name': 'adam', 'lr': 0.01, 'weight_decay': 0.1}, 'other': {'k': 1}},
                        'ctx/b.json': {'opt': {'name': 'sgd', 'lr': 0.2}}},
                 base={'name': 'm', 'data': {'tasks': ['@M.*'], 'opt': {'name': 'none', 'extra': True}}},
                 context={'list': [{'file': 'ctx/a.json'}, {'file': 'ctx/b.json'}, {'dict': {'other': {'j': 2}}}]}),
            dict(classes=[dict(K(0, 'Abc', params=[P('opt')]), name='abc')],
                 files={}, base={'name': 'm', 'data': {'tasks': ['@M.*'], 'opt': 1}},
                 context={'list': [{'dict': {'opt': {'a': {'deep': 1, 'gone': 2}}}}, {'dict': {'opt': {'a': {'deep': 3}}}}]}),
            # one context file used for two namespaces, and used globally and for a namespace
            dict(classes=[dict(K(0, 'Abc', params=[P('x', default=[0]), P('y', default=[0])]), name='abc')],
                 files={'d.json': {'tasks': ['@M.*']}, 'ctx/top.json': {'uses': ['ctx/small.json as train', 'ctx/small.json as valid']},
                        'ctx/small.json': {'x': 9}},
                 base={'name': 'm', 'data': {'tasks': ['@M.*'], 'uses': ['d.json as train', 'd.json as valid', 'd.json as test']}},
                 context={'file': 'ctx/top.json'}, hist=True),
            dict(classes=[dict(K(0, 'Abc', params=[P('x', default=[0]), P('y', default=[0])]), name='abc')],
                 files={'d.json': {'tasks': ['@M.*'], 'x': 5}, 'ctx/top.json': {'uses': ['ctx/small.json', 'ctx/small.json as ns']},
                        'ctx/small.json': {'y': 9}},
                 base={'name': 'm', 'data': {'tasks': ['@M.*'], 'uses': ['d.json as ns', 'd.json as other']}},
                 context={'file': 'ctx/top.json'}),
            # a dependant inside a namespace names an input in a sub-namespace by its relative name, while a task at the top
            # level has exactly that full name
            dict(classes=[dict(K(0, 'Dataset', params=[P('x')]), name='dataset'), dict(K(1, 'Stats', meta_inputs=[{'name': 'source::dataset'}]), name='stats')],
                 files={'src.json': {'tasks': ['@M.Dataset'], 'x': 1}, 'top_src.json': {'tasks': ['@M.Dataset'], 'x': 2},
                        'exp.json': {'tasks': ['@M.Stats'], 'uses': 'src.json as source'}},
                 base={'name': 'm', 'data': {'uses': ['top_src.json as source', 'exp.json as exp']}}, context=None, hist=True),
            dict(classes=[dict(K(0, 'Dataset', params=[P('x')]), name='dataset'), dict(K(1, 'Stats', meta_inputs=[{'name': 'source::dataset'}]), name='stats')],
                 files={'top_src.json': {'tasks': ['@M.Dataset'], 'x': 2}, 'exp.json': {'tasks': ['@M.Stats']}},
                 base={'name': 'm', 'data': {'uses': ['exp.json as exp', 'top_src.json as source']}}, context=None),
            # an input in a nested namespace whose name contains the outer namespace's name
            dict(classes=[dict(K(0, 'Producer'), name='producer'),
                          dict(K(1, 'Consumer', meta_inputs=[{'name': 'basemodel::producer'}]), name='consumer')],
                 files={'leaf.json': {'tasks': ['@M.Producer']}, 'mid.json': {'tasks': ['@M.Consumer'], 'uses': 'leaf.json as basemodel'}},
                 base={'name': 'top', 'data': {'uses': 'mid.json as model'}}, context=None),
            # a class excluded by one config is still declared by another one (order: the excluding config first)
            dict(classes=[K(0, 'Numbers'), K(1, 'Report', meta_inputs=[{'cls': 0}])],
                 files={'a.json': {'tasks': ['@M.*'], 'excluded_tasks': ['@M.Report']}, 'b.json': {'tasks': ['@M.*']}},
                 base={'name': 'main', 'data': {'uses': ['a.json as train', 'b.json as valid']}}, context=None),
            # falsy values: wrong-typed ones are refused like any other, well-typed ones are accepted
            *[dict(classes=[K(0, 'Abc', params=[P('x', dtype=dt)])], files={},
                   base={'name': 'm', 'data': {'tasks': ['@M.Abc'], 'x': v}}, context=None)
              for dt, v in (('int', 0.0), ('int', ''), ('str', 0), ('str', False), ('list', ''), ('list', {}), ('dict', []),
                            ('int', 0), ('str', ''), ('list', []), ('float', 0.0), ('bool', False), ('int', None))],
            # missing required parameter, dangling input, cycle
            dict(classes=[abc], files={}, base={'name': 'm', 'data': {'tasks': ['@M.Abc']}}, context=None),
            dict(classes=[K(0, 'A', meta_inputs=[{'name': 'nothing'}])], files={},
                 base={'name': 'm', 'data': {'tasks': ['@M.A']}}, context=None),
            dict(classes=[K(0, 'A', meta_inputs=[{'name': 'b'}]), K(1, 'B', meta_inputs=[{'name': 'a'}])], files={},
                 base={'name': 'm', 'data': {'tasks': ['@M.*']}}, context=None),
        ]

    def gen(self, rng, tier):
        from .gen_pipeline import gen_case
        return [gen_case(rng) for _ in range(100 if tier == 'quick' else 1500)]

    def run_impl(self, case):
        with pl.workspace(case) as (d, mod):
            try:
                cfg = pl.build_config(case, mod)
                chain = cfg.chain()
            except CONSTRUCTION_ERRORS as e:
                return dict(error=type(e).__name__, text=str(e)[:200])
            return pl.observe_chain(chain, with_paths=True)

    def encode(self, case, obs):
        return cpair(pl.cworld(case, 'M'), pl.cbase(case['base'], 'M')), cobs(obs)

    aspects = ('tasks', 'edges', 'params', 'conflict', 'keys')

    def oracle(self, case, obs):
        return chain_oracle(case, obs, self.aspects)

    def nontrivial(self, case, obs):
        return len(obs.get('tasks', {})) >= 2

    def key(self, case):
        return repr(case)

    def distribution(self, cases, obs):
        d = dict(errors={}, tasks_hist={}, with_context=0, with_namespaces=0, shared_objects=0)
        for c, o in zip(cases, obs):
            if 'error' in o:
                d['errors'][o['error']] = d['errors'].get(o['error'], 0) + 1
                continue
            n = len(o.get('tasks', {}))
            d['tasks_hist'][str(n)] = d['tasks_hist'].get(str(n), 0) + 1
            d['with_context'] += c.get('context') is not None
            d['with_namespaces'] += any('::' in t for t in o.get('tasks', {}))
            d['shared_objects'] += any(t['canon'] != name for name, t in o.get('tasks', {}).items())
        return d
