"""C14 - file caches return the value for the key, or recompute."""
import copy
import json
import shutil
import tempfile
from pathlib import Path

from ..core import Prop, Suite
from ..coqlit import cbool, clist, cnat, copt, cpair, cstr
from ..values import cspec

KEYS = ['key', 'k2', '', 'é', '中😀', 'a/b', '{"x": 1}', 'key ', 'KEY', '../x', 'abcde', 'caf\u00e9', 'cafe\u0301', '\u212b', '\u00c5']
SUBS = [[], [], ['sub'], ['abcde'], ['sub', 'x'], ['0a1b2'], ['models/v1'], ['features/v1'], ['v1'], ['models', 'v1']]


def scribble(v):
    """the caller modifies, in place, the value a cache call returned"""
    if isinstance(v, list):
        v.append('SCRIBBLE')
    elif isinstance(v, dict):
        v['SCRIBBLE'] = 1
    return v


def slot_of(op):
    """a sub-cache name with several components is the nesting of its components"""
    return (tuple(x for s in op['sub'] for x in s.split('/')), op['key'])
VALUES = [0, 1, '', 'v', [], {}, [1, 'x'], {'a': [1, 2], 'b': None}, None, False, True, 2.5, {'key': 'k', 'value': 1}]


def csub(sub):
    return clist([cstr(s) for s in sub])


def cop(op):
    k = op['op']
    if k == 'get':
        return f'(CGet {csub(op["sub"])} {cstr(op["key"])})'
    if k == 'goc':
        comp = 'None' if op['comp'] is None else f'(Some {cspec(op["comp"][0])})'
        return f'(CGetOrCompute {csub(op["sub"])} {cstr(op["key"])} {comp} {cbool(op["force"])})'
    if k == 'damage':
        return f'(CDamage {csub(op["sub"])} {cstr(op["key"])})'
    if k == 'plant':
        return f'(CPlant {csub(op["sub"])} {cstr(op["key"])} {cstr(op["other"])} {cspec(op["value"])})'
    raise ValueError(k)


def cout(o):
    if 'value' in o:
        return f'(CVal {cspec(o["value"])})'
    return {'novalue': 'CNoValue', 'cache_exc': 'CExcCache', 'compute_exc': 'CExcCompute'}.get(o['kind'], 'CNoValue')


class Boom(Exception):
    pass


class JsonCacheOps(Suite):
    name = 'json_cache_histories'
    imports = 'Value Dict Cache Sha256'
    shard = 3
    in_type = '(bool * list cop)'
    out_type = 'list (cout * nat)'
    prelude = '''
Definition cout_eqb (a b : cout) : bool :=
  match a, b with
  | CVal x, CVal y => value_eqb x y
  | CNoValue, CNoValue | CExcCache, CExcCache | CExcCompute, CExcCompute => true
  | _, _ => false end.
Fixpoint outs_eqb (a b : list (cout * nat)) : bool :=
  match a, b with
  | [], [] => true
  | (x, n) :: a', (y, m) :: b' => cout_eqb x y && Nat.eqb n m && outs_eqb a' b'
  | _, _ => false end.
Definition cache_model (c : bool * list cop) : list (cout * nat) :=
  crun sha256_hex {| ca_dir := lit "root"; ca_allow_nones := fst c; ca_checks_key := true |} [] (snd c).
'''
    eqb = 'outs_eqb'
    model = 'cache_model'

    def corpus(self):
        return [
            dict(allow_nones=True, ops=[
                dict(op='get', sub=[], key='key'), dict(op='goc', sub=[], key='key', comp=[0], force=False),
                dict(op='goc', sub=[], key='key', comp=[5], force=False), dict(op='get', sub=[], key='key'),
                dict(op='goc', sub=[], key='key', comp=[7], force=True), dict(op='goc', sub=['sub'], key='key', comp=[8], force=False),
                dict(op='damage', sub=[], key='key', how='truncate', at=3), dict(op='get', sub=[], key='key'),
                dict(op='goc', sub=[], key='key', comp=None, force=False), dict(op='goc', sub=[], key='key', comp=[None], force=False),
                dict(op='plant', sub=[], key='k2', other='key', value=1), dict(op='goc', sub=[], key='k2', comp=[1], force=False),
                dict(op='get', sub=[], key='k2'), dict(op='goc', sub=[], key='k2', comp=[2], force=True)]),
            # a write-aside file left by a killed writer (empty, torn, complete) does not matter
            dict(allow_nones=True, leftover_tmp=[[[], 'key', ''], [[], 'k2', '{"key": "k2", "val'], [['sub'], 'key', '{"key": "key", "value": 9}']],
                 ops=[dict(op='get', sub=[], key='key'), dict(op='goc', sub=[], key='key', comp=[1], force=False),
                      dict(op='goc', sub=[], key='key', comp=[2], force=True), dict(op='goc', sub=[], key='k2', comp=[3], force=False),
                      dict(op='get', sub=['sub'], key='key'), dict(op='goc', sub=['sub'], key='key', comp=[4], force=False),
                      dict(op='get', sub=[], key='k2'), dict(op='get', sub=['sub'], key='key')]),
            # keys that are canonically equivalent as unicode texts are different keys
            dict(allow_nones=True, ops=[
                dict(op='goc', sub=[], key='caf\u00e9', comp=[1], force=False), dict(op='get', sub=[], key='cafe\u0301'),
                dict(op='goc', sub=[], key='cafe\u0301', comp=[2], force=False), dict(op='get', sub=[], key='caf\u00e9'),
                dict(op='get', sub=[], key='cafe\u0301'), dict(op='goc', sub=['s'], key='\u212b', comp=[3], force=False),
                dict(op='goc', sub=['s'], key='\u00c5', comp=[4], force=False), dict(op='get', sub=['s'], key='\u212b')]),
            dict(allow_nones=False, ops=[
                dict(op='goc', sub=[], key='k', comp=[None], force=False), dict(op='get', sub=[], key='k'),
                dict(op='goc', sub=['s'], key='k', comp=[None], force=False), dict(op='get', sub=['s'], key='k'),
                dict(op='plant', sub=[], key='k', other='k', value=None), dict(op='get', sub=[], key='k'),
                dict(op='goc', sub=[], key='k', comp=[3], force=False)]),
            # the entry recorded for the empty key lying at the location of another key is a foreign entry like any other
            dict(allow_nones=True, ops=[
                dict(op='goc', sub=[], key='', comp=[7], force=False), dict(op='get', sub=[], key=''),
                dict(op='plant', sub=[], key='k', other='', value=5), dict(op='get', sub=[], key='k'),
                dict(op='goc', sub=[], key='k', comp=[1], force=False), dict(op='goc', sub=[], key='k', comp=[2], force=True),
                dict(op='get', sub=[], key='k'), dict(op='plant', sub=['s'], key='', other='k', value=6), dict(op='get', sub=['s'], key='')]),
            # a forced computation that raises leaves the stored value in place
            dict(allow_nones=True, ops=[
                dict(op='goc', sub=[], key='k', comp=[1], force=False), dict(op='goc', sub=[], key='k', comp=None, force=True),
                dict(op='get', sub=[], key='k'), dict(op='goc', sub=[], key='k', comp=[2], force=False),
                dict(op='goc', sub=['s'], key='k', comp=[3], force=False), dict(op='goc', sub=['s'], key='k', comp=None, force=True),
                dict(op='get', sub=['s'], key='k')]),
            # values, mapping keys and cache keys that hold the words NaN, Infinity, -Infinity, null (inside strings)
            dict(allow_nones=True, ops=[x for i, v in enumerate(('Avengers: Infinity War', {'NaN': ['-Infinity', 'a NaN b']}, 'NaN', ['Infinity', 'null', 'true']))
                                        for x in (dict(op='goc', sub=[], key=f'mean of NaN column {i}', comp=[v], force=False),
                                                  dict(op='get', sub=[], key=f'mean of NaN column {i}'),
                                                  dict(op='goc', sub=['Infinity'], key='NaN', comp=[v], force=True),
                                                  dict(op='get', sub=['Infinity'], key='NaN'))]),
            # forced computations whose result compares equal to the stored value without being it (1 / True / 1.0, [1] / [1.0])
            dict(allow_nones=True, ops=[x for i, (a, b) in enumerate(((1, True), (False, 0), ([1, 2], [1.0, 2.0]), ({'n': 0}, {'n': False}), (0.0, -0.0), ('1', 1)))
                                        for x in (dict(op='goc', sub=[], key=f'k{i}', comp=[a], force=False),
                                                  dict(op='goc', sub=[], key=f'k{i}', comp=[b], force=True),
                                                  dict(op='get', sub=[], key=f'k{i}'),
                                                  dict(op='goc', sub=['s'], key=f'k{i}', comp=[b], force=False),
                                                  dict(op='goc', sub=['s'], key=f'k{i}', comp=[a], force=True),
                                                  dict(op='get', sub=['s'], key=f'k{i}'))]),
            # falsy values that are not None, with None refused
            dict(allow_nones=False, ops=[x for v in (0, '', [], {}, False, 0.0) for x in (
                dict(op='goc', sub=[], key=f'k{v!r}', comp=[v], force=False), dict(op='get', sub=[], key=f'k{v!r}'),
                dict(op='goc', sub=[], key=f'k{v!r}', comp=[1], force=False))]),
        ]

    def gen(self, rng, tier):
        out = []
        for _ in range(80 if tier == 'quick' else 1200):
            keys = rng.sample(KEYS, rng.choice([1, 2, 3]))
            ops = []
            for _ in range(rng.choice([3, 6, 10, 16] if tier == 'quick' else [3, 6, 10, 16, 30])):
                r = rng.random()
                sub, key = rng.choice(SUBS), rng.choice(keys)
                if r < 0.25:
                    ops.append(dict(op='get', sub=sub, key=key))
                elif r < 0.75:
                    comp = None if rng.random() < 0.12 else [rng.choice(VALUES)]
                    ops.append(dict(op='goc', sub=sub, key=key, comp=comp, force=rng.random() < 0.2))
                elif r < 0.9:
                    ops.append(dict(op='damage', sub=sub, key=key, how=rng.choice(['truncate', 'empty', 'garbage', 'shape']),
                                    at=rng.randrange(0, 40)))
                else:
                    ops.append(dict(op='plant', sub=sub, key=key, other=rng.choice(KEYS), value=rng.choice(VALUES)))
            out.append(dict(allow_nones=rng.random() < 0.7, ops=ops))
            if rng.random() < 0.3:
                out[-1]['leftover_tmp'] = [[op['sub'], op['key'], rng.choice(['', '{"key": "x", "va', '{"key": "x", "value": 1}'])]
                                           for op in ops[:3]]
        return out

    checks_key = True

    def make_root(self, path, case):
        from taskchain.cache import JsonCache
        return JsonCache(path, allow_nones=case['allow_nones'])

    def to_py(self, v):
        return v

    def from_py(self, v):
        return v

    def plant(self, cache, p, op):
        p.parent.mkdir(parents=True, exist_ok=True)
        p.write_text(json.dumps({'key': op['other'], 'value': op['value']}))

    def other_shape(self, op):
        return json.dumps([1, 2] if op['at'] % 2 else {'key': op['key']}).encode()

    def run_impl(self, case):
        from taskchain.cache import CacheException, NO_VALUE
        import logging
        logging.getLogger('cache').handlers = [logging.NullHandler()]
        d = tempfile.mkdtemp(prefix='tcverif-cache-')
        try:
            root = self.make_root(Path(d) / 'root', case)
            outs = []
            # what a writer killed between creating its write-aside file and publishing it leaves behind
            for sub, key, content in case.get('leftover_tmp', []):
                c = root
                for s_ in sub:
                    c = c.subcache(s_)
                fp = c.filepath(key)
                fp.with_name(f'tmp_{fp.name}').write_bytes(content.encode())
            for op in case['ops']:
                c = root
                for s in op['sub']:
                    c = c.subcache(s)
                calls = [0]
                kind = op['op']
                if kind == 'get':
                    try:
                        v = c.get(op['key'])
                        outs.append(dict(kind='novalue') if v is NO_VALUE else dict(value=copy.deepcopy(self.from_py(v))))
                        scribble(v)
                    except CacheException:
                        outs.append(dict(kind='cache_exc'))
                elif kind == 'goc':
                    def computer():
                        calls[0] += 1
                        if op['comp'] is None:
                            raise Boom()
                        return self.to_py(copy.deepcopy(op['comp'][0]))
                    try:
                        v = c.get_or_compute(op['key'], computer, force=op['force'])
                        outs.append(dict(value=copy.deepcopy(self.from_py(v))))
                        scribble(v)
                    except CacheException:
                        outs.append(dict(kind='cache_exc'))
                    except Boom:
                        outs.append(dict(kind='compute_exc'))
                else:
                    p = c.filepath(op['key'])
                    if kind == 'plant':
                        self.plant(c, p, op)
                    else:
                        old = p.read_bytes() if p.exists() else b'{"key": "x", "value": 1}'
                        how = op['how']
                        if how == 'truncate':
                            new = old[:min(op['at'], max(len(old) - 1, 0))]
                        elif how == 'empty':
                            new = b''
                        elif how == 'garbage':
                            new = b'\\x00\\xff not json'
                        else:
                            new = self.other_shape(op)
                        p.parent.mkdir(parents=True, exist_ok=True)
                        p.write_bytes(new)
                    outs.append(dict(kind='novalue'))
                outs[-1]['calls'] = calls[0]
            return dict(outs=outs)
        finally:
            shutil.rmtree(d, ignore_errors=True)

    def encode(self, case, obs):
        i = cpair(cbool(case['allow_nones']), clist([cop(o) for o in case['ops']]))
        return i, clist([cpair(cout(o), cnat(o['calls'])) for o in obs.get('outs', [])])

    def oracle(self, case, obs):
        """a dictionary per cache directory; entries are what WE stored intact"""
        if 'unexpected_exception' in obs:
            return f'unexpected exception {obs["unexpected_exception"]}: {obs["text"]}'
        store = {}
        for j, (op, o) in enumerate(zip(case['ops'], obs['outs'])):
            slot = slot_of(op)
            allow = case['allow_nones'] or bool(op['sub']) or not self.checks_key
            kind = op['op']
            ent = store.get(slot)          # ('ok', v) | ('damaged',) | ('foreign', other, v) | None
            def loaded():
                if ent is None or ent[0] == 'damaged':
                    return None
                if ent[0] == 'foreign' and ent[1] != op['key'] and self.checks_key:
                    return {'kind': 'cache_exc'}
                v = ent[-1]
                if v is None and not allow:
                    return {'kind': 'cache_exc'}
                return {'value': v}
            if kind == 'get':
                want = loaded() or {'kind': 'novalue'}
                calls = 0
            elif kind == 'goc':
                l = None if op['force'] else loaded()
                if l is not None:
                    want, calls = l, 0
                else:
                    calls = 1
                    if op['comp'] is None:
                        want = {'kind': 'compute_exc'}
                    elif op['comp'][0] is None and not allow:
                        want = {'kind': 'cache_exc'}
                    else:
                        want = {'value': op['comp'][0]}
                        store[slot] = ('ok', op['comp'][0])
            elif kind == 'damage':
                store[slot] = ('damaged',)
                continue
            else:
                store[slot] = ('foreign', op['other'], op['value'])
                continue
            got = {k: v for k, v in o.items() if k != 'calls'}
            if json.dumps(got, sort_keys=True) != json.dumps(want, sort_keys=True) or o['calls'] != calls:
                return (f'op {j} {op}: returned {got} with {o["calls"]} computer call(s); a dictionary of intact entries '
                        f'gives {want} with {calls}')
        return None

    def nontrivial(self, case, obs):
        return len(case['ops']) >= 6

    def key(self, case):
        return repr(case)

    def distribution(self, cases, obs):
        d = dict(ops={}, outcomes={})
        for c, o in zip(cases, obs):
            for op, out in zip(c['ops'], o.get('outs', [])):
                d['ops'][op['op']] = d['ops'].get(op['op'], 0) + 1
                k = 'value' if 'value' in out else out['kind']
                d['outcomes'][k] = d['outcomes'].get(k, 0) + 1
        return d


ARRAYS = {'A0': lambda np: np.arange(6).reshape(2, 3), 'A1': lambda np: np.array([1.5, -2.0]), 'A2': lambda np: np.zeros((0, 2)),
          'A3': lambda np: np.array(7), 'A4': lambda np: np.array(['x', 'yz']), 'A5': lambda np: np.array([{'k': 1}, None], dtype=object)}


class NumpyCacheOps(JsonCacheOps):
    """the same histories on a NumpyArrayCache: it records no key in its files (ca_checks_key = false) and has no
    notion of refused None; values are six arrays (numeric, empty, 0-d, strings, objects), named in the model"""
    name = 'numpy_cache_histories'
    checks_key = False
    model = 'array_cache_model'
    prelude = JsonCacheOps.prelude + '''
Definition array_cache_model (c : bool * list cop) : list (cout * nat) :=
  crun sha256_hex {| ca_dir := lit "root"; ca_allow_nones := true; ca_checks_key := false |} [] (snd c).
'''

    def corpus(self):
        return [dict(allow_nones=True, ops=[
            dict(op='goc', sub=[], key='k', comp=['A5'], force=False), dict(op='get', sub=[], key='k'),
            dict(op='goc', sub=[], key='k', comp=['A0'], force=False), dict(op='goc', sub=[], key='k', comp=None, force=True),
            dict(op='get', sub=[], key='k'), dict(op='damage', sub=[], key='k', how='truncate', at=20),
            dict(op='get', sub=[], key='k'), dict(op='goc', sub=['s'], key='k', comp=['A3'], force=False),
            dict(op='plant', sub=[], key='k2', other='k', value='A2'), dict(op='get', sub=[], key='k2')]),
            dict(allow_nones=True, ops=[
                dict(op='goc', sub=[], key='caf\u00e9', comp=['A0'], force=False), dict(op='get', sub=[], key='cafe\u0301'),
                dict(op='goc', sub=[], key='cafe\u0301', comp=['A1'], force=False), dict(op='get', sub=[], key='caf\u00e9')])]

    def gen(self, rng, tier):
        out = []
        for c in super().gen(rng, tier)[:(30 if tier == 'quick' else 600)]:
            for op in c['ops']:
                if op.get('comp'):
                    op['comp'] = [rng.choice(sorted(ARRAYS))]
                if 'value' in op:
                    op['value'] = rng.choice(sorted(ARRAYS))
                if op.get('how') == 'shape':
                    op['how'] = 'garbage'
            c['allow_nones'] = True
            out.append(c)
        return out

    def make_root(self, path, case):
        from taskchain.cache import NumpyArrayCache
        return NumpyArrayCache(path)

    def to_py(self, v):
        import numpy as np
        return ARRAYS[v](np)

    def from_py(self, v):
        import numpy as np
        from .c06 import describe
        d = json.dumps(describe(v), sort_keys=True, default=str)
        for k, f in ARRAYS.items():
            if json.dumps(describe(f(np)), sort_keys=True, default=str) == d:
                return k
        return f'unknown array {d[:80]}'

    def plant(self, cache, p, op):
        import numpy as np
        p.parent.mkdir(parents=True, exist_ok=True)
        with p.open('wb') as f:
            np.save(f, ARRAYS[op['value']](np), allow_pickle=True)


class ArrayAndFrameCaches(Suite):
    """NumpyArrayCache and DataFrameCache: the stored value is returned (also by a new cache object on the same
    directory) without computing, force recomputes, a raising computation stores nothing (runtime check with the
    real serializers; the map model is instantiated for JsonCache)"""
    name = 'array_and_frame_caches'
    model = ''

    def gen(self, rng, tier):
        kinds = ['int', 'float', 'empty', 'zero_d', 'object', 'strings', 'bool', 'big']
        return ([dict(cache='numpy', kind=k) for k in kinds] +
                [dict(cache='frame', kind=k) for k in ('simple', 'empty', 'mixed', 'index')])

    @staticmethod
    def make(case):
        import numpy as np
        import pandas as pd
        k = case['kind']
        if case['cache'] == 'numpy':
            return {'int': lambda: np.arange(12).reshape(3, 4), 'float': lambda: np.linspace(0, 1, 7),
                    'empty': lambda: np.zeros((0, 3)), 'zero_d': lambda: np.array(2.5),
                    'object': lambda: np.array([{'a': 1}, None, [1, 2], 'x'], dtype=object),
                    'strings': lambda: np.array(['a', 'bcd', '']), 'bool': lambda: np.array([True, False]),
                    'big': lambda: np.arange(5000, dtype='int64')}[k]()
        return {'simple': lambda: pd.DataFrame({'a': [1, 2], 'b': ['x', 'y']}), 'empty': lambda: pd.DataFrame(),
                'mixed': lambda: pd.DataFrame({'a': [1.5, None], 'b': [[1], {'k': 2}]}),
                'index': lambda: pd.DataFrame({'v': [1, 2, 3]}, index=['r1', 'r2', 'r3'])}[k]()

    def run_impl(self, case):
        from taskchain.cache import NumpyArrayCache, DataFrameCache, NO_VALUE
        from .c06 import describe
        import logging
        logging.getLogger('cache').handlers = [logging.NullHandler()]
        d = tempfile.mkdtemp(prefix='tcverif-cache2-')
        cls = NumpyArrayCache if case['cache'] == 'numpy' else DataFrameCache
        try:
            calls = [0]

            def comp():
                calls[0] += 1
                return self.make(case)

            def boom():
                calls[0] += 1
                raise Boom()
            c = cls(Path(d) / 'root')
            out = dict(expected=describe(self.make(case)))
            out['first'] = describe(c.get_or_compute('k', comp)); out['calls_first'] = calls[0]
            out['second'] = describe(c.get_or_compute('k', comp)); out['calls_second'] = calls[0]
            g = c.get('k')
            out['get'] = 'NO_VALUE' if g is NO_VALUE else describe(g)
            c2 = cls(Path(d) / 'root')
            out['fresh'] = describe(c2.get_or_compute('k', comp)); out['calls_fresh'] = calls[0]
            out['forced'] = describe(c2.get_or_compute('k', comp, force=True)); out['calls_forced'] = calls[0]
            try:
                c2.get_or_compute('k', boom, force=True)
                out['boom'] = 'returned'
            except Boom:
                out['boom'] = 'raised'
            g = c2.get('k')
            out['after_boom'] = 'NO_VALUE' if g is NO_VALUE else describe(g)
            try:
                c2.get_or_compute('other', boom)
            except Boom:
                pass
            g = c2.get('other')
            out['other'] = 'NO_VALUE' if g is NO_VALUE else describe(g)
            return out
        finally:
            shutil.rmtree(d, ignore_errors=True)

    def oracle(self, case, obs):
        if 'unexpected_exception' in obs:
            return f'unexpected exception {obs["unexpected_exception"]}: {obs["text"]}'
        e = obs['expected']
        for tag in ('first', 'second', 'get', 'fresh', 'forced', 'after_boom'):
            if json.dumps(obs[tag], sort_keys=True, default=str) != json.dumps(e, sort_keys=True, default=str):
                return f'{case}: {tag} yields {json.dumps(obs[tag], default=str)[:200]}, the stored value is {json.dumps(e, default=str)[:200]}'
        if (obs['calls_first'], obs['calls_second'], obs['calls_fresh'], obs['calls_forced']) != (1, 1, 1, 2):
            return (f'{case}: the computation was called {obs["calls_first"]}, {obs["calls_second"]}, {obs["calls_fresh"]}, '
                    f'{obs["calls_forced"]} times (cumulative) after the first, second, fresh-object and forced request; expected 1, 1, 1, 2')
        if obs['boom'] != 'raised' or obs['other'] != 'NO_VALUE':
            return f'{case}: a raising computation {obs["boom"]} and left {obs["other"]} for a key never stored'
        return None

    def nontrivial(self, case, obs):
        return True

    def key(self, case):
        return repr(case)


class TwoKeysOneShard(Suite):
    """two different keys whose files live in one shard directory (their hashes share the first five digits), used by
    overlapping calls (every interleaving of the steps lock, check, compute, write aside, publish - driven by the
    cooperative scheduler of the C15 check): each call gets the value computed for ITS key, each key ends up holding its
    own value, no call fails.  Runtime check only (the cache model is sequential, the C15 model has one key)."""
    name = 'two_keys_one_shard'
    model = ''
    KEYS = ['key-81', 'key-375']          # sha256 of both starts with d63ad

    def corpus(self):
        c = [dict(kind='goc', force=False), dict(kind='goc', force=False)]
        return [dict(init='absent', callers=c, keys=self.KEYS, seed=1, late_start=True,
                     script=[0, 1, 0, 1, 0, 0, 0, 0, 0, 1, 1, 1, 1, 1, 0, 0, 1, 1]),
                dict(init='absent', callers=c, keys=self.KEYS, seed=2, late_start=True,
                     script=[0, 1, 0, 1, 0, 0, 0, 0, 1, 1, 1, 1, 0, 0, 0, 1, 1, 1])]

    def gen(self, rng, tier):
        out = []
        for _ in range(60 if tier == 'quick' else 1500):
            n = rng.choice([2, 2, 3])
            callers = [dict(kind='goc', force=rng.random() < 0.3) if rng.random() < 0.8 else dict(kind='get') for _ in range(n)]
            keys = [self.KEYS[i % 2] for i in range(n)]
            if rng.random() < 0.5:
                keys = keys[::-1]
            out.append(dict(init=rng.choice(['absent', 'absent', 'full']), callers=callers, keys=keys, seed=rng.randrange(10 ** 9),
                            late_start=rng.random() < 0.5))
        return out

    def run_impl(self, case):
        from hashlib import sha256
        assert len({sha256(k.encode()).hexdigest()[:5] for k in self.KEYS}) == 1
        from .c15 import run_schedule
        return run_schedule(case)

    def oracle(self, case, obs):
        from .c15 import INIT_VALUE
        if 'unexpected_exception' in obs:
            return f'unexpected exception {obs["unexpected_exception"]}: {obs["text"]}'
        keys = case['keys']
        for t, r in enumerate(obs['results']):
            if r is None:
                return f'caller {t} ({keys[t]}) never returned'
            if r != 'novalue' and r[0] == 'exception':
                return f'caller {t} ({keys[t]}) failed with {r[1]} while another key of the same directory was written'
            if r != 'novalue':
                mine = {100 + u for u in range(len(keys)) if keys[u] == keys[t]} | ({INIT_VALUE} if case['init'] == 'full' else set())
                if r[1] not in mine:
                    return f'caller {t} asked for {keys[t]} and got {r[1]!r}, a value computed for another key ({obs["results"]})'
        for t, f in enumerate(obs['finals']):
            mine = {100 + u for u in range(len(keys)) if keys[u] == keys[t]} | ({INIT_VALUE} if case['init'] == 'full' else set())
            wrote = any(c['kind'] == 'goc' and keys[u] == keys[t] for u, c in enumerate(case['callers']))
            if wrote and (f in ('absent', 'empty') or f[0] != 'full' or f[1] not in mine):
                return f'at quiescence the entry of {keys[t]} is {f}'
        return None

    def nontrivial(self, case, obs):
        return len(set(case['keys'])) == 2

    def key(self, case):
        return repr(case)


class MemoryCacheOps(Suite):
    """InMemoryCache: sequences of get / get_or_compute / forced get_or_compute / len on the cache and its (nested)
    sub-caches against the obvious reference - a mapping per sub-cache path: a look-up of a missing key changes nothing
    (the next get_or_compute calls f), a computation that raises stores nothing, every stored value - None, falsy ones -
    comes back.  Against Model/MemCache.v (mrun) and against the reference written out in the oracle."""
    name = 'memory_cache_histories'
    imports = 'Value MemCache'
    shard = 3
    in_type = 'list mop'
    out_type = 'list mout'
    prelude = '''
Definition mout_eqb (a b : mout) : bool :=
  match a, b with
  | MVal x n, MVal y m => value_eqb x y && Nat.eqb n m
  | MNoValue, MNoValue => true
  | MExc n, MExc m | MCount n, MCount m => Nat.eqb n m
  | _, _ => false end.
Fixpoint mouts_eqb (a b : list mout) : bool :=
  match a, b with [], [] => true | x :: a', y :: b' => mout_eqb x y && mouts_eqb a' b' | _, _ => false end.
'''
    eqb = 'mouts_eqb'
    model = '(mrun [])'

    def encode(self, case, obs):
        from ..values import cspec
        def op(o):
            if o['op'] == 'get':
                return f'(MGet {csub(o["sub"])} {cstr(o["key"])})'
            if o['op'] == 'len':
                return f'(MLen {csub(o["sub"])})'
            comp = 'None' if o['comp'] is None else f'(Some {cspec(o["comp"][0])})'
            return f'(MGoc {csub(o["sub"])} {cstr(o["key"])} {comp} {cbool(o["force"])})'
        def out(o):
            kind, v, n = o
            return {'val': lambda: f'(MVal {cspec(v)} {cnat(n)})', 'novalue': lambda: 'MNoValue', 'exc': lambda: f'(MExc {cnat(n)})',
                    'len': lambda: f'(MCount {cnat(v)})'}[kind]()
        return clist([op(o) for o in case['ops']]), clist([out(o) for o in obs.get('outs', [])])

    def corpus(self):
        g = lambda key, sub=(): dict(op='get', sub=list(sub), key=key)
        c = lambda key, v, sub=(), force=False: dict(op='goc', sub=list(sub), key=key, comp=v, force=force)
        ln = lambda sub=(): dict(op='len', sub=list(sub))
        return [dict(ops=[g('k'), ln(), c('k', [1]), g('k'), ln(), c('k', [2]), c('k', [3], force=True), g('k'), ln()]),
                dict(ops=[g('k', ['s']), c('k', [1], ['s']), g('k'), c('k', [2]), g('k', ['s']), ln(['s']), ln(), g('k', ['s', 't']),
                          c('k', [5], ['s', 't']), g('k', ['s'])]),
                dict(ops=[c('k', None), g('k'), ln(), c('k', [None]), g('k'), c('k', [7]), c('k', None, force=True), g('k'), ln()]),
                dict(ops=[x for v in (0, '', [], {}, False, None) for x in (g(repr(v)), c(repr(v), [v]), g(repr(v)), c(repr(v), [9]))] + [ln()])]

    def gen(self, rng, tier):
        out = []
        for _ in range(40 if tier == 'quick' else 1000):
            keys = rng.sample(KEYS, rng.choice([1, 2, 3]))
            ops = []
            for _ in range(rng.choice([3, 6, 10, 16])):
                r = rng.random()
                sub, key = rng.choice(SUBS), rng.choice(keys)
                if r < 0.3:
                    ops.append(dict(op='get', sub=sub, key=key))
                elif r < 0.9:
                    ops.append(dict(op='goc', sub=sub, key=key, comp=None if rng.random() < 0.12 else [rng.choice(VALUES)], force=rng.random() < 0.2))
                else:
                    ops.append(dict(op='len', sub=sub))
            out.append(dict(ops=ops))
        return out

    def run_impl(self, case):
        from taskchain.cache import InMemoryCache, NO_VALUE
        root = InMemoryCache()
        outs = []
        for op in case['ops']:
            cache = root
            for name in op['sub']:
                cache = cache.subcache(name)
            calls = []
            if op['op'] == 'len':
                outs.append(['len', len(cache), 0])
                continue

            def comp():
                calls.append(1)
                if op['comp'] is None:
                    raise KeyError('the computation fails')
                return op['comp'][0]
            try:
                v = cache.get(op['key']) if op['op'] == 'get' else cache.get_or_compute(op['key'], comp, force=op['force'])
                outs.append(['novalue' if v is NO_VALUE else 'val', None if v is NO_VALUE else v, len(calls)])
            except KeyError:
                outs.append(['exc', None, len(calls)])
        return dict(outs=outs)

    def oracle(self, case, obs):
        if 'unexpected_exception' in obs:
            return f'unexpected exception {obs["unexpected_exception"]}: {obs["text"]}'
        store = {}
        for k, (op, got) in enumerate(zip(case['ops'], obs['outs'])):
            m = store.setdefault(tuple(op['sub']), {})
            if op['op'] == 'len':
                want = ['len', len(m), 0]
            elif op['op'] == 'get':
                want = ['val', m[op['key']], 0] if op['key'] in m else ['novalue', None, 0]
            elif op['key'] in m and not op['force']:
                want = ['val', m[op['key']], 0]
            elif op['comp'] is None:
                want = ['exc', None, 1]
            else:
                m[op['key']] = op['comp'][0]
                want = ['val', op['comp'][0], 1]
            if json.dumps(got) != json.dumps(want):
                return f'operation {k} {op}: {got} (kind, value, calls of f), the reference says {want}; operations so far {case["ops"][:k]}'
        return None

    def nontrivial(self, case, obs):
        return any(o['op'] == 'goc' for o in case['ops'])

    def key(self, case):
        return repr(case)


class UnstorableValues(Suite):
    """JsonCache and a computation whose result cannot be written as JSON (an integer beyond 64 bits, a set, a bytes
    object, nested or not), first and forced over a stored entry: either the call raises and nothing is stored - the
    earlier entry stays -, or whatever it returns comes back unchanged from every later call.  Runtime check only."""
    name = 'values_that_cannot_be_stored'
    model = ''
    VALUES = {'int_2_64': 2 ** 64, 'int_neg': -2 ** 63 - 1, 'big_nested': {'id': 10 ** 30, 'ok': [1]}, 'set': {1, 2}, 'bytes': b'x',
              'nested_set': [1, {'k': {3}}], 'int_2_64_minus_1': 2 ** 64 - 1, 'int_2_53': 2 ** 53 + 1}

    def gen(self, rng, tier):
        return [dict(value=v, over=o, sub=sb) for v in self.VALUES for o in (False, True) for sb in (False, True)]

    def run_impl(self, case):
        from taskchain.cache import JsonCache, NO_VALUE
        d = tempfile.mkdtemp(prefix='tcverif-unst-')
        try:
            def cache():
                c = JsonCache(Path(d) / 'root')
                return c.subcache('s') if case['sub'] else c
            value = self.VALUES[case['value']]
            c = cache()
            if case['over']:
                c.get_or_compute('k', lambda: 'earlier')
            calls = []
            try:
                got = c.get_or_compute('k', lambda: calls.append(1) or value, force=case['over'])
                first = ['value', got == value and type(got) is type(value)]
            except Exception as e:
                first = ['raised', type(e).__name__]
            later = cache().get('k')
            again_calls = []
            again = cache().get_or_compute('k', lambda: again_calls.append(1) or 'fresh')
            canon = lambda x: 'NO_VALUE' if x is NO_VALUE else ('same' if (x == value and type(x) is type(value)) else repr(x)[:60])
            return dict(first=first, calls=len(calls), later=canon(later), again=canon(again), again_calls=len(again_calls))
        finally:
            shutil.rmtree(d, ignore_errors=True)

    def oracle(self, case, obs):
        if 'unexpected_exception' in obs:
            return f'unexpected exception {obs["unexpected_exception"]}: {obs["text"]}'
        what = f'{case}: get_or_compute with a result {case["value"]}{" forced over a stored entry" if case["over"] else ""}'
        if obs['first'][0] == 'raised':
            want_later = "'earlier'" if case['over'] else 'NO_VALUE'
            if obs['later'] != want_later:
                return f'{what} raised {obs["first"][1]}; afterwards get gives {obs["later"]}, expected {want_later} (a failed store leaves things as they were)'
            want_again = ("'earlier'", 0) if case['over'] else ("'fresh'", 1)
            if (obs['again'], obs['again_calls']) != want_again:
                return f'{what} raised; the next unforced call gives {obs["again"]} with {obs["again_calls"]} computation(s), expected {want_again}'
            return None
        if obs['first'] != ['value', True] or obs['calls'] != 1:
            return f'{what} returned another value than the computed one ({obs})'
        if obs['later'] != 'same' or obs['again'] != 'same' or obs['again_calls']:
            return (f'{what} returned the value; later get gives {obs["later"]} and the next call {obs["again"]} '
                    f'({obs["again_calls"]} computations): the stored value does not come back')
        return None

    def nontrivial(self, case, obs):
        return True

    def key(self, case):
        return repr(case)


class ProbeDuringComputation(Suite):
    """an intact entry is stored; while another thread recomputes it (forced, the computer held at a barrier), a third
    thread asks for the key with get or with an unforced get_or_compute: the answer is the stored value or the new one,
    never "no value" and never a computation of its own with a stored value in reach.  Real threads, held by events."""
    name = 'probe_during_computation'
    model = ''

    def gen(self, rng, tier):
        return [dict(cache='JsonCache', probe='get'), dict(cache='JsonCache', probe='get_or_compute'),
                dict(cache='DataFrameCache', probe='get'), dict(cache='NumpyArrayCache', probe='get')]

    def run_impl(self, case):
        import threading
        import numpy as np
        import pandas as pd
        from taskchain import cache as tc
        tmp = tempfile.mkdtemp(prefix='tcverif-probe-')
        try:
            mk = {'JsonCache': lambda n: {'v': n}, 'DataFrameCache': lambda n: pd.DataFrame({'v': [n]}),
                  'NumpyArrayCache': lambda n: np.array([n])}[case['cache']]
            show = lambda v: 'NO_VALUE' if v is tc.NO_VALUE else (int(v['v']) if isinstance(v, dict) else int(np.asarray(v).ravel()[0]))
            c = getattr(tc, case['cache'])(tmp)
            c.get_or_compute('k', lambda: mk(1))
            started, release, out = threading.Event(), threading.Event(), {}

            def slow():
                started.set()
                release.wait(10)
                return mk(2)
            writer = threading.Thread(target=lambda: out.__setitem__('writer', show(getattr(tc, case['cache'])(tmp).get_or_compute('k', slow, force=True))))
            writer.start()
            if not started.wait(10):
                return dict(error='the forced computation did not start')
            own = []

            def probe():
                c2 = getattr(tc, case['cache'])(tmp)
                if case['probe'] == 'get':
                    out['probe'] = show(c2.get('k'))
                else:
                    out['probe'] = show(c2.get_or_compute('k', lambda: own.append(1) or mk(3)))
            reader = threading.Thread(target=probe)
            reader.start()
            reader.join(0.5)
            out['answered_while_computing'] = not reader.is_alive()
            release.set()
            reader.join(10)
            writer.join(10)
            out['own_computations'] = len(own)
            out['end'] = show(getattr(tc, case['cache'])(tmp).get('k'))
            return out
        finally:
            shutil.rmtree(tmp, ignore_errors=True)

    def oracle(self, case, obs):
        if 'unexpected_exception' in obs:
            return f'unexpected exception {obs["unexpected_exception"]}: {obs["text"]}'
        if 'error' in obs:
            return None
        if obs.get('probe') not in (1, 2, 3):
            return f'{case}: an intact entry is stored and being recomputed; the probe answers {obs.get("probe")}'
        if case['probe'] == 'get' and obs['probe'] == 3:
            return f'{case}: get computed a value'
        if obs.get('end') not in (2, 3):
            return f'{case}: after the forced recomputation the entry holds {obs.get("end")}'
        return None

    def nontrivial(self, case, obs):
        return 'probe' in obs

    def key(self, case):
        return repr(case)


class C14(Prop):
    pid = 'C14'
    suites = [JsonCacheOps(), NumpyCacheOps(), ArrayAndFrameCaches(), TwoKeysOneShard(), MemoryCacheOps(), UnstorableValues(),
              ProbeDuringComputation()]
    trusted_base = ['orjson round trip of JSON-like values and "no proper prefix of an entry parses" (damaged files are '
                    'produced by truncation at arbitrary byte lengths in the correspondence)']
    assumptions = ['sequential use (concurrency is C15); SHA-256 without collision on the keys that occur']


PROP = C14()
