"""C11 - placeholders are substituted everywhere, once, and nothing else changes."""
import ast
import copy
from types import SimpleNamespace

from ..core import Prop, Suite
from .c09 import ContextReuse
from ..coqlit import clist, cpair, cstr, cvalue, jvalue

ALPHA = ['{', '}', 'X', 'Y', '_', '/', '.', '\n', ' ', 'é', '{X}', '{Y}', '{XY}', '{}', '{Z}']
NAMES = ['X', 'Y', 'XY', '_', 'X.Y', '', 'Y{X', ' X']


def rand_string(rng):
    return ''.join(rng.choice(ALPHA) for _ in range(rng.choice([0, 1, 2, 3, 4, 6, 9])))


def rand_obj(rng, depth):
    r = rng.random()
    if depth <= 0 or r < 0.45:
        k = rng.random()
        if k < 0.7:
            return rand_string(rng)
        return rng.choice([None, True, False, 0, 1, -7, 2.5, 1e16])
    if r < 0.75:
        return [rand_obj(rng, depth - 1) for _ in range(rng.choice([0, 1, 2, 3]))]
    return {rng.choice(['k', '{X}', 'a', 'b', 'x/{Y}', 'é']) + str(i): rand_obj(rng, depth - 1)
            for i in range(rng.choice([0, 1, 2, 3]))}


def rand_repl(rng):
    vals = ['v', '', '{Y}', '{X}', 'a b', 'é', '}', '{', 5, True, 2.5, None, 'x\ny']
    return {n: rng.choice(vals) for n in rng.sample(NAMES, rng.choice([0, 1, 2, 3, 5]))}


def ref_subst(s, g):
    """Independent scanner: a '{' opens a placeholder iff a '}' follows before any newline."""
    out, i, n = [], 0, 0
    while i < len(s):
        if s[i] == '{':
            j = i + 1
            while j < len(s) and s[j] not in '}\n':
                j += 1
            if j < len(s) and s[j] == '}':
                name = s[i + 1:j]
                out.append(str(g[name]) if name in g else '{' + name + '}')
                i, n = j + 1, n + 1
                continue
        out.append(s[i])
        i += 1
    return ''.join(out), n


def strs_of(repl):
    return {k: str(v) for k, v in repl.items()}


def to_replacements(repl, mode):
    if mode == 'attrs':
        return SimpleNamespace(**{k: v for k, v in repl.items()})
    if mode == 'falsy_attrs':
        # a settings object that says False in a truth test (it has a length: the number of its *overrides*, none) and
        # still defines every name as an attribute
        cls = type('Overrides', (), dict({k: v for k, v in repl.items()}, __len__=lambda self: 0))
        return cls()
    if mode == 'falsy_mapping':
        # a mapping that keeps its entries aside (like taskchain's own Config): its dict part is empty, `in` and [] work
        class Vars(dict):
            def __init__(self, entries):
                super().__init__()
                self.entries = dict(entries)

            def __contains__(self, k):
                return k in self.entries

            def __getitem__(self, k):
                return self.entries[k]
        return Vars(repl)
    if mode == 'config_object':
        from taskchain import Config
        return Config(name='variables', data=dict(repl))
    if mode == 'class_attrs':
        # the usual settings object: values are class attributes (also inherited ones) and properties
        items = list(repl.items())
        base = type('BaseSettings', (), {k: v for k, v in items[::3]})
        props = {k: property(lambda self, v=v: v) for k, v in items[1::3]}
        cls = type('Settings', (base,), dict({k: v for k, v in items[2::3]}, **props))
        return cls()
    return dict(repl)


def attr_ok(repl):
    return all(k.isidentifier() for k in repl)


def check_tree(orig, new, g, path='$'):
    """Shape, keys and non-string leaves unchanged; string leaves follow the reference scanner."""
    from taskchain.utils.data import ReprStr
    if isinstance(orig, str):
        want, n = ref_subst(orig, g)
        if not isinstance(new, str):
            return f'{path}: string leaf became {type(new).__name__}'
        if str(new) != want:
            return f'{path}: {orig!r} became {str(new)!r}, expected {want!r}'
        if n == 0 and type(new) is not str:
            return f'{path}: string without placeholder is no longer a plain str'
        if ast.literal_eval(repr(new)) != orig:
            return f'{path}: persistence repr {repr(new)} does not keep the placeholder form {orig!r}'
        if isinstance(new, ReprStr):
            for cp in (copy.copy(new), copy.deepcopy(new)):
                if repr(cp) != repr(new) or str(cp) != str(new):
                    return f'{path}: copy changes the substituted string: repr {repr(cp)} vs {repr(new)}'
            if new + 'z' != want + 'z' or len(new) != len(want) or hash(new) != hash(want) or new != want:
                return f'{path}: substituted string does not behave as the ordinary string'
        return None
    if type(orig) is list:
        if type(new) is not list or len(new) != len(orig):
            return f'{path}: list shape changed'
        for i, (a, b) in enumerate(zip(orig, new)):
            m = check_tree(a, b, g, f'{path}[{i}]')
            if m:
                return m
        return None
    if type(orig) is dict:
        if type(new) is not dict or list(new.keys()) != list(orig.keys()):
            return f'{path}: dict keys changed'
        for k in orig:
            m = check_tree(orig[k], new[k], g, f'{path}.{k}')
            if m:
                return m
        return None
    if type(orig) is not type(new) or orig != new:
        return f'{path}: non-string leaf {orig!r} changed to {new!r}'
    return None


class AttrMap(dict):
    def __getattr__(self, name):
        if name.startswith('_') or name not in self:
            raise AttributeError(name)
        return self[name]


def as_mappings(obj, kind):
    """the same structure with every mapping an instance of a subclass of dict (OrderedDict as yaml.Loader or
    programmatic data give them, an attribute-access dict)"""
    if not kind:
        return obj
    import collections
    cls = {'ordered': collections.OrderedDict, 'attr': AttrMap}[kind]
    if isinstance(obj, dict):
        return cls((k, as_mappings(v, kind)) for k, v in obj.items())
    if isinstance(obj, list):
        return [as_mappings(v, kind) for v in obj]
    return obj


def plain_mappings(obj, kind):
    """back to plain dicts; reports a mapping whose class was not kept"""
    if not kind:
        return obj, None
    import collections
    cls = {'ordered': collections.OrderedDict, 'attr': AttrMap}[kind]
    if isinstance(obj, dict):
        out, lost = {}, None if type(obj) is cls else f'a {cls.__name__} became {type(obj).__name__}'
        for k, v in obj.items():
            out[k], l2 = plain_mappings(v, kind)
            lost = lost or l2
        return out, lost
    if isinstance(obj, list):
        items = [plain_mappings(v, kind) for v in obj]
        return [i[0] for i in items], next((i[1] for i in items if i[1]), None)
    return obj, None


class Placeholders(Suite):
    name = 'search_and_replace_placeholders'
    imports = 'Value Placeholder'
    in_type = '(value * list (str * str))'
    out_type = 'value'
    eqb = 'value_eqb'
    model = '(fun c : value * list (str * str) => sr (of_map (snd c)) (fst c))'
    shard = 200

    def corpus(self):
        return [
            dict(obj='{X}/f', repl={'X': 'v'}, repl2={'X': 'w'}, mode='dict'),
            dict(obj=[''.join('{X}-{U%d}/' % i for i in range(12)), '{X}' * 17, '{X}' * 16 + '{Y}'], repl={'X': 'v', 'Y': 'w'}, repl2={'X': 'w'}, mode='dict'),
            dict(obj=['{X}{X}', {'k': ['a{Y}b', '{Z}', 1, None]}], repl={'X': 'v', 'Y': '{X}'}, repl2={'X': 'w'},
                 mode='dict'),
            dict(obj='{a\n}{X}', repl={'X': 1}, repl2={}, mode='attrs'),
            dict(obj='{{X}}', repl={'X': 'v', '{X': 'q'}, repl2={}, mode='dict'),
            dict(obj={'k': '{}'}, repl={'': 'empty'}, repl2={}, mode='dict'),
            dict(obj='}{', repl={}, repl2={}, mode='dict'),
            dict(obj=['{A}/x', {'k': '{B}{C}', 'u': '{D}'}], repl={'A': 'a', 'B': 'b', 'C': 3}, repl2={}, mode='class_attrs'),
            dict(obj={'k': ['{X}', {'m': {'n': 'a{X}'}}]}, repl={'X': 'v'}, repl2={}, mode='dict', mappings='ordered'),
            dict(obj=[{'k': '{X}'}], repl={'X': 'v'}, repl2={}, mode='attrs', mappings='attr'),
            # undefined names that happen to be attributes of every mapping (or of every object) stay as they are
            dict(obj=['SELECT {keys} FROM {DIR}/t', '{items}', '{DIR}/{values}.csv', {'k': '{get}{copy}{pop}{update}'}, '{__class__}{__doc__}'],
                 repl={'DIR': '/d'}, repl2={}, mode='dict'),
            dict(obj=['{keys}', '{values}'], repl={'values': 'defined'}, repl2={}, mode='dict'),
        ]

    def gen(self, rng, tier):
        out = []
        for _ in range(500 if tier == 'quick' else 12000):
            repl = rand_repl(rng)
            mode = rng.choice(['attrs', 'class_attrs']) if attr_ok(repl) and rng.random() < 0.5 else 'dict'
            out.append(dict(obj=rand_obj(rng, rng.choice([0, 1, 2, 3, 4])), repl=repl, repl2=rand_repl(rng), mode=mode))
            if rng.random() < 0.2:
                out[-1]['mappings'] = rng.choice(['ordered', 'attr'])
        return out

    def run_impl(self, case):
        from taskchain.utils.data import search_and_replace_placeholders
        obj = as_mappings(copy.deepcopy(case['obj']), case.get('mappings'))
        res = search_and_replace_placeholders(obj, to_replacements(case['repl'], case['mode']))
        res, lost = plain_mappings(res, case.get('mappings'))
        if lost:
            return dict(result=jvalue(res), coq=cvalue(copy.deepcopy(res)), problem=lost)
        self._last = res
        again = search_and_replace_placeholders(copy.deepcopy(res), to_replacements(case['repl2'], 'dict'))
        problem = check_tree(case['obj'], res, strs_of(case['repl']))
        if problem is None and jvalue(again) != jvalue(res):
            problem = 'applying the substitution again changed the result'
        if problem is None and jvalue(copy.deepcopy(res)) != jvalue(res):
            problem = 'deepcopy of the substituted structure differs (str or repr of a leaf)'
        # the model says copying is the identity: compare the model with a deep copy of the result
        return dict(result=jvalue(res), coq=cvalue(copy.deepcopy(res)), problem=problem)

    def encode(self, case, obs):
        i = cpair(cvalue(case['obj']), clist([cpair(cstr(k), cstr(str(v))) for k, v in case['repl'].items()]))
        return i, obs.get('coq', 'VNone' if 'unexpected_exception' not in obs else '(VUser (lit "exception"))')

    def oracle(self, case, obs):
        if 'unexpected_exception' in obs:
            return f'unexpected exception {obs["unexpected_exception"]}: {obs["text"]}'
        return obs['problem']

    def nontrivial(self, case, obs):
        return '{' in repr(case['obj']) and bool(case['repl'])

    def key(self, case):
        return repr(case)

    def distribution(self, cases, obs):
        d = dict(top_level_str=0, nested=0, with_match=0, attrs_mode=0, newline_cases=0)
        for c in cases:
            d['top_level_str' if isinstance(c['obj'], str) else 'nested'] += 1
            d['attrs_mode'] += c['mode'] == 'attrs'
            r = repr(c['obj'])
            d['with_match'] += any(ref_subst(s, {})[1] for s in _leaves(c['obj']))
            d['newline_cases'] += '\\n' in r
        return d


def _leaves(o):
    if isinstance(o, str):
        yield o
    elif isinstance(o, list):
        for x in o:
            yield from _leaves(x)
    elif isinstance(o, dict):
        for x in o.values():
            yield from _leaves(x)


class ConfigData(Suite):
    """Config(data, context, global_vars): context values and `uses` paths are substituted too."""
    name = 'config_global_vars'
    imports = 'Value Placeholder'
    in_type = '(value * list (str * str))'
    out_type = 'value'
    eqb = 'value_eqb'
    model = '(fun c : value * list (str * str) => sr (of_map (snd c)) (fst c))'
    shard = 200

    def corpus(self):
        return [dict(data={'p': '{X}/a', 'uses': ['{X}/c.json as n'], 'q': [1, '{Y}']}, ctx={'r': '{X}', 'p': 'z{Y}'},
                     repl={'X': 'dir', 'Y': 'w'}, mode='dict')] + \
               [dict(data={'p': '{X}/a', 'q': [1, '{Y}', {'k': 'a{X}b{Z}'}]}, ctx={'r': '{X}'}, repl={'X': 'dir', 'Y': 'w'}, mode=m)
                for m in ('falsy_attrs', 'falsy_mapping', 'config_object')] + \
               [dict(data={'cmd': ' '.join('--o%d={V%d}' % (i, i % 5) for i in range(n)), 'p': ['{V1}' * n]}, ctx=None,
                     repl={'V0': 'a', 'V1': 'b', 'V3': 3}, mode='dict') for n in (16, 17, 40)]

    def gen(self, rng, tier):
        out = []
        for _ in range(150 if tier == 'quick' else 3000):
            data = {f'p{i}': rand_obj(rng, rng.choice([0, 1, 2])) for i in range(rng.choice([1, 2, 3]))}
            if rng.random() < 0.5:
                data['uses'] = rng.choice(['{X}/a.json', ['{X}/a.json as {Y}', 'b.json']])
            ctx = None
            if rng.random() < 0.6:
                ctx = {rng.choice(['p0', 'p1', 'c0', 'c1']): rand_obj(rng, rng.choice([0, 1])) for _ in range(2)}
            repl = rand_repl(rng)
            mode = rng.choice(['attrs', 'class_attrs']) if attr_ok(repl) and rng.random() < 0.5 else 'dict'
            out.append(dict(data=data, ctx=ctx, repl=repl, mode=mode))
        return out

    def merged(self, case):
        d = copy.deepcopy(case['data'])
        if case['ctx'] is not None:
            d.update(copy.deepcopy(case['ctx']))
        return d

    def run_impl(self, case):
        from taskchain import Config
        cfg = Config('/nonexistent-base', name='cfg', data=copy.deepcopy(case['data']),
                     context=copy.deepcopy(case['ctx']), global_vars=to_replacements(case['repl'], case['mode']))
        res = cfg.data
        problem = check_tree(self.merged(case), res, strs_of(case['repl']))
        cp = copy.deepcopy(cfg)
        if problem is None and jvalue(cp.data) != jvalue(res):
            problem = 'deepcopy of the config changes str or repr of a substituted value'
        return dict(result=jvalue(res), coq=cvalue(cp.data), problem=problem)

    def encode(self, case, obs):
        i = cpair(cvalue(self.merged(case)), clist([cpair(cstr(k), cstr(str(v))) for k, v in case['repl'].items()]))
        return i, obs.get('coq', '(VUser (lit "exception"))')

    def oracle(self, case, obs):
        if 'unexpected_exception' in obs:
            return f'unexpected exception {obs["unexpected_exception"]}: {obs["text"]}'
        return obs['problem']

    def nontrivial(self, case, obs):
        return '{' in repr(case['data']) + repr(case['ctx']) and bool(case['repl'])

    def key(self, case):
        return repr(case)


class UsesPaths(Suite):
    """placeholders inside `tasks` entries and inside `uses` paths of configs and of contexts, in every accepted form (one string or a list,
    with or without ` as <namespace>`, one or two levels deep): the file named after substitution is the one that
    is used (runtime check with real files; the functional model covers the substitution itself)"""
    name = 'uses_paths'
    model = ''

    def gen(self, rng, tier):
        return ([dict(kind=k, form=f, ns=n, depth=d) for k in ('config', 'context') for f in ('scalar', 'list')
                 for n in (False, True) for d in (1, 2)] +
                [dict(kind='tasks', form=f, ns=False, depth=d) for f in ('scalar', 'list') for d in (1, 2)] +
                # the namespace after `as` is a placeholder, or one placeholder supplies the whole entry
                [dict(kind=k, form=f, ns=True, depth=1, spell=sp) for k in ('config', 'context') for f in ('scalar', 'list')
                 for sp in ('ns_placeholder', 'whole_entry')])

    def run_impl(self, case):
        import json as _json
        import shutil
        import tempfile
        from pathlib import Path
        from taskchain import Config
        from .. import pipeline as pl
        from ..suites_chain import K, P, CONSTRUCTION_ERRORS
        tmp = Path(tempfile.mkdtemp(prefix='tcverif-c11-'))
        classes = [dict(K(0, 'Leaf', params=[P('x')]), name='leaf')]
        mod = pl.make_module(classes)
        try:
            sub = tmp / 'sub dir'
            sub.mkdir()
            ns = ' as n' if case['ns'] else ''

            def wrap(ref):
                return ref if case['form'] == 'scalar' else [ref]
            gv = {'DIR': str(sub), 'NAME': 'inner', 'NS': 'n', 'CTX_ENTRY': f'{sub}/ctx.json as n', 'CFG_ENTRY': f'{sub}/mid.json as n'}
            return self.build(case, tmp, sub, mod, wrap, ns, gv)
        finally:
            pl.drop_module(mod)
            shutil.rmtree(tmp, ignore_errors=True)

    def build(self, case, tmp, sub, mod, wrap, ns, gv):
        import json as _json
        from taskchain import Config
        from .. import pipeline as pl
        try:
            if case['kind'] == 'tasks':
                # the import string of the task (depth 2: a wildcard over the module) is written with a placeholder
                gv = dict(gv, MOD=mod)
                ref = '{MOD}.Leaf' if case['depth'] == 1 else '{MOD}.*'
                cfg = Config(tmp / 'data', name='main', data={'tasks': wrap(ref), 'x': 5}, global_vars=gv)
            elif case['kind'] == 'config':
                # main -> {DIR}/mid.json [as n] (-> {DIR}/{NAME}.json when depth 2) declares the task with x = 5
                leaf_doc = {'tasks': [f'{mod}.Leaf'], 'x': 5}
                if case['depth'] == 2:
                    (sub / 'inner.json').write_text(_json.dumps(leaf_doc))
                    (sub / 'mid.json').write_text(_json.dumps({'uses': wrap('{DIR}/{NAME}.json')}))
                else:
                    (sub / 'mid.json').write_text(_json.dumps(leaf_doc))
                entry = {'ns_placeholder': '{DIR}/mid.json as {NS}', 'whole_entry': '{CFG_ENTRY}'}.get(case.get('spell'), '{DIR}/mid.json' + ns)
                cfg = Config(tmp / 'data', name='main', data={'uses': wrap(entry)}, global_vars=gv)
            else:
                # the config declares x = 0; the context uses {DIR}/ctx.json [as n] (-> {DIR}/{NAME}.json) which sets x = 5
                val = {'x': 5}
                if case['depth'] == 2:
                    (sub / 'inner.json').write_text(_json.dumps(val))
                    (sub / 'ctx.json').write_text(_json.dumps({'uses': wrap('{DIR}/{NAME}.json')}))
                else:
                    (sub / 'ctx.json').write_text(_json.dumps(val))
                (sub / 'leafcfg.json').write_text(_json.dumps({'tasks': [f'{mod}.Leaf'], 'x': 0}))
                data = {'uses': str(sub / 'leafcfg.json') + ns}
                entry = {'ns_placeholder': '{DIR}/ctx.json as {NS}', 'whole_entry': '{CTX_ENTRY}'}.get(case.get('spell'), '{DIR}/ctx.json' + ns)
                cfg = Config(tmp / 'data', name='main', data=data, context={'uses': wrap(entry)}, global_vars=gv)
            chain = cfg.chain()
            name = ('n::' if case['ns'] else '') + 'leaf'
            return dict(x=pl.to_spec(chain[name].params.x), tasks=sorted(chain.tasks))
        except Exception as e:
            return dict(error=type(e).__name__, text=str(e)[:160])

    def oracle(self, case, obs):
        if 'unexpected_exception' in obs:
            return f'unexpected exception {obs["unexpected_exception"]}: {obs["text"]}'
        if 'error' in obs:
            return (f'{case}: a `uses` path / `tasks` entry with placeholders defined in global_vars is not followed: '
                    f'{obs["error"]}: {obs["text"]}')
        if obs['x'] != 5:
            return f'{case}: the task sees x={obs["x"]!r}; the file named by the substituted `uses` path sets x=5'
        return None

    def nontrivial(self, case, obs):
        return True

    def key(self, case):
        return repr(case)


class UsedConfigObjects(Suite):
    """a Config object that was made with global_vars and is then listed in `uses` of another config which carries a
    context: the context values the used config receives afterwards - at the top level, nested, under its namespace -
    are substituted with its global_vars like its own values, and so are the values of the using config.  The objects
    are made afresh for every chain.  Runtime check only."""
    name = 'used_config_objects'
    model = ''

    def gen(self, rng, tier):
        return [dict(ns=n, where=w, inner_gv=g) for n in (None, 'sub') for w in ('top', 'nested', 'for_namespace')
                for g in ('same', 'own') if not (w == 'for_namespace' and n is None)]

    def run_impl(self, case):
        from pathlib import Path
        from taskchain import Config
        from .. import pipeline as pl
        from ..suites_chain import K, P
        classes = [dict(K(0, 'Leaf', params=[P('own'), P('given', default=[None])]), name='leaf')]
        with pl.workspace(dict(classes=classes, files={})) as (d, mod):
            outer_gv = {'DIR': '/data', 'N': 'seven'}
            inner_gv = dict(outer_gv) if case['inner_gv'] == 'same' else {'DIR': '/inner', 'N': 'eight'}
            used = Config(Path('data'), name='used', namespace=case['ns'], data={'tasks': [f'{mod}.Leaf'], 'own': ['{DIR}/own', {'k': '{N}'}]},
                          global_vars=inner_gv)
            value = {'top': '{DIR}/from_context', 'nested': {'k': ['{DIR}/from_context', '{N}']}, 'for_namespace': '{DIR}/from_context'}[case['where']]
            ctx = {'for_namespaces': {case['ns']: {'given': value}}} if case['where'] == 'for_namespace' else {'given': value}
            main = Config(Path('data'), name='main', data={'uses': [used]}, context=ctx, global_vars=outer_gv)
            ch = main.chain()
            t = ch[(case['ns'] + '::' if case['ns'] else '') + 'leaf']
            return dict(own=pl.to_spec(t.params['own']), given=pl.to_spec(t.params['given']), inner=inner_gv)

    def oracle(self, case, obs):
        if 'unexpected_exception' in obs:
            return f'unexpected exception {obs["unexpected_exception"]}: {obs["text"]}'
        plain = lambda v: (v['__reprstr__'][0] if isinstance(v, dict) and '__reprstr__' in v else
                           [plain(x) for x in v] if isinstance(v, list) else {k: plain(x) for k, x in v.items()} if isinstance(v, dict) else v)
        g = obs['inner']
        want_own = [f'{g["DIR"]}/own', {'k': g['N']}]
        if plain(obs['own']) != want_own:
            return f'{case}: the used config\'s own value is {plain(obs["own"])}, with its global_vars it is {want_own}'
        got = plain(obs['given'])
        # the value that came from the context is substituted: with the used config's variables (it is prepared again
        # with the context it was handed) - or, already by the using config's context, with the using config's
        ok = []
        for gv in (g, {'DIR': '/data', 'N': 'seven'}):
            ok.append({'top': f'{gv["DIR"]}/from_context', 'nested': {'k': [f'{gv["DIR"]}/from_context', gv['N']]},
                       'for_namespace': f'{gv["DIR"]}/from_context'}[case['where']])
        if got not in ok:
            return f'{case}: the value the used config received from the context is {got}; substituted it is {ok[0]}'
        return None

    def nontrivial(self, case, obs):
        return True

    def key(self, case):
        return repr(case)


PARAMFORMS_SRC = """
from pathlib import Path
from taskchain import Task, Parameter

class Abc(Task):
    class Meta:
        parameters = [Parameter('plain'), Parameter('path', dtype=Path), Parameter('text', dtype=str), Parameter('items', dtype=list)]
    def run(self, plain, path, text, items) -> dict:
        return {'plain': [type(plain).__name__, str(plain)], 'path': [type(path).__name__, str(path)],
                'text': [type(text).__name__, str(text)], 'items': [str(x) for x in items]}
"""


class ParameterForms(Suite):
    """parameters of every declared type - untyped, str, Path, list - whose configured value holds a placeholder, also
    values that begin with `~` (a home directory, left as it is by the library): the task receives the substituted value
    (a Path for a Path parameter), the text of the parameter in the key is the source text, and the key is the same under
    other values of global_vars.  Runtime check only."""
    name = 'parameter_forms'
    model = ''
    VALUES = ['{D}/images', '~/{D}/images', '~{D}', '~/plain', 'pre-{D}', "it's {D}"]

    def gen(self, rng, tier):
        return [dict(value=v) for v in self.VALUES]

    def run_impl(self, case):
        import sys, types
        from pathlib import Path
        from taskchain import Config
        from .. import pipeline as pl
        with pl.workspace(dict(classes=[], files={})) as (d, _):
            name = 'tcv_paramforms'
            m = types.ModuleType(name)
            sys.modules[name] = m
            try:
                exec(compile(PARAMFORMS_SRC, name, 'exec'), m.__dict__)
                out = []
                for dv in ('set_a', 'other'):
                    v = case['value']
                    cfg = Config(Path('data'), name='c', data={'tasks': [f'{name}.Abc'], 'plain': v, 'path': v, 'text': v, 'items': [v, 1]},
                                 global_vars={'D': dv})
                    t = cfg.chain()['abc']
                    # what run would receive (the stored result of the first config is what the second one loads: one key)
                    seen = {k: t.params[k] for k in ('plain', 'path', 'text', 'items')}
                    value = {k: ([str(x) for x in v] if k == 'items' else [type(v).__name__, str(v)]) for k, v in seen.items()}
                    out.append(dict(text=t.params.repr, key=t.name_for_persistence, value=value))
                return dict(runs=out)
            finally:
                sys.modules.pop(name, None)

    def oracle(self, case, obs):
        import re
        if 'unexpected_exception' in obs:
            return f'unexpected exception {obs["unexpected_exception"]}: {obs["text"]}'
        s = case['value']
        matched = bool(re.search(r'{(.*?)}', s))
        one = repr(s) if matched else f"'{s}'"
        want_text = f"items=[{one}, 1]###path={s!r}###plain={one}###text={one}"
        for dv, o in zip(('set_a', 'other'), obs['runs']):
            sub = s.replace('{D}', dv)
            want_value = {'plain': ['ReprStr' if matched else 'str', sub], 'path': ['PosixPath', str(__import__('pathlib').Path(sub))],
                          'text': ['ReprStr' if matched else 'str', sub], 'items': [sub, '1']}
            if o['value'] != want_value:
                return f'{case} with D={dv}: the task received {o["value"]}, expected {want_value}'
            if o['text'] != want_text:
                return f'{case} with D={dv}: the text of the parameters in the key is {o["text"]!r}, the source text gives {want_text!r}'
        if obs['runs'][0]['key'] != obs['runs'][1]['key']:
            return f'{case}: the key differs between two values of the placeholder'
        return None

    def nontrivial(self, case, obs):
        return True

    def key(self, case):
        return repr(case)


class C11(Prop):
    pid = 'C11'
    suites = [Placeholders(), ConfigData(), UsesPaths(), ContextReuse(), UsedConfigObjects(), ParameterForms()]
    trusted_base = ["Python's re for the single pattern r'{(.*?)}' is modelled by an explicit scanner; "
                    'the correspondence compares them on brace/newline-heavy strings']
    assumptions = ['global_vars values are rendered with str(); attribute-object global_vars use identifier names '
                   'that are not dunder attributes']


PROP = C11()
