"""C18 - run records describe the run that produced the stored result."""
import json
from pathlib import Path

from ..core import Prop, Suite
from ..suites_hist import Histories, history_oracle, chain_obs, reference_chains
from .. import pipeline as pl


def records_oracle(case, obs):
    from ..gen_pipeline import ref_keys
    from .. import oracle_frozen as fz
    steps = obs.get('steps', [])
    refs = reference_chains(case, steps)
    for k, s in enumerate(steps):
        op = s['op']
        if op['op'] != 'records' or s['out'] == 'error' or isinstance(s['out'], dict):
            continue
        ri, tokens = s['out'][1]['records']
        t = chain_obs(steps, k, op['chain'], op['name'])
        if t is None:
            continue
        if tokens is not None and len(tokens) > 1:
            return f'step {k}: the log of {op["name"]} holds the messages of more than one run: {s["out"][1]["raw_log"]}'
        if tokens is not None and tokens and tokens != [f'token:{t["slug"]}']:
            return f'step {k}: the log of {op["name"]} holds foreign messages: {tokens}'
        raw = s['out'][1].get('raw_log') or []
        if any('\\x00' in l for l in raw):
            return f'step {k}: the log of {op["name"]} is padded with NUL bytes (written through a stale handler)'
        if ri is None:
            continue
        if ri['task'] != t['slug']:
            return f'step {k}: run info of {op["name"]} names task {ri["task"]}'
        # the config it came from: `<config name>/<task>`, the config name with its `#part` - the config of one of the chains
        # of this history that hold this computation (whichever of them ran it)
        if t.get('cfg'):
            owners = set()
            for s2 in steps:
                if s2['op']['op'] in ('build', 'multi') and s2['out'] != 'error' and not isinstance(s2['out'], dict):
                    body = s2['out'][1]
                    for ch in ([body['chain']] if 'chain' in body else body.get('chains', [])):
                        for t2 in (ch or {}).get('tasks', {}).values():
                            if t2.get('slug') == t['slug'] and t2.get('key') == t['key'] and t2.get('cfg'):
                                owners.add(t2['cfg'])
            if str((ri.get('config') or {}).get('name', '')).split('/')[0] not in owners:
                return (f'step {k}: run info of {op["name"]} names the config {ri.get("config")}; the chains that hold this computation '
                        f'come from the configs {sorted(owners)}')
        log = ri['log']
        if log is not None:
            if not (isinstance(log, list) and len(log) == 2 and isinstance(log[0], dict) and set(log[0]) == {'inputs', 'run'}
                    and log[1] == 'second'):
                return (f'step {k}: the records of {op["name"]} are {log}; its run adds exactly two records '
                        f'(records of other runs are present, or records are missing)')
            # which run wrote the record: the ordinal it carries must fall into the latest step in which this
            # location was run (when that step succeeded), and into some such step in any case
            loc = f'{t["slug"]}#{t["key"]}'
            total, windows = 0, []
            for s2 in steps[:k + 1]:
                n_runs = len(s2['runs'])
                if loc in s2['runs']:
                    windows.append((total, total + n_runs, s2['out'] != 'error'))
                total += n_runs
            no = log[0]['run']
            if windows:
                lo, hi, ok = windows[-1]
                if ok and not lo < no <= hi:
                    return (f'step {k}: the record of {op["name"]} is the one of run number {no}; its latest run is among runs '
                            f'{lo + 1}..{hi} of this history - the record describes an earlier run')
                if not any(a < no <= b for a, b, _ in windows):
                    return f'step {k}: the record of {op["name"]} carries run number {no}, which is no run of this task ({windows})'
        chains = refs[k]
        ref = chains[op['chain']] if op['chain'] < len(chains) else None
        if ref is None or op['name'] not in ref:
            continue
        e = ref[op['name']]
        keys = ref_keys(ref)
        if True:
            # a task object shared by several namespaces records the names of the namespace it ran in:
            # compare the keys per local input name
            want_inputs = {n.split('::')[-1]: keys[v['task']] for n, v in e['inputs'].items() if 'task' in v}
            if {n.split('::')[-1]: k2 for n, k2 in ri['input_tasks'].items()} != want_inputs:
                return f'step {k}: run info of {op["name"]} lists input keys {ri["input_tasks"]}, the chain has {want_inputs}'
            # one entry per input: inputs of the same local name under different namespaces are all there
            all_keys = sorted(keys[v['task']] for v in e['inputs'].values() if 'task' in v)
            if sorted(ri['input_tasks'].values()) != all_keys:
                return (f'step {k}: run info of {op["name"]} lists the input keys {ri["input_tasks"]}; its inputs '
                        f'{sorted(n for n, v in e["inputs"].items() if "task" in v)} have the keys {all_keys}')
            for d, v, fd in e['bound']:
                if d['ignore'] or d['dropdef']:
                    continue
                txt = fz.param_text(dict(d, ignore=False, dropdef=False), v, fd)
                if ri['parameters'].get(d['name']) != txt[len(d['name']) + 1:]:
                    return (f'step {k}: run info of {op["name"]} records {d["name"]}={ri["parameters"].get(d["name"])!r}, '
                            f'the value used is {txt[len(d["name"]) + 1:]!r}')
            if set(ri['parameters']) != {d['name'] for d, _, _ in e['bound']}:
                return f'step {k}: run info of {op["name"]} records parameters {sorted(ri["parameters"])}, declared: {sorted(d["name"] for d, _, _ in e["bound"])}'
    return None


class Records(Histories):
    name = 'record_histories'
    mix = 'records'
    checks = ('values',)

    def corpus(self):
        from ..suites_chain import K, P
        base = {'name': 'm', 'data': {'tasks': ['@M.*'], 'a': 1, 'skip': 'x'}}
        c = dict(classes=[K(0, 'Up', params=[P('a'), P('skip', ignore=True)]), K(1, 'Down', meta_inputs=[{'cls': 0}])],
                 files={}, base=base, context=None)
        c['ops'] = [{'op': 'build', 'base': base}, {'op': 'fail', 'slugs': ['up']}, {'op': 'value', 'chain': 0, 'pick': 1},
                    {'op': 'records', 'chain': 0, 'pick': 0}, {'op': 'records', 'chain': 0, 'pick': 1},
                    {'op': 'fail', 'slugs': []}, {'op': 'value', 'chain': 0, 'pick': 1},
                    {'op': 'records', 'chain': 0, 'pick': 0}, {'op': 'records', 'chain': 0, 'pick': 1},
                    {'op': 'force_chain', 'chain': 0, 'picks': [0], 'recompute': True, 'delete': False},
                    {'op': 'records', 'chain': 0, 'pick': 0}, {'op': 'records', 'chain': 0, 'pick': 1}]
        # the same history with a task whose result is kept in memory only (it still logs and writes run info)
        m = dict(c, classes=[K(0, 'Up', params=[P('a'), P('skip', ignore=True)], data='memory'),
                             K(1, 'Down', meta_inputs=[{'cls': 0}], data='memory')])
        # one task object run several times: forced twice, and retried after a failure, on one chain
        r = dict(c)
        r['ops'] = [{'op': 'build', 'base': base}, {'op': 'value', 'chain': 0, 'pick': 1},
                    {'op': 'force_chain', 'chain': 0, 'picks': [1], 'recompute': True, 'delete': False},
                    {'op': 'records', 'chain': 0, 'pick': 1},
                    {'op': 'force_task', 'chain': 0, 'pick': 0, 'delete': False}, {'op': 'fail', 'slugs': ['up']},
                    {'op': 'value', 'chain': 0, 'pick': 0}, {'op': 'fail', 'slugs': []},
                    {'op': 'value', 'chain': 0, 'pick': 0}, {'op': 'records', 'chain': 0, 'pick': 0},
                    {'op': 'force_chain', 'chain': 0, 'picks': [0], 'recompute': True, 'delete': True},
                    {'op': 'records', 'chain': 0, 'pick': 0}, {'op': 'records', 'chain': 0, 'pick': 1}]
        # the record is read on the SAME task object between a failed forced run and the successful retry
        q = dict(c)
        q['ops'] = [{'op': 'build', 'base': base}, {'op': 'value', 'chain': 0, 'pick': 0}, {'op': 'records', 'chain': 0, 'pick': 0},
                    {'op': 'force_task', 'chain': 0, 'pick': 0, 'delete': False}, {'op': 'fail', 'slugs': ['up']},
                    {'op': 'value', 'chain': 0, 'pick': 0}, {'op': 'records', 'chain': 0, 'pick': 0},
                    {'op': 'fail', 'slugs': []}, {'op': 'value', 'chain': 0, 'pick': 0},
                    {'op': 'records', 'chain': 0, 'pick': 0}, {'op': 'build', 'base': base},
                    {'op': 'records', 'chain': 1, 'pick': 0}]
        # one pipeline mounted as `base` below the pipeline that continues it: dataset <- pseudolabels <- base::model <-
        # base::dataset; the inner instances of the classes run while the outer ones are running
        n = dict(classes=[dict(K(0, 'Dataset', param_inputs=[dict(ref={'name': 'pseudolabels'}, default=[0])]), name='dataset'),
                          dict(K(1, 'Model', meta_inputs=[{'cls': 0}]), name='model'),
                          dict(K(2, 'Pseudo', meta_inputs=[{'name': 'base::model'}]), name='pseudolabels')],
                 files={'round1.json': {'tasks': ['@M.Dataset', '@M.Model']}},
                 base={'name': 'round2', 'data': {'tasks': ['@M.*'], 'uses': 'round1.json as base'}}, context=None)
        n['ops'] = [{'op': 'build', 'base': n['base']}, {'op': 'value', 'chain': 0, 'pick': 4}] + \
                   [{'op': 'records', 'chain': 0, 'pick': k} for k in range(5)]
        # two inputs of one local name under two namespaces: the record names both
        tv = dict(classes=[dict(K(0, 'Dataset', params=[P('size')]), name='dataset'),
                           dict(K(1, 'Model', meta_inputs=[{'name': 'train::dataset'}, {'name': 'valid::dataset'}]), name='model')],
                  files={'d.json': {'tasks': ['@M.Dataset'], 'size': 0}},
                  base={'name': 'main', 'data': {'tasks': ['@M.Model'], 'uses': ['d.json as train', 'd.json as valid']}},
                  context={'dict': {'for_namespaces': {'train': {'size': 1}, 'valid': {'size': 2}}}})
        # (task order of the chain: train::dataset, valid::dataset, model)
        tv['ops'] = [{'op': 'build', 'base': tv['base']}, {'op': 'value', 'chain': 0, 'pick': 2}] + \
                    [{'op': 'records', 'chain': 0, 'pick': k} for k in range(3)] + \
                    [{'op': 'force_chain', 'chain': 0, 'picks': [2], 'recompute': True, 'delete': False}, {'op': 'records', 'chain': 0, 'pick': 2}]
        # parts of a multi-config file: named explicitly, chosen as the main part, used by another config
        mp = []
        for b, files in (({'file': 'multi.json#large'}, {}), ({'file': 'multi.json'}, {}),
                         ({'name': 'top', 'data': {'uses': ['multi.json#small as s', 'multi.json as l']}}, {})):
            one = dict(classes=[dict(K(0, 'Up', params=[P('a')]), name='up'), dict(K(1, 'Down', meta_inputs=[{'cls': 0}]), name='down')],
                       files={'multi.json': {'configs': {'small': {'tasks': ['@M.*'], 'a': 1}, 'large': {'tasks': ['@M.*'], 'a': 2, 'main_part': True}}}},
                       base=b, context=None)
            n_tasks = 4 if 'data' in b else 2
            one['ops'] = [{'op': 'build', 'base': b}] + [{'op': 'value', 'chain': 0, 'pick': k} for k in range(n_tasks)] + \
                         [{'op': 'records', 'chain': 0, 'pick': k} for k in range(n_tasks)]
            mp.append(one)
        # the same with equal settings: the two inputs are one computation, and still two inputs
        tw = dict(tv, context=None)
        # configurations of the chain-construction corpus marked for it (task classes derived from one another): every task
        # runs, base classes first, then the records are read
        from ..suites_chain import ChainBuild
        extra = []
        for c0 in ChainBuild().corpus():
            if c0.get('records'):
                c1 = {k: v for k, v in c0.items() if k not in ('hist', 'records')}
                n_tasks = len(c0['classes'])
                c1['ops'] = [{'op': 'build', 'base': c0['base']}] + [{'op': 'value', 'chain': 0, 'pick': k} for k in range(n_tasks)] + \
                            [{'op': 'records', 'chain': 0, 'pick': k} for k in range(n_tasks)]
                extra.append(c1)
        return [c, m, r, q, n, tv, tw] + mp + extra

    def oracle(self, case, obs):
        return records_oracle(case, obs) or history_oracle(case, obs, self.checks)


BODY_SRC = '''
from typing import Generator
from taskchain import Task, Parameter, DirData
from taskchain.data import InMemoryData
from taskchain.task import ModuleTask

STATE = {'n': 0}

def _tick(task):
    STATE['n'] += 1
    STATE[task.slugname] = STATE['n']
    return STATE['n']

class Plain(Task):
    class Meta:
        parameters = [Parameter('k')]
    def run(self, k) -> dict:
        n = _tick(self)
        self.logger.info(f'tok {n} first')
        self.save_to_run_info({'r': n, 'i': 0})
        self.logger.info(f'tok {n} second')
        self.save_to_run_info(f'rec {n}')
        for falsy in (0, '', [], None, False, 0.0, {}):
            self.save_to_run_info(falsy)
        return {'n': n}

class Ign(Task):               # a parameter that does not enter the storage key
    class Meta:
        parameters = [Parameter('k'), Parameter('skip', ignore_persistence=True), Parameter('opt', default=1, dont_persist_default_value=True)]
    def run(self, k, skip, opt) -> dict:
        n = _tick(self)
        self.logger.info(f'tok {n} first')
        self.save_to_run_info({'r': n, 'i': 0})
        self.logger.info(f'tok {n} second')
        self.save_to_run_info(f'rec {n}')
        return {'n': n, 'skip': skip}

class FreshData(InMemoryData):
    pass

class Fresh(Task):             # run returns a NEW data object instead of filling the one the task holds
    class Meta:
        parameters = [Parameter('k')]
    def run(self, k) -> FreshData:
        n = _tick(self)
        self.logger.info(f'tok {n} first')
        self.save_to_run_info({'r': n, 'i': 0})
        self.logger.info(f'tok {n} second')
        self.save_to_run_info(f'rec {n}')
        d = FreshData()
        d.set_value({'n': n})
        return d

class Fragile(Task):           # from its second run on the result cannot be stored (a set inside the mapping)
    class Meta:
        parameters = [Parameter('k')]
    def run(self, k) -> dict:
        n = _tick(self)
        self.logger.info(f'tok {n} first')
        self.save_to_run_info({'r': n, 'i': 0})
        self.logger.info(f'tok {n} second')
        self.save_to_run_info(f'rec {n}')
        return {'n': n} if STATE.get('fragile_ok', True) else {'n': {n}}

class Gen(Task):
    class Meta:
        parameters = [Parameter('k')]
    def run(self, k) -> Generator:
        n = _tick(self)
        self.logger.info(f'tok {n} before')
        self.save_to_run_info({'r': n, 'i': 0})
        for i in range(k):
            self.logger.info(f'tok {n} item {i}')
            yield {'i': i}
        self.logger.info(f'tok {n} after')
        self.save_to_run_info(f'rec {n}')

class Dirs(Task):
    class Meta:
        parameters = [Parameter('k')]
    def run(self, k) -> DirData:
        n = _tick(self)
        d = self.get_data_object()
        self.logger.info(f'tok {n} first')
        (d.dir / 'f.txt').write_text(str(n))
        self.save_to_run_info({'r': n, 'i': 0})
        self.logger.info(f'tok {n} second')
        self.save_to_run_info(f'rec {n}')
        return d

class Down(Task):
    class Meta:
        input_tasks = ['plain', 'gen']
    def run(self) -> dict:
        n = _tick(self)
        self.logger.info(f'tok {n} first')
        vals = {name: (list(t.value) if name == 'gen' else str(t.value)) for name, t in self.input_tasks.items()}
        self.logger.info(f'tok {n} second')
        self.save_to_run_info({'r': n, 'i': 0})
        self.save_to_run_info(f'rec {n}')
        return {'n': n}
'''

EXPECT = {'plain': ['first', 'second'], 'dirs': ['first', 'second'], 'down': ['first', 'second']}


class RunBodies(Suite):
    """hand-written run bodies - plain, a generator function (its body runs while the result is stored), a directory
    task, a task that requests its inputs in the middle of run: after every successful run (first, forced, in a new
    chain after deletion) the log holds the messages of that run, all of them, in order, and nothing else; run info
    holds its records in order.  Runtime check only."""
    name = 'run_bodies'
    model = ''

    def gen(self, rng, tier):
        out = []
        for shape in ('plain', 'gen', 'dirs', 'down'):
            for k in (0, 1, 3):
                for hist in ('once', 'forced', 'forced_twice', 'new_chain_forced'):
                    out.append(dict(shape=shape, k=k, hist=hist))
        # a forced run whose value cannot be stored: the stored result, and the record, stay those of the earlier run
        out += [dict(shape='fragile', k=0, hist=h) for h in ('forced_unsavable', 'unsavable_then_ok')]
        # the same location recomputed by a chain whose config differs in parameters outside the key only
        out += [dict(shape='ign', k=0, hist=h) for h in ('other_config_forced', 'other_config_new_process_value')]
        # a task whose run returns a new data object, run again in the same process
        out += [dict(shape='fresh', k=k, hist=h) for k in (0, 1) for h in ('once', 'forced', 'forced_twice', 'new_chain_forced')]
        return out

    def run_impl(self, case):
        import importlib, sys, types
        from taskchain import Config
        from .. import pipeline as pl
        with pl.workspace(dict(classes=[], files={})) as (d, _):
            name = 'tcv_bodies'
            m = types.ModuleType(name)
            sys.modules[name] = m
            try:
                exec(compile(BODY_SRC, name, 'exec'), m.__dict__)
                cls = {'plain': ['Plain'], 'gen': ['Gen'], 'dirs': ['Dirs'], 'down': ['Plain', 'Gen', 'Down'],
                       'fragile': ['Fragile'], 'ign': ['Ign'], 'fresh': ['Fresh']}[case['shape']]
                if case['shape'] == 'ign':
                    def chain_with(skip, opt):
                        data = {'tasks': [f'{name}.Ign'], 'k': 0, 'skip': skip}
                        if opt is not None:
                            data['opt'] = opt
                        return Config(Path('data'), name='c', data=data).chain()
                    a = chain_with('first', None)['ign']
                    _ = a.value
                    b = chain_with('second', 1)['ign']
                    same_location = a.data_path == b.data_path
                    b.force()
                    _ = b.value
                    t = chain_with('second', 1)['ign']
                    return dict(ign=True, same_location=same_location, parameters=(t.run_info or {}).get('parameters'),
                                records=(t.run_info or {}).get('log'), last=m.STATE['ign'], value=t.value)
                def chain():
                    return Config(Path('data'), name='c', data={'tasks': [f'{name}.{c}' for c in cls], 'k': case['k']}).chain()
                tname = {'plain': 'plain', 'gen': 'gen', 'dirs': 'dirs', 'down': 'down', 'fragile': 'fragile', 'fresh': 'fresh'}[case['shape']]
                if case['shape'] == 'fragile':
                    ch = chain()
                    first_value = ch[tname].value
                    m.STATE['fragile_ok'] = False
                    ch.force(tname)
                    try:
                        _ = ch[tname].value
                        failed = None
                    except Exception as e:
                        failed = type(e).__name__
                    stored_run = 1
                    if case['hist'] == 'unsavable_then_ok':
                        m.STATE['fragile_ok'] = True
                        ch = chain()
                        ch.force(tname)
                        _ = ch[tname].value
                        stored_run = m.STATE[tname]
                    t = chain()[tname]
                    return dict(fragile=True, failed=failed, stored_run=stored_run, value=t.value, records=(t.run_info or {}).get('log'),
                                log=t.log, last=m.STATE[tname])
                ch = chain()
                def consume(t):
                    v = t.value
                    return list(v) if tname == 'gen' else None
                consume(ch[tname])
                rounds = {'once': 0, 'forced': 1, 'forced_twice': 2, 'new_chain_forced': 1}[case['hist']]
                for _ in range(rounds):
                    if case['hist'] == 'new_chain_forced':
                        ch = chain()
                    ch.force(tname)
                    consume(ch[tname])
                t = chain()[tname]
                return dict(log=t.log, records=(t.run_info or {}).get('log'), last=m.STATE[tname],
                            others={n: chain()[n].log for n in chain().tasks if n != tname})
            finally:
                sys.modules.pop(name, None)

    def oracle(self, case, obs):
        if 'unexpected_exception' in obs:
            return f'unexpected exception {obs["unexpected_exception"]}: {obs["text"]}'
        if obs.get('ign'):
            n = obs['last']
            if not obs['same_location']:
                return f'{case}: a parameter excluded from persistence moved the result'
            p = obs['parameters'] or {}
            if p.get('skip') != repr('second') or p.get('opt') != repr(1) or p.get('k') != repr(0):
                return (f'{case}: the record of the latest run (skip=\'second\', opt=1, k=0) lists the parameters {p}: '
                        f'the representation of every parameter value USED by that run')
            if json.dumps(obs['records'], sort_keys=True) != json.dumps([{'r': n, 'i': 0}, f'rec {n}'], sort_keys=True):
                return f'{case}: the records after the latest run (number {n}) are {obs["records"]}'
            return None
        if obs.get('fragile'):
            r = obs['stored_run']
            if obs['failed'] is None:
                return f'{case}: storing a mapping that holds a set did not fail'
            if obs['value'] != {'n': r}:
                return f'{case}: a new chain loads {obs["value"]}; the stored result is the one of run {r}'
            if json.dumps(obs['records'], sort_keys=True) != json.dumps([{'r': r, 'i': 0}, f'rec {r}'], sort_keys=True):
                return (f'{case}: the stored result is the one of run {r}, the run record holds {obs["records"]} '
                        f'(a run whose value could not be stored left its record)')
            return None
        n = obs['last']
        if case['shape'] == 'gen':
            want = ['before'] + [f'item {i}' for i in range(case['k'])] + ['after']
        else:
            want = ['first', 'second']
        toks = [l.split('tok ', 1)[1] for l in (obs['log'] or []) if 'tok ' in l]
        mine = [f'{n} {w}' for w in want]
        if toks != mine:
            return (f'{case}: the log after the latest run (number {n}) holds the messages {toks}; that run logged {mine}')
        recs = obs['records']
        want_recs = [{'r': n, 'i': 0}, f'rec {n}'] + ([0, '', [], None, False, 0.0, {}] if case['shape'] == 'plain' else [])
        if json.dumps(recs, sort_keys=True) != json.dumps(want_recs, sort_keys=True):
            return f'{case}: the records after the latest run (number {n}) are {recs}'
        for other, lg in (obs.get('others') or {}).items():
            for l in lg or []:
                if 'tok ' in l and not l.split('tok ', 1)[1].split(' ')[0].isdigit():
                    return f'{case}: malformed token in the log of {other}: {l}'
        return None

    def nontrivial(self, case, obs):
        return case['hist'] != 'once' or case['shape'] in ('gen', 'down')

    def key(self, case):
        return repr(case)


class NamedConfigs(Suite):
    """persistence by config name (parameter_mode=False) with results kept in files that carry an extension: configs whose
    names contain dots and agree up to a dot (exp.v1 / exp.v2, a.b.c / a.b.d) or extend one another (run / run.2), each
    run in turn and one of them forced afterwards: the record and the log of each describe its own latest run.
    Runtime check only (the model's locations are those of parameter mode)."""
    name = 'records_by_config_name'
    model = ''

    def gen(self, rng, tier):
        return [dict(names=n, force=f) for n in (['exp.v1', 'exp.v2'], ['a.b.c', 'a.b.d'], ['run', 'run.2'], ['plain', 'other'])
                for f in (None, 0, 1)]

    def run_impl(self, case):
        import sys, types
        from taskchain import Config
        from .. import pipeline as pl
        with pl.workspace(dict(classes=[], files={})) as (d, _):
            name = 'tcv_bodies'
            m = types.ModuleType(name)
            sys.modules[name] = m
            try:
                exec(compile(BODY_SRC, name, 'exec'), m.__dict__)
                task = lambda i: Config(Path('data'), name=case['names'][i], data={'tasks': [f'{name}.Plain'], 'k': i}).chain(parameter_mode=False)['plain']
                last = {}
                for i in range(len(case['names'])):
                    last[i] = task(i).value['n']
                if case['force'] is not None:
                    t = task(case['force'])
                    t.force()
                    last[case['force']] = t.value['n']
                out = []
                for i in range(len(case['names'])):
                    t = task(i)
                    ri = t.run_info or {}
                    out.append(dict(k=(ri.get('parameters') or {}).get('k'), records=ri.get('log'), n=last[i],
                                    log=[l.split(' - ')[-1].strip() for l in (t.log or []) if 'tok' in l]))
                return dict(tasks=out)
            finally:
                sys.modules.pop(name, None)

    def oracle(self, case, obs):
        if 'unexpected_exception' in obs:
            return f'unexpected exception {obs["unexpected_exception"]}: {obs["text"]}'
        for i, o in enumerate(obs['tasks']):
            who = f'{case}: config {case["names"][i]}'
            if str(o['k']) != str(i):
                return f'{who}: its record names the parameter k={o["k"]}, its own value is {i}'
            if not o['records'] or o['records'][0] != {'r': o['n'], 'i': 0}:
                return f'{who}: its latest run is number {o["n"]}, its record holds {str(o["records"])[:120]}'
            if o['log'] != [f'tok {o["n"]} first', f'tok {o["n"]} second']:
                return f'{who}: its latest run is number {o["n"]}, its log holds {o["log"]}'
        return None

    def nontrivial(self, case, obs):
        return True

    def key(self, case):
        return repr(case)


RESUMABLE_LOG_SRC = """
from taskchain import Task
from taskchain.data import ContinuesData

STATE = {'n': 0, 'fail': False, 'write_first': True}

class Steps(Task):              # a resumable result: writes into its work directory, may fail after that, is run again
    def run(self) -> ContinuesData:
        STATE['n'] += 1
        n = STATE['n']
        self.logger.info(f'tok {n} first')
        d = self.get_data_object()
        if STATE['write_first']:
            (d.dir / f'part{n}').write_text('x')
        if STATE['fail']:
            raise RuntimeError('interrupted')
        self.logger.info(f'tok {n} second')
        self.save_to_run_info(f'rec {n}')
        d.finished()
        return d
"""


class ResumableLogs(Suite):
    """a resumable (ContinuesData) task that fails - once or twice - after it has put files into its work directory, and
    is then run again by the same task object, a new chain or a new process, or is forced over such a leftover: the log
    and the record of the stored result are those of the run that finished, and of no other.  Runtime check only."""
    name = 'logs_of_resumed_runs'
    model = ''

    def gen(self, rng, tier):
        return [dict(failures=f, retry=r, write_first=w) for f in (1, 2) for r in ('same_object', 'new_chain', 'new_process') for w in (True, False)]

    def run_impl(self, case):
        import sys, types
        from taskchain import Config
        from .. import pipeline as pl
        from .c05 import in_child
        with pl.workspace(dict(classes=[], files={})) as (d, _):
            name = 'tcv_resumable_logs'
            m = types.ModuleType(name)
            sys.modules[name] = m
            try:
                exec(compile(RESUMABLE_LOG_SRC, name, 'exec'), m.__dict__)
                m.STATE['write_first'] = case['write_first']
                task = lambda: Config(Path('data'), name='c', data={'tasks': [f'{name}.Steps']}).chain()['steps']

                def scenario():
                    t = task()
                    m.STATE['fail'] = True
                    for _ in range(case['failures']):
                        try:
                            t.value
                        except RuntimeError:
                            pass
                        if case['retry'] != 'same_object':
                            t = task()
                    m.STATE['fail'] = False

                    def finish():
                        tt = t if case['retry'] == 'same_object' else task()
                        tt.value
                        return dict(n=m.STATE['n'])
                    fin = in_child(finish) if case['retry'] == 'new_process' else finish()
                    r = task()
                    return dict(n=fin.get('n'), log=[l.split(' - ')[-1].strip() for l in (r.log or []) if 'tok' in l],
                                started=sum('run started' in l for l in (r.log or [])), records=(r.run_info or {}).get('log'))
                return in_child(scenario)
            finally:
                sys.modules.pop(name, None)

    def oracle(self, case, obs):
        if 'unexpected_exception' in obs:
            return f'unexpected exception {obs["unexpected_exception"]}: {obs["text"]}'
        if 'child_error' in obs:
            return f'{case}: {obs["child_error"]}'
        n = obs['n']
        if obs['log'] != [f'tok {n} first', f'tok {n} second'] or obs['started'] > 1:
            return (f'{case}: the run that finished is number {n}; the log of the stored result holds {obs["log"]} '
                    f'("run started" {obs["started"]} times)')
        if obs['records'] != [f'rec {n}']:
            return f'{case}: the run that finished is number {n}; its records are {obs["records"]}'
        return None

    def nontrivial(self, case, obs):
        return True

    def key(self, case):
        return repr(case)


MUTATING_SRC = """
from taskchain import Task, Parameter

class Sorter(Task):             # run changes the values of its parameters in place
    class Meta:
        parameters = [Parameter('items'), Parameter('opts', default=None)]
    def run(self, items, opts) -> dict:
        first = items[0]
        items.sort()
        while len(items) > 1:
            items.pop()
        if opts is not None:
            opts['seen'] = True
        return {'first': first}
"""


class MutatedParameters(Suite):
    """a task whose run sorts, pops and updates the values of its parameters in place: the record names the parameter
    values the run was started with - those of the storage key and of the first log line -, on the first run, after a
    forced recomputation and read from a new chain.  Runtime check only."""
    name = 'parameters_changed_by_run'
    model = ''

    def gen(self, rng, tier):
        return [dict(items=i, opts=o, hist=h) for i in ([3, 1, 2], [1], ['b', 'a']) for o in (None, {'k': [1]})
                for h in ('once', 'forced', 'new_chain')]

    def run_impl(self, case):
        import copy, sys, types
        from taskchain import Config
        from .. import pipeline as pl
        with pl.workspace(dict(classes=[], files={})) as (d, _):
            name = 'tcv_mutating'
            m = types.ModuleType(name)
            sys.modules[name] = m
            try:
                exec(compile(MUTATING_SRC, name, 'exec'), m.__dict__)
                data = lambda: {'tasks': [f'{name}.Sorter'], 'items': copy.deepcopy(case['items']), **({} if case['opts'] is None else {'opts': copy.deepcopy(case['opts'])})}
                t = Config(Path('data'), name='c', data=data()).chain()['sorter']
                text_before = t.params.repr
                _ = t.value
                if case['hist'] == 'forced':
                    t = Config(Path('data'), name='c', data=data()).chain()['sorter']
                    t.force()
                    _ = t.value
                if case['hist'] == 'new_chain':
                    t = Config(Path('data'), name='c', data=data()).chain()['sorter']
                ri = t.run_info or {}
                started = [l for l in (t.log or []) if 'run started' in l]
                return dict(recorded=ri.get('parameters'), text=text_before, started=started[-1:] )
            finally:
                sys.modules.pop(name, None)

    def oracle(self, case, obs):
        if 'unexpected_exception' in obs:
            return f'unexpected exception {obs["unexpected_exception"]}: {obs["text"]}'
        want = {'items': repr(case['items']), 'opts': repr(case['opts'])}
        if obs['recorded'] != want:
            return (f'{case}: the record names the parameters {obs["recorded"]}; the run was started with {want} '
                    f'(key text {obs["text"]!r}, log line {obs["started"]})')
        return None

    def nontrivial(self, case, obs):
        return True

    def key(self, case):
        return repr(case)


WORKERS_SRC = """
from concurrent.futures import ThreadPoolExecutor
from pathlib import Path
from taskchain import Task, Parameter

class Busy(Task):               # logs from worker threads it starts, and keeps records that are not plain JSON
    class Meta:
        parameters = [Parameter('n')]
    def run(self, n) -> dict:
        self.logger.info('tok main before')
        with ThreadPoolExecutor(2) as ex:
            list(ex.map(lambda i: self.logger.info(f'tok worker {i}'), range(n)))
        self.logger.info('tok main after')
        self.save_to_run_info({0: 1, 1: 2})
        self.save_to_run_info((n, 0.5))
        self.save_to_run_info({'k': (1, 2), 'p': Path('/x')})
        self.save_to_run_info({1: 'a', '1': 'b'})
        return {'n': n}
"""


class WorkersAndRecords(Suite):
    """a run that logs from worker threads it starts and keeps records that are not plain JSON (mappings keyed by numbers,
    tuples, a Path, the keys 1 and '1' side by side): the log holds the messages of the workers too, and the records come
    back as they were added - on the first run, after a forced recomputation, read from a new chain.  Runtime check only."""
    name = 'worker_threads_and_records'
    model = ''

    def gen(self, rng, tier):
        return [dict(n=n, hist=h) for n in (1, 3) for h in ('once', 'forced', 'new_chain')]

    def run_impl(self, case):
        import sys, types
        from taskchain import Config
        from .. import pipeline as pl
        with pl.workspace(dict(classes=[], files={})) as (d, _):
            name = 'tcv_workers'
            m = types.ModuleType(name)
            sys.modules[name] = m
            try:
                exec(compile(WORKERS_SRC, name, 'exec'), m.__dict__)
                task = lambda: Config(Path('data'), name='c', data={'tasks': [f'{name}.Busy'], 'n': case['n']}).chain()['busy']
                t = task()
                _ = t.value
                if case['hist'] == 'forced':
                    t.force()
                    _ = t.value
                if case['hist'] == 'new_chain':
                    t = task()
                log = sorted(l.split(' - ')[-1].strip() for l in (t.log or []) if 'tok' in l)
                return dict(log=log, records=repr((t.run_info or {}).get('log')))
            finally:
                sys.modules.pop(name, None)

    def oracle(self, case, obs):
        from pathlib import Path as P
        if 'unexpected_exception' in obs:
            return f'unexpected exception {obs["unexpected_exception"]}: {obs["text"]}'
        n = case['n']
        want_log = sorted(['tok main before', 'tok main after'] + [f'tok worker {i}' for i in range(n)])
        if obs['log'] != want_log:
            return f'{case}: the log holds {obs["log"]}; the run logged {want_log}'
        want = repr([{0: 1, 1: 2}, (n, 0.5), {'k': (1, 2), 'p': P('/x')}, {1: 'a', '1': 'b'}])
        if obs['records'] != want:
            return f'{case}: the records are {obs["records"]}; the run added {want}'
        return None

    def nontrivial(self, case, obs):
        return True

    def key(self, case):
        return repr(case)


HANDLER_SRC = """
import shutil
from taskchain import Task, Parameter, DirData

STATE = {'break': False}

class Quiet(Task):              # logs one line per run
    class Meta:
        parameters = [Parameter('tag')]
    def run(self, tag) -> str:
        self.logger.info('token:quiet:' + str(tag))
        return 'v' + str(tag)

class Box(Task):                # a directory result; a broken run removes its own work directory and then fails
    class Meta:
        parameters = [Parameter('tag')]
    def run(self, tag) -> DirData:
        d = self.get_data_object()
        self.logger.info('token:box:' + str(tag))
        if STATE['break']:
            shutil.rmtree(d.dir)
            raise RuntimeError('broken run')
        (d.dir / 'f.txt').write_text(str(tag))
        return d
"""


class LogHandlers(Suite):
    """the log of a task is the log of its latest run also when that run wrote nothing to it (logging switched off for the
    time of the run, the task logger's level raised): the lines of the run before are gone; and a run whose clean-up itself
    fails (a directory task that removed its work directory before failing) leaves no log handler behind - the retry's
    lines appear once, in its own log, and other tasks' logs get none of them.  Runtime check only."""
    name = 'log_handlers'
    model = ''

    def gen(self, rng, tier):
        return [dict(kind='quiet', how=h) for h in ('disable', 'level')] + [dict(kind='broken_cleanup', other=o) for o in (False, True)]

    def run_impl(self, case):
        import logging, shutil, sys, tempfile, types
        from taskchain import Config
        tmp = tempfile.mkdtemp(prefix='tcverif-logh-')
        name = 'tcv_logh'
        m = types.ModuleType(name)
        sys.modules[name] = m
        try:
            exec(compile(HANDLER_SRC, name, 'exec'), m.__dict__)
            for c in (m.Quiet, m.Box):
                c.__module__ = name
            chain = lambda tag: Config(Path(tmp) / 'data', name='c', data={'tasks': [m.Quiet, m.Box], 'tag': tag}).chain()
            tokens = lambda t: [l for l in (t.log or []) if 'token:' in l]
            if case['kind'] == 'quiet':
                ch = chain(1)
                t = ch['quiet']
                out = dict(v1=t.value, log1=tokens(t))
                t.force()
                if case['how'] == 'disable':
                    logging.disable(logging.CRITICAL)
                else:
                    t.logger.setLevel(logging.CRITICAL)
                try:
                    out['v2'] = t.value
                finally:
                    logging.disable(logging.NOTSET)
                    t.logger.setLevel(logging.DEBUG)
                out['log2'] = tokens(t)
                out['raw2'] = list(t.log or [])
                return out
            m.STATE['break'] = True
            out = {}
            try:
                chain(1)['box'].value
                out['first'] = 'returned'
            except Exception as e:
                out['first'] = type(e).__name__
            m.STATE['break'] = False
            if case['other']:
                ch2 = chain(2)
                out['other_v'] = str(ch2['quiet'].value)
                out['other_box'] = sorted(p.name for p in ch2['box'].value.iterdir())
                out['log_other_box'] = tokens(ch2['box'])
            ch = chain(1)
            out['retry'] = sorted(p.name for p in ch['box'].value.iterdir())
            out['log_retry'] = tokens(ch['box'])
            out['log_quiet'] = tokens(ch['quiet']) if ch['quiet'].has_data else None
            return out
        finally:
            logging.disable(logging.NOTSET)
            sys.modules.pop(name, None)
            shutil.rmtree(tmp, ignore_errors=True)

    def oracle(self, case, obs):
        if 'unexpected_exception' in obs:
            return f'unexpected exception {obs["unexpected_exception"]}: {obs["text"]}'
        if case['kind'] == 'quiet':
            if len(obs['log1']) != 1:
                return f'{case}: the first run logged one line, the log holds {obs["log1"]}'
            if obs['log2'] or any('quiet:1' in l for l in obs['raw2']):
                return f'{case}: the second run wrote nothing to its log, the log holds {obs["raw2"]} - lines of the run before'
            return None
        n = lambda log, tok: sum(1 for l in log if tok in l)
        if obs['first'] == 'returned':
            return f'{case}: the broken run returned a value'
        if n(obs['log_retry'], 'token:box:1') != 1 or len(obs['log_retry']) != 1:
            return f'{case}: the log of the retried run holds {obs["log_retry"]}; the run logged one line'
        if case['other'] and (len(obs['log_other_box']) != 1 or n(obs['log_other_box'], 'token:box:2') != 1):
            return f'{case}: the log of the task with other parameters holds {obs["log_other_box"]}; its run logged one line'
        return None

    def nontrivial(self, case, obs):
        return True

    def key(self, case):
        return repr(case)


class C18(Prop):
    pid = 'C18'
    suites = [Records(), RunBodies(), NamedConfigs(), ResumableLogs(), MutatedParameters(), WorkersAndRecords(), LogHandlers()]
    assumptions = ['timestamps, user name, library version, class and module names are abstracted away',
                   'the framing lines of the log (run started / run ended) are abstracted: the messages logged by run '
                   'are the tokens']


PROP = C18()
