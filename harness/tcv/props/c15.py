"""C15 - file caches stay consistent under concurrent use (cooperative scheduler on the real JsonCache)."""
import json
import shutil
import tempfile
import threading
from pathlib import Path

from ..core import Prop, Suite
from ..coqlit import cbool, clist, cnat, cpair

INIT_VALUE = 10


from .c14 import UnstorableValues      # a forced call whose value cannot be stored fails without touching the complete entry

class Scheduler:
    """Threads stop at named points; the driver lets exactly one of them perform its next action."""

    def __init__(self):
        self.cv = threading.Condition()
        self.waiting = {}        # tid -> point name
        self.granted = None
        self.finished = {}
        self.lock_holder = {}    # lock file -> tid holding it (FileLock is per entry file)
        self.wants = {}          # tid -> lock file it is about to acquire
        self.finite = {}         # tid -> the lock it is about to acquire was made with a finite timeout
        self.tls = threading.local()

    def point(self, name):
        tid = getattr(self.tls, 'tid', None)
        if tid is None:
            return
        with self.cv:
            self.waiting[tid] = name
            self.cv.notify_all()
            while self.granted != tid:
                self.cv.wait(10)
            self.granted = None
            del self.waiting[tid]

    def enabled(self):
        with self.cv:
            return sorted(t for t, p in self.waiting.items()
                          if not (p == 'acquire' and self.lock_holder.get(self.wants.get(t)) is not None and not self.finite.get(t)))

    def grant(self, tid):
        with self.cv:
            action = self.waiting[tid]
            self.granted = tid
            self.cv.notify_all()
            while self.granted == tid or (tid not in self.waiting and tid not in self.finished):
                self.cv.wait(10)
            return action

    def wait_all_parked(self, n):
        with self.cv:
            while len(self.waiting) + len(self.finished) < n:
                self.cv.wait(10)


class CoopLock:
    """the entry lock.  Without a timeout (filelock's default, -1) a caller waits as long as it takes: it is not enabled
    while another caller holds the lock.  With a finite timeout the waiting caller may also be scheduled while the lock
    is held - the holder's computation or write took longer than the timeout - and the acquisition raises Timeout."""
    def __init__(self, sched, name='', timeout=-1):
        self.sched, self.name, self.timeout = sched, str(name), timeout

    def __enter__(self):
        tid = getattr(self.sched.tls, 'tid', None)
        self.sched.wants[tid] = self.name
        self.sched.finite[tid] = self.timeout is not None and self.timeout >= 0
        self.sched.point('acquire')
        if self.sched.lock_holder.get(self.name) is not None:
            from filelock import Timeout
            raise Timeout(self.name)
        self.sched.lock_holder[self.name] = tid
        return self

    def __exit__(self, *a):
        self.sched.point('release')
        self.sched.lock_holder[self.name] = None
        return False


class DeferredFile:
    """open(path, 'w') has truncated the file; the text reaches the disk when the file is closed."""

    def __init__(self, sched, f):
        self.sched, self.f, self.buf = sched, f, []

    def __enter__(self):
        return self

    def write(self, s):
        self.buf.append(s)
        return len(s)

    def __exit__(self, *a):
        self.sched.point('write')
        self.f.write(''.join(self.buf))
        self.f.close()
        return False


def file_state(path):
    if not path.exists():
        return 'absent'
    raw = path.read_bytes()
    if raw == b'':
        return 'empty'
    try:
        return ['full', json.loads(raw)['value']]
    except Exception:
        return ['garbled', raw[:40].decode('latin1')]


def run_schedule(case):
    import taskchain.cache as tc
    import logging
    logging.getLogger('cache').handlers = [logging.NullHandler()]
    sched = Scheduler()
    d = tempfile.mkdtemp(prefix='tcverif-conc-')
    orig_lock, orig_load, orig_open, orig_replace, orig_mkdir = tc.FileLock, tc.JsonCache.load_value, Path.open, Path.replace, Path.mkdir
    try:
        # the callers use one cache object, or cache objects of their own over the same directory (`obj` per caller)
        n_objs = 1 + max([c.get('obj', 0) for c in case['callers']] + [c.get('obj', 0) for c in case.get('then', [])])
        caches = [tc.JsonCache(Path(d) / 'c') for _ in range(n_objs)]
        cache = caches[0]
        key = 'the key'
        keys = case.get('keys') or [key] * len(case['callers'])      # per caller (keys of one shard directory)
        key = keys[0]
        target = cache.filepath(key)
        targets = [cache.filepath(k) for k in keys]
        assert all(t.parent == target.parent for t in targets)
        if case['init'] == 'full':
            for k, t in zip(keys, targets):
                # as the library writes it (no spaces): an entry that a later, longer value does not fit into
                t.write_text(json.dumps({'key': k, 'value': INIT_VALUE}, separators=(',', ':')))
        elif case.get('fresh_dir'):
            target.parent.rmdir()          # a key that was never used: its shard directory does not exist yet
        if case.get('leftover_tmp') and not case.get('fresh_dir'):
            # what a writer killed between opening its write-aside file and publishing it left behind
            content = {'empty': '', 'partial': '{"key": "the key", "val', 'complete': json.dumps({'key': keys[0], 'value': 77})}[case['leftover_tmp']]
            target.with_name(f'tmp_{target.name}').write_text(content)
        tc.FileLock = lambda name='', *a, **k: CoopLock(sched, name, timeout=k.get('timeout', a[0] if a else -1))

        def pmkdir(self, *a, **k):
            if self == target.parent and getattr(sched.tls, 'tid', None) is not None:
                sched.point('mkdir')
            return orig_mkdir(self, *a, **k)
        Path.mkdir = pmkdir

        def load_value(self, filepath, k):
            return orig_load(self, filepath, k)      # the load step is the moment the entry is opened for reading (see popen)

        def preplace(self, dest):
            if Path(dest) in targets and getattr(sched.tls, 'tid', None) is not None:
                sched.point('replace')
            return orig_replace(self, dest)

        def popen(self, mode='r', *a, **k):
            if self.parent == target.parent and 'w' in mode and getattr(sched.tls, 'tid', None) is not None:
                sched.point('truncate')
                return DeferredFile(sched, orig_open(self, mode, *a, **k))
            if self in targets and 'w' not in mode and getattr(sched.tls, 'tid', None) is not None:
                # the load step of the model is the moment a reader opens the entry: whatever it looked at before (its size,
                # its age) may be out of date by then
                sched.point('load')
            return orig_open(self, mode, *a, **k)
        tc.JsonCache.load_value = load_value
        Path.open = popen
        Path.replace = preplace
        results, computed = {}, []

        def caller(tid, kind, force, val):
            sched.tls.tid = tid
            try:
                sched.point('acquire0')      # PStart: wait for the first grant before doing anything
                key = keys[tid]
                cache = caches[case['callers'][tid].get('obj', 0)]
                if kind == 'get':
                    r = cache.get(key)
                    results[tid] = 'novalue' if r is tc.NO_VALUE else ['value', r]
                else:
                    def computer():
                        sched.point('compute')
                        computed.append(val)
                        return val
                    results[tid] = ['value', cache.get_or_compute(key, computer, force=force)]
            except Exception as e:
                results[tid] = ['exception', type(e).__name__]
            finally:
                with sched.cv:
                    sched.finished[tid] = True
                    sched.cv.notify_all()
        # the very first point 'acquire0' is merged with the real acquire: grant it silently
        threads = []
        for tid, c in enumerate(case['callers']):
            th = threading.Thread(target=caller, args=(tid, c['kind'], c.get('force', False), 100 + tid), daemon=True)
            threads.append(th)
            th.start()
        sched.wait_all_parked(len(threads))
        if not case.get('late_start'):
            for tid in range(len(threads)):
                sched.grant(tid)          # from 'acquire0' to the real first 'acquire'
        # with late_start a call begins (computes its file path, ...) at a scheduled moment, possibly while another
        # call is in the middle of its write: the action 'acquire0' is then part of the trace (a no-op of the model)
        import random
        rng = random.Random(case['seed'])
        script = list(case.get('script', []))
        trace, states, starts = [], [], {}
        while True:
            en = sched.enabled()
            if not en:
                break
            if script:
                want = script.pop(0)
                tid = want if want in en else en[0]
            else:
                tid = rng.choice(en)
            action = sched.grant(tid)
            trace.append([tid, action])
            states.append(file_state(target))
        for th in threads:
            th.join(5)
        # calls that start after all the others have returned (no scheduling: the points are no-ops outside the callers)
        quiescent, then = file_state(target), []
        for j, c in enumerate(case.get('then', [])):
            ran = []

            def computer():
                ran.append(1)
                return 500 + j
            try:
                if c['kind'] == 'get':
                    r = caches[c.get('obj', 0)].get(keys[0])
                    then.append(['novalue' if r is tc.NO_VALUE else 'value', None if r is tc.NO_VALUE else r, 0])
                else:
                    r = caches[c.get('obj', 0)].get_or_compute(keys[0], computer, force=c.get('force', False))
                    then.append(['value', r, len(ran)])
            except Exception as e:
                then.append(['exception', type(e).__name__, len(ran)])
        return dict(trace=trace, states=states, results=[results.get(t) for t in range(len(threads))],
                    computed=computed, final=quiescent, finals=[file_state(t) for t in targets], then=then)
    finally:
        tc.FileLock, tc.JsonCache.load_value, Path.open, Path.replace = orig_lock, orig_load, orig_open, orig_replace
        Path.mkdir = orig_mkdir
        shutil.rmtree(d, ignore_errors=True)


def model_schedule(case, trace):
    """tids of the model steps: the decision step after the first release is silent in the code when no
    load is attempted, so it is inserted right after that release."""
    sched, seen_rel = [], {}
    per = {}
    for i, (tid, action) in enumerate(trace):
        per.setdefault(tid, []).append(i)
    seen_acq = {}
    for i, (tid, action) in enumerate(trace):
        if action in ('acquire0', 'mkdir'):
            continue
        sched.append(tid)
        if action == 'acquire' and not seen_acq.get(tid):
            seen_acq[tid] = True
            sched.append(tid)          # the existence check runs under the lock right after the first acquire
        if action == 'release' and not seen_rel.get(tid):
            seen_rel[tid] = True
            nxt = [trace[j][1] for j in per[tid] if j > i][:1]
            if nxt != ['load']:
                sched.append(tid)      # the caller decides without touching the file
    return sched


class Schedules(Suite):
    name = 'interleavings'
    imports = 'CacheConc'
    shard = 60
    in_type = '(fstate * list (kind * nat) * list nat)'
    out_type = '(list (option (option nat)) * fstate)'
    prelude = '''
Definition ooeq (a b : option (option nat)) : bool :=
  match a, b with
  | None, None => true
  | Some None, Some None => true
  | Some (Some x), Some (Some y) => Nat.eqb x y
  | _, _ => false end.
Fixpoint rs_eqb (a b : list (option (option nat))) : bool :=
  match a, b with [], [] => true | x :: a', y :: b' => ooeq x y && rs_eqb a' b' | _, _ => false end.
Definition fs_eqb (a b : fstate) : bool :=
  match a, b with FAbsent, FAbsent | FEmpty, FEmpty => true | FFull x, FFull y => Nat.eqb x y | _, _ => false end.
Definition conc_model (c : fstate * list (kind * nat) * list nat) : list (option (option nat)) * fstate :=
  let '(f, cs, s) := c in let g := run (init f cs) s in (results g, g_file g).
'''
    eqb = '(fun a b => rs_eqb (fst a) (fst b) && fs_eqb (snd a) (snd b))'
    model = 'conc_model'

    def corpus(self):
        window = [0, 0, 1, 1, 1, 1, 1, 1, 1, 0, 1, 0, 0, 0, 0, 0, 0]   # in granted actions, not model steps
        return [
            dict(init='full', callers=[dict(kind='goc', force=False), dict(kind='goc', force=True)], seed=1, script=window),
            dict(init='full', callers=[dict(kind='get'), dict(kind='goc', force=True)], seed=1, script=window),
            dict(init='absent', callers=[dict(kind='goc', force=False), dict(kind='goc', force=False)], seed=2),
            # two callers miss, the first stores and returns, a reader passes its check, the second caller - acting on its
            # stale miss - writes while the reader loads
            dict(init='absent', callers=[dict(kind='goc', force=False), dict(kind='goc', force=False), dict(kind='get')], seed=6,
                 script=[0, 0, 0, 1, 1, 1, 0, 0, 0, 0, 0, 0, 2, 2, 2, 1, 1, 1, 2, 1, 1, 1]),
            dict(init='absent', callers=[dict(kind='goc', force=False), dict(kind='goc', force=False), dict(kind='goc', force=False)],
                 seed=7, script=[0, 0, 0, 1, 1, 1, 0, 0, 0, 0, 0, 0, 2, 2, 2, 1, 1, 1, 2, 1, 1, 1]),
            # the same for a writer that needs one step less to store (no separate publication step)
            dict(init='absent', callers=[dict(kind='goc', force=False), dict(kind='goc', force=False), dict(kind='get')], seed=8,
                 script=[0, 0, 0, 1, 1, 1, 0, 0, 0, 0, 0, 2, 2, 2, 1, 1, 1, 2, 1, 1, 1]),
            dict(init='absent', callers=[dict(kind='goc', force=False), dict(kind='goc', force=False), dict(kind='goc', force=False)],
                 seed=9, script=[0, 0, 0, 1, 1, 1, 0, 0, 0, 0, 0, 2, 2, 2, 1, 1, 1, 2, 1, 1, 1]),
            # a reader is about to open the entry when a forced writer publishes a longer one (INIT_VALUE has two digits, the
            # computed values three)
            dict(init='full', callers=[dict(kind='get'), dict(kind='goc', force=True)], seed=31,
                 script=[0, 0] + [1] * 12 + [0] * 4),
            dict(init='full', callers=[dict(kind='goc', force=False), dict(kind='goc', force=True)], seed=32,
                 script=[0, 0] + [1] * 12 + [0] * 4),
            # a caller asks for the entry lock while another caller holds it - for its existence check, and for its
            # computation and write: it waits, however long that takes
            dict(init='absent', callers=[dict(kind='goc', force=False), dict(kind='get')], seed=11, script=[0, 1, 1, 1, 0, 1]),
            dict(init='absent', callers=[dict(kind='goc', force=False), dict(kind='goc', force=False)], seed=12, script=[0, 0, 0, 1, 1, 0, 1]),
            dict(init='full', callers=[dict(kind='goc', force=True), dict(kind='get')], seed=13, script=[0, 0, 0, 0, 1, 1, 0, 1]),
            # a cache object misses the entry, another object (thread with its own object, another process) stores it and
            # returns, then the first object is asked again
            dict(init='absent', callers=[dict(kind='get', obj=0), dict(kind='goc', force=False, obj=1)], seed=14,
                 script=[0, 0, 0, 0, 1, 1, 1, 1, 1, 1, 1, 1, 1], then=[dict(kind='get', obj=0), dict(kind='goc', obj=0), dict(kind='get', obj=1)]),
            dict(init='absent', callers=[dict(kind='goc', force=False, obj=0), dict(kind='goc', force=False, obj=1)], seed=15,
                 script=[0, 0, 0, 1, 1, 1, 1, 1, 1, 1, 1, 1, 1, 0, 0, 0, 0, 0, 0], then=[dict(kind='goc', obj=0), dict(kind='get', obj=0), dict(kind='goc', obj=1)]),
            dict(init='absent', callers=[dict(kind='get', obj=0), dict(kind='get', obj=1)], seed=16,
                 then=[dict(kind='goc', obj=1), dict(kind='get', obj=0), dict(kind='goc', obj=0), dict(kind='goc', obj=0, force=True), dict(kind='get', obj=1)]),
            # a killed writer left its write-aside file behind (empty, torn, complete) and no entry
            *[dict(init='absent', callers=cs, seed=20 + i, leftover_tmp=lt)
              for i, lt in enumerate(('empty', 'partial', 'complete'))
              for cs in ([dict(kind='goc', force=False), dict(kind='get')], [dict(kind='goc', force=False), dict(kind='goc', force=False)],
                         [dict(kind='get'), dict(kind='goc', force=True)])],
            # two and three callers start at the same moment on a key that was never used (no directory yet)
            dict(init='absent', callers=[dict(kind='goc', force=False), dict(kind='goc', force=False)], seed=4, late_start=True,
                 fresh_dir=True, script=[0, 1, 0, 1]),
            dict(init='absent', callers=[dict(kind='get'), dict(kind='goc', force=False), dict(kind='get')], seed=5, late_start=True,
                 fresh_dir=True, script=[0, 1, 2, 2, 1, 0]),
            # the second call begins while the first one has written its entry aside and not yet published it
            dict(init='absent', callers=[dict(kind='goc', force=False), dict(kind='goc', force=False)], seed=3, late_start=True,
                 script=[0, 0, 0, 0, 0, 0, 0, 1, 0, 0, 1, 1, 1, 1]),
            dict(init='full', callers=[dict(kind='goc', force=True), dict(kind='goc', force=True)], seed=3, late_start=True,
                 script=[0, 0, 0, 0, 0, 0, 0, 1, 0, 0, 1, 1, 1, 1, 1, 1, 1]),
        ]

    def gen(self, rng, tier):
        out = []
        for _ in range(150 if tier == 'quick' else 4000):
            n = rng.choice([2, 2, 2, 3, 3, 4])
            callers = []
            for _ in range(n):
                r = rng.random()
                callers.append(dict(kind='get') if r < 0.3 else dict(kind='goc', force=rng.random() < 0.35))
            out.append(dict(init=rng.choice(['absent', 'full']), callers=callers, seed=rng.randrange(10 ** 9),
                            late_start=rng.random() < 0.5))
            if out[-1]['init'] == 'absent' and rng.random() < 0.5:
                out[-1]['fresh_dir'] = True       # never-used key: the callers also race for its directory
            if out[-1]['init'] == 'absent' and not out[-1].get('fresh_dir') and rng.random() < 0.3:
                out[-1]['leftover_tmp'] = rng.choice(['empty', 'partial', 'complete'])
            if rng.random() < 0.4:                # cache objects of their own, and calls after the others have returned
                for c in callers:
                    c['obj'] = rng.randrange(2)
                out[-1]['then'] = [dict(kind=rng.choice(['get', 'goc']), obj=rng.randrange(2)) for _ in range(rng.choice([1, 2, 3]))]
        return out

    def run_impl(self, case):
        return run_schedule(case)

    def encode(self, case, obs):
        cs = clist([cpair('KGet' if c['kind'] == 'get' else f'(KCompute {cbool(c.get("force", False))})', cnat(100 + t))
                    for t, c in enumerate(case['callers'])])
        f0 = 'FAbsent' if case['init'] == 'absent' else f'(FFull {cnat(INIT_VALUE)})'
        sched = model_schedule(case, obs.get('trace', []))
        i = cpair(f0, cs, clist([cnat(t) for t in sched]))

        def cres(r):
            if r is None:
                return 'None'
            if r == 'novalue':
                return '(Some None)'
            if r[0] == 'value' and isinstance(r[1], int):
                return f'(Some (Some {cnat(r[1])}))'
            return '(Some (Some 99999%nat))'

        def cfile(s):
            if s == 'absent':
                return 'FAbsent'
            if s == 'empty':
                return 'FEmpty'
            if s[0] == 'full' and isinstance(s[1], int):
                return f'(FFull {cnat(s[1])})'
            return '(FFull 99999%nat)'
        return i, cpair(clist([cres(r) for r in obs.get('results', [])]), cfile(obs.get('final', 'absent')))

    def oracle(self, case, obs):
        if 'unexpected_exception' in obs:
            return f'unexpected exception {obs["unexpected_exception"]}: {obs["text"]}'
        ok_values = set(obs['computed']) | ({INIT_VALUE} if case['init'] == 'full' else set())
        for t, r in enumerate(obs['results']):
            if r is None:
                return f'caller {t} never returned'
            if r != 'novalue' and r[0] == 'exception':
                return f'caller {t} failed with {r[1]} because of the write of another caller'
            if r != 'novalue' and r[1] not in ok_values:
                return f'caller {t} returned {r[1]!r}, which no complete computation produced'
        if any(c['kind'] == 'goc' for c in case['callers']):
            if obs['final'] in ('absent', 'empty') or obs['final'][0] != 'full' or obs['final'][1] not in ok_values:
                return f'at quiescence the stored entry is {obs["final"]}'
        # a call that starts while a complete entry is stored must not recompute / miss it, unless forced
        first_action = {}
        for i, (tid, a) in enumerate(obs['trace']):
            first_action.setdefault(tid, i)
        for t, c in enumerate(case['callers']):
            forced = c.get('force', False)
            i0 = first_action.get(t, 0)
            before = obs['states'][i0 - 1] if i0 > 0 else ('absent' if case['init'] == 'absent' else ['full', INIT_VALUE])
            complete_at_start = before not in ('absent', 'empty') and before[0] == 'full'
            someone_returned = complete_at_start
            if not complete_at_start or forced:
                continue
            bad = None
            if c['kind'] == 'goc' and (100 + t) in obs['computed']:
                bad = f'unforced caller {t} recomputed although a complete entry was stored when it started'
            if c['kind'] == 'get' and obs['results'][t] == 'novalue':
                bad = f'get of caller {t} returned NO_VALUE although a complete entry was stored when it started'
            if bad:
                mine = [i for i, (tid, a) in enumerate(obs['trace']) if tid == t]
                window = any(obs['trace'][i][1] == 'truncate' and obs['trace'][i][0] != t and
                             case['callers'][obs['trace'][i][0]].get('force') for i in range(mine[0], mine[-1] + 1))
                return ('[unlocked-load-window] ' if window else '') + bad
        # calls made after every other call has returned: the entry stored at quiescence is what they see
        stored = obs['final'][1] if obs['final'] not in ('absent', 'empty') and obs['final'][0] == 'full' else None
        for j, (c, r) in enumerate(zip(case.get('then', []), obs.get('then', []))):
            who = f'call {j} made after all others had returned ({c["kind"]} through cache object {c.get("obj", 0)})'
            if r[0] == 'exception':
                return f'{who} failed with {r[1]}'
            if stored is not None and not c.get('force'):
                if r[0] != 'value' or r[1] != stored or r[2]:
                    return f'{who} gave {r[:2]} with {r[2]} computation(s); the complete entry {stored} was stored when it started'
            if c['kind'] == 'goc' and r[0] == 'value':
                stored = r[1]
        return None

    def nontrivial(self, case, obs):
        tr = obs.get('trace', [])
        return len({t for t, _ in tr}) >= 2 and any(tr[i][0] != tr[i + 1][0] for i in range(len(tr) - 1))

    def key(self, case):
        return repr(case)

    def distribution(self, cases, obs):
        d = dict(callers={}, steps=0, switches=0, windows=0)
        for c, o in zip(cases, obs):
            k = str(len(c['callers']))
            d['callers'][k] = d['callers'].get(k, 0) + 1
            tr = o.get('trace', [])
            d['steps'] += len(tr)
            d['switches'] += sum(1 for i in range(len(tr) - 1) if tr[i][0] != tr[i + 1][0])
        return d


def window_class(violation, known):
    return violation.get('oracle', '').startswith('[unlocked-load-window]')


class RealThreads(Suite):
    """the real FileLock with real threads of one process (and forked processes): callers start while another caller of
    the same entry is between writing aside and publishing (a cache subclass that pauses there): no call fails, every call
    returns a complete value, the entry is complete at the end.  The cooperative scheduler above replaces the lock by its
    own; this suite is the one place where the library's lock object itself is exercised.  Runtime check only."""
    name = 'real_lock_real_threads'
    model = ''

    def gen(self, rng, tier):
        return [dict(n=n, force=f, how=h, delay=d) for n in (2, 3) for f in (False, True) for h in ('threads', 'processes')
                for d in (0.03, 0.08)]

    def run_impl(self, case):
        import time
        import taskchain.cache as tc
        d = tempfile.mkdtemp(prefix='tcverif-realconc-')
        try:
            class Slow(tc.JsonCache):
                def save_value(self, filepath, key, value):
                    super().save_value(filepath, key, value)
                    time.sleep(0.15)         # written aside, not yet published

            def call(i, q=None):
                cache = Slow(Path(d) / 'c')
                time.sleep(i * case['delay'])
                try:
                    r = ['value', cache.get_or_compute('k', lambda: {'by': i, 'payload': 'x' * 2000}, force=case['force'])]
                except Exception as e:
                    r = ['exception', type(e).__name__]
                if q is not None:
                    q.put((i, r))
                return r
            results = {}
            if case['how'] == 'threads':
                def worker(i):
                    results[i] = call(i)
                ths = [threading.Thread(target=worker, args=(i,)) for i in range(case['n'])]
                for t in ths:
                    t.start()
                for t in ths:
                    t.join(20)
            else:
                import multiprocessing as mp
                ctx = mp.get_context('fork')
                q = ctx.Queue()
                ps = [ctx.Process(target=call, args=(i, q)) for i in range(case['n'])]
                for p_ in ps:
                    p_.start()
                for _ in ps:
                    i, r = q.get(timeout=20)
                    results[i] = r
                for p_ in ps:
                    p_.join(5)
            final = tc.JsonCache(Path(d) / 'c').get('k')
            return dict(results=[results.get(i) for i in range(case['n'])], final=None if final is tc.NO_VALUE else final)
        finally:
            shutil.rmtree(d, ignore_errors=True)

    def oracle(self, case, obs):
        if 'unexpected_exception' in obs:
            return f'unexpected exception {obs["unexpected_exception"]}: {obs["text"]}'
        for i, r in enumerate(obs['results']):
            if r is None:
                return f'{case}: caller {i} did not return'
            if r[0] == 'exception':
                return f'{case}: caller {i} failed with {r[1]} while another caller of the same entry was writing'
            if not (isinstance(r[1], dict) and r[1].get('payload') == 'x' * 2000 and r[1].get('by') in range(case['n'])):
                return f'{case}: caller {i} returned {str(r[1])[:80]}, not a complete value'
        f = obs['final']
        if not (isinstance(f, dict) and f.get('payload') == 'x' * 2000):
            return f'{case}: at quiescence the entry is {str(f)[:80]}'
        return None

    def nontrivial(self, case, obs):
        return True

    def key(self, case):
        return repr(case)


class OwnCacheClasses(Suite):
    """file caches of the user's own (FileCache with its own save_value / load_value): a plain-text cache, whose entry
    for the value '' is a file of zero bytes, and a cache whose older entries cannot be read any more (load_value raises
    something else than CacheException).  Callers one after the other, and real threads that overlap on an unreadable
    entry: a call that starts after another has returned does not recompute, no call fails, the entry is complete at the
    end.  Runtime check only (the cooperative scheduler and the model speak of JsonCache)."""
    name = 'own_cache_classes'
    model = ''

    def gen(self, rng, tier):
        return [dict(kind='text', value=v) for v in ('', 'x', 'two\nlines', ' ')] + \
               [dict(kind='versioned', n=n, pause=p) for n in (2, 3) for p in (0.05, 0.15)]

    def run_impl(self, case):
        import time
        from taskchain.cache import FileCache, NO_VALUE
        d = tempfile.mkdtemp(prefix='tcverif-own-')
        try:
            if case['kind'] == 'text':
                class TextCache(FileCache):
                    extension = 'txt'

                    def save_value(self, filepath, key, value):
                        filepath.write_text(value)

                    def load_value(self, filepath, key):
                        return filepath.read_text()
                calls = []
                out = []
                for who in range(3):
                    c = TextCache(Path(d) / 'c')       # a new cache object per caller, as another process would have
                    got = c.get('k')
                    out.append(['get', None if got is NO_VALUE else got])
                    out.append(['goc', c.get_or_compute('k', lambda: calls.append(who) or case['value'])])
                return dict(out=out, calls=calls)

            class Versioned(FileCache):         # entries start with a format number; an entry of another format is unreadable
                extension = 'v'
                FORMAT = '2'

                def save_value(self, filepath, key, value):
                    with filepath.open('w') as f:
                        f.write(self.FORMAT + '\n')
                        time.sleep(case['pause'])            # a writer that takes its time
                        f.write(json.dumps(value))

                def load_value(self, filepath, key):
                    fmt, _, body = filepath.read_text().partition('\n')
                    if fmt != self.FORMAT:
                        raise ValueError(f'entry of format {fmt}')
                    return json.loads(body)
            c = Versioned(Path(d) / 'c')
            c.filepath('k').write_text('1\n{"old": true}')      # left by an older version of the program
            results, errors, computed = {}, {}, []

            def caller(i):
                try:
                    results[i] = c.get_or_compute('k', lambda: computed.append(i) or {'by': i})
                except Exception as e:
                    errors[i] = f'{type(e).__name__}: {e}'[:120]
            threads = [threading.Thread(target=caller, args=(i,)) for i in range(case['n'])]
            for i, t in enumerate(threads):
                t.start()
                time.sleep(case['pause'] / 3)
            for t in threads:
                t.join(20)
            final = c.get('k')
            return dict(results=results, errors=errors, computed=computed, final=None if final is NO_VALUE else final)
        finally:
            shutil.rmtree(d, ignore_errors=True)

    def oracle(self, case, obs):
        if 'unexpected_exception' in obs:
            return f'unexpected exception {obs["unexpected_exception"]}: {obs["text"]}'
        if case['kind'] == 'text':
            v = case['value']
            want = [['get', None], ['goc', v]] + [['get', v], ['goc', v]] * 2
            if obs['out'] != want or obs['calls'] != [0]:
                return (f'{case}: callers one after the other saw {obs["out"]} and computed {obs["calls"]} times; the first call stores the '
                        f'value, every later call finds it: {want}, one computation')
            return None
        if obs['errors']:
            return f'{case}: a call failed while others were writing the entry: {obs["errors"]}'
        if any(not (isinstance(r, dict) and r.get('by') in obs['computed']) for r in obs['results'].values()) or len(obs['results']) != case['n']:
            return f'{case}: results {obs["results"]}, computations {obs["computed"]}'
        if not (isinstance(obs['final'], dict) and obs['final'].get('by') in obs['computed']):
            return f'{case}: at quiescence the entry is {obs["final"]}'
        return None

    def nontrivial(self, case, obs):
        return True

    def key(self, case):
        return repr(case)


class PathSpellings(Suite):
    """two callers reach one cache directory under different spellings of its path (the real path and a symlink to it,
    an absolute and a relative path, a path with `..`), both force the same key at overlapping times (real threads): they
    exclude each other like callers that spell the path alike - never both inside the computation, no error, and the
    entry afterwards is one of the two values, complete.  Runtime check only."""
    name = 'cache_path_spellings'
    model = ''

    def gen(self, rng, tier):
        return [dict(second=s, cache=c) for s in ('symlink', 'relative', 'dotdot', 'same') for c in ('JsonCache', 'DataFrameCache')]

    def run_impl(self, case):
        import os, time
        import pandas as pd
        from taskchain import cache as tc
        tmp = tempfile.mkdtemp(prefix='tcverif-spell-')
        old = os.getcwd()
        try:
            real = Path(tmp) / 'cachedir'
            real.mkdir()
            os.chdir(tmp)
            second = {'symlink': Path(tmp) / 'link', 'relative': Path('cachedir'), 'dotdot': Path(tmp) / 'cachedir' / '..' / 'cachedir',
                      'same': real}[case['second']]
            if case['second'] == 'symlink':
                os.symlink(real, second)
            mk = (lambda n: {'v': [n] * 2000}) if case['cache'] == 'JsonCache' else (lambda n: pd.DataFrame({'v': [n] * 2000}))
            inside, peak, errors, lock = [0], [0], [], threading.Lock()

            def computer(n):
                def f():
                    with lock:
                        inside[0] += 1
                        peak[0] = max(peak[0], inside[0])
                    time.sleep(0.25)
                    with lock:
                        inside[0] -= 1
                    return mk(n)
                return f

            def caller(path, n):
                try:
                    getattr(tc, case['cache'])(path).get_or_compute('k', computer(n), force=True)
                except Exception as e:
                    errors.append(f'{type(e).__name__}: {e}'[:160])
            ts = [threading.Thread(target=caller, args=(real, 1)), threading.Thread(target=caller, args=(second, 2))]
            ts[0].start()
            time.sleep(0.05)
            ts[1].start()
            for t in ts:
                t.join(20)
            v = getattr(tc, case['cache'])(real).get('k')
            end = 'NO_VALUE' if v is tc.NO_VALUE else sorted(set(v['v'])) + [len(v['v'])]
            return dict(peak=peak[0], errors=errors, end=[int(x) for x in end] if end != 'NO_VALUE' else end,
                        leftovers=sorted(p.name for p in real.rglob('tmp_*')))
        finally:
            os.chdir(old)
            shutil.rmtree(tmp, ignore_errors=True)

    def oracle(self, case, obs):
        if 'unexpected_exception' in obs:
            return f'unexpected exception {obs["unexpected_exception"]}: {obs["text"]}'
        if obs['errors']:
            return f'{case}: a forced call failed: {obs["errors"]}'
        if obs['peak'] > 1:
            return f'{case}: both callers were inside the computation of one key at the same time (they do not share the entry lock)'
        if obs['end'] not in ([1, 2000], [2, 2000]):
            return f'{case}: the entry afterwards is {obs["end"]}'
        return None

    def nontrivial(self, case, obs):
        return True

    def key(self, case):
        return repr(case)


class C15(Prop):
    pid = 'C15'
    suites = [Schedules(), RealThreads(), OwnCacheClasses(), UnstorableValues(), PathSpellings()]
    known_classes = {'unlocked-load-window': window_class}
    trusted_base = ['filelock is replaced by a cooperative lock in the correspondence: mutual exclusion of the real '
                    'FileLock is trusted; processes, flock semantics and chunked reads of large files are not modelled (partial)',
                    'the cooperative scheduler (harness) that parks callers before acquire, exists, release, load, compute, '
                    'open-for-write and close']
    assumptions = ['load is atomic (as in the step list of the property itself)']


PROP = C15()
