"""C13 - a MultiChain is its chains, sharing identical tasks."""
import json

from ..core import Prop
from ..suites_hist import Histories, history_oracle
from ..suites_chain import K, P


def multi_oracle(case, obs):
    """member == standalone chain of the same config; objects shared iff same (slug, key); a value
    computed through one member is in memory for the others; MultiChain.force reaches every member."""
    steps = obs.get('steps', [])
    standalone = {}           # config signature -> observation of a standalone chain
    for s in steps:
        if s['op']['op'] == 'build' and s['out'] != 'error':
            standalone[json.dumps(s['op']['base'], sort_keys=True)] = s['out'][1]['chain']
    for k, s in enumerate(steps):
        op = s['op']
        if op['op'] != 'multi' or s['out'] == 'error':
            continue
        members = s['out'][1]['chains']
        # identity: the harness labels objects by the first (chain, name) that holds them
        label = {}
        for ci, m in enumerate(members):
            for name, t in m['tasks'].items():
                oid = t['objid']
                sk = (t['slug'], t['key'])
                if oid in label and label[oid] != sk:
                    return f'step {k}: one task object serves {label[oid]} and {sk}: different computations share an object'
                label[oid] = sk
        by_sk = {}
        for oid, sk in label.items():
            by_sk.setdefault(sk, set()).add(oid)
        for sk, oids in by_sk.items():
            if len(oids) > 1:
                return f'step {k}: the same computation {sk} is held by {len(oids)} distinct task objects of one MultiChain'
        for b, m in zip(op['bases'], members):
            ref = standalone.get(json.dumps(b, sort_keys=True))
            if ref is None:
                continue
            if list(ref['tasks']) != list(m['tasks']):
                if sorted(ref['tasks']) != sorted(m['tasks']):
                    return f'step {k}: member chain has tasks {sorted(m["tasks"])}, the standalone chain {sorted(ref["tasks"])}'
            for name, t in ref['tasks'].items():
                if m['tasks'][name]['key'] != t['key']:
                    return f'step {k}: {name} has key {m["tasks"][name]["key"]} in the MultiChain and {t["key"]} standalone'
    return None


class Multi(Histories):
    name = 'multichain_histories'
    mix = 'multi'
    checks = ('values', 'force')

    def corpus(self):
        pipe = {'tasks': ['@M.*']}
        c = dict(classes=[K(0, 'Aa'), K(1, 'Y', meta_inputs=[{'cls': 0}])],
                 files={'d1.json': pipe, 'c1.json': {'uses': ['d1.json as p']}, 'c2.json': {'uses': ['d1.json as q']}},
                 base={'file': 'c1.json'}, context=None)
        c['ops'] = [{'op': 'build', 'base': {'file': 'c2.json'}},
                    {'op': 'multi', 'bases': [{'file': 'c1.json'}, {'file': 'c2.json'}]},
                    {'op': 'value', 'chain': 1, 'pick': 1}, {'op': 'value', 'chain': 2, 'pick': 1},
                    {'op': 'force_multi', 'multi': 0, 'picks': [0], 'recompute': False, 'delete': False},
                    {'op': 'flags', 'chain': 2}, {'op': 'value', 'chain': 2, 'pick': 1}]
        return [c]

    def oracle(self, case, obs):
        m = multi_oracle(case, obs)
        return m or history_oracle(case, obs, self.checks)


class C13(Prop):
    pid = 'C13'
    suites = [Multi()]
    assumptions = ['config names within one MultiChain are distinct (the constructor asserts it)']


PROP = C13()
