"""C13 - a MultiChain is its chains, sharing identical tasks."""
import json

from pathlib import Path

from ..core import Prop, Suite
from ..suites_hist import Histories, history_oracle
from ..suites_chain import K, P
from .c13_sharing import SharedByLocation


def multi_oracle(case, obs):
    """member == standalone chain of the same config; objects shared iff same (slug, key); a value
    computed through one member is in memory for the others; MultiChain.force reaches every member."""
    steps = obs.get('steps', [])
    standalone = {}           # config signature -> observation of a standalone chain
    for s in steps:
        if s['op']['op'] == 'build' and s['out'] != 'error':
            standalone[json.dumps(s['op']['base'], sort_keys=True)] = s['out'][1]['chain']
    for k, s in enumerate(steps):
        op = s['op']
        if op['op'] != 'multi' or s['out'] == 'error':
            continue
        members = s['out'][1]['chains']
        # identity: the harness labels objects by the first (chain, name) that holds them
        label = {}
        for ci, m in enumerate(members):
            for name, t in m['tasks'].items():
                oid = t['objid']
                sk = (t['slug'], t['key'])
                if oid in label and label[oid] != sk:
                    return f'step {k}: one task object serves {label[oid]} and {sk}: different computations share an object'
                label[oid] = sk
        by_sk = {}
        for oid, sk in label.items():
            by_sk.setdefault(sk, set()).add(oid)
        for sk, oids in by_sk.items():
            if len(oids) > 1:
                return f'step {k}: the same computation {sk} is held by {len(oids)} distinct task objects of one MultiChain'
        # the same computation (reference descriptor: class, persisted parameter values, inputs recursively),
        # wherever it is mounted, is one object with one key
        from .c03 import descriptors
        seen_desc = {}
        for ci, (b, m) in enumerate(zip(op['bases'], members)):
            d = descriptors(dict(case, base=b))
            if d is None or set(d[0]) != set(m['tasks']):
                continue
            for name, t in m['tasks'].items():
                prev = seen_desc.get(d[0][name])
                if prev is not None and (prev[1]['key'] != t['key'] or prev[1]['objid'] != t['objid']):
                    return (f'step {k}: {prev[0]} and {name} (chain {ci}) are the same computation but have keys '
                            f'{prev[1]["key"]} / {t["key"]} and are {"one object" if prev[1]["objid"] == t["objid"] else "two objects"}')
                seen_desc.setdefault(d[0][name], (name, t))
        for b, m in zip(op['bases'], members):
            ref = standalone.get(json.dumps(b, sort_keys=True))
            if ref is None:
                continue
            if list(ref['tasks']) != list(m['tasks']):
                if sorted(ref['tasks']) != sorted(m['tasks']):
                    return f'step {k}: member chain has tasks {sorted(m["tasks"])}, the standalone chain {sorted(ref["tasks"])}'
            for name, t in ref['tasks'].items():
                if m['tasks'][name]['key'] != t['key']:
                    return f'step {k}: {name} has key {m["tasks"][name]["key"]} in the MultiChain and {t["key"]} standalone'
    return None


class Multi(Histories):
    name = 'multichain_histories'
    mix = 'multi'
    checks = ('values', 'force')

    def corpus(self):
        pipe = {'tasks': ['@M.*']}
        c = dict(classes=[K(0, 'Aa'), K(1, 'Y', meta_inputs=[{'cls': 0}])],
                 files={'d1.json': pipe, 'c1.json': {'uses': ['d1.json as p']}, 'c2.json': {'uses': ['d1.json as q']}},
                 base={'file': 'c1.json'}, context=None)
        c['ops'] = [{'op': 'build', 'base': {'file': 'c2.json'}},
                    {'op': 'multi', 'bases': [{'file': 'c1.json'}, {'file': 'c2.json'}]},
                    {'op': 'value', 'chain': 1, 'pick': 1}, {'op': 'value', 'chain': 2, 'pick': 1},
                    {'op': 'force_multi', 'multi': 0, 'picks': [0], 'recompute': False, 'delete': False},
                    {'op': 'flags', 'chain': 2}, {'op': 'value', 'chain': 2, 'pick': 1}]
        # three configs: a shared source, dependants that differ per chain; forcing the shared task through the
        # MultiChain with delete_data must reach the dependants of every chain
        cls = [dict(K(0, 'Src'), name='a'), dict(K(1, 'Top', meta_inputs=[{'cls': 0}], params=[P('k')]), name='m')]
        bases = [{'name': f'c{i}', 'data': {'tasks': ['@M.*'], 'k': i}} for i in (1, 2, 3)]
        d = dict(classes=cls, files={}, base=bases[0], context=None)
        d['ops'] = [{'op': 'build', 'base': bases[1]}, {'op': 'multi', 'bases': bases},
                    {'op': 'value', 'chain': 1, 'pick': 1}, {'op': 'value', 'chain': 2, 'pick': 1},
                    {'op': 'value', 'chain': 3, 'pick': 1},
                    {'op': 'force_multi', 'multi': 0, 'picks': [0], 'recompute': False, 'delete': True},
                    {'op': 'flags', 'chain': 1}, {'op': 'flags', 'chain': 2}, {'op': 'flags', 'chain': 3},
                    {'op': 'has_data', 'chain': 3, 'pick': 1}, {'op': 'restart'}, {'op': 'multi', 'bases': bases},
                    {'op': 'has_data', 'chain': 1, 'pick': 1}, {'op': 'value', 'chain': 2, 'pick': 1},
                    {'op': 'force_multi', 'multi': 0, 'picks': [0], 'recompute': True, 'delete': True},
                    {'op': 'value', 'chain': 2, 'pick': 1}]
        # different classes with one short name in different groups, same parameters and inputs: never one object
        g = dict(classes=[dict(K(0, 'RawStats', group='raw'), name='stats'), dict(K(1, 'CleanStats', group='clean'), name='stats')],
                 files={}, base={'name': 'c1', 'data': {'tasks': ['@M.RawStats']}}, context=None)
        gb = [{'name': 'c1', 'data': {'tasks': ['@M.RawStats']}}, {'name': 'c2', 'data': {'tasks': ['@M.CleanStats']}}]
        g['ops'] = [{'op': 'build', 'base': gb[1]}, {'op': 'multi', 'bases': gb}, {'op': 'value', 'chain': 1, 'pick': 0},
                    {'op': 'value', 'chain': 2, 'pick': 0}, {'op': 'restart'}, {'op': 'multi', 'bases': gb},
                    {'op': 'value', 'chain': 1, 'pick': 0}]
        # one pipeline mounted under a nested namespace in one config and under a flat one in the other
        n = dict(classes=[dict(K(0, 'Src'), name='src'), dict(K(1, 'Agg', meta_inputs=[{'cls': 0}]), name='agg')],
                 files={'pipe.json': {'tasks': ['@M.*']}, 'mid.json': {'uses': 'pipe.json as b'}},
                 base={'name': 'c1', 'data': {'uses': 'mid.json as a'}}, context=None)
        nb = [{'name': 'c1', 'data': {'uses': 'mid.json as a'}}, {'name': 'c2', 'data': {'uses': 'pipe.json as c'}}]
        n['ops'] = [{'op': 'build', 'base': nb[1]}, {'op': 'multi', 'bases': nb}, {'op': 'value', 'chain': 1, 'pick': 1},
                    {'op': 'value', 'chain': 2, 'pick': 1}, {'op': 'value', 'chain': 0, 'pick': 1}]
        # one pipeline mounted as `a` in the first config and as `b` in the second, where `a` is another pipeline with the
        # same task names: the shared objects of the small pipeline keep their own upstream in both chains
        sm = [dict(K(0, 'Source', params=[P('size')]), name='source'), dict(K(1, 'Model', meta_inputs=[{'cls': 0}]), name='model')]
        sfiles = {'small.json': {'tasks': ['@M.*'], 'size': 1}, 'big.json': {'tasks': ['@M.*'], 'size': 100}}
        sb = [{'name': 'one', 'data': {'uses': ['small.json as a']}},
              {'name': 'two', 'data': {'uses': ['small.json as b', 'big.json as a']}}]
        sh = dict(classes=sm, files=sfiles, base=sb[0], context=None)
        sh['ops'] = [{'op': 'build', 'base': sb[1]}, {'op': 'build', 'base': sb[0]}, {'op': 'multi', 'bases': sb}] + \
                    [{'op': 'value', 'chain': ch, 'pick': k} for ch in (2, 3) for k in range(4)] + \
                    [{'op': 'restart'}, {'op': 'multi', 'bases': sb[::-1]}] + \
                    [{'op': 'value', 'chain': ch, 'pick': k} for ch in (0, 1) for k in range(4)]
        # a parameter with a default: one config sets it explicitly to None, the other leaves it out - two computations
        nn = [dict(K(0, 'Src', params=[P('x'), P('y', default=[5])]), name='src'), dict(K(1, 'Dst', meta_inputs=[{'cls': 0}]), name='dst')]
        nb = [{'name': 'c1', 'data': {'tasks': ['@M.*'], 'x': 1, 'y': None}}, {'name': 'c2', 'data': {'tasks': ['@M.*'], 'x': 1}},
              {'name': 'c3', 'data': {'tasks': ['@M.*'], 'x': 1, 'y': 5}}]
        nc = dict(classes=nn, files={}, base=nb[0], context=None)
        nc['ops'] = [{'op': 'build', 'base': b} for b in nb] + [{'op': 'multi', 'bases': nb}] + \
                    [{'op': 'value', 'chain': ch, 'pick': k} for ch in (3, 4, 5) for k in (0, 1)]
        # load -> clean (shared by the chains) -> report (differs per chain): forcing load through the MultiChain marks the
        # reports of every chain
        lc = [dict(K(0, 'Load'), name='load'), dict(K(1, 'Clean', meta_inputs=[{'cls': 0}]), name='clean'),
              dict(K(2, 'Report', meta_inputs=[{'cls': 1}], params=[P('a')]), name='report')]
        lb = [{'name': f'c{i}', 'data': {'tasks': ['@M.*'], 'a': i}} for i in (1, 2, 3)]
        lf = dict(classes=lc, files={}, base=lb[0], context=None)
        lf['ops'] = [{'op': 'build', 'base': lb[0]}, {'op': 'multi', 'bases': lb}] + \
                    [{'op': 'value', 'chain': ch, 'pick': 2} for ch in (1, 2, 3)] + \
                    [{'op': 'force_multi', 'multi': 0, 'picks': [0], 'recompute': False, 'delete': False}] + \
                    [{'op': 'flags', 'chain': ch} for ch in (1, 2, 3)] + [{'op': 'value', 'chain': ch, 'pick': 2} for ch in (3, 2, 1)]
        # member configs that differ only in a parameter of an in-memory task in the middle: the tasks downstream of it differ
        mm = [dict(K(0, 'Source'), name='source'), dict(K(1, 'Scale', meta_inputs=[{'cls': 0}], params=[P('factor')], data='memory'), name='scale'),
              dict(K(2, 'Report', meta_inputs=[{'cls': 1}]), name='report')]
        mb = [{'name': f'c{f}', 'data': {'tasks': ['@M.*'], 'factor': f}} for f in (2, 3)]
        mt = dict(classes=mm, files={}, base=mb[0], context=None)
        mt['ops'] = [{'op': 'multi', 'bases': mb}] + [{'op': 'value', 'chain': ch, 'pick': 2} for ch in (0, 1, 0, 1)] + \
                    [{'op': 'restart'}, {'op': 'multi', 'bases': mb[::-1]}] + [{'op': 'value', 'chain': ch, 'pick': 2} for ch in (1, 0)]
        # a task that is not symmetric in two mountings of one pipeline; the member configs mount the variants the other way round
        ab = [dict(K(0, 'Train', params=[P('speed')]), name='train'),
              dict(K(1, 'Compare', meta_inputs=[{'name': 'a::train'}, {'name': 'b::train'}]), name='compare')]
        abf = {'fast.json': {'tasks': ['@M.Train'], 'speed': 1}, 'slow.json': {'tasks': ['@M.Train'], 'speed': 2}}
        abb = [{'name': 'one', 'data': {'tasks': ['@M.Compare'], 'uses': ['fast.json as a', 'slow.json as b']}},
               {'name': 'two', 'data': {'tasks': ['@M.Compare'], 'uses': ['slow.json as a', 'fast.json as b']}}]
        abc = dict(classes=ab, files=abf, base=abb[0], context=None)
        abc['ops'] = [{'op': 'multi', 'bases': abb}] + [{'op': 'value', 'chain': ch, 'pick': k} for ch in (0, 1, 0) for k in range(3)] + \
                     [{'op': 'restart'}, {'op': 'multi', 'bases': abb[::-1]}] + [{'op': 'value', 'chain': ch, 'pick': k} for ch in (1, 0) for k in range(3)]
        # three variants of one pipeline; the members mount them under the same two namespaces in different roles, and the
        # namespaces are forced one after the other through the MultiChain
        tr = [dict(K(0, 'Source', params=[P('speed')]), name='source'), dict(K(1, 'Model', meta_inputs=[{'cls': 0}]), name='model')]
        trf = {'fast.json': {'tasks': ['@M.*'], 'speed': 1}, 'slow.json': {'tasks': ['@M.*'], 'speed': 2}, 'new.json': {'tasks': ['@M.*'], 'speed': 3}}
        trb = [{'name': 'one', 'data': {'uses': ['fast.json as a', 'slow.json as b']}}, {'name': 'two', 'data': {'uses': ['new.json as a', 'fast.json as b']}}]
        trs = []
        for first, second in ((2, 0), (0, 2)):        # task order of chain one: a::source, a::model, b::source, b::model
            trc = dict(classes=tr, files=trf, base=trb[0], context=None)
            trc['ops'] = [{'op': 'multi', 'bases': trb}] + [{'op': 'value', 'chain': ch, 'pick': k} for ch in (0, 1) for k in (1, 3)] + \
                         [{'op': 'force_multi', 'multi': 0, 'picks': [first], 'recompute': False, 'delete': False},
                          {'op': 'force_multi', 'multi': 0, 'picks': [second], 'recompute': False, 'delete': False}] + \
                         [{'op': 'flags', 'chain': ch} for ch in (0, 1)] + [{'op': 'value', 'chain': ch, 'pick': k} for ch in (1, 0) for k in (1, 3)]
            trs.append(trc)
        return [c, d, g, n, sh, nc, lf, mt, abc] + trs

    def oracle(self, case, obs):
        m = multi_oracle(case, obs)
        return m or history_oracle(case, obs, self.checks)


class ObjectUses(Suite):
    """configs that mount one pipeline Config OBJECT (`uses: [config]`, the form used in tests) and differ in their
    context: every chain of the MultiChain against the standalone chain of a fresh copy of the same config.
    Runtime check only - Config objects inside `uses` are mutated in place by construction and are not modelled."""
    name = 'config_objects_in_uses'
    model = ''

    def gen(self, rng, tier):
        out = []
        for xs in ([1, 2], [2, 1], [5, 5], [0, 1, 2], [3, 3, 4]):
            for order in ('multi_first', 'alone_first'):
                out.append(dict(xs=xs, ns=None, via_context=True, order=order))
        return out

    def run_impl(self, case):
        from taskchain import Config, MultiChain
        from .. import pipeline as pl
        classes = [dict(K(0, 'Src', params=[P('x')]), name='src'), dict(K(1, 'Dst', meta_inputs=[{'cls': 0}]), name='dst'),
                   dict(K(2, 'Free', data='memory'), name='free')]      # Free: a task no context touches
        with pl.workspace(dict(classes=classes, files={})) as (d, mod):
            def configs(shared):
                common = None
                out = []
                for i, x in enumerate(case['xs']):
                    if common is None or not shared:
                        common = Config(Path('data'), name='common', data={'tasks': [f'{mod}.Src', f'{mod}.Free'], 'x': 0},
                                        namespace=case['ns'])
                    data = {'tasks': [f'{mod}.Dst'], 'uses': [common]}
                    kw = {}
                    if case['via_context']:
                        kw['context'] = {'x': x}
                    else:
                        kw['context'] = {'for_namespaces': {case['ns']: {'x': x}}} if case['ns'] else {'x': x}
                    out.append(Config(Path('data'), name=f'c{i}', data=data, **kw))
                return out
            res = {}
            mc = MultiChain(configs(shared=True))
            res['multi'] = {n: pl.observe_chain(ch, with_paths=True) for n, ch in mc.chains.items()}
            before = pl.runs_started()
            res['multi_values'] = {n: {t: ch.tasks[t].value for t in ch.tasks} for n, ch in mc.chains.items()}
            res['multi_runs'] = pl.runs_started() - before
            res['alone'], res['alone_values'] = {}, {}
            for cfg in configs(shared=False):
                ch = cfg.chain()
                res['alone'][cfg.name] = pl.observe_chain(ch, with_paths=True)
                res['alone_values'][cfg.name] = {t: ch.tasks[t].value for t in ch.tasks}
            return res

    def oracle(self, case, obs):
        if 'unexpected_exception' in obs:
            return f'unexpected exception {obs["unexpected_exception"]}: {obs["text"]}'
        for n, alone in obs['alone'].items():
            m = obs['multi'].get(n)
            if m is None or sorted(m['tasks']) != sorted(alone['tasks']):
                return f'{case}: chain {n} of the MultiChain has tasks {sorted((m or {}).get("tasks", {}))}, standalone {sorted(alone["tasks"])}'
            for t, o in alone['tasks'].items():
                if m['tasks'][t]['key'] != o['key'] or m['tasks'][t].get('path') != o.get('path'):
                    return (f'{case}: task {t} of chain {n} is stored at {m["tasks"][t].get("path")} in the MultiChain and at '
                            f'{o.get("path")} in the standalone chain of the same config')
                if json.dumps(obs['multi_values'][n][t], sort_keys=True) != json.dumps(obs['alone_values'][n][t], sort_keys=True):
                    return f'{case}: task {t} of chain {n} yields {obs["multi_values"][n][t]} in the MultiChain, {obs["alone_values"][n][t]} standalone'
        # the same computation is one object in every member: also for a task the members' contexts do not touch
        seen = {}
        for n, m in obs['multi'].items():
            for t, o in m['tasks'].items():
                k = (o['slug'], o['key'])
                if k in seen and seen[k][1] != o['objid']:
                    return (f'{case}: {t} is the same computation (key {o["key"]}) in chains {seen[k][0]} and {n} but two task objects: '
                            f'a value computed through one chain is not in memory for the other')
                seen.setdefault(k, (n, o['objid']))
        return None

    def nontrivial(self, case, obs):
        return len(set(case['xs'])) > 1

    def key(self, case):
        return repr(case)


class DataDirs(Suite):
    """member configs that keep their results in different data directories (and, for contrast, in one): every
    task of every member is stored where the standalone chain of that config stores it, and a value computed
    through the MultiChain is found there by a standalone chain built afterwards.  Runtime check only."""
    name = 'member_data_dirs'
    model = ''

    def gen(self, rng, tier):
        out = []
        for xs in ([1, 1], [1, 2], [2, 2, 2], [1, 2, 1]):
            for dirs in ('one', 'per_config'):
                out.append(dict(xs=xs, dirs=dirs))
        return out

    def run_impl(self, case):
        from taskchain import Config, MultiChain
        from .. import pipeline as pl
        classes = [dict(K(0, 'Src', params=[P('x')]), name='src'), dict(K(1, 'Dst', meta_inputs=[{'cls': 0}]), name='dst')]
        with pl.workspace(dict(classes=classes, files={})) as (d, mod):
            def configs():
                return [Config(Path('data' if case['dirs'] == 'one' else f'data{i}'), name=f'c{i}',
                               data={'tasks': [f'{mod}.*'], 'x': x}) for i, x in enumerate(case['xs'])]
            res = {}
            mc = MultiChain(configs())
            res['multi'] = {n: pl.observe_chain(ch, with_paths=True) for n, ch in mc.chains.items()}
            res['multi_values'] = {n: {t: ch.tasks[t].value for t in ch.tasks} for n, ch in mc.chains.items()}
            res['alone'], res['alone_has'], res['alone_values'] = {}, {}, {}
            before = pl.runs_started()
            for cfg in configs():
                ch = cfg.chain()
                res['alone'][cfg.name] = pl.observe_chain(ch, with_paths=True)
                res['alone_has'][cfg.name] = {t: bool(ch.tasks[t].has_data) for t in ch.tasks}
                res['alone_values'][cfg.name] = {t: ch.tasks[t].value for t in ch.tasks}
            res['runs_alone'] = pl.runs_started() - before
            return res

    def oracle(self, case, obs):
        if 'unexpected_exception' in obs:
            return f'unexpected exception {obs["unexpected_exception"]}: {obs["text"]}'
        for n, alone in obs['alone'].items():
            m = obs['multi'].get(n)
            if m is None or sorted(m['tasks']) != sorted(alone['tasks']):
                return f'{case}: chain {n} of the MultiChain has tasks {sorted((m or {}).get("tasks", {}))}, standalone {sorted(alone["tasks"])}'
            for t, o in alone['tasks'].items():
                if m['tasks'][t]['key'] != o['key'] or m['tasks'][t].get('path') != o.get('path'):
                    return (f'{case}: task {t} of chain {n} is stored at {m["tasks"][t].get("path")} in the MultiChain and at '
                            f'{o.get("path")} in the standalone chain of the same config')
                if not obs['alone_has'][n][t]:
                    return (f'{case}: the value of {t} was requested through chain {n} of the MultiChain, but the standalone '
                            f'chain of that config finds no stored result at {o.get("path")}')
                if json.dumps(obs['multi_values'][n][t], sort_keys=True) != json.dumps(obs['alone_values'][n][t], sort_keys=True):
                    return f'{case}: task {t} of chain {n} yields {obs["multi_values"][n][t]} in the MultiChain, {obs["alone_values"][n][t]} standalone'
        if obs['runs_alone']:
            return f'{case}: standalone chains built after the MultiChain computed everything ran {obs["runs_alone"]} task(s) again'
        return None

    def nontrivial(self, case, obs):
        return case['dirs'] == 'per_config'

    def key(self, case):
        return repr(case)


class ForceForms(Suite):
    """MultiChain.force(tasks) with every form the signature admits (a name, a Task, a list, a tuple, a set, a
    one-shot iterator, a generator): in every member chain exactly the named tasks and their dependants are
    marked.  Runtime check only (the model's force takes a list)."""
    name = 'force_argument_forms'
    model = ''
    FORMS = ('name', 'list', 'tuple', 'iterator', 'generator', 'dict_keys')

    def gen(self, rng, tier):
        # a Task object names a task too; `src` is one object in all member chains (a Task object that is in one chain only
        # makes the other chains raise - the graph library does not know it -, see DESIGN 12.4)
        return [dict(form=f, n=n, pick=p) for f in self.FORMS for n in (2, 3) for p in ('src', 'mid')] + \
               [dict(form=f, n=n, pick='src') for f in ('task', 'task_list', 'task_and_name') for n in (2, 3)]

    def run_impl(self, case):
        from taskchain import Config, MultiChain
        from .. import pipeline as pl
        classes = [dict(K(0, 'Src'), name='src'), dict(K(1, 'Mid', meta_inputs=[{'cls': 0}], params=[P('k')]), name='mid'),
                   dict(K(2, 'Top', meta_inputs=[{'cls': 1}]), name='top'), dict(K(3, 'Side'), name='side')]
        with pl.workspace(dict(classes=classes, files={})) as (d, mod):
            mc = MultiChain([Config(Path('data'), name=f'c{i}', data={'tasks': [f'{mod}.*'], 'k': i})
                             for i in range(case['n'])])
            for ch in mc.chains.values():
                for t in ch.tasks.values():
                    _ = t.value
            names = [case['pick']]
            first = next(iter(mc.chains.values()))
            arg = {'name': names[0], 'list': names, 'tuple': tuple(names), 'iterator': iter(names),
                   'generator': (n for n in names), 'dict_keys': dict.fromkeys(names).keys(),
                   'task': first[names[0]], 'task_list': [first[names[0]]], 'task_and_name': [first[names[0]], 'side']}[case['form']]
            mc.force(arg)
            return {n: {t: bool(ch.tasks[t]._forced) for t in ch.tasks} for n, ch in mc.chains.items()}

    def oracle(self, case, obs):
        if 'unexpected_exception' in obs:
            return f'unexpected exception {obs["unexpected_exception"]}: {obs["text"]}'
        down = {'src': {'src', 'mid', 'top'}, 'mid': {'mid', 'top'}}[case['pick']] | ({'side'} if case['form'] == 'task_and_name' else set())
        for n, flags in obs.items():
            got = {t for t, f in flags.items() if f}
            if got != down:
                return (f'MultiChain.force({case["form"]} of [{case["pick"]}]): in chain {n} the tasks {sorted(got)} are marked, '
                        f'expected {sorted(down)}')
        return None

    def nontrivial(self, case, obs):
        return True

    def key(self, case):
        return repr(case)


PATTERN_SRC = """
from taskchain import Task, Parameter

RUNS = []

class InA(Task):
    def run(self) -> dict:
        RUNS.append('in_a')
        return {'v': 'a'}

class InB(Task):
    def run(self) -> dict:
        RUNS.append('in_b')
        return {'v': 'b'}

class Collect(Task):            # collects by a pattern; its value does not depend on the order of the collected tasks
    class Meta:
        input_tasks = ['~in_.*']
    def run(self) -> dict:
        RUNS.append('collect')
        return {'all': sorted(t.value['v'] for t in self.input_tasks.values())}

class Top(Task):
    class Meta:
        input_tasks = [Collect]
        parameters = [Parameter('k')]
    def run(self, collect, k) -> dict:
        RUNS.append('top%s' % k)
        return {'k': k, 'from': collect}
"""


class PatternMembers(Suite):
    """member configs that list the tasks a pattern input collects in different orders: the collecting task is the same
    computation in all of them - one location (that of every standalone chain), one shared object, computed once - and the
    tasks downstream of it that differ in a parameter are distinct.  Runtime check only."""
    name = 'pattern_inputs_across_members'
    model = ''

    def gen(self, rng, tier):
        import itertools
        orders = [list(p) for p in itertools.permutations(['InA', 'InB', 'Collect', 'Top'])]
        return [dict(orders=[orders[0], o]) for o in orders[1:8]] + [dict(orders=[orders[3], orders[9], orders[20]])]

    def run_impl(self, case):
        import sys, types
        from taskchain import Config, MultiChain
        from .. import pipeline as pl
        with pl.workspace(dict(classes=[], files={})) as (d, _):
            name = 'tcv_patterns'
            m = types.ModuleType(name)
            sys.modules[name] = m
            try:
                exec(compile(PATTERN_SRC, name, 'exec'), m.__dict__)
                cfgs = lambda: [Config(Path('data'), name=f'c{i}', data={'tasks': [f'{name}.{c}' for c in o], 'k': i})
                                for i, o in enumerate(case['orders'])]
                alone = [{n: str(t.data_path) for n, t in c.chain().tasks.items()} for c in cfgs()]
                mc = MultiChain(cfgs())
                chains = [ch for _, ch in sorted(mc.chains.items())]
                member = [{n: str(t.data_path) for n, t in ch.tasks.items()} for ch in chains]
                ids = [{n: id(t) for n, t in ch.tasks.items()} for ch in chains]
                values = [ch['top'].value for ch in chains]
                return dict(alone=alone, member=member, same_collect=len({i['collect'] for i in ids}), tops=len({i['top'] for i in ids}),
                            values=values, runs=sorted(m.RUNS))
            finally:
                sys.modules.pop(name, None)

    def oracle(self, case, obs):
        if 'unexpected_exception' in obs:
            return f'unexpected exception {obs["unexpected_exception"]}: {obs["text"]}'
        n = len(case['orders'])
        if obs['alone'] != obs['member']:
            return f'{case}: locations in the MultiChain {obs["member"]} differ from those of the standalone chains {obs["alone"]}'
        if len({a['collect'] for a in obs['alone']}) != 1:
            return f'{case}: the collecting task has the locations {[a["collect"] for a in obs["alone"]]} in configs that list its inputs in different orders'
        if obs['same_collect'] != 1 or obs['tops'] != n:
            return f'{case}: {obs["same_collect"]} collecting objects (one computation) and {obs["tops"]} top objects ({n} computations)'
        want = sorted(['in_a', 'in_b', 'collect'] + [f'top{i}' for i in range(n)])
        if obs['runs'] != want:
            return f'{case}: runs {obs["runs"]}, expected {want}'
        for i, v in enumerate(obs['values']):
            if v != {'k': i, 'from': {'all': ['a', 'b']}}:
                return f'{case}: chain {i} yields {v}'
        return None

    def nontrivial(self, case, obs):
        return True

    def key(self, case):
        return repr(case)


class NameModeMembers(Suite):
    """MultiChain(configs, parameter_mode=False): every member has the tasks, values and (config-name based) storage
    locations of the standalone chain built with parameter_mode=False from the same config - for separate config files
    and for the parts of one multi-config file.  Runtime check only (the model is parameter mode)."""
    name = 'name_mode_members'
    model = ''

    def gen(self, rng, tier):
        return [dict(layout=l, xs=xs, first=f) for l in ('files', 'parts') for xs in ([1, 2], [3, 3], [1, 2, 1])
                for f in ('multi', 'alone')]

    def run_impl(self, case):
        from taskchain import Config, MultiChain
        from .. import pipeline as pl
        classes = [dict(K(0, 'Src', params=[P('x')]), name='src'), dict(K(1, 'Dst', meta_inputs=[{'cls': 0}]), name='dst')]
        xs = case['xs']
        if case['layout'] == 'files':
            files = {f'c{i}.json': {'tasks': ['@M.*'], 'x': x} for i, x in enumerate(xs)}
            refs = [f'c{i}.json' for i in range(len(xs))]
        else:
            files = {'multi.json': {'configs': {f'p{i}': dict({'tasks': ['@M.*'], 'x': x}, **({'main_part': True} if i == 0 else {}))
                                                for i, x in enumerate(xs)}}}
            refs = [f'multi.json#p{i}' for i in range(len(xs))]
        with pl.workspace(dict(classes=classes, files=files)) as (d, mod):
            def see(ch):
                return {n: dict(path=str(t.data_path), value=pl.to_spec(t.value)) for n, t in ch.tasks.items()}

            def multi():
                mc = MultiChain([Config(Path('data'), r) for r in refs], parameter_mode=False)
                return [see(ch) for _, ch in sorted(mc.chains.items())]

            def alone():
                return [see(Config(Path('data'), r).chain(parameter_mode=False)) for r in sorted(refs, key=lambda r: Config(Path('data'), r).name)]
            if case['first'] == 'multi':
                m = multi()
                a = alone()
            else:
                a = alone()
                m = multi()
            return dict(multi=m, alone=a, runs=pl.runs_started())

    def oracle(self, case, obs):
        if 'unexpected_exception' in obs:
            return f'unexpected exception {obs["unexpected_exception"]}: {obs["text"]}'
        for i, (m, a) in enumerate(zip(obs['multi'], obs['alone'])):
            for n in a:
                if n not in m:
                    return f'{case}: member {i} lacks task {n}'
                if m[n]['path'] != a[n]['path']:
                    return (f'{case}: task {n} of member {i} is stored at {m[n]["path"]}, the standalone name-mode chain of the same '
                            f'config stores it at {a[n]["path"]}')
                if json.dumps(m[n]['value'], sort_keys=True) != json.dumps(a[n]['value'], sort_keys=True):
                    return f'{case}: task {n} of member {i} yields {m[n]["value"]}, standalone {a[n]["value"]}'
                want_x = repr(case['xs'][i])
                if n == 'src' and a[n]['value'].get('p', {}).get('x') != want_x:
                    return f'{case}: src of config {i} was computed with x={a[n]["value"].get("p")}, configured {want_x}'
        n_loc = len(set(case['xs'])) if False else len(case['xs'])
        if obs['runs'] != 2 * n_loc:
            return f'{case}: {obs["runs"]} runs for {n_loc} configs of two tasks (one run per task and config name)'
        return None

    def nontrivial(self, case, obs):
        return True

    def key(self, case):
        return repr(case)


class C13(Prop):
    pid = 'C13'
    suites = [Multi(), ObjectUses(), DataDirs(), SharedByLocation(), ForceForms(), NameModeMembers(), PatternMembers()]
    assumptions = ['config names within one MultiChain are distinct (the constructor asserts it)']


PROP = C13()
