"""C08 - the dependency graph is exactly the declared one, and acyclic."""
from ..core import Prop
from .c13 import Multi
from ..coqlit import cbool, clist, cnat, cpair, cstr
from .. import pipeline as pl
from ..suites_chain import ChainBuild, chain_oracle, cobs, CONSTRUCTION_ERRORS


class Graphs(ChainBuild):
    """chain construction plus required_tasks / dependent_tasks / is_task_dependent_on on random tasks"""
    name = 'chain_graph'
    aspects = ('tasks', 'edges')
    in_type = '(world * (str + (str * cfgdata)) * list (nat * str * str * bool))'
    model = ('(fun c : world * (str + (str * cfgdata)) * list (nat * str * str * bool) => '
             'render_build_queries (build sha_key (fst (fst c)) (snd (fst c)) [] []) (snd c))')

    def corpus(self):
        out = []
        for c in super().corpus():
            c = dict(c)
            c['queries'] = [dict(kind=k, a=i, b=j, inc=inc) for k in (0, 1, 2) for i, j, inc in ((0, 1, True), (1, 0, False))]
            out.append(c)
        return out

    def gen(self, rng, tier):
        out = []
        for c in super().gen(rng, tier):
            c['queries'] = [dict(kind=rng.randrange(3), a=rng.randrange(64), b=rng.randrange(64), inc=rng.random() < 0.5)
                            for _ in range(rng.choice([2, 4, 6]))]
            out.append(c)
        return out

    def run_impl(self, case):
        with pl.workspace(case) as (d, mod):
            try:
                chain = pl.build_config(case, mod).chain()
            except CONSTRUCTION_ERRORS as e:
                return dict(error=type(e).__name__, text=str(e)[:200])
            obs = pl.observe_chain(chain, with_paths=True)
            names = list(chain.tasks)
            canon = {n: t['canon'] for n, t in obs['tasks'].items()}
            by_obj = {id(chain.tasks[n]): canon[n] for n in names}
            answers = []
            for q in case['queries']:
                if not names:
                    answers.append(dict(a='?', b='?', kind=q['kind'], inc=q['inc'], answer='error'))
                    continue
                a, b = names[q['a'] % len(names)], names[q['b'] % len(names)]
                ta, tb = chain.tasks[a], chain.tasks[b]
                if q['kind'] == 0:
                    ans = sorted(by_obj[id(t)] for t in chain.dependent_tasks(ta, include_self=q['inc']))
                elif q['kind'] == 1:
                    ans = sorted(by_obj[id(t)] for t in chain.required_tasks(ta, include_self=q['inc']))
                else:
                    ans = bool(chain.is_task_dependent_on(ta, tb))
                answers.append(dict(a=a, b=b, kind=q['kind'], inc=q['inc'], answer=ans))
            obs['answers'] = answers
            return obs

    def encode(self, case, obs):
        qs = clist([cpair(cnat(a['kind']), cstr(a['a']), cstr(a['b']), cbool(a['inc'])) for a in obs.get('answers', [])])
        i = cpair(pl.cworld(case, 'M'), pl.cbase(case['base'], 'M'), qs)
        if 'tasks' not in obs:
            return i, cobs(obs)
        ans = []
        for a in obs['answers']:
            if a['answer'] == 'error':
                ans.append('(VStr (lit "error"))')
            elif isinstance(a['answer'], bool):
                ans.append(f'(VBool {cbool(a["answer"])})')
            else:
                ans.append('(VList ' + clist([f'(VStr {cstr(n)})' for n in a['answer']]) + ')')
        return i, f'(VList [{cobs(obs)}; VList {clist(ans)}])'

    def oracle(self, case, obs):
        m = chain_oracle(case, obs, self.aspects)
        if m or 'tasks' not in obs:
            return m
        # closures recomputed naively from the observed direct edges (object level)
        edges = {(u, v) for u, v in (tuple(e) for e in obs['edges'])}
        nodes = {t['canon'] for t in obs['tasks'].values()}

        def reach(x, fwd=True):
            out, todo = set(), [x]
            while todo:
                n = todo.pop()
                for u, v in edges:
                    s, t = (u, v) if fwd else (v, u)
                    if s == n and t not in out:
                        out.add(t)
                        todo.append(t)
            return out
        canon = {n: t['canon'] for n, t in obs['tasks'].items()}
        for a in obs['answers']:
            if a['answer'] == 'error':
                continue
            x, y = canon[a['a']], canon[a['b']]
            if a['kind'] in (0, 1):
                want = reach(x, fwd=a['kind'] == 0) - {x}
                if a['inc']:
                    want = want | {x}
                if sorted(want) != a['answer']:
                    name = 'dependent_tasks' if a['kind'] == 0 else 'required_tasks'
                    return f'{name}({a["a"]}, include_self={a["inc"]}) = {a["answer"]}, transitive closure of the edges gives {sorted(want)}'
            else:
                want = x == y or x in reach(y)
                if want != a['answer']:
                    return f'is_task_dependent_on({a["a"]}, {a["b"]}) = {a["answer"]}, closure gives {want}'
        return None


class NameMode(ChainBuild):
    """persistence by config name (parameter_mode=False) builds the chain by another route (no second pass that
    re-creates the tasks): the same declarations give the same tasks and the same input edges as in parameter mode, and
    cyclic or dangling declarations fail in this mode as well.  Runtime check only (the chain model is parameter mode)."""
    name = 'name_mode_graph'
    model = ''

    def corpus(self):
        from ..suites_chain import K
        base = {'name': 'm', 'data': {'tasks': ['@M.*']}}
        mk = lambda classes: dict(classes=classes, files={}, base=base, context=None)
        ring = lambda n: [dict(K(i, f'R{i}', meta_inputs=[{'name': f'r{(i + 1) % n}'}]), name=f'r{i}') for i in range(n)]
        return [
            # cycles that no task without inputs leads to: two tasks feeding each other, a ring, a task that is its own input
            mk(ring(2) + [dict(K(2, 'Src'), name='src'), dict(K(3, 'Sink', meta_inputs=[{'cls': 2}]), name='sink')]),
            mk(ring(3)),
            mk([dict(K(0, 'Self', meta_inputs=[{'name': 'self'}]), name='self'), dict(K(1, 'Other'), name='other')]),
            # a cycle below a root, and an acyclic control
            mk([dict(K(0, 'Root'), name='root'), dict(K(1, 'A', meta_inputs=[{'cls': 0}, {'name': 'b'}]), name='a'),
                dict(K(2, 'B', meta_inputs=[{'name': 'a'}]), name='b')]),
            mk([dict(K(0, 'Root'), name='root'), dict(K(1, 'A', meta_inputs=[{'cls': 0}]), name='a'),
                dict(K(2, 'B', meta_inputs=[{'cls': 1}, {'cls': 0}]), name='b')]),
            mk([dict(K(0, 'A', meta_inputs=[{'name': 'ghost'}]), name='a')]),
        ]

    def run_impl(self, case):
        def build(mode):
            with pl.workspace(case) as (d, mod):
                try:
                    chain = pl.build_config(case, mod).chain(parameter_mode=mode)
                except CONSTRUCTION_ERRORS as e:
                    return dict(error=type(e).__name__, text=str(e)[:150])
                ins = {n: sorted((k, (v.fullname if hasattr(v, 'fullname') else 'default')) for k, v in t.input_tasks.items())
                       for n, t in chain.tasks.items()}
                import networkx as nx
                return dict(tasks=sorted(chain.tasks), inputs=ins, acyclic=bool(nx.is_directed_acyclic_graph(chain.graph)))
        return dict(param=build(True), name=build(False))

    def oracle(self, case, obs):
        if 'unexpected_exception' in obs:
            return f'unexpected exception {obs["unexpected_exception"]}: {obs["text"]}'
        from ..gen_pipeline import ref_chain, Unsure
        try:
            exp = ref_chain(case)
        except Unsure:
            return None
        except (KeyError, IndexError, ValueError, AttributeError, TypeError):
            return None
        p, n = obs['param'], obs['name']
        if isinstance(exp, tuple):
            reason = exp[1]
            if (reason == 'cycle' or 'not found' in reason) and 'error' not in n:
                return (f'the declarations are invalid ({reason}) and chain construction with parameter_mode=False succeeded'
                        + ('' if n.get('acyclic', True) else ' with a cyclic graph'))
            return None
        if 'error' in p or 'error' in n:
            return None
        if not n['acyclic']:
            return 'the chain built with parameter_mode=False has a cyclic graph'
        if n['tasks'] != p['tasks']:
            return f'parameter_mode=False gives the tasks {n["tasks"]}, parameter mode {p["tasks"]}'
        return None

    def encode(self, case, obs):
        return '', ''

    def nontrivial(self, case, obs):
        return 'error' in obs.get('param', {}) or len(obs.get('param', {}).get('tasks', [])) >= 2


class SharedAcrossChains(Multi):
    """task objects shared between the chains of a MultiChain that mount their pipeline under different namespaces:
    in every member chain the inputs of every task are the tasks of that chain's own mounting (values and
    object identities against the standalone chains and the history model)"""
    name = 'shared_objects_wiring'

    def corpus(self):
        return super().corpus()[-1:]

    def gen(self, rng, tier):
        return []


class C08(Prop):
    pid = 'C08'
    suites = [Graphs(), SharedAcrossChains(), NameMode()]
    trusted_base = ['networkx (DiGraph, ancestors, descendants, has_path, DAG test) is tied to the model\'s own proved '
                    'closure functions by the correspondence',
                    'import strings are resolved by the harness (import_by_string is not modelled); input patterns are '
                    'restricted to literals and prefix.* patterns']
    assumptions = ['a dependency cycle ends in RecursionError in parameter mode (before the acyclicity check): any '
                   'construction error counts as "construction fails"']


PROP = C08()
