"""C08 - the dependency graph is exactly the declared one, and acyclic."""
from ..core import Prop
from ..suites_chain import ChainBuild


class C08(Prop):
    pid = 'C08'
    suites = [ChainBuild()]


PROP = C08()
