"""C20 - migration to parameter mode carries every result over unchanged."""
import contextlib
import hashlib
import os
import io
import json
from pathlib import Path

from ..core import Prop, Suite
from ..coqlit import cbool, clist, cpair, cstr
from .. import pipeline as pl
from ..suites_chain import CONSTRUCTION_ERRORS


def tree(root):
    """[(relative path, 'dir' | sha of the bytes)] of a directory tree, sorted."""
    base = Path(root)
    out = []
    if not base.exists():
        return out
    for p in sorted(base.rglob('*'), key=lambda q: str(q.relative_to(base))):
        rel = str(p.relative_to(base))
        if p.is_symlink() and not p.exists():
            out.append([rel, 'dangling link to ' + os.readlink(p)])       # what a reader of the directory cannot read
            continue
        out.append([rel, 'dir'] if p.is_dir() else [rel, hashlib.sha256(p.read_bytes()).hexdigest()[:16]])
    return out


def describe_value(v):
    """a directory result is described by what it contains"""
    return {'__dir__': tree(v)} if isinstance(v, Path) else v


def cstore(entries):
    return clist([cpair(cstr(p), 'FDir' if h == 'dir' else f'(FValue (VStr {cstr(h)}))') for p, h in entries])


def ctree(entries):
    return '(VList ' + clist([f'(VList [VStr {cstr(p)}; VStr {cstr(h)}])' for p, h in entries]) + ')'


class Migrations(Suite):
    name = 'migrations'
    imports = 'Value Dict Repr Param Config Key Chain World Eval Migration'
    shard = 10
    in_type = '(World.world * (str + (str * cfgdata)) * store * list bool)'
    out_type = 'value'
    prelude = '''
Definition render_store (st : store) : value :=
  VList (map (fun e => VList [VStr (fst e); match snd e with FDir => VStr (lit "dir") | FValue v => v | _ => VStr (lit "?") end])
             (isort (fun a b => str_leb (fst a) (fst b)) st)).
Fixpoint mig_run (w : World.world) (b : str + (str * cfgdata)) (src dst : store) (drys : list bool) : list value :=
  match drys with
  | [] => []
  | d :: r => match migrate_config sha_key w b d src dst with
              | inl (s', d') => VList [render_store s'; render_store d'] :: mig_run w b s' d' r
              | inr _ => [VStr (lit "error")]
              end
  end.
Definition mig_model (c : World.world * (str + (str * cfgdata)) * store * list bool) : value :=
  let '(w, b, src, drys) := c in VList (mig_run w b src [] drys).
'''
    eqb = 'value_eqb'
    model = 'mig_model'

    def corpus(self):
        from ..suites_chain import K, P
        return [dict(classes=[K(0, 'A', params=[P('x')]), K(1, 'B', group='g', meta_inputs=[{'cls': 0}]),
                              K(2, 'C', meta_inputs=[{'cls': 1}]), K(3, 'M', data='memory')],
                     files={'cfg/main.json': {'tasks': ['@M.*'], 'x': 1}}, base={'file': 'cfg/main.json'}, context=None,
                     compute=[1], drys=[True, False, False]),
                dict(classes=[K(0, 'A', params=[P('x')]), K(1, 'B', group='g', meta_inputs=[{'cls': 0}])],
                     files={'cfg/main.json': {'tasks': ['@M.*'], 'x': 1}}, base={'file': 'cfg/main.json'}, context=None,
                     compute=[0, 1], drys=[True, True, False], verbose=False),
                # a stored subset that is not closed under dependencies: the upstream result was deleted afterwards
                dict(classes=[K(0, 'A', params=[P('x')]), K(1, 'B', group='g', meta_inputs=[{'cls': 0}]),
                              K(2, 'C', meta_inputs=[{'cls': 1}]), K(3, 'D', meta_inputs=[{'cls': 0}], data='dir')],
                     files={'cfg/main.json': {'tasks': ['@M.*'], 'x': 1}}, base={'file': 'cfg/main.json'}, context=None,
                     compute=[0, 1, 2, 3], delete=[0], drys=[False, False], verbose=False),
                dict(classes=[K(0, 'A', params=[P('x')]), K(1, 'B', group='g', meta_inputs=[{'cls': 0}]),
                              K(2, 'C', meta_inputs=[{'cls': 1}]), K(3, 'D', meta_inputs=[{'cls': 0}], data='dir')],
                     files={'cfg/main.json': {'tasks': ['@M.*'], 'x': 1}}, base={'file': 'cfg/main.json'}, context=None,
                     compute=[0, 1, 2, 3], delete=[1, 0], drys=[True, False], verbose=True),
                # two config files with the same tasks and values under two namespaces: one task object, two names, in
                # parameter mode
                dict(classes=[K(0, 'A', params=[P('x')]), K(1, 'B', group='g', meta_inputs=[{'cls': 0}])],
                     files={'a.json': {'tasks': ['@M.*'], 'x': 1}, 'b.json': {'tasks': ['@M.*'], 'x': 1},
                            'main.json': {'uses': ['a.json as p', 'b.json as q']}},
                     base={'file': 'main.json'}, context=None, compute=[0, 1, 2, 3], drys=[True, False, False], verbose=False),
                # the chain of a part of a multi-config file that is not the main part
                dict(classes=[K(0, 'A', params=[P('x')]), K(1, 'B', group='g', meta_inputs=[{'cls': 0}])],
                     files={'multi.json': {'configs': {'p0': {'tasks': ['@M.*'], 'x': 1, 'main_part': True},
                                                       'p1': {'tasks': ['@M.*'], 'x': 2}}}},
                     base={'file': 'multi.json#p1'}, context=None, compute=[0, 1], drys=[False, False], verbose=False),
                dict(classes=[K(0, 'A', params=[P('x')]), K(1, 'B', group='g', meta_inputs=[{'cls': 0}])],
                     files={'multi.json': {'configs': {'p0': {'tasks': ['@M.A'], 'x': 1},
                                                       'p1': {'tasks': ['@M.B'], 'uses': '#p0'}}}},
                     base={'file': 'multi.json#p1'}, context=None, compute=[0, 1], drys=[True, False], verbose=True),
                # two parts of one multi-config file under two namespaces, the same task classes in both, everything computed
                dict(classes=[K(0, 'A', params=[P('x')]), K(1, 'B', group='g', meta_inputs=[{'cls': 0}])],
                     files={'multi.json': {'configs': {'small': {'tasks': ['@M.*'], 'x': 1}, 'big': {'tasks': ['@M.*'], 'x': 2}}},
                            'main.json': {'uses': ['multi.json#small as small', 'multi.json#big as big']}},
                     base={'file': 'main.json'}, context=None, compute=[0, 1, 2, 3], drys=[True, False, False], verbose=False),
                dict(classes=[K(0, 'A', params=[P('x')]), K(1, 'B', group='g', meta_inputs=[{'cls': 0}])],
                     files={'multi.json': {'configs': {'small': {'tasks': ['@M.*'], 'x': 1}, 'big': {'tasks': ['@M.*'], 'x': 2}}},
                            'main.json': {'uses': ['multi.json#big as big', 'multi.json#small as small']}},
                     base={'file': 'main.json'}, context=None, compute=[2, 3], drys=[False, False], verbose=False),
                # the same, each part computed on its own by the chain of that part before the pipeline over both is migrated
                dict(classes=[K(0, 'A', params=[P('x')]), K(1, 'B', group='g', meta_inputs=[{'cls': 0}])],
                     files={'multi.json': {'configs': {'small': {'tasks': ['@M.*'], 'x': 1}, 'big': {'tasks': ['@M.*'], 'x': 2}}},
                            'main.json': {'uses': ['multi.json#small as small', 'multi.json#big as big']}},
                     base={'file': 'main.json'}, context=None, compute=[], compute_parts=['multi.json#small', 'multi.json#big'],
                     drys=[False, False], verbose=False),
                dict(classes=[K(0, 'A', params=[P('x')]), K(1, 'B', group='g', meta_inputs=[{'cls': 0}])],
                     files={'multi.json': {'configs': {'small': {'tasks': ['@M.*'], 'x': 1}, 'big': {'tasks': ['@M.*'], 'x': 2}}},
                            'main.json': {'uses': ['multi.json#small as small', 'multi.json#big as big']}},
                     base={'file': 'main.json'}, context=None, compute=[], compute_parts=['multi.json#big'], drys=[True, False], verbose=False)]

    def gen(self, rng, tier):
        from ..gen_pipeline import gen_case
        out = []
        while len(out) < (40 if tier == 'quick' else 800):
            c = gen_case(rng)
            if 'file' not in c['base']:
                continue
            c['compute'] = [rng.randrange(64) for _ in range(rng.choice([0, 1, 2, 3, 5]))]
            if rng.random() < 0.3:
                c['delete'] = [rng.randrange(64) for _ in range(rng.choice([1, 2]))]
            c['verbose'] = rng.random() < 0.6
            c['drys'] = rng.choice([[False], [True], [True, False], [False, False], [True, False, False]])
            out.append(c)
        return out

    def run_impl(self, case):
        from taskchain import Config
        from taskchain.utils.migration import migrate_to_parameter_mode
        with pl.workspace(case) as (d, mod):
            try:
                cfg = pl.build_config(case, mod)
                old = cfg.chain(parameter_mode=False)
            except CONSTRUCTION_ERRORS as e:
                return dict(error='name-mode chain: ' + type(e).__name__)
            names = list(old.tasks)
            old_values = {}
            # results computed earlier by the name-mode chains of single parts / files of the pipeline, each on its own
            part_values = {}
            for ref in case.get('compute_parts', []):
                ref, ns = (ref, ref.split('#')[1]) if isinstance(ref, str) else ref      # (a part is mounted under the namespace of its name)
                part_chain = Config(Path('data'), ref).chain(parameter_mode=False)
                for n, t in part_chain.tasks.items():
                    part_values[f'{ns}::{n}'] = describe_value(t.value)
            if case.get('compute_parts'):
                for n, t in old.tasks.items():
                    if t.has_data:
                        old_values[n] = describe_value(t.value)
            for k in case['compute']:
                if names:
                    n = names[k % len(names)]
                    try:
                        old_values[n] = describe_value(old.tasks[n].value)
                    except Exception:
                        pass
            try:    # can the parameter-mode chain of this configuration be built at all (on a scratch directory)?
                Config(Path('scratch_pm'), case['base']['file'], global_vars=pl.gv_arg(case),
                       context=pl.ctx_arg(case.get('context'), mod)).chain()
                param_ok = True
            except Exception:
                param_ok = False
            import shutil
            shutil.rmtree('scratch_pm', ignore_errors=True)
            for k in case.get('delete', []):     # results removed after the pipeline was computed (a big intermediate one)
                if names:
                    n = names[k % len(names)]
                    try:
                        old.tasks[n].force(delete_data=True)
                        old_values.pop(n, None)
                    except Exception:
                        pass
            src0 = tree('data')
            steps = []
            for dry in case['drys']:
                buf = io.StringIO()
                try:
                    with contextlib.redirect_stdout(buf):
                        migrate_to_parameter_mode(cfg, Path('target'), dry=dry, verbose=case.get('verbose', True))
                    steps.append(dict(src=tree('data'), dst=tree('target')))
                except (KeyError, AssertionError, ValueError, RecursionError, FileNotFoundError) as e:
                    steps.append(dict(error=type(e).__name__))
                    break
            after = {}
            if steps and 'error' not in steps[-1]:
                pl.RUNLOG.clear()
                try:
                    new = Config(Path('target'), case['base']['file'], global_vars=pl.gv_arg(case),
                                 context=pl.ctx_arg(case.get('context'), mod)).chain()
                    has = {n: bool(t.has_data) for n, t in new.tasks.items()}
                    vals = {}
                    for n, t in new.tasks.items():
                        if has[n]:
                            vals[n] = describe_value(t.value)
                    after = dict(has=has, values=vals, ran=[f'{s}#{k}' for _, s, k in pl.RUNLOG],
                                 old_has={n: bool(t.has_data) for n, t in old.tasks.items()},
                                 old_fullname={n: t.fullname for n, t in old.tasks.items()},
                                 new_path={n: str(t.data_path) for n, t in new.tasks.items()})
                except CONSTRUCTION_ERRORS as e:
                    after = dict(error=type(e).__name__)
            return dict(src0=src0, steps=steps, old_values=old_values, after=after, param_ok=param_ok, part_values=part_values)

    def encode(self, case, obs):
        i = cpair(pl.cworld(case, 'M'), pl.cbase(case['base'], 'M'), cstore(obs.get('src0', [])),
                  clist([cbool(d) for d in case['drys']]))
        if 'steps' not in obs:
            return i, '(VList [VStr (lit "error")])'
        outs = []
        for s in obs['steps']:
            outs.append('(VStr (lit "error"))' if 'error' in s else f'(VList [{ctree(s["src"])}; {ctree(s["dst"])}])')
        return i, '(VList ' + clist(outs) + ')'

    def oracle(self, case, obs):
        if 'unexpected_exception' in obs:
            return f'unexpected exception {obs["unexpected_exception"]}: {obs["text"]}'
        if 'steps' in obs and obs.get('param_ok') and any(s.get('error') == 'KeyError' for s in obs['steps']):
            return ('migration fails with KeyError although the name-mode chain and the parameter-mode chain of the configuration '
                    'can both be built: a task of one chain is not found in the other')
        if 'steps' not in obs or any('error' in s for s in obs['steps']):
            return None
        src0 = {p: h for p, h in obs['src0']}
        real_done = False
        prev_dst = {}
        k3 = None
        for k, (dry, s) in enumerate(zip(case['drys'], obs['steps'])):
            src, dst = {p: h for p, h in s['src']}, {p: h for p, h in s['dst']}
            changed = [p for p, h in src0.items() if src.get(p) != h]
            if changed:
                return f'migration {k}: source files changed or removed: {changed[:4]}'
            added = [p for p in src if p not in src0]
            if any(src[p] != 'dir' for p in added):
                return f'migration {k}: files were added to the source directory: {[p for p in added if src[p] != "dir"][:4]}'
            if dry and any(h != 'dir' and prev_dst.get(p) != h for p, h in dst.items()):
                return f'migration {k} was dry but wrote result files: {[p for p, h in dst.items() if h != "dir" and prev_dst.get(p) != h][:4]}'
            if real_done and not dry:
                if {p: h for p, h in dst.items() if h != 'dir'} != {p: h for p, h in prev_dst.items() if h != 'dir'}:
                    return f'migration {k}: a repeated migration changed the result files of the target'
            if not dry:
                real_done = True
            prev_dst = dst
            if added and k3 is None:
                k3 = f'[source-dirs-created] migration {k} created directories in the source tree: {added[:4]}'
        a = obs.get('after') or {}
        if real_done and 'has' in a:
            # results that the chains of single parts stored on their own: each is carried over under the namespace of its part
            for n, v in (obs.get('part_values') or {}).items():
                if not a['has'].get(n):
                    return f'{n} had a stored result (computed by the chain of its part) and has none in the target after migration'
                if json.dumps(a['values'].get(n), sort_keys=True) != json.dumps(v, sort_keys=True):
                    return f'{n}: the migrated value {json.dumps(a["values"].get(n))[:120]} differs from the one its part stored {json.dumps(v)[:120]}'
            for n, h in a['has'].items():
                if n not in a['old_has']:
                    continue
                # in name mode one task object (one stored result) can be known under several namespaces; it is
                # carried over for the name it was created under - under its other names the parameter-mode task
                # is another computation unless the keys coincide
                alias = a.get('old_fullname', {}).get(n, n) != n
                # in parameter mode tasks that are the same computation have one location: a task that had no result
                # by its config name has one in the target when a task of the same computation had one ("exactly the
                # tasks that had one" is read per computation)
                twin = h and not a['old_has'][n] and any(
                    a['old_has'].get(m) and a.get('new_path', {}).get(m) == a.get('new_path', {}).get(n) for m in a['has'] if m != n)
                if h != a['old_has'][n] and not (alias and a['old_has'][n]) and not twin:
                    return f'after migration {n} has_data={h} in the target, {a["old_has"][n]} in the source'
            if a['ran']:
                return f'the parameter-mode chain ran {a["ran"]} for migrated results'
            for n, v in a['values'].items():
                if a.get('old_fullname', {}).get(n, n) != n:
                    # known in name mode under this name too, but created (and computed) under another one: the value it
                    # showed there belongs to that other configuration (see the has_data rule above)
                    continue
                if n in obs['old_values'] and json.dumps(v, sort_keys=True) != json.dumps(obs['old_values'][n], sort_keys=True):
                    return f'{n}: the migrated value differs from the original'
        return k3

    def nontrivial(self, case, obs):
        return 'steps' in obs and any(h != 'dir' for _, h in obs.get('src0', [])) and False in case['drys']

    def key(self, case):
        return repr(case)


class DirMigrations(Migrations):
    """directory-valued results with nested content, and one pipeline mounted under several namespaces: what the
    copy step and the pairing of the two chains must cope with (runtime check; the store model abstracts a result
    into one entry)"""
    name = 'dir_and_namespace_migrations'
    model = ''

    def corpus(self):
        from ..suites_chain import K, P
        a = dict(K(0, 'A', params=[P('x')]), name='numbers')
        b = dict(K(1, 'B', meta_inputs=[{'cls': 0}], data='dir'), name='pack')
        c = dict(K(2, 'C', meta_inputs=[{'cls': 1}]), name='total')
        files = {'cfg/left.json': {'tasks': ['@M.*'], 'x': 1}, 'cfg/right.json': {'tasks': ['@M.*'], 'x': 2},
                 'cfg/main.json': {'uses': ['cfg/left.json as left', 'cfg/right.json as right']}}
        return [dict(classes=[a, b, c], files=files, base={'file': 'cfg/main.json'}, context=None,
                     compute=[0, 1, 2, 3, 4, 5], drys=[True, False, False]),
                dict(classes=[a, b, c], files={'cfg/one.json': {'tasks': ['@M.*'], 'x': 1}}, base={'file': 'cfg/one.json'},
                     context=None, compute=[1, 2], drys=[False, False]),
                # config files whose names contain dots (the name-mode result of a directory task is `<name>` without extension)
                dict(classes=[a, b, c], files={'cfg/exp.v2.json': {'tasks': ['@M.*'], 'x': 1}}, base={'file': 'cfg/exp.v2.json'},
                     context=None, compute=[0, 1, 2], drys=[True, False, False]),
                dict(classes=[a, b, c], files={'cfg/part.v1.json': {'tasks': ['@M.*'], 'x': 2}, 'cfg/top.json': {'uses': 'cfg/part.v1.json as p'}},
                     base={'file': 'cfg/top.json'}, context=None, compute=[0, 1, 2], drys=[False, False]),
                # two files with the same tasks and the same values under two namespaces; only the one listed later was computed
                dict(classes=[dict(K(0, 'A', params=[P('x')])), K(1, 'B', group='g', meta_inputs=[{'cls': 0}], data='dir'),
                              K(2, 'C', params=[P('f')], meta_inputs=[{'cls': 0}])],
                     files={'left.json': {'tasks': ['@M.*'], 'x': 4, 'f': 1}, 'right.json': {'tasks': ['@M.*'], 'x': 4, 'f': 2},
                            'main.json': {'uses': ['left.json as left', 'right.json as right']}},
                     base={'file': 'main.json'}, context=None, compute=[], compute_parts=[['right.json', 'right']], drys=[False, False], verbose=False),
                dict(classes=[dict(K(0, 'A', params=[P('x')])), K(1, 'B', group='g', meta_inputs=[{'cls': 0}], data='dir')],
                     files={'left.json': {'tasks': ['@M.*'], 'x': 4}, 'right.json': {'tasks': ['@M.*'], 'x': 4},
                            'main.json': {'uses': ['left.json as left', 'right.json as right']}},
                     base={'file': 'main.json'}, context=None, compute=[], compute_parts=[['right.json', 'right'], ['left.json', 'left']], drys=[True, False], verbose=False)]

    def gen(self, rng, tier):
        out = []
        for c in super().gen(rng, tier)[:(15 if tier == 'quick' else 300)]:
            for k in c['classes']:
                if k['data'] == 'json' and rng.random() < 0.5:
                    k['data'] = 'dir'
            c['compute'] = list(range(8))
            out.append(c)
        return out


SPECIAL_SRC = '''
from typing import Generator
import numpy as np
from taskchain import Task, Parameter, DirData
from taskchain.data import ContinuesData

RUNS = []

class Nothing(Task):            # a generated sequence without items: a result file of zero bytes
    def run(self) -> Generator:
        RUNS.append(self.slugname)
        return
        yield

class EmptyDict(Task):
    def run(self) -> dict:
        RUNS.append(self.slugname)
        return {}

class EmptyList(Task):
    def run(self) -> list:
        RUNS.append(self.slugname)
        return []

class EmptyArray(Task):
    def run(self) -> np.ndarray:
        RUNS.append(self.slugname)
        return np.zeros((0, 3))

class EmptyDir(Task):
    def run(self) -> DirData:
        RUNS.append(self.slugname)
        return self.get_data_object()

class Scratchy(Task):           # a directory result whose directory held many scratch files while it was made
    def run(self) -> DirData:
        RUNS.append(self.slugname)
        d = self.get_data_object()
        for i in range(1500):
            (d.dir / f'scratch_file_with_a_long_name_{i:05d}').touch()
        for i in range(1500):
            (d.dir / f'scratch_file_with_a_long_name_{i:05d}').unlink()
        (d.dir / 'result.txt').write_text('done')
        return d

class Linked(Task):             # a directory result that links a file of its input's result instead of copying it
    class Meta:
        input_tasks = [EmptyDict]
    def run(self) -> DirData:
        RUNS.append(self.slugname)
        d = self.get_data_object()
        src = self.input_tasks['empty_dict'].data_path
        import os
        (d.dir / 'input.json').symlink_to(os.path.relpath(src.resolve(), d.dir.resolve()))
        (d.dir / 'inside.txt').write_text('x')
        (d.dir / 'alias.txt').symlink_to('inside.txt')
        return d

class Resumable(Task):          # started, checkpoint written, not finished: its working directory is kept
    class Meta:
        parameters = [Parameter('finish')]
    def run(self, finish) -> ContinuesData:
        RUNS.append(self.slugname)
        d = self.get_data_object()
        (d.dir / 'checkpoint.txt').write_text('epoch 3')
        if not finish:
            raise RuntimeError('interrupted')
        d.finished()
        return d

class Count(Task):
    class Meta:
        input_tasks = [Nothing, EmptyDict, EmptyList]
    def run(self, nothing, empty_dict, empty_list) -> dict:
        RUNS.append(self.slugname)
        return {'n': len(list(nothing)) + len(empty_dict) + len(empty_list)}
'''


class SpecialSources(Suite):
    """stored results at the edge of their kinds - a generated sequence without items (a file of zero bytes), empty
    mappings, lists, arrays and directories - and a source directory that holds the working directory of a resumable
    task that was started and not finished, plus files the library did not write, also for a configuration that was
    given a namespace or a name of its own (among them names that occur again in file extensions: np, n, json), and for a
    Config object whose parameter-mode chain was looked at before: after migration every task that had a
    result has one in the target with the same value and runs nothing, and no file of the source is touched.
    Runtime check only."""
    name = 'special_sources'
    model = ''

    def gen(self, rng, tier):
        return [dict(drys=d, unfinished=u, stray=st, verbose=v) for d in ([False], [True, False], [False, False])
                for u in (False, True) for st in (False, True) for v in (False,)] + \
               [dict(drys=[False, False], unfinished=u, stray=False, verbose=False, namespace='top') for u in (False, True)] + \
               [dict(drys=d, unfinished=False, stray=False, verbose=False, cfgname='exp-factor3') for d in ([False], [True, False])] + \
               [dict(drys=[False], unfinished=False, stray=False, verbose=False, cfgname=c) for c in ('np', 'n', 'json', 'p', 'y')] + \
               [dict(drys=d, unfinished=False, stray=False, verbose=False, preview=True) for d in ([False], [True, False])]

    def run_impl(self, case):
        import sys, types
        from taskchain import Config
        from taskchain.utils.migration import migrate_to_parameter_mode
        with pl.workspace(dict(classes=[], files={})) as (d, _):
            name = 'tcv_special'
            m = types.ModuleType(name)
            sys.modules[name] = m
            try:
                exec(compile(SPECIAL_SRC, name, 'exec'), m.__dict__)
                Path('exp.json').write_text(json.dumps({'tasks': [f'{name}.*'], 'finish': not case['unfinished']}))
                cfg = Config(Path('data'), 'exp.json', namespace=case.get('namespace'), name=case.get('cfgname'))
                old = cfg.chain(parameter_mode=False)
                old_values, failed = {}, []
                for n, t in old.tasks.items():
                    try:
                        v = t.value
                        old_values[n] = describe_special(v)
                    except RuntimeError:
                        failed.append(n)
                if case['stray']:
                    (Path('data') / 'nothing' / 'notes.txt').write_text('kept by hand')
                    (Path('data') / 'empty_dict' / 'exp_tmp').mkdir()
                    (Path('data') / 'empty_dict' / 'exp_tmp' / 'scratch.bin').write_bytes(b'\x00\x01')
                    # what an earlier failed attempt of a directory task left behind
                    (Path('data') / 'empty_dir' / 'exp_error').mkdir()
                    (Path('data') / 'empty_dir' / 'exp_error' / 'partial.txt').write_text('half')
                if case.get('preview'):
                    # the Config object that is migrated was used for a look at the parameter-mode chain before (names and keys)
                    cfg = Config(Path('data'), 'exp.json', namespace=case.get('namespace'), name=case.get('cfgname'))
                    preview = cfg.chain()
                    sorted((n, t.name_for_persistence) for n, t in preview.tasks.items())
                src0 = tree('data')
                steps = []
                for dry in case['drys']:
                    buf = io.StringIO()
                    try:
                        with contextlib.redirect_stdout(buf):
                            migrate_to_parameter_mode(cfg, Path('target'), dry=dry, verbose=case['verbose'])
                        steps.append(dict(src=tree('data'), dst=tree('target')))
                    except Exception as e:
                        steps.append(dict(error=f'{type(e).__name__}: {e}'[:200]))
                        break
                m.RUNS.clear()
                new = Config(Path('target'), 'exp.json', namespace=case.get('namespace'), name=case.get('cfgname')).chain()
                has = {n: bool(t.has_data) for n, t in new.tasks.items()}
                vals = {n: describe_special(t.value) for n, t in new.tasks.items() if has[n]}
                return dict(src0=src0, steps=steps, old_values=old_values, failed=failed, has=has, values=vals, ran=list(m.RUNS))
            finally:
                sys.modules.pop(name, None)

    def oracle(self, case, obs):
        if 'unexpected_exception' in obs:
            return f'unexpected exception {obs["unexpected_exception"]}: {obs["text"]}'
        for k, s in enumerate(obs['steps']):
            if 'error' in s:
                return f'{case}: migration {k} failed: {s["error"]}'
            src0 = {p: h for p, h in obs['src0']}
            src = {p: h for p, h in s['src']}
            gone = [p for p, h in src0.items() if h != 'dir' and src.get(p) != h]
            if gone:
                return f'{case}: migration {k} changed or removed files of the source directory: {gone[:4]}'
            new_files = [p for p, h in src.items() if h != 'dir' and p not in src0]
            if new_files:
                return f'{case}: migration {k} added files to the source directory: {new_files[:4]}'
        for n, v in obs['old_values'].items():
            if not obs['has'].get(n):
                return f'{case}: {n} had a stored result in name mode ({json.dumps(v)[:80]}) and has none in the target after migration'
            if json.dumps(obs['values'][n], sort_keys=True) != json.dumps(v, sort_keys=True):
                return f'{case}: {n}: the migrated value {json.dumps(obs["values"][n])[:120]} differs from the original {json.dumps(v)[:120]}'
        if obs['ran']:
            return f'{case}: loading the migrated results ran {obs["ran"]}'
        return None

    def nontrivial(self, case, obs):
        return True

    def key(self, case):
        return repr(case)


def describe_special(v):
    import numpy as np
    if isinstance(v, Path):
        return {'__dir__': tree(v)}
    if isinstance(v, np.ndarray):
        return {'__array__': [list(v.shape), str(v.dtype), v.tolist()]}
    if isinstance(v, (dict, list, str, int, float, bool)) or v is None:
        return v
    return {'__items__': list(v)}


def source_dirs_class(violation, known):
    return violation.get('oracle', '').startswith('[source-dirs-created]')


class C20(Prop):
    pid = 'C20'
    suites = [Migrations(), DirMigrations(), SpecialSources()]
    known_classes = {'source-dirs-created': source_dirs_class}
    assumptions = ['file-based configs (the utility re-reads the config file); JSON and in-memory data classes in the '
                   'correspondence; file contents are compared by SHA-256 of their bytes']


PROP = C20()
